"""C15 -- agent and daemon agree on the wire schema and shared limits.

Static part: tools/gens/schema.py extracts the three renderings (protocol.fbs, protocol/*.go, nr_commands_private.h
and the agent's transmit code) and the shared limits into coq/Gen/Schema_gen.v / SharedLimits_gen.v; PropC15.v proves
them equal by computation.  For the verdict the same comparison is evaluated as a monitor (Schema.tables_agreeb,
schema_diffs, bad_limits) so that a disagreement is reported with the table / field / limit it concerns.

Dynamic part: table instances are built through the real flatbuffers.Builder with the numbers of the agent's C
header (slot indexes, field counts, union tags, struct member offsets) and, separately, with the daemon's own
generated builders, and decoded with the daemon's generated accessors (harness/go/protocol).  Every table instance
becomes one flat case (field -> integer; offsets fields carry the identity of the object they point to); in Coq the
generic table model (Flatbuf.read sigma_go (Flatbuf.build sigma_c ...)) is compared with the decoded values
(correspondence) and the monitor checks decoded = sent.
"""
import json
import os
import random
import re
import sys

import vlib
from vlib import cZ, cbool, clist

LEVEL = "proof"

sys.path.insert(0, vlib.ROOT + "/tools/gens")
sys.path.insert(0, vlib.ROOT + "/tools")

KIND_H = {"KBool": "bool", "KU8": "u8", "KI8": "i8", "KU16": "u16", "KI16": "i16", "KU32": "u32", "KI32": "i32",
          "KU64": "u64", "KI64": "i64", "KF32": "f32", "KF64": "f64", "KBytes": "bytes", "KUnion": "union"}
BITS = {"bool": 1, "u8": 8, "i8": 8, "u16": 16, "i16": 16, "u32": 32, "i32": 32, "u64": 64, "i64": 64, "f32": 32, "f64": 64}
F64 = [0, 0x3FF0000000000000, 0x4000000000000000, 0xBFF8000000000000, 0x7FEFFFFFFFFFFFFF, 0x0000000000000001,
       0x7FF0000000000000, 0x40F86A0000000000]


def hkind(k):
    if k.startswith("KTable"):
        return "table", k.split(" ", 1)[1]
    if k.startswith("KVecTable"):
        return "vec", k.split(" ", 1)[1]
    if k.startswith("KStruct"):
        return "struct", k.split(" ", 1)[1]
    return KIND_H.get(k, "?"), None


def rscalar(rng, kind):
    b = BITS[kind]
    if kind == "bool":
        return rng.choice([0, 1, 1])
    if kind == "f64":
        return rng.choice(F64) if rng.random() < 0.7 else rng.getrandbits(64)
    if kind == "f32":
        return rng.getrandbits(32)
    if kind.startswith("i"):
        lo, hi = -(1 << (b - 1)), (1 << (b - 1)) - 1
        return rng.choice([0, 1, -1, lo, hi, rng.randint(lo, hi)])
    hi = (1 << b) - 1
    return rng.choice([0, 1, hi, 1 << (b - 1), rng.randint(0, hi), rng.randint(0, min(hi, 70000))])


class Gen:
    """builds table instances (JSON for the Go harness) from the parsed schema facts"""

    def __init__(self, S, rng):
        import schema
        self.S, self.rng, self.camel = S, rng, schema.camel
        self.fbs, self.go = S["fbs"], S["go"]
        self.cslots, self.ccount, self.cenum, self.cstruct = {}, {}, {}, {}
        for (kind, name), members in S["c_blocks"].items():
            if kind == "table":
                self.cslots[name] = {fn: v for cn, fn, v in members if fn is not None}
                cnt = [v for cn, fn, v in members if fn is None]
                self.ccount[name] = cnt[0] if cnt else 0
            elif kind in ("enum", "union"):
                self.cenum[name] = {fn: v for cn, fn, v in members}
            elif kind == "struct":
                self.cstruct[name] = {fn: v for cn, fn, v in members}
        self.goenum = {E: dict(e["members"]) for E, e in self.go["enums"].items()}

    def read_spec(self, T, depth):
        out = []
        for f in self.fbs["tables"][T]["fields"]:
            if f.get("dep"):
                continue
            k, ty = hkind(f["kind"])
            r = {"name": f["name"], "getter": self.camel(f["name"]), "kind": k}
            if k == "bytes":
                # a [ubyte] field has the accessors X(j), XLength() and XBytes(); a string only X()
                meths = self.go["tables"].get(T, {}).get("getters", {}).get(self.camel(f["name"]), {}).get("methods", [])
                if self.camel(f["name"]) + "Bytes" in meths:
                    r["getter"] = self.camel(f["name"]) + "Bytes"
            if k in ("table", "vec"):
                r["child_type"] = ty
                r["child_read"] = self.read_spec(ty, depth + 1) if depth < 4 else []
            elif k == "struct":
                r["members"] = [{"name": m["name"], "getter": self.camel(m["name"]), "kind": hkind(m["kind"])[0]}
                                for m in self.fbs["structs"][ty]["members"]]
            elif k == "union":
                r["tag_getter"] = self.camel(f["name"] + "_type")
            out.append(r)
        return out

    def node(self, T, mode, depth=0, full=False):
        rng = self.rng
        t = self.fbs["tables"][T]
        nd = {"table": T, "mode": mode, "n": self.ccount.get(T, t["n"]) if mode == "slots" else t["n"], "fields": [],
              "read": self.read_spec(T, depth)}
        fields = [f for f in t["fields"] if not f.get("dep")]
        order = list(fields)
        rng.shuffle(order)
        union_choice = {}
        for f in order:
            if f["kind"] == "KUnion":
                un = [x for x in fields if x.get("union") and x["name"] == f["name"] + "_type"][0]["union"]
                members = [m for m, v in self.fbs["unions"][un]["members"] if m != "NONE" and m in self.fbs["tables"]]
                union_choice[f["name"]] = (un, rng.choice(members)) if depth < 2 and members else (un, None)
        skip = set(f["name"] for f in order if not full and rng.random() < 0.2)
        for f in fields:   # a union value and its type tag are sent together or not at all
            if f["kind"] == "KUnion" and (f["name"] in skip or f["name"] + "_type" in skip):
                skip.update([f["name"], f["name"] + "_type"])
        for f in order:
            if f["name"] in skip:
                continue
            k, ty = hkind(f["kind"])
            fd = {"name": f["name"], "kind": k}
            if mode == "slots":
                if f["name"] not in self.cslots.get(T, {}):
                    continue  # the agent has no constant for this field: it cannot send it
                fd["slot"] = self.cslots[T][f["name"]]
            else:
                fd["adder"] = T + "Add" + self.camel(f["name"])
            if f.get("union") and f["name"].endswith("_type"):
                un, ch = union_choice.get(f["name"][:-5], (f["union"], None))
                tags = self.cenum.get(un, {}) if mode == "slots" else self.goenum.get(un, {})
                fd["val"] = str(tags.get(ch, 0) if ch else 0)
                fd["union_member"] = ch
            elif k in BITS:
                fd["val"] = str(rscalar(rng, k))
            elif k == "bytes":
                r = rng.random()
                if r < 0.12:
                    fd["hex"] = None
                elif r < 0.22:
                    fd["hex"] = ""
                else:
                    fd["hex"] = bytes(rng.getrandbits(8) for _ in range(rng.randint(1, 10))).hex()
            elif k == "table":
                fd["child"] = self.node(ty, mode, depth + 1) if depth < 3 and rng.random() < 0.85 else None
            elif k == "vec":
                if depth < 3 and rng.random() < 0.85:
                    fd["has_vec"] = True
                    fd["children"] = [self.node(ty, mode, depth + 1) for _ in range(rng.randint(0, 3))]
                    fd["vec_start"] = T + "Start" + self.camel(f["name"]) + "Vector"
                else:
                    fd["has_vec"], fd["children"] = False, []
            elif k == "struct":
                s = self.fbs["structs"][ty]
                if rng.random() < 0.9:
                    mem = []
                    for m in s["members"]:
                        mk = hkind(m["kind"])[0]
                        off = self.cstruct.get(ty, {}).get(m["name"]) if mode == "slots" else m["num"]
                        if off is None:
                            continue
                        mem.append({"name": m["name"], "off": off, "kind": mk, "val": str(rscalar(rng, mk))})
                    fd["members"], fd["size"], fd["align"] = mem, s["size"], s["align"]
                    fd["creator"] = "Create" + ty
                else:
                    fd["members"] = None
            elif k == "union":
                un, ch = union_choice[f["name"]]
                fd["child"] = self.node(ch, mode, depth + 1) if ch else None
                fd["child_type"] = ch
            else:
                continue
            nd["fields"].append(fd)
        # the union's read spec needs the sent child type
        for r in nd["read"]:
            if r["kind"] == "union":
                un, ch = union_choice.get(r["name"], (None, None))
                r["child_type"] = ch or ""
                r["child_read"] = self.read_spec(ch, depth + 1) if ch else []
        return nd


class Flat:
    """sent tree x decoded tree -> flat cases (field -> Z) with identities for out-of-line objects"""

    def __init__(self):
        self.payload, self.counter, self.cases, self.first_bad = {}, 0, [], None

    def pid(self, hx):
        if hx not in self.payload:
            self.payload[hx] = len(self.payload) + 1
        return self.payload[hx]

    def fresh(self):
        self.counter += 1
        return 1000 + self.counter

    def node(self, nd, dec, path):
        """returns True iff every field decodes to what was sent"""
        sent_vals, observed, ok = [], [], True
        bykey = {f["name"]: f for f in nd["fields"]}
        obs_of = {}
        for r in nd["read"]:
            f, d = bykey.get(r["name"]), (dec or {}).get(r["name"], {"err": "field missing in the harness output"})
            k = r["kind"]
            sv = None
            if "panic" in d or "err" in d:
                ov = -7
            elif k in BITS:
                ov = int(d["val"])
                if f is not None:
                    sv = int(f["val"])
            elif k == "bytes":
                ov = 0 if d.get("absent") else self.pid(d["hex"])
                if f is not None:
                    sv = 0 if f["hex"] is None else self.pid(f["hex"])
            elif k in ("table", "union"):
                ch = f.get("child") if f is not None else None
                if ch is None:
                    sv = 0 if f is not None else None
                    ov = 0 if d.get("absent") else -999
                else:
                    ident = self.fresh()
                    sv = ident
                    if d.get("absent") or "node" not in d:
                        ov = 0 if d.get("absent") else -ident
                    elif k == "union" and d.get("union_type") != f.get("child_type"):
                        ov = -ident
                    else:
                        ov = ident if self.node(ch, d["node"], path + [r["name"]]) else -ident
            elif k == "vec":
                kids = f.get("children") if (f is not None and f.get("has_vec")) else None
                if not kids:
                    sv = 0 if f is not None else None
                    ov = 0 if d.get("len", -1) == 0 else -999
                else:
                    ident = self.fresh()
                    sv = ident
                    if d.get("len") != len(kids) or "nodes" not in d:
                        ov = -ident
                    else:
                        good = True
                        for j, (c, dn) in enumerate(zip(kids, d["nodes"])):
                            if dn.get("absent") or not self.node(c, dn, path + ["%s[%d]" % (r["name"], j)]):
                                good = False
                        ov = ident if good else -ident
            elif k == "struct":
                mem = f.get("members") if f is not None else None
                if mem is None:
                    sv = 0 if f is not None else None
                    ov = 0 if d.get("absent") else -999
                else:
                    ident = self.fresh()
                    sv = ident
                    if d.get("absent") or "members" not in d:
                        ov = 0 if d.get("absent") else -ident
                    else:
                        want = {m["name"]: int(m["val"]) for m in mem}
                        got = {m["name"]: (int(d["members"][m["name"]]["val"]) if "val" in d["members"].get(m["name"], {}) else None)
                               for m in r["members"]}
                        allm = {m["name"]: want.get(m["name"], 0) for m in r["members"]}
                        ov = ident if got == allm else -ident
            else:
                ov = -8
            if sv is not None:
                sent_vals.append((r["name"], sv))
            observed.append((r["name"], ov))
            obs_of[r["name"]] = ov
            expect = sv if sv is not None else 0
            if ov != expect:
                ok = False
                if self.first_bad is None:
                    self.first_bad = {"table": nd["table"], "field": r["name"], "path": "/".join(path), "sent": expect,
                                      "decoded": ov, "raw": d if not isinstance(d.get("node"), dict) else "(subtree)"}
        # keep the builder's order for the sent values
        order = {f["name"]: i for i, f in enumerate(nd["fields"])}
        sent_vals.sort(key=lambda p: order.get(p[0], 1 << 30))
        self.cases.append({"table": nd["table"], "c_numbers": nd["mode"] == "slots", "vals": sent_vals, "obs": observed})
        return ok


def registry_go(S):
    go = S["go"]
    L = ["//go:build verif", "", "// GENERATED by harness/py/props/c15.py from the current protocol/*.go", "package protocol", ""]
    L.append("var verifC15Ctors = map[string]func() verifC15Table{")
    for T in sorted(list(go["tables"]) + list(go["structs"])):
        L.append('\t"%s": func() verifC15Table { return new(%s) },' % (T, T))
    L.append("}")
    L.append("var verifC15Funcs = map[string]interface{}{")
    for f in go["funcs"]:
        L.append('\t"%s": %s,' % (f, f))
    L.append("}")
    L.append("var verifC15Enums = map[string]func(int64) string{")
    for E in sorted(go["enums"]):
        L.append('\t"%s": func(v int64) string { return %s(v).String() },' % (E, E))
    L.append("}")
    return "\n".join(L) + "\n"


def cstr(s):
    return '"%s"' % str(s).replace('"', '""')


# which entry of the daemon's command handler a message with each member of the MessageBody union must reach
# (AppReply travels from the daemon to the agent only: an agent sending one is refused)
DISPATCH = {"App": ["app"], "Transaction": ["txn"], "SpanBatch": ["span"], "AppReply": []}


def dispatch_stage(chk, S):
    """every member of the MessageBody union of protocol.fbs, as a well-formed message through the daemon's own connection
    loop and CommandsHandler.HandleMessage: it must be taken for that member (seeded/C15h1)"""
    members = [(n, v) for n, v in S["fbs"]["unions"]["MessageBody"]["members"] if n != "NONE"]
    unknown = [n for n, _ in members if n not in DISPATCH]
    if unknown:
        chk.fail("dispatch_members.txt", "protocol.fbs has MessageBody members the dispatch stage has no expectation for: %s" % unknown,
                 no_input=True)
        return
    binary, blog = vlib.go_test_binary("newrelic", only=["c10", "c15d"])
    if binary is None:
        chk.fail("dispatch_build.txt", "dispatch harness (package newrelic, TestVerifC15Dispatch) does not build against the current "
                 "tree:\n" + blog[-3000:], no_input=True)
        return
    outp = os.path.join(vlib.BUILD, "c15d_out.json")
    if os.path.exists(outp):
        os.remove(outp)
    rc, out = vlib.run_go_test(binary, "TestVerifC15Dispatch", {"VERIF_OUT": outp}, timeout=120)
    if rc != 0 or not os.path.exists(outp):
        chk.fail("dispatch_run.txt", "TestVerifC15Dispatch failed:\n" + out[-3000:], no_input=True)
        return
    obs = json.load(open(outp))
    bad = 0
    for name, tag in members:
        o = obs.get(name)
        chk.count_case(["dispatch", name, tag, o])
        ok = o is not None and o["tag"] == tag and o["kinds"] == DISPATCH[name] and (
            o["class"] in ("none", "reply") if DISPATCH[name] else o["class"] in ("error", "none"))
        if not ok:
            bad += 1
            chk.fail("dispatch_%s.json" % name, {"what": "a well-formed message whose body is the MessageBody member %s (union tag %d in "
                                                        "protocol.fbs) is not taken for that member by the daemon's command handler"
                                                        % (name, tag),
                                                "expected_handler_calls": DISPATCH[name], "observed": o},
                     sig="c15-dispatch-%s" % name)
    chk.cov.setdefault("stages", {})["dispatch"] = {"members": len(members), "wrong": bad}


def run(chk, replay=None):
    import schema
    import gen_all
    st = vlib.std_coq_stage(chk, "PropC15", gen=True)
    rng = random.Random(chk.seed)
    S = schema.load(vlib.REPO)
    gen = Gen(S, rng)
    tables = sorted(S["fbs"]["tables"])

    # ---------------- cases
    if replay and "cases" in json.load(open(replay)):
        nodes = json.load(open(replay))["cases"]
    else:
        nodes = []
        per = 6 if chk.tier == "quick" else 60
        for T in tables:
            for mode in ("slots", "gobuilder"):
                nodes.append(gen.node(T, mode, full=True))
                for _ in range(per):
                    nodes.append(gen.node(T, mode))
    enum_q = []
    for E in sorted(list(S["fbs"]["enums"]) + list(S["fbs"]["unions"])):
        vals = sorted(set([v for _, v in (S["fbs"]["enums"].get(E) or S["fbs"]["unions"].get(E))["members"]] +
                          list(gen.cenum.get(E, {}).values())))
        enum_q.append({"type": E, "values": vals})

    # ---------------- Go harness
    os.makedirs(vlib.BUILD, exist_ok=True)
    reg = os.path.join(vlib.BUILD, "c15_reg_test.go")
    vlib.write_if_changed(reg, registry_go(S))
    extra = {os.path.join(vlib.DAEMON, vlib.PKGS["protocol"], "zz_verif_c15_reg_test.go"): reg}
    binary, blog = vlib.go_test_binary("protocol", only=["c15"], extra_replace=extra)
    obs = None
    if binary is None:
        chk.notes.append("harness build failed: " + blog[-2000:])
    else:
        inp, outp = os.path.join(vlib.BUILD, "c15_in.json"), os.path.join(vlib.BUILD, "c15_out.json")
        json.dump({"cases": nodes, "enums": enum_q}, open(inp, "w"))
        if os.path.exists(outp):
            os.remove(outp)
        rc, out = vlib.run_go_test(binary, "TestVerifC15", {"VERIF_IN": inp, "VERIF_OUT": outp}, timeout=300)
        if rc != 0 or not os.path.exists(outp):
            chk.notes.append("harness run failed (rc=%d): %s" % (rc, out[-2000:]))
        else:
            obs = json.load(open(outp))

    # ---------------- flatten
    flat = Flat()
    dyn_fail = []   # (node index, description)
    if obs is not None:
        for i, (nd, o) in enumerate(zip(nodes, obs["cases"])):
            flat.first_bad = None
            if "node" not in o:
                dyn_fail.append((i, {"table": nd["table"], "field": "", "what": "the message could not be built or decoded: %s" % (
                    o.get("panic") or o.get("err"))}))
                continue
            if not flat.node(nd, o["node"], [nd["table"]]):
                fb = dict(flat.first_bad)
                fb["what"] = "a field built with %s decodes to another value with the daemon's accessors" % (
                    "the agent's C header numbers" if nd["mode"] == "slots" else "the daemon's own builders")
                dyn_fail.append((i, fb))
    enum_cases = []
    if obs is not None:
        for q, o in zip(enum_q, obs["enums"]):
            E = q["type"]
            names_c = {v: n for n, v in gen.cenum.get(E, {}).items()}
            names_f = {v: n for n, v in (S["fbs"]["enums"].get(E) or S["fbs"]["unions"].get(E))["members"]}
            for v in q["values"]:
                goname = o["names"].get(str(v), "?") if o.get("known") else "?no-go-type"
                enum_cases.append((E, v, names_f.get(v, "?"), names_c.get(v, "?"), goname))

    # ---------------- Coq: static monitor + generic model on the flat cases
    ok_mk, mlog = vlib.coq_make(["Schema.vo", "FlatbufProofs.vo"])
    shards, per_shard = [], 1500
    cases = flat.cases
    for s in range(0, max(len(cases), 1), per_shard):
        shards.append(cases[s:s + per_shard])
    res = {"corr_bad": [], "prop_bad": [], "enum_bad": []}
    static = {"agree": None, "diffs": None, "bad_limits": None}
    coq_fail = None
    for si, sh in enumerate(shards):
        rows = []
        for c in sh:
            rows.append("(%s, %s, %s, %s)" % (cstr(c["table"]), cbool(c["c_numbers"]),
                                              clist(["(%s, %s)" % (cstr(f), cZ(v)) for f, v in c["vals"]]),
                                              clist(["(%s, %s)" % (cstr(f), cZ(v)) for f, v in c["obs"]])))
        erows = ["(%s, %s, %s)" % (cstr(f), cstr(c_), cstr(g)) for (_, _, f, c_, g) in enum_cases] if si == 0 else []
        v = """From Coq Require Import NArith ZArith String List Bool.
From Verif Require Import Common SchemaTypes Flatbuf Schema.
From Verif.Gen Require Import Schema_gen SharedLimits_gen.
Import ListNotations.
Open Scope string_scope.
Definition fcase := (string * bool * list (string * Z) * list (string * Z))%%type.
Definition cases : list fcase := %s.
Definition lz_eqb (a b : list (string * Z)) : bool :=
  Nat.eqb (List.length a) (List.length b) &&
  forallb (fun p => String.eqb (fst (fst p)) (fst (snd p)) && Z.eqb (snd (fst p)) (snd (snd p))) (combine a b).
(* correspondence: the generic table model, built with the sender's slot map and read with the daemon's getters *)
Definition model (c : fcase) : list (string * Z) :=
  let '(T, cnum, vals, obs) := c in
  let sb := if cnum then sigma_c T else sigma_go_build T in
  let o := build Z.eq_dec (snd sb) (fst sb) vals in
  map (fun p => (fst p, match read (snd (sigma_go_read T)) o (fst p) with Some v => v | None => (-5)%%Z end)) obs.
Definition corr_bad := Eval vm_compute in bad_idx (fun c : fcase => lz_eqb (model c) (snd c)) cases 0.
(* monitor: every field decodes to the value that was sent (0 / absent when it was not sent); no model involved *)
Definition monitor (c : fcase) : bool :=
  let '(_, _, vals, obs) := c in
  forallb (fun p => Z.eqb (snd p) (match lookup (fst p) vals with Some v => v | None => 0%%Z end)) obs.
Definition prop_bad := Eval vm_compute in bad_idx monitor cases 0.
(* enum values / union tags by name: (schema name, agent's name, name the daemon prints) for each numeric value *)
Definition enum_cases : list (string * string * string) := %s.
Definition enum_bad := Eval vm_compute in
  bad_idx (fun e : string * string * string => String.eqb (fst (fst e)) (snd e) && String.eqb (snd (fst e)) (snd e)) enum_cases 0.
Definition static_agree := Eval vm_compute in tables_agreeb.
Definition static_diffs := Eval vm_compute in schema_diffs.
Definition static_bad_limits := Eval vm_compute in bad_limits.
Print corr_bad. Print prop_bad. Print enum_bad. Print static_agree. Print static_diffs. Print static_bad_limits.
""" % (clist(rows) if rows else "[]", clist(erows) if erows else "[]")
        rc, cout = vlib.coq_eval("cases_c15_%d" % si, v, timeout=300)
        got = {k: vlib.parse_nat_list(vlib.parse_printed(cout, k)) for k in ("corr_bad", "prop_bad", "enum_bad")}
        if rc != 0 or any(x is None for x in got.values()):
            coq_fail = cout[-3000:]
            break
        for k in ("corr_bad", "prop_bad"):
            res[k] += [si * per_shard + i for i in got[k]]
        if si == 0:
            res["enum_bad"] = got["enum_bad"]
            static["agree"] = (vlib.parse_printed(cout, "static_agree") or "").strip() == "true"
            dtxt = vlib.parse_printed(cout, "static_diffs") or ""
            static["diffs"] = re.findall(r'\("([^"]*)",\s*"([^"]*)",\s*"([^"]*)"\)', dtxt)
            ltxt = vlib.parse_printed(cout, "static_bad_limits") or ""
            static["bad_limits"] = re.findall(r'"([^"]*)"', ltxt)

    # ---------------- coverage
    nfields = sum(len(t["fields"]) for t in S["fbs"]["tables"].values())
    chk.cov["rule"] = ("static: every table/field/enum member/union tag/struct member of the three renderings and every shared "
                       "limit pair (exhaustive, by computation in Coq); dynamic: random instances of every table, built with the "
                       "C header's numbers and with the Go builders, decoded with the Go accessors; one flat case per table "
                       "instance (nested ones included); non-trivial = at least one non-default field")
    chk.cov["exhaustive_schema"] = True
    chk.cov["schema"] = {"tables": len(S["fbs"]["tables"]), "fields": nfields, "enums": len(S["fbs"]["enums"]),
                         "unions": len(S["fbs"]["unions"]), "structs": len(S["fbs"]["structs"]),
                         "c_uses": len(S["c_uses"]), "go_funcs": len(S["go"]["funcs"])}
    for c in cases:
        chk.count_case([c["table"], c["c_numbers"], c["vals"]], nontrivial=any(v != 0 for _, v in c["vals"]))
    chk.cov["evaluations"] += nfields * 3
    chk.cov["top_level_messages"] = len(nodes)
    dist = {}
    for c in cases:
        k = c["table"] + (":c-numbers" if c["c_numbers"] else ":go-builder")
        dist[k] = dist.get(k, 0) + 1
    chk.cov["input_distribution"] = dist
    if cases:
        chk.sample({"flat_case": cases[0]})
        chk.sample({"flat_case": cases[len(cases) // 2]})
    import gen_all as ga
    try:
        Lm = schema.load_limits(vlib.REPO, ga.run, ga.gofacts_bin())
        chk.cov["shared_limits"] = [[p["c"], p["cv"], p["go"], p["gv"]] for p in Lm["pairs"] + Lm["strings"]]
        chk.notes.append("not part of the theorem (no comment declares them shared): " + "; ".join(
            "%s=%s vs %s=%s" % (p["c"], p["cv"], p.get("go"), p.get("gv")) for p in Lm["info"] if p["class"] == "not_marked_shared"))
        uncl = [p["c"] for p in Lm["info"] if p["class"] == "unclassified"]
        if uncl:
            chk.notes.append("constants of nr_limits.h that the alias table does not classify: " + ", ".join(uncl))
    except SystemExit:
        Lm = None
    nd_defaults = [r for r in S["c_reader_defaults"] if r["default"] not in (0, None)]
    if nd_defaults:
        chk.notes.append("agent readers pass a non-schema default (a field the daemon omits because it is 0 reads as): " + "; ".join(
            "%s.%s=%s" % (r["table"], r["field"], r["default"]) for r in nd_defaults))
    chk.cov["disagreements"] = {"corr_bad": len(res["corr_bad"]), "prop_bad": len(res["prop_bad"]), "enum_bad": len(res["enum_bad"]),
                                "static_diffs": len(static["diffs"] or []), "bad_limits": len(static["bad_limits"] or []),
                                "dynamic_python": len(dyn_fail)}

    # ---------------- decide
    def detail(tb, fl):
        """the numbers of the three renderings for one field, for the replay file"""
        d = {}
        ft = S["fbs"]["tables"].get(tb)
        if ft:
            d["protocol.fbs"] = [(f["num"], f["kind"]) for f in ft["fields"] if f["name"] == fl] or "absent"
        gt = S["go"]["tables"].get(tb)
        if gt:
            d["Go getter (vtable offset, kind)"] = [(v["voffsets"], v["kind"]) for k, v in gt["getters"].items()
                                                    if schema.go_field_name(tb, k, S["fbs"]) == fl] or "absent"
            d["Go builder (slot, kind)"] = [(s, k) for n, s, k, _ in gt["adds"] if schema.go_field_name(tb, n, S["fbs"]) == fl] or "absent"
            d["Go StartObject"] = gt["start"]
        for (kind, name), members in S["c_blocks"].items():
            if name == tb:
                d["nr_commands_private.h"] = [(cn, v) for cn, fn, v in members if fn == fl or (fl == "" and fn is None)] or "absent"
        return d

    if static["agree"] is False or static["diffs"]:
        diffs = static["diffs"] or [("?", "?", "the renderings differ (order or an unnamed component)")]
        seen = set()
        for tb, fl, what in diffs:
            key = (tb, fl)
            if key in seen:
                continue
            seen.add(key)
            chk.fail("schema_%s_%s.json" % (tb, fl or "table"),
                     {"what": "the renderings of the wire schema disagree", "table": tb, "field": fl,
                      "differences": [w for t2, f2, w in diffs if (t2, f2) == key], "renderings": detail(tb, fl),
                      "all_differences": diffs[:40],
                      "replay": "python3 /verif/tools/gen_all.py && diff the three entries of %s.%s in coq/Gen/Schema_gen.v" % (tb, fl)},
                     sig="c15-schema-%s.%s" % (tb, fl))
    for name in static["bad_limits"] or []:
        pr = [p for p in (Lm["pairs"] + Lm["strings"] if Lm else []) if name.startswith(p["c"])]
        # a value the translator could not READ on one side is a broken translation (the code may have been
        # rewritten harmlessly), not a demonstrated disagreement
        unread = bool(pr) and all(p.get("cv") is None or p.get("gv") is None for p in pr)
        chk.fail("limit_%s.json" % re.sub(r"\W+", "_", name.split(" / ")[0]),
                 {"what": ("the translator could not read a limit documented as shared on one side (tools/gens/schema.py)" if unread else
                           "a limit documented as shared differs between agent and daemon"),
                  "limit": name, "values": pr}, sig="c15-limit-%s" % name.split(" / ")[0].replace(" ", ""), no_input=unread)
    for i in res["enum_bad"]:
        E, v, fn_, cn_, gn_ = enum_cases[i]
        chk.fail("enum_%s_%d.json" % (E, v), {"what": "enum value / union tag names differ", "enum": E, "value": v,
                                              "protocol.fbs": fn_, "nr_commands_private.h": cn_, "Go String()": gn_},
                 sig="c15-enum-%s-%d" % (E, v))
    for i, fb in dyn_fail[:5]:
        chk.fail("decode_%s_%s_%d.json" % (fb["table"], fb.get("field") or "message", i),
                 {"what": fb["what"], "table": fb["table"], "field": fb.get("field"), "detail": fb, "cases": [nodes[i]],
                  "observed": obs["cases"][i] if obs else None},
                 sig="c15-decode-%s.%s" % (fb["table"], fb.get("field")))
    if res["prop_bad"] and not dyn_fail:
        c = cases[res["prop_bad"][0]]
        chk.fail("decode_flat_%d.json" % res["prop_bad"][0], {"what": "decoded fields differ from the sent fields", "flat_case": c},
                 sig="c15-decode-%s" % c["table"])
    dispatch_stage(chk, S)
    broken = []
    if not st["build_ok"]:
        broken.append("theorems of PropC15.v no longer check:\n" + st["log"][-3000:])
    if binary is None:
        broken.append("correspondence harness (package protocol, TestVerifC15) does not build:\n" + blog[-3000:])
    elif obs is None:
        broken.append("correspondence harness TestVerifC15 did not produce output (see notes)")
    if coq_fail:
        broken.append("in-Coq evaluation of the C15 cases failed:\n" + coq_fail)
    if res["corr_bad"]:
        broken.append("correspondence: the generic table model (Flatbuf.read/build on the generated slot maps) disagrees with "
                      "Builder+accessors on flat cases %s, e.g. %s" % (res["corr_bad"][:10], cases[res["corr_bad"][0]]))
    if broken and not chk.violations:
        chk.fail("broken.txt", "\n\n".join(broken), no_input=True)
    chk.assumptions += ["translator tools/gens/schema.py + alias table schema_aliases.json (C names <-> fbs names)",
                        "the C agent is represented by its header enums and the call kinds in axiom/cmd_*_transmit.c; "
                        "messages 'built with the C numbers' go through the Go flatbuffers Builder, not the C builder"]
