"""C20 -- crashed workers are respawned; one daemon owns a pid file."""
import concurrent.futures
import json
import os
import random
import shutil
import signal as pysignal

import lockhold
import vlib
from vlib import cN, cbool, clist, cnat

LEVEL = "proof"

ABNORMAL_SIGS = ["HUP", "INT", "QUIT", "ILL", "ABRT", "FPE", "KILL", "SEGV", "PIPE", "ALRM",
                 "USR1", "USR2", "BUS", "TRAP", "SYS", "XCPU", "XFSZ", "VTALRM", "PROF", "IO", "PWR", "STKFLT"]


def signum(name):
    return int(getattr(pysignal, "SIG" + name))


def gen_loops(rng, n):
    loops = []
    # deterministic part: every terminator once, the boundary exit codes
    base = [(["exit:0"], False), (["exit:1"], False), (["kill:TERM"], False), (["exit:2", "exit:0"], False),
            (["exit:255", "exit:1"], False), (["kill:KILL", "kill:TERM"], False), (["wait"], True),
            (["exit:3", "kill:SEGV", "wait"], True), (["waitexit:3"], True), (["waitexit:255"], True),
            (["waitkill:9"], True), (["exit:2", "waitexit:2"], True), (["waitexit:1"], True)]
    for s, t in base:
        loops.append({"script": numeric(s), "sigterm": t})
    while len(loops) < n:
        k = rng.randint(0, 3)
        script = []
        for _ in range(k):
            if rng.random() < 0.5:
                script.append("exit:%d" % rng.randint(2, 255))
            else:
                script.append("kill:" + rng.choice(ABNORMAL_SIGS))
        term = rng.choice(["exit:0", "exit:1", "kill:TERM", "wait", "waitexit:%d" % rng.choice([0, 1, 2, 3, 139, 255]),
                           "waitkill:%d" % rng.choice([9, 11, 6])])
        script.append(term)
        loops.append({"script": numeric(script), "sigterm": term.startswith("wait")})
    return loops


def numeric(script):
    """kill:NAME -> kill:<number> (dash's builtin kill does not know every signal name)"""
    return ["kill:%d" % signum(x[5:]) if x.startswith("kill:") and not x[5:].isdigit() else x for x in script]


def step_to_coq(st):
    if st.startswith("exit:"):
        return "ItTerm (Exit %s)" % cN(int(st[5:]))
    if st.startswith("kill:"):
        return "ItTerm (Killed %s false)" % cN(int(st[5:]))
    if st.startswith("wait"):
        return "ItSigterm"      # however the worker ends after the stop request, supervision is over
    raise ValueError(st)


def run(chk, replay=None):
    st = vlib.std_coq_stage(chk, "PropC20", gen=False)
    rng = random.Random(chk.seed)
    rp = json.load(open(replay)) if replay else None
    # a replay file re-runs the stage it came from: respawn files hold "loops", pid-file files "pidfile"
    obs = None
    if rp is None or "loops" in rp:
        obs = respawn_stage(chk, st, rng, rp["loops"] if rp else None)
    if rp is None or "pidfile" in rp:
        pidfile_stage(chk, st, random.Random(chk.seed ^ 0x20C20), rp["pidfile"] if rp else None, obs)
    if rp is None:
        lockhold.run_stage(chk)      # watcher-role daemons: the lock survives worker crashes and respawns


def respawn_stage(chk, st, rng, replay_loops):
    nloops = 24 if chk.tier == "quick" else 200
    if replay_loops is not None:
        loops = replay_loops
    else:
        loops = gen_loops(rng, nloops)

    binary, blog = vlib.go_test_binary("main", only=["c20"])
    if binary is None:
        chk.notes.append("harness build failed: " + blog[-2000:])
        chk.fail("harness_build.txt", "correspondence harness (package main, TestVerifC20) does not build "
                 "against the current tree:\n" + blog, no_input=True)
        return
    inp = os.path.join(vlib.BUILD, "c20_in.json")
    outp = os.path.join(vlib.BUILD, "c20_out.json")
    json.dump({"loops": loops}, open(inp, "w"))
    if os.path.exists(outp):
        os.remove(outp)
    rc, out = vlib.run_go_test(binary, "TestVerifC20", {"VERIF_IN": inp, "VERIF_OUT": outp}, timeout=600)
    if rc != 0 or not os.path.exists(outp):
        chk.fail("harness_run.txt", "harness TestVerifC20 failed (rc=%d):\n%s" % (rc, out[-4000:]), no_input=True)
        return
    obs = json.load(open(outp))

    # ---- evaluate model + monitor inside Coq
    cases = []
    for lc, o in zip(loops, obs["loops"]):
        its = clist([step_to_coq(s) for s in lc["script"]])
        cases.append("(%s, (%s, %s, %s, %s))" % (its, cnat(o["spawns"]), cbool(o["returned"]),
                                                 cbool(o["worker_got_term"]), cbool(o["exit_status"] != 0)))
    mask = int(obs["mask_hex"], 16)
    chunks = ["0x%x" % ((mask >> (64 * i)) & (2**64 - 1)) for i in range(1024)]
    v = """From Coq Require Import NArith List Bool.
From Verif Require Import Watcher.
Import ListNotations.
Open Scope N_scope.
Definition chunks : list N := %s.
Definition impl_bit (w : N) : bool := N.testbit (nth (N.to_nat (w / 64)) chunks 0) (w mod 64).
(* correspondence: model decision vs implementation, all 2^16 status words *)
Definition table_corr_bad := Eval vm_compute in
  filter (fun w => negb (Bool.eqb (should_respawn (WStatus w)) (impl_bit w))) (words 65536).
(* monitor: implementation decision vs the property's rule on the decoded cause (model-independent) *)
Definition decode16 (w : N) : cause :=
  if ws_Exited w then Exit (ws_ExitStatus w)
  else if ws_Signaled w then Killed (ws_Signal w) (ws_CoreDump w)
  else if ws_Stopped w then StoppedBy (ws_ExitStatus w) else Continued.
Definition table_prop_bad := Eval vm_compute in
  filter (fun w => negb (Bool.eqb (spec_respawn (decode16 w)) (impl_bit w))) (words 65536).
Definition obs := (nat * bool * bool * bool)%%type.
Definition loops : list (list iter * obs) := %s.
Fixpoint spec_watcher (its : list iter) : list act :=
  match its with
  | [] => [ASpawn]
  | ItSpawnFail :: _ => [ASpawn; AReturn true]
  | ItTerm c :: rest => if spec_respawn c then ASpawn :: spec_watcher rest else [ASpawn; AReturn false]
  | ItSigterm :: _ => [ASpawn; AForwardSignal; AReturn false]
  end.
Definition project (tr : list act) : obs :=
  (count_spawns tr,
   existsb (fun a => match a with AReturn _ => true | _ => false end) tr,
   existsb (fun a => match a with AForwardSignal => true | _ => false end) tr,
   existsb (fun a => match a with AReturn true => true | _ => false end) tr).
Definition obs_eqb (a b : obs) : bool :=
  let '(s1, r1, t1, e1) := a in let '(s2, r2, t2, e2) := b in
  Nat.eqb s1 s2 && Bool.eqb r1 r2 && Bool.eqb t1 t2 && Bool.eqb e1 e2.
Fixpoint bad_idx {A} (f : A -> bool) (l : list A) (i : nat) : list nat :=
  match l with [] => [] | x :: r => if f x then bad_idx f r (S i) else i :: bad_idx f r (S i) end.
Definition loop_corr_bad := Eval vm_compute in bad_idx (fun c => obs_eqb (project (run_watcher (fst c))) (snd c)) loops 0.
Definition loop_prop_bad := Eval vm_compute in bad_idx (fun c => obs_eqb (project (spec_watcher (fst c))) (snd c)) loops 0.
Print table_corr_bad. Print table_prop_bad. Print loop_corr_bad. Print loop_prop_bad.
""" % (clist(chunks), clist(cases))
    rc, cout = vlib.coq_eval("cases_c20", v, timeout=300)
    res = {}
    for k in ("table_corr_bad", "table_prop_bad", "loop_corr_bad", "loop_prop_bad"):
        res[k] = vlib.parse_nat_list(vlib.parse_printed(cout, k))
    if rc != 0 or any(v is None for v in res.values()):
        chk.fail("coq_eval.txt", "in-Coq evaluation of the C20 cases failed:\n" + cout[-4000:], no_input=True)
        return

    # coverage
    chk.cov["rule"] = ("decision table: all 65536 wait-status words + the Wait-error case (exhaustive); "
                       "watcher loop: real runWatcher supervising scripted stand-in workers; a loop case is "
                       "non-trivial when it has >= 1 termination; distinct by (script, sigterm)")
    chk.cov["exhaustive_table"] = True
    chk.cov["evaluations"] = 65537
    for lc in loops:
        chk.count_case(lc, nontrivial=True)
    chk.cov["distinct_nontrivial"] += 65537
    chk.cov["loop_cases"] = len(loops)
    chk.sample({"loop": loops[-1], "observed": obs["loops"][-1]})
    chk.sample({"status_word": "0x0f00 (exit 15)", "respawn": True})
    dist = {}
    for lc in loops:
        for s in lc["script"]:
            k = s.split(":")[0]
            dist[k] = dist.get(k, 0) + 1
    chk.cov["input_distribution"] = dist

    # ---- decide
    if not obs["err_case"]:
        chk.fail("err_case.json", {"what": "workerState{err != nil}.ShouldRespawn() returned false"}, sig="c20-err-case")
    if not obs["high_bits_ignored"]:
        chk.fail("high_bits.json", {"what": "decision depends on bits above 2^16"}, sig="c20-high-bits")
    if res["table_prop_bad"]:
        w = res["table_prop_bad"][0]
        chk.fail("status_word.json", {"what": "ShouldRespawn disagrees with the respawn rule", "status_word": w,
                                      "all_bad_words_first_20": res["table_prop_bad"][:20],
                                      "replay": "workerState{status: syscall.WaitStatus(%d)}.ShouldRespawn()" % w},
                 sig="c20-table-%d" % w)
    for i in res["loop_prop_bad"]:
        chk.fail("loop_%d.json" % i, {"what": "runWatcher trace violates the respawn rule", "loops": [loops[i]],
                                      "observed": obs["loops"][i]}, sig=None)
    broken = []
    if not st["build_ok"]:
        broken.append("theorems of PropC20.v no longer check:\n" + st["log"][-3000:])
    if res["table_corr_bad"]:
        broken.append("correspondence Watcher.should_respawn vs workerState.ShouldRespawn differs on words %s"
                      % res["table_corr_bad"][:20])
    if res["loop_corr_bad"]:
        broken.append("correspondence Watcher.run_watcher vs runWatcher differs on loop cases %s: %s"
                      % (res["loop_corr_bad"][:10], [loops[i] for i in res["loop_corr_bad"][:3]]))
    if broken and not chk.violations:
        chk.fail("broken.txt", "\n\n".join(broken), no_input=True)
    chk.cov["disagreements"] = {k: len(v) for k, v in res.items()}
    chk.assumptions += ["Linux wait-status encoding (wait4) as modelled in Watcher.encode",
                        "stand-in workers die by a signal via sh -c 'kill -SIG $$' (default disposition)"]
    return obs


# ======================================================================================================
# pid-file half: N real daemons racing for one pid file, every pid-file system call scheduled by the
# harness (harness/go/newrelic/zz_verif_c20_pidfile_test.go), histories evaluated in Coq (coq/Pidfile.v)
# ======================================================================================================

def _acts(p, k):
    return [["act", p]] * k


def sc_race(rng, n):
    """the race described in pidfile.go: B opens, A exits, B locks the deleted file; C makes a new one"""
    s = [["run", 0], ["start", 1], ["act", 1], ["term", 0], ["act", 0], ["act", 0]]
    variant = rng.choice(["gone", "gone-late", "changed", "changed-mid"])
    if variant == "gone":
        s += [["act", 1], ["act", 1]]               # B: lock (deleted file), stat: gone
        s += [["start", 2]] + _acts(2, rng.randint(0, 6))
    elif variant == "gone-late":
        s += [["act", 1], ["act", 1], ["act", 1]]   # ... and B closes before C appears
        s += [["start", 2]] + _acts(2, rng.randint(0, 6))
    elif variant == "changed":
        s += [["run", 2], ["act", 1], ["act", 1]]   # C owns a new file; B: lock (deleted file), stat: another file
    else:
        s += [["act", 1], ["start", 2], ["act", 2], ["act", 1]]   # C has only created the new file when B stats
    s += [["any", rng.getrandbits(16)] for _ in range(rng.randint(10, 40))]
    return {"kind": "race", "n": n, "script": s + [["drain"]]}


def sc_window(rng, n):
    """Remove = unlink, then close: successors arrive between the two"""
    s = [["run", 0], ["term", 0], ["act", 0]]
    k = rng.randint(1, min(3, n - 2))
    for p in range(1, 1 + k):
        if rng.random() < 0.6:
            s += [["run", p]]
        else:
            s += [["start", p]] + _acts(p, rng.randint(0, 5))
    s += [["act", 0]]
    s += [["any", rng.getrandbits(16)] for _ in range(rng.randint(5, 30))]
    return {"kind": "window", "n": n, "script": s + [["drain"]]}


def sc_kill(rng, n):
    """the holder is killed at a random protocol stage / while up; successors contend"""
    s = [["start", 0]] + _acts(0, rng.randint(0, 6))
    k = rng.randint(1, min(4, n - 2))
    for p in range(1, 1 + k):
        s += [["start", p]] + _acts(p, rng.randint(0, 3))
    s += [["kill", 0]]
    s += [["any", rng.getrandbits(16)] for _ in range(rng.randint(5, 40))]
    s += [["drain"], ["run", n - 1]]
    return {"kind": "kill", "n": n, "script": s + [["drain"]]}


def sc_exhaust(rng, n):
    """ten owners come and go between the victim's open and its F_SETLK: ErrRetryLimit"""
    n = max(n, 12)
    v = 11
    s = []
    for c in range(10):
        s += [["run", c]]
        if c == 0:
            s += [["start", v]]
        s += [["act", v], ["term", c], ["act", c], ["act", c], ["act", v], ["act", v], ["act", v]]
    s += [["drain"], ["run", 10]]
    return {"kind": "exhaust", "n": n, "script": s + [["drain"]]}


def sc_stampede(rng, n):
    """all but two started at once, random interleaving; then the winner is terminated or killed"""
    s = [["start", p] for p in range(n - 2)]
    s += [["any", rng.getrandbits(16)] for _ in range(rng.randint(3 * n, 8 * n))]
    s += [["drain"]]
    sig = rng.choice(["term", "kill"])
    s += [[sig, p] for p in range(n - 2)]
    if rng.random() < 0.5:
        s += [["start", n - 2], ["act", n - 2]]
    s += [["any", rng.getrandbits(16)] for _ in range(rng.randint(0, 12))]
    s += [["drain"], ["run", n - 2], ["run", n - 1]]
    return {"kind": "stampede", "n": n, "script": s + [["drain"]]}


def sc_random(rng, n):
    s = [["any", rng.getrandbits(16)] for _ in range(rng.randint(6 * n, 16 * n))]
    return {"kind": "random", "n": n, "script": s + [["drain"]]}


def gen_scenarios(rng, tier):
    out = []
    if tier == "quick":
        plan = [(sc_race, 6), (sc_window, 6), (sc_kill, 8), (sc_stampede, 6), (sc_random, 9), (sc_exhaust, 1)]
        sizes = [8]
    else:
        plan = [(sc_race, 30), (sc_window, 30), (sc_kill, 40), (sc_stampede, 30), (sc_random, 60), (sc_exhaust, 4)]
        sizes = [8, 8, 12, 16, 24, 32]
    for f, k in plan:
        for _ in range(k):
            out.append(f(rng, rng.choice(sizes)))
    return out


LABELS = {("open", "new"): "LOpen", ("open", "old"): "LOpen", ("lock", "ok"): "LLockOk", ("lock", "busy"): "LLockBusy",
          ("stat", "same"): "LStatSame", ("stat", "gone"): "LStatGone", ("stat", "changed"): "LStatChanged",
          ("trunc", "ok"): "LTrunc", ("write", "ok"): "LWrite", ("unlink", "ok"): "LUnlink",
          ("unlink", "gone"): "LUnlinkGone", ("close", "ok"): "LClose"}


def c_ino(i):
    return cN(i if i >= 0 else 999999)


def c_snap(sn):
    cont = {-1: "FEmpty", -2: "FNoFile", -3: "FOther"}.get(sn["content"], "(FPid %s)" % cnat(max(sn["content"], 0)))
    locks = clist(["(%s, %s, %s)" % (c_ino(l[0]), cnat(l[1]), cbool(l[2] == 1)) for l in sn["locks"]])
    return "(mksnap %s %s %s)" % (c_ino(sn["path"]), locks if sn["locks"] else "[]", cont)


def c_event(e):
    k, p = e["k"], cnat(e["p"])
    if k == "start":
        return "EStart %s" % p
    if k == "up":
        return "EUp %s" % p
    if k == "term":
        return "ETerm %s" % p
    if k == "kill":
        return "EKill %s %s" % (p, c_snap(e["snap"]))
    if k == "exit":
        return "EExit %s %s %s" % (p, cN(e["code"]), c_snap(e["snap"]))
    res = e["res"].split(":")[0]            # "ok:R" (a read lock) is an acquired lock; the snapshot shows its type
    lab = LABELS.get((e["sys"], res), "LFail")
    return "ESys (%s %s) %s %s" % (lab, p, c_ino(e.get("ino", 0)), c_snap(e["snap"]))


def run_pidfile_harness(chk, binary, daemon, scenarios, token):
    """runs the scenarios in parallel shards; returns (observations in order, max_retries, error text)"""
    nshards = max(1, min(8, (os.cpu_count() or 2) // 2, len(scenarios)))
    shards = [list(range(i, len(scenarios), nshards)) for i in range(nshards)]
    base = os.path.join(vlib.BUILD, "c20_pidfile")
    shutil.rmtree(base, ignore_errors=True)
    os.makedirs(base, exist_ok=True)

    def one(k):
        inp = os.path.join(base, "in_%d.json" % k)
        outp = os.path.join(base, "out_%d.json" % k)
        tmp = os.path.join(base, "tmp_%d" % k)
        os.makedirs(tmp, exist_ok=True)
        json.dump({"daemon": daemon, "tmp": tmp, "token": "%s-%d" % (token, k),
                   "scenarios": [{"n": scenarios[i]["n"], "script": scenarios[i]["script"]} for i in shards[k]]},
                  open(inp, "w"))
        rc, out = vlib.run_go_test(binary, "TestVerifC20Pidfile", {"VERIF_IN": inp, "VERIF_OUT": outp}, timeout=900)
        if rc != 0 or not os.path.exists(outp):
            return k, None, "shard %d: rc=%d\n%s" % (k, rc, out[-3000:])
        return k, json.load(open(outp)), ""

    obs = [None] * len(scenarios)
    mx, errs = None, []
    with concurrent.futures.ThreadPoolExecutor(max_workers=nshards) as ex:
        for k, o, err in ex.map(one, range(nshards)):
            if o is None:
                errs.append(err)
                continue
            mx = o["max_retries"]
            for i, so in zip(shards[k], o["scenarios"]):
                obs[i] = so
    shutil.rmtree(base, ignore_errors=True)
    return obs, mx, "\n".join(errs)


def pidfile_stage(chk, st, rng, replay_pf, respawn_obs):
    extra = chk.cov["distinct_nontrivial"] - len(chk._hashes)     # the exhaustive table counted by the respawn stage
    if replay_pf is not None:
        scenarios = replay_pf["scenarios"]
    else:
        scenarios = gen_scenarios(rng, chk.tier)

    # the watcher must keep its workers out of the pid file (main.go passes -no-pidfile): a worker that
    # contended with its own watcher would get ErrLocked, exit 0 and never be respawned
    if respawn_obs and not all(l.get("all_nopidfile", True) for l in respawn_obs.get("loops", [])):
        chk.fail("worker_pidfile.json", {"what": "a worker was spawned without -no-pidfile", "observed": respawn_obs["loops"]},
                 sig="c20-worker-without-no-pidfile")

    daemon, dlog = vlib.go_build_daemon()
    binary, blog = vlib.go_test_binary("newrelic", only=["c20"])
    if daemon is None or binary is None:
        chk.fail("pidfile_harness_build.txt", "daemon binary or pid-file harness (package newrelic, TestVerifC20Pidfile) "
                 "does not build against the current tree:\n" + (dlog or "")[-3000:] + (blog or "")[-3000:], no_input=True)
        return
    token = "%08x%d" % (rng.getrandbits(32), os.getpid())
    obs, mx, err = run_pidfile_harness(chk, binary, daemon, scenarios, token)
    if err or mx is None or any(o is None for o in obs):
        chk.fail("pidfile_harness_run.txt", "harness TestVerifC20Pidfile failed:\n" + err, no_input=True)
        return

    # ---- model (trace inclusion + snapshots) and monitors, inside Coq
    cases = []
    for sc, o in zip(scenarios, obs):
        cases.append("(%s, %s, %s)" % (cnat(sc["n"]), cbool(bool(o["settled"]) and not o["error"]),
                                       clist([c_event(e) for e in o["events"]])))
    v = """From Coq Require Import NArith List Bool.
From Verif Require Import Common Pidfile.
Import ListNotations.
Definition mx : N := %s.
Definition cases : list (nat * bool * list ev) := %s.
(* correspondence: the observed history is a run of the model LTS and every kernel snapshot agrees *)
Definition pf_corr_bad := Eval vm_compute in bad_idx (fun c => accepts mx (fst (fst c)) (snd c)) cases 0.
(* monitor: the property on the observed history alone *)
Definition pf_prop_bad := Eval vm_compute in bad_idx (fun c => monitor (snd (fst c)) (snd c)) cases 0.
Definition pf_excl_bad := Eval vm_compute in bad_idx (fun c => mon_exclusive (snd c)) cases 0.
Definition pf_content_bad := Eval vm_compute in bad_idx (fun c => mon_content (snd c)) cases 0.
Definition pf_released_bad := Eval vm_compute in bad_idx (fun c => mon_released (snd c)) cases 0.
Definition pf_successor_bad := Eval vm_compute in bad_idx (fun c => mon_successor (snd (fst c)) (snd c)) cases 0.
(* informational: histories in which two daemons held pid-file locks at once (on different files) *)
Definition pf_two_lockers := Eval vm_compute in bad_idx (fun c => negb (two_lockers (snd c))) cases 0.
Print pf_corr_bad. Print pf_prop_bad. Print pf_excl_bad. Print pf_content_bad. Print pf_released_bad.
Print pf_successor_bad. Print pf_two_lockers.
""" % (cN(mx), clist(cases))
    rc, cout = vlib.coq_eval("cases_c20_pidfile", v, timeout=600)
    res = {}
    for k in ("pf_corr_bad", "pf_prop_bad", "pf_excl_bad", "pf_content_bad", "pf_released_bad", "pf_successor_bad",
              "pf_two_lockers"):
        res[k] = vlib.parse_nat_list(vlib.parse_printed(cout, k))
    if rc != 0 or any(x is None for x in res.values()):
        chk.fail("pidfile_coq_eval.txt", "in-Coq evaluation of the pid-file histories failed:\n" + cout[-4000:], no_input=True)
        return

    # ---- coverage (all numbers measured on this run)
    dist, kinds = {}, {}
    nev = 0
    for sc, o in zip(scenarios, obs):
        kinds[sc.get("kind", "replay")] = kinds.get(sc.get("kind", "replay"), 0) + 1
        started = set()
        for e in o["events"]:
            nev += 1
            key = e["k"] if e["k"] != "sys" else e["sys"] + ":" + e["res"]
            dist[key] = dist.get(key, 0) + 1
            if e["k"] == "start":
                started.add(e["p"])
        chk.count_case({"n": sc["n"], "script": sc["script"]}, nontrivial=len(started) >= 2)
    chk.cov["distinct_nontrivial"] = len(chk._hashes) + extra
    chk.cov["rule"] += ("; pid file: real daemon processes under a ptrace scheduler, one case = one scripted interleaving "
                        "of the pid-file system calls of n daemons with SIGTERM/SIGKILL; non-trivial when >= 2 daemons "
                        "were started; distinct by (n, script)")
    chk.cov["pidfile_cases"] = len(scenarios)
    chk.cov["pidfile_events"] = nev
    chk.cov["pidfile_daemons_started"] = dist.get("start", 0)
    chk.cov["pidfile_templates"] = kinds
    chk.cov["pidfile_max_retries_in_code"] = mx
    chk.cov["pidfile_two_lockers_cases"] = len(res["pf_two_lockers"])
    idist = chk.cov.get("input_distribution", {})
    idist["pidfile"] = dist
    chk.cov["input_distribution"] = idist
    if scenarios:
        chk.sample({"pidfile_case": {"kind": scenarios[0].get("kind"), "n": scenarios[0]["n"],
                                     "script_head": scenarios[0]["script"][:12]},
                    "observed_head": [(e["k"], e["p"], e.get("sys", ""), e.get("res", "")) for e in obs[0]["events"][:14]]})
    d = chk.cov.get("disagreements", {})
    d.update({k: len(x) for k, x in res.items() if k != "pf_two_lockers"})
    chk.cov["disagreements"] = d
    chk.notes.append("pid file: in %d of %d histories two daemons held pid-file locks at the same time on DIFFERENT files "
                     "(a contender on an unlinked file before its same-file check, or the old holder between unlink and close "
                     "in Remove); see C20_one_locker_refuted / C20_one_locker_partial -- not a violation of the property as "
                     "read here (the lock on the file the path names)" % (len(res["pf_two_lockers"]), len(scenarios)))

    # ---- decide
    which = {"excl": res["pf_excl_bad"], "content": res["pf_content_bad"], "released": res["pf_released_bad"],
             "successor": res["pf_successor_bad"]}
    for i in res["pf_prop_bad"]:
        failed = [k for k, l in which.items() if i in l]
        what = {"excl": "more than one daemon at a time owns / holds the lock on the pid file",
                "content": "the pid file does not hold the pid of the daemon that owns it",
                "released": "a dead daemon still holds a pid-file lock",
                "successor": "no daemon is up although one was started after the holder had gone"}
        chk.fail("pidfile_%d.json" % i,
                 {"what": "; ".join(what[k] for k in failed), "monitors_failed": failed,
                  "pidfile": {"scenarios": [scenarios[i]]}, "observed": obs[i]["events"], "harness_error": obs[i]["error"]},
                 sig=None)
    broken = []
    if not st["build_ok"]:
        broken.append("theorems of PropC20.v no longer check:\n" + st["log"][-3000:])
    herr = [(i, o["error"]) for i, o in enumerate(obs) if o["error"]]
    if herr:
        broken.append("the pid-file harness could not run cases %s to the end: %s" % ([i for i, _ in herr][:10], herr[0][1]))
    if res["pf_corr_bad"]:
        i = res["pf_corr_bad"][0]
        broken.append("correspondence Pidfile.step / kernel snapshots vs the real daemons differs on cases %s; first: %s\n%s"
                      % (res["pf_corr_bad"][:10], json.dumps(scenarios[i])[:1500],
                         json.dumps([(e["k"], e["p"], e.get("sys", ""), e.get("res", "")) for e in obs[i]["events"]])[:3000]))
    if broken and not chk.violations:
        chk.fail("pidfile_broken.txt", "\n\n".join(broken), no_input=True)
    chk.assumptions += ["POSIX fcntl record locks, unlink and O_CREAT as modelled in Pidfile.v (kernel: modelled, tied by "
                        "per-system-call snapshots of /proc/locks, the path's inode and the file content)",
                        "the ptrace scheduler serialises only the pid-file system calls; everything else runs freely"]
