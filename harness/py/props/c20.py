"""C20 -- crashed workers are respawned; one daemon owns a pid file."""
import json
import os
import random
import signal as pysignal

import vlib
from vlib import cN, cbool, clist, cnat

LEVEL = "proof"

ABNORMAL_SIGS = ["HUP", "INT", "QUIT", "ILL", "ABRT", "FPE", "KILL", "SEGV", "PIPE", "ALRM",
                 "USR1", "USR2", "BUS", "TRAP", "SYS", "XCPU", "XFSZ", "VTALRM", "PROF", "IO", "PWR", "STKFLT"]


def signum(name):
    return int(getattr(pysignal, "SIG" + name))


def gen_loops(rng, n):
    loops = []
    # deterministic part: every terminator once, the boundary exit codes
    base = [(["exit:0"], False), (["exit:1"], False), (["kill:TERM"], False), (["exit:2", "exit:0"], False),
            (["exit:255", "exit:1"], False), (["kill:KILL", "kill:TERM"], False), (["wait"], True),
            (["exit:3", "kill:SEGV", "wait"], True)]
    for s, t in base:
        loops.append({"script": s, "sigterm": t})
    while len(loops) < n:
        k = rng.randint(0, 3)
        script = []
        for _ in range(k):
            if rng.random() < 0.5:
                script.append("exit:%d" % rng.randint(2, 255))
            else:
                script.append("kill:" + rng.choice(ABNORMAL_SIGS))
        term = rng.choice(["exit:0", "exit:1", "kill:TERM", "wait"])
        script.append(term)
        loops.append({"script": script, "sigterm": term == "wait"})
    return loops


def step_to_coq(st):
    if st.startswith("exit:"):
        return "ItTerm (Exit %s)" % cN(int(st[5:]))
    if st.startswith("kill:"):
        return "ItTerm (Killed %s false)" % cN(signum(st[5:]))
    if st == "wait":
        return "ItSigterm"
    raise ValueError(st)


def run(chk, replay=None):
    st = vlib.std_coq_stage(chk, "PropC20", gen=False)
    rng = random.Random(chk.seed)
    nloops = 24 if chk.tier == "quick" else 200
    if replay:
        loops = json.load(open(replay))["loops"]
    else:
        loops = gen_loops(rng, nloops)

    binary, blog = vlib.go_test_binary("main", only=["c20"])
    if binary is None:
        chk.notes.append("harness build failed: " + blog[-2000:])
        chk.fail("harness_build.txt", "correspondence harness (package main, TestVerifC20) does not build "
                 "against the current tree:\n" + blog, no_input=True)
        return
    inp = os.path.join(vlib.BUILD, "c20_in.json")
    outp = os.path.join(vlib.BUILD, "c20_out.json")
    json.dump({"loops": loops}, open(inp, "w"))
    if os.path.exists(outp):
        os.remove(outp)
    rc, out = vlib.run_go_test(binary, "TestVerifC20", {"VERIF_IN": inp, "VERIF_OUT": outp}, timeout=600)
    if rc != 0 or not os.path.exists(outp):
        chk.fail("harness_run.txt", "harness TestVerifC20 failed (rc=%d):\n%s" % (rc, out[-4000:]), no_input=True)
        return
    obs = json.load(open(outp))

    # ---- evaluate model + monitor inside Coq
    cases = []
    for lc, o in zip(loops, obs["loops"]):
        its = clist([step_to_coq(s) for s in lc["script"]])
        cases.append("(%s, (%s, %s, %s, %s))" % (its, cnat(o["spawns"]), cbool(o["returned"]),
                                                 cbool(o["worker_got_term"]), cbool(o["exit_status"] != 0)))
    mask = int(obs["mask_hex"], 16)
    chunks = ["0x%x" % ((mask >> (64 * i)) & (2**64 - 1)) for i in range(1024)]
    v = """From Coq Require Import NArith List Bool.
From Verif Require Import Watcher.
Import ListNotations.
Open Scope N_scope.
Definition chunks : list N := %s.
Definition impl_bit (w : N) : bool := N.testbit (nth (N.to_nat (w / 64)) chunks 0) (w mod 64).
(* correspondence: model decision vs implementation, all 2^16 status words *)
Definition table_corr_bad := Eval vm_compute in
  filter (fun w => negb (Bool.eqb (should_respawn (WStatus w)) (impl_bit w))) (words 65536).
(* monitor: implementation decision vs the property's rule on the decoded cause (model-independent) *)
Definition decode16 (w : N) : cause :=
  if ws_Exited w then Exit (ws_ExitStatus w)
  else if ws_Signaled w then Killed (ws_Signal w) (ws_CoreDump w)
  else if ws_Stopped w then StoppedBy (ws_ExitStatus w) else Continued.
Definition table_prop_bad := Eval vm_compute in
  filter (fun w => negb (Bool.eqb (spec_respawn (decode16 w)) (impl_bit w))) (words 65536).
Definition obs := (nat * bool * bool * bool)%%type.
Definition loops : list (list iter * obs) := %s.
Fixpoint spec_watcher (its : list iter) : list act :=
  match its with
  | [] => [ASpawn]
  | ItSpawnFail :: _ => [ASpawn; AReturn true]
  | ItTerm c :: rest => if spec_respawn c then ASpawn :: spec_watcher rest else [ASpawn; AReturn false]
  | ItSigterm :: _ => [ASpawn; AForwardSignal; AReturn false]
  end.
Definition project (tr : list act) : obs :=
  (count_spawns tr,
   existsb (fun a => match a with AReturn _ => true | _ => false end) tr,
   existsb (fun a => match a with AForwardSignal => true | _ => false end) tr,
   existsb (fun a => match a with AReturn true => true | _ => false end) tr).
Definition obs_eqb (a b : obs) : bool :=
  let '(s1, r1, t1, e1) := a in let '(s2, r2, t2, e2) := b in
  Nat.eqb s1 s2 && Bool.eqb r1 r2 && Bool.eqb t1 t2 && Bool.eqb e1 e2.
Fixpoint bad_idx {A} (f : A -> bool) (l : list A) (i : nat) : list nat :=
  match l with [] => [] | x :: r => if f x then bad_idx f r (S i) else i :: bad_idx f r (S i) end.
Definition loop_corr_bad := Eval vm_compute in bad_idx (fun c => obs_eqb (project (run_watcher (fst c))) (snd c)) loops 0.
Definition loop_prop_bad := Eval vm_compute in bad_idx (fun c => obs_eqb (project (spec_watcher (fst c))) (snd c)) loops 0.
Print table_corr_bad. Print table_prop_bad. Print loop_corr_bad. Print loop_prop_bad.
""" % (clist(chunks), clist(cases))
    rc, cout = vlib.coq_eval("cases_c20", v, timeout=300)
    res = {}
    for k in ("table_corr_bad", "table_prop_bad", "loop_corr_bad", "loop_prop_bad"):
        res[k] = vlib.parse_nat_list(vlib.parse_printed(cout, k))
    if rc != 0 or any(v is None for v in res.values()):
        chk.fail("coq_eval.txt", "in-Coq evaluation of the C20 cases failed:\n" + cout[-4000:], no_input=True)
        return

    # coverage
    chk.cov["rule"] = ("decision table: all 65536 wait-status words + the Wait-error case (exhaustive); "
                       "watcher loop: real runWatcher supervising scripted stand-in workers; a loop case is "
                       "non-trivial when it has >= 1 termination; distinct by (script, sigterm)")
    chk.cov["exhaustive_table"] = True
    chk.cov["evaluations"] = 65537
    for lc in loops:
        chk.count_case(lc, nontrivial=True)
    chk.cov["distinct_nontrivial"] += 65537
    chk.cov["loop_cases"] = len(loops)
    chk.sample({"loop": loops[-1], "observed": obs["loops"][-1]})
    chk.sample({"status_word": "0x0f00 (exit 15)", "respawn": True})
    dist = {}
    for lc in loops:
        for s in lc["script"]:
            k = s.split(":")[0]
            dist[k] = dist.get(k, 0) + 1
    chk.cov["input_distribution"] = dist

    # ---- decide
    if not obs["err_case"]:
        chk.fail("err_case.json", {"what": "workerState{err != nil}.ShouldRespawn() returned false"}, sig="c20-err-case")
    if not obs["high_bits_ignored"]:
        chk.fail("high_bits.json", {"what": "decision depends on bits above 2^16"}, sig="c20-high-bits")
    if res["table_prop_bad"]:
        w = res["table_prop_bad"][0]
        chk.fail("status_word.json", {"what": "ShouldRespawn disagrees with the respawn rule", "status_word": w,
                                      "all_bad_words_first_20": res["table_prop_bad"][:20],
                                      "replay": "workerState{status: syscall.WaitStatus(%d)}.ShouldRespawn()" % w},
                 sig="c20-table-%d" % w)
    for i in res["loop_prop_bad"]:
        chk.fail("loop_%d.json" % i, {"what": "runWatcher trace violates the respawn rule", "loops": [loops[i]],
                                      "observed": obs["loops"][i]}, sig=None)
    broken = []
    if not st["build_ok"]:
        broken.append("theorems of PropC20.v no longer check:\n" + st["log"][-3000:])
    if res["table_corr_bad"]:
        broken.append("correspondence Watcher.should_respawn vs workerState.ShouldRespawn differs on words %s"
                      % res["table_corr_bad"][:20])
    if res["loop_corr_bad"]:
        broken.append("correspondence Watcher.run_watcher vs runWatcher differs on loop cases %s: %s"
                      % (res["loop_corr_bad"][:10], [loops[i] for i in res["loop_corr_bad"][:3]]))
    if broken and not chk.violations and not chk.known_hits:
        chk.fail("broken.txt", "\n\n".join(broken), no_input=True)
    chk.cov["disagreements"] = {k: len(v) for k, v in res.items()}
    chk.assumptions += ["Linux wait-status encoding (wait4) as modelled in Watcher.encode",
                        "stand-in workers die by a signal via sh -c 'kill -SIG $$' (default disposition)"]
