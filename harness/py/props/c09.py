"""C09 -- socket framing is lossless, bounded and self-delineating.

The stream bytes are produced HERE (struct.pack), fed to the real ReadMessage / serve / Listener.Serve
cut into prescribed chunks, and to the Coq model (Framing.serve on Framing.chunk_by sizes stream).
Messages and replies up to 8 KiB are compared byte for byte inside Coq; for larger bodies/replies Coq works
on (type, length) descriptors through the proven closed form (PropC09.C09_boundary_reply_descriptors) and
the Go harness compares the body bytes itself.  Reply and request lengths are swept densely (0..1100, around
every power of two), and MessageWriter.Write/WriteString are also driven directly.
"""
import concurrent.futures
import json
import os
import random
import re
import struct

import vlib
from vlib import cN, cbool, clist, cbytes

LEVEL = "proof"
MAXSZ = 2 << 20
LENS = [0, 1, 7, 8, 9, 100, 4096]
TYPES = [0, 1, 2, 3, 4, 5, 6, 7, 255, 256, 65535, 65536, 2 ** 31, 2 ** 32 - 1]
SWEEP_MAX = 1100
LEGACY_REPLY = bytes([0x35, 0x20, 0x30, 0x20, 0x30, 0x0a, 0, 0, 0, 0])


def hdr(n, ty):
    return struct.pack("<II", n & 0xFFFFFFFF, ty & 0xFFFFFFFF)


def fill(n, a, b):
    return bytes((a * i + b) & 0xFF for i in range(n))


def cpk(b):
    """bytes -> Coq term of type list N, written as 7 bytes per primitive 63-bit integer literal (little
    endian, with a marker bit above the last byte) and unpacked inside Coq: about 15 times cheaper for coqc
    to read than one numeral per byte, and no limit on the length."""
    if len(b) == 0:
        return "(@nil N)"
    if len(b) <= 8:
        return cbytes(b)
    words = ["0x%x" % (int.from_bytes(b[i:i + 7], "little") | (1 << (8 * len(b[i:i + 7])))) for i in range(0, len(b), 7)]
    groups = ["[" + ";".join(words[i:i + 2000]) + "]" for i in range(0, len(words), 2000)]
    return "(unpack (" + " ++ ".join(groups) + ")%uint63)"


def rtype(rng):
    return rng.choice(TYPES) if rng.random() < 0.8 else rng.getrandbits(32)


def rbody(rng, n):
    return bytes(rng.getrandbits(8) for _ in range(n))


def small_msg(rng, n=None, t=None):
    n = rng.choice(LENS) if n is None else n
    return {"t": rtype(rng) if t is None else t, "hex": rbody(rng, n).hex()}


def msg_body(m):
    if "fill" in m:
        f = m["fill"]
        return fill(f["n"], f["a"], f["b"])
    return bytes.fromhex(m["hex"])


def msg_len(m):
    return m["fill"]["n"] if "fill" in m else len(m["hex"]) // 2


def spec_is_legacy(h):
    return (len(h) >= 6 and 0x30 <= h[0] <= 0x39 and h[1] == 0x20 and 0x30 <= h[2] <= 0x39
            and h[3] == 0x20 and h[4] == 0x30 and h[5] == 0x0a)


def bad_header_ok(h):
    return len(h) == 8 and (spec_is_legacy(h) or struct.unpack("<I", h[:4])[0] > MAXSZ)


# ---------------------------------------------------------------- stream construction

def segs_of(case):
    """(segments for Go, body (offset,len) list, offset of the bad header or -1, total length)"""
    segs, bodies, off = [], [], 0

    def add_hex(b):
        nonlocal off
        if b:
            segs.append({"hex": b.hex()})
            off += len(b)

    def add_msg(m, keep=None):
        nonlocal off
        n = msg_len(m)
        h = hdr(n, m["t"])
        if keep is None:
            add_hex(h)
            bodies.append([off, n])
            if "fill" in m:
                segs.append({"fill": m["fill"]})
                off += n
            else:
                add_hex(bytes.fromhex(m["hex"]))
        else:
            if keep <= 8:
                add_hex(h[:keep])
            else:
                add_hex(h)
                k = keep - 8
                if "fill" in m:
                    f = dict(m["fill"])
                    f["n"] = k
                    segs.append({"fill": f})
                    off += k
                else:
                    add_hex(bytes.fromhex(m["hex"])[:k])

    for m in case["msgs"]:
        add_msg(m)
    bad_off = -1
    t = case["tail"]
    if t["kind"] == "bad":
        bad_off = off
        add_hex(bytes.fromhex(t["hdr"]))
        if "extra_fill" in t:
            segs.append({"fill": t["extra_fill"]})
            off += t["extra_fill"]["n"]
        else:
            add_hex(bytes.fromhex(t.get("extra", "")))
    elif t["kind"] == "partial":
        add_msg(t["msg"], keep=t["keep"])
    return segs, bodies, bad_off, off


def stream_bytes(case):
    out = b""
    for s in segs_of(case)[0]:
        out += fill(s["fill"]["n"], s["fill"]["a"], s["fill"]["b"]) if "fill" in s else bytes.fromhex(s["hex"])
    return out


def go_case(case):
    segs, bodies, bad_off, _ = segs_of(case)
    return {"id": case["id"], "segs": segs, "sizes": case["sizes"], "mode": case["mode"],
            "fixed": case["fixed"], "transport": case["transport"], "big": case["big"],
            "bodies": bodies, "bad_off": bad_off}


# ---------------------------------------------------------------- chunkings

def sizes_from_cuts(total, cuts):
    pts = sorted(set(c for c in cuts if 0 < c < total))
    sizes, last = [], 0
    for p in pts:
        sizes.append(p - last)
        last = p
    return sizes  # the remainder is the final chunk


def random_sizes(rng, total, style=None):
    style = style or rng.choice(["one", "bytes", "rand", "zeros", "few", "pow"])
    if style == "one" or total == 0:
        return [] if rng.random() < 0.7 else [0, 0]
    if style == "bytes":
        return [1] * total
    if style == "rand":
        out, left = [], total
        while left > 0:
            k = min(left, rng.choice([1, 1, 2, 3, 5, 7, 8, 9, 16, 64, 1000]))
            out.append(k)
            left -= k
        return out
    if style == "zeros":
        out, left = [], total
        while left > 0:
            if rng.random() < 0.3:
                out.append(0)
                continue
            k = min(left, rng.randint(1, 12))
            out.append(k)
            left -= k
        return out + [0]
    if style == "few":
        return sizes_from_cuts(total, [rng.randint(1, max(1, total - 1)) for _ in range(rng.randint(1, 3))])
    return [rng.choice([4, 8, 16, 4096])] * (total // 4 + 1)


def mk(cases, kind, msgs, tail, sizes, mode, fixed=b"\xde\xad\xbe\xef", transport="chunk", big=False):
    c = {"id": len(cases), "kind": kind, "msgs": msgs, "tail": tail, "sizes": list(sizes), "mode": mode,
         "fixed": fixed.hex(), "transport": transport, "big": big}
    if tail["kind"] == "bad":
        assert bad_header_ok(bytes.fromhex(tail["hdr"])), tail
    if tail["kind"] == "partial":
        assert 0 <= tail["keep"] < 8 + msg_len(tail["msg"]), tail      # a PROPER prefix
    assert all(msg_len(m) <= MAXSZ and 0 <= m["t"] < 2 ** 32 for m in msgs)
    cases.append(c)
    return c


NONE = {"kind": "none"}


def gen_cases(rng, tier):
    thorough = tier == "thorough"
    cases = []

    # A. every fragmentation of tiny streams (exhaustive over split-point sets)
    tiny = [
        ("frag-msg3", [{"t": 2, "hex": "0a0b0c"}], NONE, 2),                       # 11 bytes
        ("frag-empty", [{"t": 1, "hex": ""}], NONE, 1),                            # 8 bytes
        ("frag-msg1", [{"t": 2 ** 32 - 1, "hex": "ff"}], NONE, 4),                 # 9 bytes
        ("frag-legacy", [], {"kind": "bad", "hdr": "3920372030 0a 4142".replace(" ", ""), "extra": "00"}, 2),  # 9 bytes
        ("frag-oversize", [], {"kind": "bad", "hdr": hdr(MAXSZ + 1, 2).hex(), "extra": "0102"}, 2),            # 10 bytes
        ("frag-partial", [{"t": 3, "hex": ""}], {"kind": "partial", "msg": {"t": 2, "hex": "0a0b0c0d"}, "keep": 3}, 2),
    ]
    if thorough:
        tiny += [("frag-msg4", [{"t": 2, "hex": "0a0b0c0d"}], NONE, 2),
                 ("frag-partial12", [{"t": 3, "hex": ""}], {"kind": "partial", "msg": {"t": 2, "hex": "0a0b0c0d"}, "keep": 4}, 4)]
    for kind, msgs, tail, mode in tiny:
        total = segs_of({"msgs": msgs, "tail": tail})[3]
        assert total <= 12
        for mask in range(1 << (total - 1)):
            cuts = [i + 1 for i in range(total - 1) if mask >> i & 1]
            mk(cases, kind, msgs, tail, sizes_from_cuts(total, cuts), mode)

    # B. message sequences, lengths from LENS, random types, many chunkings
    nseq = 60 if not thorough else 600
    for i in range(nseq):
        k = rng.randint(1, 5)
        lens = [rng.choice(LENS) for _ in range(k)]
        if sum(1 for n in lens if n == 4096) > 1:          # at most one 4 KiB body per small stream
            first = lens.index(4096)
            lens = [n if (n != 4096 or j == first) else 100 for j, n in enumerate(lens)]
        msgs = [small_msg(rng, n) for n in lens]
        total = sum(8 + n for n in lens)
        mode = rng.choice([0, 1, 2, 2, 3, 4, 4, 5])
        mk(cases, "seq", msgs, NONE, random_sizes(rng, total), mode,
           fixed=rbody(rng, rng.choice([0, 1, 5, 40])),
           transport="pipe" if i % 5 == 0 else ("unix" if i % 5 == 1 else "chunk"))
    # each length x (whole, 1-byte chunks, header split at every offset 1..7, a body split)
    for n in LENS:
        for t in (0, 1, 2):
            msgs = [small_msg(rng, n, t), small_msg(rng, 9, 2)]
            total = 8 + n + 17
            variants = [[], [1] * total if n <= 100 or t == 2 else [1] * 40]
            variants += [[o] for o in range(1, 8)]                       # first header split
            variants += [[8 + n + o] for o in range(1, 8)] if t == 2 else []  # second header split
            if n > 1:
                variants.append([8 + n // 2])
                variants.append([8, n - 1, 1])
            for sz in variants:
                mk(cases, "len%d" % n, msgs, NONE, sz, 4 if t != 1 else 2, transport="chunk")

    # C. legacy headers: every digit pair; bytes 4-5 genuine and near misses; other near misses
    near45 = [(0x30, 0x0a), (0x31, 0x0a), (0x30, 0x0d), (0x30, 0x00), (0x00, 0x0a), (0x02, 0x00)]
    for a in range(10):
        for b in range(10):
            variants = [near45[0]] + ([rng.choice(near45[1:])] if not thorough else near45[1:])
            if rng.random() < 0.3:
                variants.append((rng.getrandbits(8), rng.getrandbits(8)))
            for (p4, p5) in variants:
                h = bytes([0x30 + a, 0x20, 0x30 + b, 0x20, p4, p5, rng.getrandbits(8), rng.getrandbits(8)])
                pre = [small_msg(rng, rng.choice([0, 1, 9])) for _ in range(rng.choice([0, 0, 1, 2]))]
                extra = b"" if rng.random() < 0.4 else hdr(1, 2) + b"\x55"
                total = sum(8 + msg_len(m) for m in pre) + 8 + len(extra)
                mk(cases, "legacy" if spec_is_legacy(h) else "near-legacy", pre,
                   {"kind": "bad", "hdr": h.hex(), "extra": extra.hex()},
                   random_sizes(rng, total, rng.choice(["one", "rand", "zeros", "bytes"])),
                   rng.choice([0, 2, 3, 4]), transport="unix" if (a * 10 + b) % 25 == 0 and p4 == 0x30 and p5 == 0x0a else "chunk")
    for p0, p1, p2, p3 in [(0x2f, 0x20, 0x31, 0x20), (0x3a, 0x20, 0x31, 0x20), (0x31, 0x21, 0x31, 0x20),
                           (0x31, 0x20, 0x2f, 0x20), (0x31, 0x20, 0x3a, 0x20), (0x31, 0x20, 0x31, 0x21),
                           (0x31, 0x20, 0x31, 0x1f), (0x31, 0x20, 0x31, 0x00), (0x31, 0x20, 0x31, 0xa0)]:
        h = bytes([p0, p1, p2, p3, 0x30, 0x0a, 0, 0])
        if bad_header_ok(h):
            mk(cases, "near-legacy", [small_msg(rng, 1)], {"kind": "bad", "hdr": h.hex(), "extra": "00"},
               random_sizes(rng, 18), 2)

    # C'. oversize announcements (small streams; the announced amount never follows)
    for ann in [MAXSZ + 1, MAXSZ + 2, 3 << 20, 1 << 24, 0x20000000, 1 << 31, 2 ** 32 - 1] + \
               [rng.randint(MAXSZ + 1, 2 ** 32 - 1) for _ in range(6 if not thorough else 60)]:
        for t in (2, rng.choice([0, 1, 3, 2 ** 32 - 1])):
            pre = [small_msg(rng, rng.choice([0, 1, 9, 100])) for _ in range(rng.choice([0, 1, 2]))]
            extra = rng.choice([b"", hdr(1, 2) + b"\x55", rbody(rng, 30)])
            total = sum(8 + msg_len(m) for m in pre) + 8 + len(extra)
            mk(cases, "oversize", pre, {"kind": "bad", "hdr": hdr(ann, t).hex(), "extra": extra.hex()},
               random_sizes(rng, total), rng.choice([0, 2, 3, 4]),
               transport="pipe" if ann % 3 == 0 else "chunk")

    # D. truncation at every offset of two-message streams
    for msgs in ([{"t": 2, "hex": rbody(rng, 9).hex()}, {"t": 7, "hex": "aa"}],
                 [{"t": 0, "hex": ""}, {"t": 2, "hex": rbody(rng, 7).hex()}]):
        total = sum(8 + msg_len(m) for m in msgs)
        for cut in range(total):
            acc, k = 0, 0
            while acc + 8 + msg_len(msgs[k]) <= cut:
                acc += 8 + msg_len(msgs[k])
                k += 1
            tail = {"kind": "partial", "msg": msgs[k], "keep": cut - acc}
            mk(cases, "truncated", msgs[:k], tail, random_sizes(rng, cut, rng.choice(["one", "bytes", "rand"])), 2,
               transport="pipe" if cut % 9 == 0 else "chunk")
    for _ in range(10 if not thorough else 100):
        pre = [small_msg(rng, rng.choice([0, 9, 100])) for _ in range(rng.randint(0, 3))]
        last = small_msg(rng, rng.choice([1, 9, 100, 4096]))
        keep = min(rng.choice([1, 7, 8, 9, 8 + msg_len(last) - 1, rng.randint(0, 8 + msg_len(last) - 1)]),
                   8 + msg_len(last) - 1)
        total = sum(8 + msg_len(m) for m in pre) + keep
        mk(cases, "truncated", pre, {"kind": "partial", "msg": last, "keep": keep}, random_sizes(rng, total), 4)

    # E. boundary sizes: bodies by fill rule, Coq side on descriptors
    def bigmsg(n, t):
        return {"t": t, "fill": {"n": n, "a": rng.choice([1, 3, 7, 251]), "b": rng.getrandbits(8)}}

    chunkings = [[], [3, 5, 65536, 65536], [8, 1 << 20], [7, 1, 4096] + [65536] * 40]
    for n in (MAXSZ - 1, MAXSZ):
        for ci, sz in enumerate(chunkings if thorough else chunkings[:3]):
            mk(cases, "big-valid", [bigmsg(n, rng.choice([2, 2 ** 32 - 1]))], NONE, sz, [3, 0, 5, 1][ci], big=True,
               transport=["chunk", "pipe", "chunk", "unix"][ci])
    mk(cases, "big-valid", [small_msg(rng, 9, 2), bigmsg(MAXSZ, 1), small_msg(rng, 0, 5), bigmsg(MAXSZ - 1, 2)], NONE,
       [10, 100000] * 30, 5, big=True)
    # 2 MiB + 1 announced AND sent: must not be read as a message
    for ann, t in ((MAXSZ + 1, 2), (MAXSZ + 1, 1), (MAXSZ + 2, 2)):
        mk(cases, "big-oversize", [small_msg(rng, 1, 2)],
           {"kind": "bad", "hdr": hdr(ann, t).hex(), "extra_fill": {"n": ann, "a": 1, "b": 0}},
           [9, 8, 65536], 3, big=True)
    mk(cases, "big-oversize", [bigmsg(MAXSZ, 2)],
       {"kind": "bad", "hdr": hdr(2 ** 32 - 1, 2).hex(), "extra": "00" * 16}, [1 << 16] * 5, 1, big=True)
    # a 2 MiB frame with its last byte (or all but the header) missing
    for keep in (8 + MAXSZ - 1, 8, 9, 8 + (1 << 20)):
        mk(cases, "big-truncated", [small_msg(rng, 8, 2)],
           {"kind": "partial", "msg": bigmsg(MAXSZ, 2), "keep": keep}, [16, 8, 65536], 3, big=True)

    # F. REPLY lengths swept densely: the request's type is the reply length asked for (mode 6), the reply
    #    a non-constant pattern; several per connection, so a reply that is not exactly one frame also
    #    shifts the next one.  Every length 0..1100, then 2^k-9..2^k+9.
    def pat():
        return bytes([rng.choice([1, 3, 5, 7, 11, 13, 251]), rng.getrandbits(8)])

    def groups(lengths, per):
        out = []
        for i in range(0, len(lengths), per):
            g = lengths[i:i + per]
            rng.shuffle(g)
            out.append(g)
        return out

    def reply_conn(lens, big=False, transport=None):
        msgs = [{"t": n, "hex": rbody(rng, rng.choice([0, 0, 1, 9])).hex()} for n in lens]
        total = sum(8 + msg_len(m) for m in msgs)
        tr = transport or rng.choice(["chunk"] * 8 + ["pipe", "unix"])
        mk(cases, "reply-sweep" if not big else "big-reply", msgs, NONE,
           random_sizes(rng, total, rng.choice(["one", "rand", "few"])), 6, fixed=pat(), transport=tr, big=big)

    for g in groups(list(range(0, SWEEP_MAX + 1)), 10):
        reply_conn(g)
    for k, per in ((11, 4), (12, 3), (13, 2)):
        for g in groups([2 ** k + d for d in range(-9, 10)], per):
            reply_conn(g)
    for k in (14, 15, 16):                      # descriptor form: the harness compares the reply bodies
        for g in groups([2 ** k + d for d in range(-9, 10)], 4):
            reply_conn(g, big=True)
    for g in ([1 << 20, 505, (1 << 20) + 1, 512], [MAXSZ, 504, 513, MAXSZ - 1], [MAXSZ + 1, 0, 1, 3 << 20]):
        reply_conn(g, big=True, transport="chunk")
    reply_conn([70000, 511, 131072], big=True, transport="pipe")
    reply_conn([65536, 510, 99999], big=True, transport="unix")

    # G. REQUEST lengths swept the same way (bodies by pattern), replies by type (nil / empty / fixed)
    def req_conn(lens, big=False):
        msgs = [{"t": rtype(rng), "fill": {"n": n, "a": rng.choice([1, 3, 7, 251]), "b": rng.getrandbits(8)}} for n in lens]
        total = sum(8 + n for n in lens)
        sizes = random_sizes(rng, total, rng.choice(["one", "rand", "few", "pow"])) if not big else \
            rng.choice([[], [8, 1], [65536] * (total // 65536), random_sizes(rng, total, "few")])
        mk(cases, "request-sweep" if not big else "big-request", msgs, NONE, sizes, rng.choice([5, 5, 0, 3]),
           fixed=rbody(rng, rng.choice([1, 5, 40])), transport=rng.choice(["chunk"] * 8 + ["pipe", "unix"]), big=big)

    for g in groups(list(range(0, SWEEP_MAX + 1)), 10):
        req_conn(g)
    for k, per in ((11, 4), (12, 3), (13, 2)):
        for g in groups([2 ** k + d for d in range(-9, 10)], per):
            req_conn(g)
    for k in (14, 15, 16, 17, 18, 19, 20):
        for g in groups([2 ** k + d for d in range(-9, 10)], 4 if k <= 16 else 10):
            req_conn(g, big=True)
    return cases


def gen_writers(rng):
    """H. the exported writer used directly: WriteString (and Write) of every length 0..SWEEP_MAX and around
    the powers of two, ten calls on one MessageWriter."""
    lens = list(range(0, SWEEP_MAX + 1)) + [2 ** k + d for k in (11, 12, 13) for d in range(-9, 10)]
    writers = []
    for i in range(0, len(lens), 10):
        g = lens[i:i + 10]
        rng.shuffle(g)
        a, b = rng.choice([1, 3, 5, 7, 11, 13, 251]), rng.getrandbits(8)
        ops = [{"s": rng.random() < 0.8, "len": n, "t": rtype(rng)} for n in g]
        writers.append({"a": a, "b": b, "ops": ops})
    return writers


# ---------------------------------------------------------------- Coq terms

def cmsg(m):
    if "fill" in m:     # body by rule, rebuilt inside Coq (gen_ok compares it with the bytes fed to Go)
        f = m["fill"]
        return "(%s, fill %s %s %s)" % (cN(m["t"]), cN(f["n"]), cN(f["a"]), cN(f["b"]))
    return "(%s, %s)" % (cN(m["t"]), cpk(msg_body(m)))


def ctail_small(t):
    if t["kind"] == "none":
        return "TNone"
    if t["kind"] == "bad":
        return "(TBadHeader %s %s)" % (cbytes(bytes.fromhex(t["hdr"])), cpk(bytes.fromhex(t.get("extra", ""))))
    m = t["msg"]
    part = (hdr(msg_len(m), m["t"]) + msg_body(m))[:t["keep"]]
    return "(TPartial %s)" % cpk(part)


def end_code(s):
    return {"eof": 0, "legacy": 1, "error": 2}.get(s, 9)


def reply_len(case, m):
    """length of the reply the case's handler gives to message m, None = nil"""
    mode, t, n, fx = case["mode"], m["t"], msg_len(m), len(case["fixed"]) // 2
    if mode == 4:
        mode = [0, 1, 2, 3, 2][t % 5]
    elif mode == 5 or mode > 6:
        mode = [0, 1, 3][t % 3]
    return {0: None, 1: 0, 2: n, 3: fx, 6: t}[mode]


def coq_small_case(case, o):
    stream = stream_bytes(case)
    ms = clist([cmsg(m) for m in case["msgs"]])
    # Observed values longer than anything this case can legitimately produce are clipped just above that
    # length: they still differ from every expected value, and the case file stays small when a defect
    # makes the implementation deliver or write megabytes.
    max_body = max([msg_len(m) for m in case["msgs"]] + [0]) + 64
    exp_written = sum(8 + r for r in (reply_len(case, m) for m in case["msgs"]) if r is not None) + 10 + 64
    got = [(d["t"], bytes.fromhex(d.get("hex", ""))[:max_body]) for d in o["delivered"]][:len(case["msgs"]) + 8]
    gdel = clist(["(%s, %s)" % (cN(t), cpk(b)) for t, b in got])
    return ("(mk_sc %s %s %s %s %s %s %d%%nat %s %s %s %s %s)"
            % (cpk(stream), clist([cN(k) for k in case["sizes"]]), cN(case["mode"]),
               cbytes(bytes.fromhex(case["fixed"])), ms, ctail_small(case["tail"]), len(case["msgs"]) + 2,
               gdel, cpk(bytes.fromhex(o["written"])[:exp_written]), cbool(o["closed"]), cbool(o["alloc_bounded"]),
               cN(end_code(o["end"]))))


def coq_big_case(case, o):
    ds = clist(["(%s, %s)" % (cN(m["t"]), cN(msg_len(m))) for m in case["msgs"]])
    hdrs = clist([cbytes(hdr(msg_len(m), m["t"])) for m in case["msgs"]])
    t = case["tail"]
    if t["kind"] == "none":
        tl, td = "TNone", "DNone"
    elif t["kind"] == "bad":
        h = cbytes(bytes.fromhex(t["hdr"]))
        tl, td = "(TBadHeader %s [])" % h, "(DBad %s)" % h
    else:
        m = t["msg"]
        first8 = hdr(msg_len(m), m["t"])[:min(8, t["keep"])]
        tl, td = "(TPartial %s)" % cbytes(first8), "(DPartial %s %s)" % (cbytes(first8), cN(t["keep"]))
    gdel = clist(["(%s, %s)" % (cN(d["t"]), cN(d["n"])) for d in o["delivered"]])
    frames = clist(["(%s, %s)" % (cN(d["t"]), cN(d["n"])) for d in (o.get("frames") or [])])
    return ("(mk_bc %s %s %s %s %s %s %s %s %s %s %s %s %s %s)"
            % (ds, hdrs, tl, td, cN(case["mode"]), cN(len(case["fixed"]) // 2), gdel,
               cbool(o["bodies_ok"]), frames, cbool(o.get("replies_ok", False)), cbytes(bytes.fromhex(o.get("left", ""))),
               cbool(o["closed"]), cbool(o["alloc_bounded"]), cN(end_code(o["end"]))))


def coq_writer_case(w, o):
    ops = clist(["(%s, %s)" % (cN(op["t"]), cN(op["len"])) for op in w["ops"]])
    exp = sum(8 + op["len"] for op in w["ops"]) + 64
    return "(mk_wc %s %s %s %s)" % (ops, cN(w["a"]), cN(w["b"]), cpk(bytes.fromhex(o["written"])[:exp]))


PRELUDE = """From Coq Require Import Uint63 ZArith NArith List Bool.
From Verif Require Import Common Framing.
Import ListNotations.
Open Scope N_scope.
(* byte strings arrive packed 7 bytes per primitive integer (marker bit above the last byte) *)
Fixpoint unpack_word (fuel : nat) (w : int) : list N :=
  match fuel with
  | O => []
  | S f => if Uint63.leb w 1%uint63 then []
           else Z.to_N (Uint63.to_Z (Uint63.land w 255%uint63)) :: unpack_word f (Uint63.lsr w 8%uint63)
  end.
Definition unpack (ws : list int) : bytes := flat_map (unpack_word 8) ws.
Record scase := mk_sc { c_stream : bytes; c_sizes : list N; c_mode : N; c_fixed : bytes; c_ms : list msg;
  c_tail : tail; c_fuel : nat; g_del : list msg; g_written : bytes; g_closed : bool; g_alloc : bool; g_end : N }.
Record bcase := mk_bc { b_ds : list desc; b_hdrs : list bytes; b_tail : tail; b_td : tail_d; b_mode : N;
  b_fixed_len : N; gd_del : list desc; gd_bodies : bool; gd_frames : list desc; gd_replies : bool;
  gd_left : bytes; gd_closed : bool; gd_alloc : bool; gd_end : N }.
(* direct calls of MessageWriter.Write / WriteString on one writer: (type, length) per call, pattern a b *)
Record wcase := mk_wc { w_ops : list (N * N); w_a : N; w_b : N; gw_written : bytes }.
Definition corr_ok_w (c : wcase) : bool :=
  bytes_eqb (concat (map (fun op => write_message (fst op) (fill (snd op) (w_a c) (w_b c))) (w_ops c))) (gw_written c).
Definition prop_ok_w (c : wcase) : bool :=
  forallb (fun b => b <? 256) (gw_written c) &&
  match replies_framedb (map (fun op => (fst op, Some (fill (snd op) (w_a c) (w_b c)))) (w_ops c)) (gw_written c) with
  | Some rest => bytes_eqb rest []
  | None => false
  end.
(* the bytes fed to the implementation are the encoding the theorems speak about *)
Definition gen_ok (c : scase) : bool :=
  bytes_eqb (c_stream c) (encode (c_ms c) ++ tail_bytes (c_tail c)) && input_ok (c_ms c) (c_tail c).
(* correspondence: model run on the same chunks vs observed *)
Definition corr_ok (c : scase) : bool :=
  let o := serve (c_fuel c) (mk_handler (c_mode c) (c_fixed c)) (chunk_by (c_sizes c) (c_stream c)) in
  msgs_eqb (delivered o) (g_del c) && bytes_eqb (written o) (g_written c)
  && (end_class (ended o) =? g_end c) && Bool.eqb (allocs_bounded o) (g_alloc c) && g_closed c.
(* property: model-independent monitor on the observed behaviour *)
Definition prop_ok (c : scase) : bool :=
  monitor (mk_handler (c_mode c) (c_fixed c)) (c_ms c) (c_tail c) (g_del c)
          (mk_obs (g_written c) (g_closed c) (g_alloc c)).
Fixpoint hdrs_ok (ds : list desc) (hs : list bytes) : bool :=
  match ds, hs with
  | [], [] => true
  | d :: ds', h :: hs' => bytes_eqb h (header (snd d) (fst d)) && hdrs_ok ds' hs'
  | _, _ => false
  end.
Definition gen_ok_d (c : bcase) : bool := hdrs_ok (b_ds c) (b_hdrs c) && input_ok_d (b_ds c) (b_tail c).
Definition corr_ok_d (c : bcase) : bool :=
  match predict_dl (mk_lhandler (b_mode c) (b_fixed_len c)) (b_ds c) (b_td c) with
  | (ds, rs, lft, e, a) => descs_eqb ds (gd_del c) && descs_eqb rs (gd_frames c) && bytes_eqb lft (gd_left c)
                            && (e =? gd_end c) && Bool.eqb a (gd_alloc c) && gd_closed c && gd_bodies c
                            && gd_replies c
  end.
Definition prop_ok_d (c : bcase) : bool :=
  monitor_dl (mk_lhandler (b_mode c) (b_fixed_len c)) (b_ds c) (b_tail c) (gd_del c) (gd_bodies c)
             (gd_frames c) (gd_replies c) (gd_left c) (gd_closed c) (gd_alloc c).
"""


def coq_shard(name, small, big, writers=()):
    v = PRELUDE
    v += "Definition scases : list scase := %s.\n" % clist(small)
    v += "Definition bcases : list bcase := %s.\n" % clist(big)
    v += "Definition wcases : list wcase := %s.\n" % clist(list(writers))
    v += """Definition gen_bad := Eval vm_compute in bad_idx gen_ok scases 0.
Definition corr_bad := Eval vm_compute in bad_idx corr_ok scases 0.
Definition prop_bad := Eval vm_compute in bad_idx prop_ok scases 0.
Definition gen_bad_d := Eval vm_compute in bad_idx gen_ok_d bcases 0.
Definition corr_bad_d := Eval vm_compute in bad_idx corr_ok_d bcases 0.
Definition prop_bad_d := Eval vm_compute in bad_idx prop_ok_d bcases 0.
Definition corr_bad_w := Eval vm_compute in bad_idx corr_ok_w wcases 0.
Definition prop_bad_w := Eval vm_compute in bad_idx prop_ok_w wcases 0.
Print gen_bad. Print corr_bad. Print prop_bad. Print gen_bad_d. Print corr_bad_d. Print prop_bad_d.
Print corr_bad_w. Print prop_bad_w.
"""
    rc, out = vlib.coq_eval(name, v, timeout=600)
    res = {}
    for k in ("gen_bad", "corr_bad", "prop_bad", "gen_bad_d", "corr_bad_d", "prop_bad_d", "corr_bad_w", "prop_bad_w"):
        res[k] = vlib.parse_nat_list(vlib.parse_printed(out, k))
    return rc, out, res


def coq_tables(tables, tobs):
    """All 65536 values of header bytes 4-5 for each sampled legacy digit pair: model (is_legacy_agent +
    size check, through serve) and monitor (spec_legacy) against what serve() did."""
    v = PRELUDE
    defs = []
    for i, (ti, to) in enumerate(zip(tables, tobs)):
        lm, sm = int(to["legacy"] or "0", 16), int(to["silent"] or "0", 16)
        lc = clist(["0x%x" % ((lm >> (64 * k)) & (2 ** 64 - 1)) for k in range(1024)])
        sc = clist(["0x%x" % ((sm >> (64 * k)) & (2 ** 64 - 1)) for k in range(1024)])
        defs.append("(%s, %s, %s, %s, %s, %s)" % (cN(ti["a"]), cN(ti["b"]), cN(ti["p6"]), cN(ti["p7"]), lc, sc))
    v += "Definition tables : list (N * N * N * N * list N * list N) := %s.\n" % clist(defs)
    v += """Definition bit (chunks : list N) (w : N) : bool := N.testbit (nth (N.to_nat (w / 64)) chunks 0) (w mod 64).
Definition hdr_of (a b p6 p7 w : N) : bytes := [a; 32; b; 32; w mod 256; w / 256; p6; p7].
(* model: the whole serve loop on the one-chunk stream; 1 = legacy answer, 0 = silent close *)
Definition model_class (h : bytes) : N :=
  let o := serve 2 (mk_handler 2 []) [h] in
  match delivered o with
  | [] => if bytes_eqb (written o) legacy_reply then 1 else if bytes_eqb (written o) [] then 0 else 2
  | _ => 2
  end.
Definition obs_class (l s : list N) (w : N) : N := if bit l w then 1 else if bit s w then 0 else 2.
(* property: legacy pattern -> the fixed answer; otherwise (announces > 2 MiB) -> silent close *)
Definition spec_class (h : bytes) : N :=
  if spec_legacy h then 1 else if 2097152 <? spec_announced h then 0 else 2.
Definition tbl_bad (f : bytes -> N) (t : N * N * N * N * list N * list N) : list N :=
  let '(a, b, p6, p7, l, s) := t in
  filter (fun w => negb (f (hdr_of a b p6 p7 w) =? obs_class l s w)) (upto 65536).
Definition table_corr_bad := Eval vm_compute in map (fun t => firstn 5 (tbl_bad model_class t)) tables.
Definition table_prop_bad := Eval vm_compute in map (fun t => firstn 5 (tbl_bad spec_class t)) tables.
Print table_corr_bad. Print table_prop_bad.
"""
    rc, out = vlib.coq_eval("cases_c09_tables", v, timeout=600)
    res = {}
    for k in ("table_corr_bad", "table_prop_bad"):
        txt = vlib.parse_printed(out, k)
        if txt is None:
            res[k] = None
            continue
        inner = re.findall(r"\[([0-9;%N ]*)\]", txt.strip()[1:-1]) if txt.strip() not in ("[]", "nil") else []
        res[k] = [vlib.parse_nat_list("[" + x + "]") for x in inner]
    return rc, out, res


# ---------------------------------------------------------------- the check

def run(chk, replay=None):
    st = vlib.std_coq_stage(chk, "PropC09", gen=False)
    rng = random.Random(chk.seed)
    if replay:
        cases = json.load(open(replay))["cases"]
        for i, c in enumerate(cases):
            c["id"] = i
    else:
        cases = gen_cases(rng, chk.tier)

    binary, blog = vlib.go_test_binary("newrelic", only=["c09"])
    if binary is None:
        chk.notes.append("harness build failed: " + blog[-2000:])
        chk.fail("harness_build.txt", "correspondence harness (internal/newrelic, TestVerifC09) does not build "
                 "against the current tree:\n" + blog, no_input=True)
        return
    inp = os.path.join(vlib.BUILD, "c09_in.json")
    outp = os.path.join(vlib.BUILD, "c09_out.jsonl")
    if replay:
        tables = json.load(open(replay)).get("tables", [])
    else:
        npairs = 1 if chk.tier == "quick" else 10
        tables = [{"a": 0x30 + rng.randint(0, 9), "b": 0x30 + rng.randint(0, 9), "p6": rng.getrandbits(8),
                   "p7": rng.getrandbits(8)} for _ in range(npairs)]
    if replay:
        writers = json.load(open(replay)).get("writers", [])
    else:
        writers = gen_writers(rng)
    json.dump({"cases": [go_case(c) for c in cases], "tables": tables, "writers": writers}, open(inp, "w"))
    if os.path.exists(outp):
        os.remove(outp)
    rc, out = vlib.run_go_test(binary, "TestVerifC09", {"VERIF_IN": inp, "VERIF_OUT": outp}, timeout=600)
    obs, tobs, wobs = [], [], []
    if os.path.exists(outp):
        for line in open(outp):
            line = line.strip()
            if line:
                try:
                    rec = json.loads(line)
                except ValueError:
                    break
                (tobs if "table" in rec else wobs if "writer" in rec else obs).append(rec)
    if rc != 0 or len(obs) != len(cases) or len(tobs) != len(tables) or len(wobs) != len(writers):
        if len(obs) < len(cases):
            c = cases[len(obs)]
            chk.fail("crash_case_%d.json" % c["id"],
                     {"what": "the harness process died or hung while serving this stream (rc=%d)" % rc,
                      "cases": [c], "log_tail": out[-3000:]}, sig="c09-crash-" + c["kind"])
        else:
            chk.fail("harness_run.txt", "harness TestVerifC09 failed (rc=%d):\n%s" % (rc, out[-4000:]), no_input=True)
        cases = cases[:len(obs)]
        tables = tables[:len(tobs)]
        writers = writers[:len(wobs)]
        if not cases and not tables and not writers:
            return

    # ---- a connection that keeps delivering after it should have ended produces observations far too large to print
    # as Coq terms: more deliveries than the stream has segments is a violation on its face (seeded/C09e2)
    nsegs = {c["id"]: len(segs_of(c)[0]) for c in cases}
    runaway = [(c, o) for c, o in zip(cases, obs) if len(o.get("delivered") or []) > nsegs[c["id"]] + 1]
    for c, o in runaway[:3]:
        o2 = dict(o)
        o2["delivered"] = (o.get("delivered") or [])[:12]
        chk.fail("runaway_case_%d.json" % c["id"],
                 {"what": "the handler was given %d messages for a stream of %d segments: messages were delivered that the peer never "
                          "framed (after an oversized / legacy / truncated frame the connection must end)" % (len(o["delivered"]), nsegs[c["id"]]),
                  "cases": [c], "observed_first_deliveries": o2}, sig="c09-runaway-" + c["kind"])
    rid = set(c["id"] for c, _ in runaway)
    keep = [(c, o) for c, o in zip(cases, obs) if c["id"] not in rid]
    cases, obs = [c for c, _ in keep], [o for _, o in keep]

    # ---- evaluate model + monitor inside Coq, sharded
    small = [(c, o) for c, o in zip(cases, obs) if not c["big"]]
    big = [(c, o) for c, o in zip(cases, obs) if c["big"]]
    nshard = max(1, min(10, len(small) // 300))
    shards = [small[i::nshard] for i in range(nshard)]
    wshards = [list(zip(writers, wobs))[i::nshard] for i in range(nshard)]
    jobs = []
    with concurrent.futures.ThreadPoolExecutor(max_workers=nshard + 1) as ex:
        for si, sh in enumerate(shards):
            sm = [coq_small_case(c, o) for c, o in sh]
            bg = [coq_big_case(c, o) for c, o in big] if si == 0 else []
            wr = [coq_writer_case(w, o) for w, o in wshards[si]]
            jobs.append((sh, big if si == 0 else [], wshards[si], ex.submit(coq_shard, "cases_c09_%d" % si, sm, bg, wr)))
        full = [(ti, to) for ti, to in zip(tables, tobs) if not to.get("aborted")]
        tfut = ex.submit(coq_tables, [x for x, _ in full], [y for _, y in full]) if full else None
    gen_bad, corr_bad, prop_bad, eval_fail = [], [], [], []
    corr_bad_w, prop_bad_w = [], []
    for sh, bg, ws, fut in jobs:
        rc2, cout, res = fut.result()
        if rc2 != 0 or any(v is None for v in res.values()):
            eval_fail.append(cout[-3000:])
            continue
        for key, dst, pool in (("gen_bad", gen_bad, sh), ("corr_bad", corr_bad, sh), ("prop_bad", prop_bad, sh),
                               ("gen_bad_d", gen_bad, bg), ("corr_bad_d", corr_bad, bg), ("prop_bad_d", prop_bad, bg)):
            for i in res[key]:
                dst.append(pool[i])
        corr_bad_w += [ws[i] for i in res["corr_bad_w"]]
        prop_bad_w += [ws[i] for i in res["prop_bad_w"]]
    tres = {"table_corr_bad": [], "table_prop_bad": []}
    if tfut is not None:
        rc3, tout, tres = tfut.result()
        if rc3 != 0 or any(v is None for v in tres.values()):
            eval_fail.append(tout[-3000:])
    if eval_fail:
        chk.fail("coq_eval.txt", "in-Coq evaluation of the C09 cases failed:\n" + "\n----\n".join(eval_fail), no_input=True)
        return

    # ---- coverage
    chk.cov["rule"] = ("streams = frames of valid messages (lengths {0,1,7,8,9,100,4096} byte-for-byte in Coq; "
                       "2^21-1, 2^21 by fill rule on descriptors) followed by nothing / a legacy or oversize header "
                       "(+ trailing bytes) / a proper prefix of one more frame; cut into chunks: every split-point set "
                       "of the tiny streams (exhaustive), 1-byte chunks, header split at each offset 1..7, empty "
                       "chunks, random; served by the real serve()/Listener.Serve with a recording handler "
                       "(nil / empty / echo / fixed / by-type replies / reply of the length the request's type asks for, "
                       "pattern content). Dense sweeps: REPLY lengths 0..1100 (every length) and 2^k-9..2^k+9 for "
                       "k=11..13 byte-for-byte in Coq, k=14..16 and 1 MiB / 2 MiB on descriptors (harness compares "
                       "bodies), ten (or fewer large) replies per connection; REQUEST lengths 0..1100 and 2^k-9..2^k+9 "
                       "for k=11..13 byte-for-byte, k=14..20 on descriptors; MessageWriter.Write/WriteString called "
                       "directly for every length 0..1100 and around 2^11..2^13, ten calls per writer. Byte strings "
                       "reach Coq packed 7 bytes per primitive integer and are unpacked there. Non-trivial = "
                       "non-empty stream; distinct by (stream, chunk sizes, reply mode, transport)")
    dist, tdist = {}, {}
    for c in cases:
        proj = {"k": c["kind"], "m": [(m["t"], m.get("hex", m.get("fill"))) for m in c["msgs"]], "t": c["tail"],
                "s": c["sizes"], "mode": c["mode"], "tr": c["transport"]}
        chk.count_case(proj, nontrivial=bool(c["msgs"]) or c["tail"]["kind"] != "none")
        dist[c["kind"]] = dist.get(c["kind"], 0) + 1
        tdist[c["transport"]] = tdist.get(c["transport"], 0) + 1
    chk.cov["input_distribution"] = {"kinds": dist, "transports": tdist,
                                     "reply_modes": {str(m): sum(1 for c in cases if c["mode"] == m) for m in range(6)},
                                     "small_cases_in_coq": len(small), "descriptor_cases": len(big)}
    for c, o in (small[-1:] + big[:1]):
        chk.sample({"kind": c["kind"], "msg_lens": [msg_len(m) for m in c["msgs"]], "tail": c["tail"]["kind"],
                    "chunks": c["sizes"][:12], "delivered": [(d["t"], d["n"]) for d in o["delivered"]],
                    "end": o["end"], "closed": o["closed"], "alloc_delta": o["alloc_delta"]})

    # ---- decide
    seen = set()
    for c, o in prop_bad:
        if c["id"] in seen:
            continue
        seen.add(c["id"])
        sent = [(m["t"], msg_len(m)) for m in c["msgs"]]
        chk.fail("case_%d.json" % c["id"],
                 {"what": "framing property violated on this stream (delivered != complete valid frames sent, or "
                          "replies not framed as (len, request type, body), or connection not closed, or the announced "
                          "size was allocated)",
                  "sent_type_len": sent, "tail": c["tail"]["kind"], "observed": o, "cases": [c]},
                 sig="c09-" + c["kind"])
    for k, (w, o) in enumerate(prop_bad_w[:5]):
        chk.fail("writer_%d.json" % k,
                 {"what": "MessageWriter.Write/WriteString did not write exactly le32(len) ++ le32(type) ++ body for "
                          "each call (calls in order; s = WriteString; body byte i = (a*i+b) mod 256)",
                  "calls": w["ops"], "returned_counts": o["counts"], "written_len": len(o["written"]) // 2,
                  "expected_len": sum(8 + op["len"] for op in w["ops"]), "cases": [], "writers": [w]},
                 sig="c09-writer")
    for ti, to in zip(tables, tobs):
        if to.get("aborted"):
            chk.fail("table_alloc.json",
                     {"what": "handling 256 eight-byte headers (each announcing >= 512 MiB) allocated more than 64 MiB: "
                              "the announced amount is being allocated", "headers_done": to["done"], "cases": [],
                      "tables": [ti]}, sig="c09-table-alloc")
    tables = [x for x, _ in full]
    for i, bad in enumerate(tres["table_prop_bad"]):
        if bad:
            ti = tables[i]
            w = bad[0]
            h = [ti["a"], 0x20, ti["b"], 0x20, w & 0xFF, w >> 8, ti["p6"], ti["p7"]]
            chk.fail("table_%d.json" % i,
                     {"what": "an 8-byte header is answered wrongly: the legacy pattern 'D D 0\\n' must get exactly the "
                              "fixed 10-byte answer, every other header announcing > 2 MiB must get nothing; both close",
                      "header_bytes": h, "bytes_4_5_values_first_5": bad, "cases": [], "tables": [ti]},
                     sig="c09-legacy-table")
    broken = []
    if corr_bad_w:
        broken.append("correspondence Framing.write_message vs MessageWriter.Write/WriteString differs for %s"
                      % json.dumps([w for w, _ in corr_bad_w[:3]])[:1500])
    if any(tres["table_corr_bad"]):
        broken.append("correspondence Framing.serve vs serve() differs on header bytes 4-5 values %s (tables %s)"
                      % (tres["table_corr_bad"], tables))
    if not st["build_ok"]:
        broken.append("theorems of PropC09.v no longer check:\n" + st["log"][-3000:])
    if gen_bad:
        broken.append("generator inconsistency (stream bytes != Framing.encode, or input outside the property's "
                      "domain) on cases %s" % [c["id"] for c, _ in gen_bad[:10]])
    cb = [(c, o) for c, o in corr_bad if c["id"] not in seen]
    if corr_bad:
        broken.append("correspondence Framing.serve vs serve()/ReadMessage differs on cases %s; first: %s observed %s"
                      % ([c["id"] for c, _ in corr_bad[:10]], json.dumps(corr_bad[0][0])[:1500],
                         json.dumps(corr_bad[0][1])[:1500]))
    incons = [c["id"] for c, o in zip(cases, obs) if not o["rm_same"]]
    if incons:
        broken.append("a plain ReadMessage loop and the handler of serve() saw different messages on cases %s" % incons[:10])
    if broken and not chk.violations:
        chk.fail("broken.txt", "\n\n".join(broken), no_input=True)
    chk.cov["disagreements"] = {"gen": len(gen_bad), "corr": len(corr_bad), "prop": len(prop_bad), "rm_loop": len(incons),
                                "writer_corr": len(corr_bad_w), "writer_prop": len(prop_bad_w),
                                "table_corr": sum(len(b) for b in tres["table_corr_bad"]),
                                "table_prop": sum(len(b) for b in tres["table_prop_bad"])}
    chk.cov["exhaustive_header_tables"] = {"digit_pairs": [(chr(t["a"]), chr(t["b"])) for t in tables],
                                           "headers_each": 65536}
    chk.cov["writer_sweeps"] = {"writers": len(writers), "calls": sum(len(w["ops"]) for w in writers),
                                "WriteString_calls": sum(1 for w in writers for op in w["ops"] if op["s"])}
    for w in writers:
        chk.count_case(w, nontrivial=True)
    chk.cov["evaluations"] += 65536 * len(tables)
    chk.cov["distinct_nontrivial"] += 65536 * len(tables)
    chk.assumptions += [
        "a transport is a sequence of Read results (chunks); a Read never returns data together with an error",
        "writes to the connection succeed (a failed reply write just ends the loop; not modelled)",
        "handler panics (recover in serve) belong to C10 and are not modelled here",
        "allocation is observed as runtime.MemStats.TotalAlloc growth < 1 MiB while ReadMessage handles a bad header",
        "bodies or replies above 8 KiB+9: Coq compares (type, length) of delivered messages and of the reply frames, "
        "the bytes after the replies, end class and allocation flag; byte equality of those bodies is checked by the Go harness",
        "the case files use Coq's primitive 63-bit integers (Uint63) only to carry byte literals; no theorem depends on them",
    ]
