"""C04 -- processor-level property; see proccheck.py / procgen.py / coq/Processor.v / coq/ProcMonitor.v."""
import appkeycheck
import proccheck

LEVEL = "proof"


def run(chk, replay=None):
    proccheck.run(chk, "PropC04", {'multi': 6, 'staletick': 3, 'mixed': 2, 'lifecycle': 1}, 260, 4000, [102, 401], replay=replay)
    appkeycheck.run_stage(chk)
