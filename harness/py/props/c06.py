"""C06 -- when over capacity, the highest-priority items are the ones kept.

Real containers (event reservoirs of all five kinds, ErrorHeap, TxnTraces, SlowSQLs) are driven by the
overlay-injected harness TestVerifC06; the observed contents are compared, inside Coq,
  * with the Gallina models (correspondence, on projections that do not depend on tie-breaks),
  * with model-independent monitors (the property itself on inputs/outputs),
and, for the record only, with the models' exact array order ("strict").
"""
import itertools
import json
import os
import random
from concurrent.futures import ThreadPoolExecutor

import vlib
from vlib import cN, cZ, cnat, cbool, clist

LEVEL = "proof"
GRID = 1 << 20
KINDS = ["txn", "custom", "error", "span", "log"]
SHARD = 700


# ------------------------------------------------------------------ generators

class Gen:
    def __init__(self, rng, tier):
        self.rng, self.tier = rng, tier
        self.res, self.res_meta = [], []       # harness input + (group, is_top)
        self.errors, self.traces, self.slows = [], [], []
        self.tag = 0
        self.kind_i = 0

    def newtag(self):
        self.tag += 1
        return self.tag

    def kind(self, need_synth=False):
        if need_synth:
            return "txn"
        self.kind_i += 1
        return KINDS[self.kind_i % len(KINDS)]

    def add_res(self, kind, k, ops, group, split=False, top=True):
        self.res.append({"kind": kind, "k": k, "ops": ops, "split": split})
        self.res_meta.append({"group": group, "top": top})
        return len(self.res) - 1

    def adds(self, items):
        """items: list of (p, synth)"""
        return [{"op": "synth" if s else "add", "p": p, "t": self.newtag(), "r": 0} for p, s in items]

    # -- event reservoirs
    def perms(self):
        quick = self.tier == "quick"
        msets = [
            ([(1, 0), (2, 0), (3, 0), (4, 0), (5, 0)], [1, 2, 3]),
            ([(1, 0), (1, 0), (2, 0), (3, 0), (3, 0)], [0, 1, 2, 3]),
            ([(2, 0), (2, 0), (2, 0), (2, 0), (2, 0)], [0, 1, 2, 3]),
            ([(1, 0), (2, 0), (2, 0), (3, 0), (3, 0), (3, 0)], [1, 2, 3]),
            ([(1, 0), (1, 0), (2, 0), (2, 0), (3, 0), (3, 0)], [2, 3]),
            ([(1, 1), (5, 0), (3, 0), (2, 1), (5, 0)], [1, 2, 3]),       # synthetics among regular
        ]
        if not quick:
            msets += [
                ([(i, 0) for i in range(1, 7)], [1, 2, 3]),
                ([(i, 0) for i in range(1, 8)], [3]),
                ([(1, 0), (1, 0), (2, 0), (2, 0), (3, 0), (3, 0), (4, 0)], [3]),
                ([(1, 1), (2, 1), (9, 0), (8, 0), (7, 0), (1, 0)], [1, 2, 3]),
            ]
        for ms, ks in msets:
            need = any(s for _, s in ms)
            for perm in sorted(set(itertools.permutations(ms))):
                for k in ks:
                    items = [(p * 1000, s) for p, s in perm]
                    self.add_res(self.kind(need), k, self.adds(items), "perm")

    def rand_items(self, n, mode, synth_rate=0.0):
        rng = self.rng
        out = []
        base = rng.randrange(0, GRID)
        for i in range(n):
            if mode == "wide":
                p = rng.randrange(0, 2 * GRID)
            elif mode == "unit":
                p = rng.randrange(0, GRID)
            elif mode == "narrow":
                p = rng.choice([3, 4, 5, 6]) * 1000
            elif mode == "equal":
                p = base
            elif mode == "asc":
                p = base // 2 + i * 7
            elif mode == "desc":
                p = base + 5000 - i * 7
            else:
                p = rng.choice([0, 1, GRID - 1, GRID, 2 * GRID - 1])
            out.append((max(0, min(p, 2 * GRID - 1)), 1 if rng.random() < synth_rate else 0))
        return out

    def randoms(self):
        rng = self.rng
        quick = self.tier == "quick"
        ks = [1, 2, 3, 4, 7, 8, 15, 16, 17, 31, 32, 33, 64, 100] if quick else \
             [1, 2, 3, 4, 5, 7, 8, 9, 15, 16, 17, 31, 32, 33, 63, 64, 65, 100, 127, 128, 129, 255, 256, 833]
        modes = ["wide", "unit", "narrow", "equal", "asc", "desc", "edge"]
        reps = 1 if quick else 3
        for _ in range(reps):
            for k in ks:
                for n in sorted(set([max(k - 1, 0), k, k + 1, 3 * k])):
                    if k >= 255 and n == 3 * k and rng.random() < 0.5:
                        n = k + k // 2
                    mode = rng.choice(modes)
                    synth = rng.choice([0.0, 0.0, 0.2, 0.6])
                    kind = self.kind(synth > 0)
                    self.add_res(kind, k, self.adds(self.rand_items(n, mode, synth)), "random",
                                 split=rng.random() < 0.3)
        # capacity 0 with offers
        for n in (0, 1, 5):
            self.add_res(self.kind(), 0, self.adds(self.rand_items(n, "wide")), "random", split=(n == 5))

    def merges(self):
        rng = self.rng
        n_groups = 40 if self.tier == "quick" else 250
        for _ in range(n_groups):
            k = rng.choice([0, 1, 2, 3, 5, 8, 16, 20])
            synth = rng.choice([0.0, 0.3])
            kind = self.kind(synth > 0)
            mode = rng.choice(["wide", "narrow", "equal", "unit"])
            others = []
            for _j in range(rng.randint(1, 3)):
                k2 = rng.choice([0, 1, 2, 3, 5, 8, 16, 20, k])
                n2 = rng.choice([0, 1, max(k2 - 1, 0), k2, k2 + 1, 2 * k2 + 1])
                others.append(self.add_res(kind, k2, self.adds(self.rand_items(n2, mode, synth)), "merge",
                                           top=False))
            ops = self.adds(self.rand_items(rng.choice([0, 1, k, k + 2]), mode, synth))
            for o in others:
                ops.append({"op": rng.choice(["merge", "mergefailed"]), "p": 0, "t": 0, "r": o})
                ops += self.adds(self.rand_items(rng.choice([0, 1, 3]), mode, synth))
            self.add_res(kind, k, ops, "merge", split=rng.random() < 0.3)
        # two halves of a split-like pair merged back after a failure
        for _ in range(6 if self.tier == "quick" else 30):
            kind = self.kind()
            a = self.add_res(kind, 4, self.adds(self.rand_items(9, "wide")), "merge", top=False)
            b = self.add_res(kind, 4, self.adds(self.rand_items(2, "wide")), "merge", top=False)
            ops = [{"op": "mergefailed", "p": 0, "t": 0, "r": a}, {"op": "mergefailed", "p": 0, "t": 0, "r": b}]
            self.add_res(kind, 5, ops + self.adds(self.rand_items(2, "wide")), "merge")

    def chains(self):
        """MergeFailed chains: failedHarvests climbs 1, 2, ... and the 11th attempt is discarded."""
        rng = self.rng
        for length in ([9, 10, 11, 12] if self.tier == "quick" else [1, 5, 9, 10, 11, 12, 13]):
            kind = self.kind()
            k = rng.choice([2, 3, 4])
            prev = self.add_res(kind, k, self.adds(self.rand_items(k + 2, "wide")), "chain", top=False)
            for lvl in range(length):
                ops = self.adds(self.rand_items(rng.choice([0, 1]), "wide"))
                ops.append({"op": "mergefailed", "p": 0, "t": 0, "r": prev})
                ops += self.adds(self.rand_items(rng.choice([0, 1]), "wide"))
                prev = self.add_res(kind, k, ops, "chain", top=(lvl == length - 1))

    def followups(self, K, T, f, style):
        """f further offers relative to retained priorities 100, 200, .., T*100 (true minimum 100)"""
        rng = self.rng
        out = []
        for i in range(f):
            st = style if style != "mixed" else rng.choice(["between", "above", "below", "lowbetween", "equal"])
            if st == "lowbetween":            # just above the true minimum
                p = 150 + i
            elif st == "between":
                p = rng.randint(1, max(T, 1)) * 100 + 50 + i
            elif st == "above":
                p = (T + 5) * 100 + i
            elif st == "equal":
                p = rng.randint(1, max(T, 1)) * 100
            else:
                p = 10 + i
            out.append((p, 0))
        return out

    def fills(self):
        """A merge / merge-failed / carried-over split that brings a reservoir of capacity K to exactly
        K-1, K or K+1 events (every division a + b), with contents that are not heap-ordered, and then
        the period CONTINUES: 1..K+2 further offers above / below / between what is retained, and
        merges after merges."""
        rng = self.rng
        kmax = 6 if self.tier == "quick" else 8
        for K in range(1, kmax + 1):
            for T in (K - 1, K, K + 1):
                for a in range(0, K + 1):
                    b = T - a
                    if b < 0:
                        continue
                    for opname in ("merge", "mergefailed"):
                        for variant in (0, 1):
                            kind = self.kind()
                            vals = [(T - i) * 100 for i in range(T)]          # descending: [0] is the maximum
                            if variant == 1 and T > 2:
                                vals = vals[1:] + vals[:1]                    # rotated: neither sorted way
                            cap_o = b + 1 if variant == 0 else b              # arrival order / heapified
                            other = self.add_res(kind, cap_o, self.adds([(v, 0) for v in vals[a:]]), "fill",
                                                 top=False)
                            ops = self.adds([(v, 0) for v in vals[:a]])
                            ops.append({"op": opname, "p": 0, "t": 0, "r": other})
                            if variant == 0:
                                ops += self.adds(self.followups(K, T, 1, "lowbetween" if T >= 2 else "above"))
                                ops += self.adds(self.followups(K, T, rng.randint(0, 2), "mixed"))
                            else:
                                ops += self.adds(self.followups(K, T, rng.randint(1, K + 2), "mixed"))
                                # merges after merges, then more offers
                                o2 = self.add_res(kind, 2, self.adds(self.followups(K, T, rng.randint(0, 2), "mixed")),
                                                  "fill", top=False)
                                ops.append({"op": rng.choice(["merge", "mergefailed"]), "p": 0, "t": 0, "r": o2})
                                ops += self.adds(self.followups(K, T, rng.randint(1, 2), "mixed"))
                            self.add_res(kind, K, ops, "fill", split=(variant == 1 and rng.random() < 0.3))
        # both halves of a split reservoir carried over into the next period, which then continues
        for K in range(1, kmax + 1):
            for T in (K - 1, K, K + 1):
                for a in sorted(set([0, 1, K // 2])):
                    n = T - a
                    if n < 0:
                        continue
                    kind = self.kind()
                    vals = [(T - i) * 100 for i in range(T)]
                    rng.shuffle(vals)
                    src = self.add_res(kind, rng.choice([n, n + 1, max(n - 1, 0)]),
                                       self.adds([(v, 0) for v in vals[a:]]), "fill", split=True, top=False)
                    ops = self.adds([(v, 0) for v in vals[:a]])
                    ops.append({"op": "mergesplit", "p": 0, "t": 0, "r": src})
                    ops += self.adds(self.followups(K, T, rng.randint(1, K + 2), "mixed"))
                    self.add_res(kind, K, ops, "fill")

    # -- errors
    def gen_errors(self):
        rng = self.rng
        quick = self.tier == "quick"
        msets = [([1, 2, 3, 4, 5], [1, 2, 3]), ([1, 1, 2, 2, 3], [1, 2, 3]), ([2, 2, 2, 2], [1, 2, 3]),
                 ([3, 3, 1, 2, 2, 2], [2, 3])]
        if not quick:
            msets += [([1, 2, 3, 4, 5, 6], [1, 2, 3]), ([1, 1, 2, 2, 3, 3, 4], [3])]
        for ms, ks in msets:
            for perm in sorted(set(itertools.permutations(ms))):
                for k in ks:
                    self.errors.append({"k": k, "offers": [[p, i + 1] for i, p in enumerate(perm)]})
        # fill to K-1 / K / K+1 in a non-heap order, then 1..K+2 further offers above / below / between / equal
        for k in range(1, 7 if quick else 9):
            for T in (k - 1, k, k + 1):
                for rep in range(2):
                    vals = [(T - i) * 100 for i in range(T)]
                    if rep:
                        rng.shuffle(vals)
                    vals += [p for p, _ in self.followups(k, T, rng.randint(1, k + 2), "mixed")]
                    self.errors.append({"k": k, "offers": [[p, i + 1] for i, p in enumerate(vals)]})
        self.errors.append({"k": 0, "offers": [[1, 1]]})          # capacity 0: the Go code panics
        self.errors.append({"k": 0, "offers": []})
        for _ in range(40 if quick else 400):
            k = rng.choice([20, 20, 20, 1, 2, 5, 19, 21])
            n = rng.choice([k - 1, k, k + 1, 3 * k, 3 * k + 7])
            mode = rng.choice(["wide", "narrow", "equal", "asc", "desc"])
            offers = []
            for i in range(max(n, 0)):
                p = {"wide": rng.randint(-1000, 1000), "narrow": rng.choice([1, 2, 3]), "equal": 7,
                     "asc": i, "desc": -i}[mode]
                offers.append([p, i + 1])
            self.errors.append({"k": k, "offers": offers})

    # -- traces
    def gen_traces(self):
        rng = self.rng
        for _ in range(60 if self.tier == "quick" else 500):
            n = rng.choice([0, 1, 2, 3, 11, 12, 25, 40, 70])
            mode = rng.choice(["wide", "narrow", "equal", "asc", "desc"])
            mix = rng.choice([(0.0, 0.0), (1.0, 0.0), (0.0, 1.0), (0.4, 0.4), (0.6, 0.8)])
            offers = []
            for i in range(n):
                d = {"wide": rng.randint(0, 10 ** 6), "narrow": rng.choice([10, 20, 30]), "equal": 55,
                     "asc": i * 3, "desc": 1000 - i * 3}[mode]
                offers.append([d, 1 if rng.random() < mix[0] else 0, 1 if rng.random() < mix[1] else 0, i + 1])
            self.traces.append({"offers": offers, "gate": rng.random() < 0.5})
        # one pool filled to limit-1 / limit / limit+1 in descending order, then further offers
        for (sy, fo, limit) in ((1, 0, 20), (1, 1, 20), (0, 1, 10), (0, 0, 1)):
            for T in (limit - 1, limit, limit + 1):
                for gate in (False, True):
                    vals = [(T - i) * 100 for i in range(T)]
                    vals += [p for p, _ in self.followups(limit, T, rng.randint(1, 6), "mixed")]
                    self.traces.append({"offers": [[d, sy, fo, i + 1] for i, d in enumerate(vals)], "gate": gate})

    # -- slow SQLs
    def gen_slows(self):
        rng = self.rng
        for _ in range(200 if self.tier == "quick" else 1500):
            k = rng.choice([10, 10, 10, 0, 1, 2, 3, 9, 11])
            pool = rng.choice([1, max(k, 1), k + 1, 2 * k + 3, 40])
            n = rng.choice([0, 1, k, k + 1, 3 * k + 2, 40])
            tiefree = rng.random() < 0.5
            maxes = rng.sample(range(1, 10 ** 7), n) if tiefree else [rng.choice([5, 10, 15, 20]) for _ in range(n)]
            big = rng.random() < 0.15
            obs = []
            for i in range(n):
                mx = maxes[i]
                mn = rng.randint(0, mx)
                cnt = rng.randint(1, 5)
                tot = rng.randint(mx, mx * cnt)
                if big:
                    cnt = rng.choice([2 ** 31 - 1, 2 ** 30, 1, 2 ** 31 - 2])
                    tot = rng.choice([2 ** 64 - 1, 2 ** 63, 2 ** 64 - mx, tot])
                obs.append({"id": rng.randrange(pool) + 100, "count": cnt, "total": str(tot), "min": str(mn),
                            "max": str(mx), "t": i + 1})
            self.slows.append({"k": k, "obs": obs, "tiefree": tiefree})

    def gen_slow_fills(self):
        """fill to K-1 / K / K+1 distinct statements, merge a further observation into a retained one (moving
        which statement is the fastest), then 1..K+2 more observations of new and of known statements"""
        rng = self.rng
        for K in range(1, 5 if self.tier == "quick" else 8):
            for T in (K - 1, K, K + 1):
                for bump in ("raise_min", "raise_other", "lower", "none"):
                    vals = [(T - i) * 100 for i in range(T)]
                    if bump != "raise_min":
                        rng.shuffle(vals)
                    seq = [(200 + i, v) for i, v in enumerate(vals)]           # (id, max)
                    if T > 0 and bump != "none":
                        i_min = min(range(T), key=lambda i: vals[i])
                        tgt = i_min if bump == "raise_min" else rng.randrange(T)
                        newmax = {"raise_min": (T + 2) * 100 + 7, "raise_other": vals[tgt] + 55,
                                  "lower": max(vals[tgt] - 55, 1)}[bump]
                        seq.append((200 + tgt, newmax))
                    for j in range(rng.randint(1, K + 2)):
                        p = self.followups(K, T, 1, "mixed")[0][0] + 3 * j + 1
                        ident = rng.choice([300 + j, 300 + j, 200 + rng.randrange(max(T, 1)), 300])
                        seq.append((ident, p))
                    tiefree = len(set(m for _, m in seq)) == len(seq)
                    obs = []
                    for i, (ident, mx) in enumerate(seq):
                        cnt = rng.randint(1, 4)
                        obs.append({"id": ident, "count": cnt, "total": str(mx * cnt), "min": str(rng.randint(0, mx)),
                                    "max": str(mx), "t": i + 1})
                    self.slows.append({"k": K, "obs": obs, "tiefree": tiefree})

    def all(self):
        self.fills()
        self.gen_slow_fills()
        self.perms()
        self.randoms()
        self.merges()
        self.chains()
        self.gen_errors()
        self.gen_traces()
        self.gen_slows()
        return {"reservoirs": self.res, "res_meta": self.res_meta, "errors": self.errors,
                "traces": self.traces, "slows": self.slows}


# ------------------------------------------------------------------ Coq printing

def c_pz(p, t):
    return "(%s, %s)" % (cZ(p), cN(t))


def c_ev(p, t):
    return "mkEv %s %s" % (cZ(p), cN(t))


def tagN(t):
    return t if 0 <= t < 2 ** 32 else 2 ** 32 - 1


def c_res_literal(k, out):
    items = clist([c_ev(it["p"], tagN(it["t"])) for it in out["retained"]])
    return "(mkRes %s %s %s %s)" % (cnat(k), items, cZ(out["seen"]), cZ(out["failed"]))


def c_rcase(inp, outs, i):
    rc, o = inp["reservoirs"][i], outs[i]
    ops = []
    for op in rc["ops"]:
        if op["op"] == "add":
            ops.append("OAdd (%s)" % c_ev(op["p"], op["t"]))
        elif op["op"] == "synth":
            ops.append("OAddSynth (%s)" % c_ev(op["p"], op["t"]))
        elif op["op"] == "mergesplit":
            src = outs[op["r"]]
            byt = {it["t"]: it for it in src["retained"]}
            for h in src["halves"]:
                half = {"retained": [byt.get(t, {"p": -1, "t": t}) for t in h["tags"]], "seen": h["seen"],
                        "failed": h["failed"]}
                ops.append("OMergeFailed %s" % c_res_literal(h["cap"], half))
        else:
            lit = c_res_literal(inp["reservoirs"][op["r"]]["k"], outs[op["r"]])
            ops.append("%s %s" % ("OMerge" if op["op"] == "merge" else "OMergeFailed", lit))
    ret = clist([c_pz(it["p"], tagN(it["t"])) for it in o["retained"]])
    halves = clist(["Half %s %s %s %s" % (clist([cN(tagN(t)) for t in h["tags"]]), cZ(h["seen"]), cZ(h["failed"]),
                                          cnat(h["cap"])) for h in (o.get("halves") or [])])
    if o["payload_ok"]:
        payload = "(Some (%s, %s, %s))" % (clist([cN(tagN(t)) for t in o["payload_tags"]]), cZ(o["payload_seen"]),
                                           cZ(o["payload_size"]))
    else:
        payload = "None"
    return "RC %s %s %s %s %s %s %s" % (cnat(rc["k"]), clist(ops), ret, cZ(o["seen"]), cZ(o["failed"]), halves,
                                        payload)


def c_ecase(c, o):
    return "EC %s %s %s %s" % (
        cnat(c["k"]), clist([c_pz(p, t) for p, t in c["offers"]]), cbool(o["panic"]),
        clist([clist([c_pz(p, tagN(t)) for p, t in st]) for st in o["steps"]]))


def c_tcase(c, o):
    offers = clist(["mkTrace %s %s %s %s" % (cZ(d), cbool(s != 0), cbool(f != 0), cN(t)) for d, s, f, t in c["offers"]])
    pool = lambda l: clist([c_pz(d, tagN(t)) for d, t in l])
    return "TC %s %s %s %s %s %s %s" % (offers, cbool(c["gate"]), clist([cbool(b) for b in o["keeper"]]),
                                        pool(o["synth"]), pool(o["force"]), pool(o["regular"]), cbool(o["ok"]))


def c_scase(c, o):
    obs = clist(["mkSlow %s %s %s %s %s %s %s %s %s %s" % (
        cN(x["id"]), cZ(x["count"]), cZ(int(x["total"])), cZ(int(x["min"])), cZ(int(x["max"])),
        cN(x["t"]), cN(x["t"]), cN(x["t"]), cN(x["t"]), cN(x["t"])) for x in c["obs"]])
    steps = clist([clist(["(%s, %s)" % (cN(e["id"]), cZ(int(e["max"]))) for e in st]) for st in o["steps"]])
    fin = clist(["mkSlow %s %s %s %s %s %s" % (
        cN(r["id"]), cZ(r["count"]), cZ(int(r["total"])), cZ(int(r["min"])), cZ(int(r["max"])),
        " ".join(cN(tagN(t)) for t in r["text"])) for r in o["final"]])
    return "SC %s %s %s %s %s" % (cnat(c["k"]), obs, cbool(c.get("tiefree", False)), steps, fin)


HEADER = """From Coq Require Import List ZArith NArith Arith Bool.
From Verif Require Import Common Heap TopK Reservoir ErrTrace SlowSQL C06Check.
Import ListNotations.
Open Scope nat_scope.
"""


def shard_v(ctype, corr, strict, mon, terms):
    return HEADER + """Definition cases : list %s := %s.
Definition corr_bad := Eval vm_compute in bad_idx %s cases 0.
Definition prop_bad := Eval vm_compute in bad_idx %s cases 0.
Definition strict_bad := Eval vm_compute in bad_idx %s cases 0.
Print corr_bad. Print prop_bad. Print strict_bad.
""" % (ctype, "[\n" + ";\n".join(terms) + "]", corr, mon, strict)


CATS = {
    "res": ("rcase", "corr_res", "strict_res", "mon_res"),
    "err": ("ecase", "corr_err", "strict_err", "mon_err"),
    "trace": ("tcase", "corr_trace", "strict_trace", "mon_trace"),
    "slow": ("scase", "corr_slow", "strict_slow", "mon_slow_case"),
}


def evaluate(cat, terms):
    """-> (corr_bad, prop_bad, strict_bad) index lists, or raises RuntimeError(log)."""
    ctype, corr, strict, mon = CATS[cat]
    shards = [terms[i:i + SHARD] for i in range(0, len(terms), SHARD)] or [[]]

    def one(j):
        rc, out = vlib.coq_eval("cases_c06_%s_%d" % (cat, j), shard_v(ctype, corr, strict, mon, shards[j]), timeout=900)
        res = [vlib.parse_nat_list(vlib.parse_printed(out, k)) for k in ("corr_bad", "prop_bad", "strict_bad")]
        if rc != 0 or any(r is None for r in res):
            raise RuntimeError("cases_c06_%s_%d: %s" % (cat, j, out[-3000:]))
        return [[j * SHARD + x for x in r] for r in res]

    with ThreadPoolExecutor(max_workers=8) as ex:
        parts = list(ex.map(one, range(len(shards))))
    return tuple(sum((p[i] for p in parts), []) for i in range(3))


# ------------------------------------------------------------------ replay closures

def res_closure(inp, i):
    """the reservoir i and everything it merges, re-indexed, as a harness input"""
    order, seen = [], {}

    def visit(j):
        if j in seen:
            return
        for op in inp["reservoirs"][j]["ops"]:
            if op["op"] in ("merge", "mergefailed", "mergesplit"):
                visit(op["r"])
        seen[j] = len(order)
        order.append(j)

    visit(i)
    out = []
    for j in order:
        rc = json.loads(json.dumps(inp["reservoirs"][j]))
        for op in rc["ops"]:
            if op["op"] in ("merge", "mergefailed", "mergesplit"):
                op["r"] = seen[op["r"]]
        out.append(rc)
    return out


# ------------------------------------------------------------------ main

def run_once(chk, inp, tag):
    binary, blog = vlib.go_test_binary("newrelic", only=["c06"])
    if binary is None:
        chk.notes.append("harness build failed: " + blog[-2000:])
        chk.fail("harness_build.txt", "correspondence harness (package newrelic, TestVerifC06) does not build "
                 "against the current tree:\n" + blog, no_input=True)
        return None
    inf = os.path.join(vlib.BUILD, "c06_in%s.json" % tag)
    outf = os.path.join(vlib.BUILD, "c06_out%s.json" % tag)
    json.dump({k: inp[k] for k in ("reservoirs", "errors", "traces", "slows")}, open(inf, "w"))
    if os.path.exists(outf):
        os.remove(outf)
    rc, out = vlib.run_go_test(binary, "TestVerifC06", {"VERIF_IN": inf, "VERIF_OUT": outf}, timeout=600)
    if rc != 0 or not os.path.exists(outf):
        chk.fail("harness_run.txt", "harness TestVerifC06 failed (rc=%d):\n%s" % (rc, out[-4000:]), no_input=True)
        return None
    obs = json.load(open(outf))
    for k in ("reservoirs", "errors", "traces", "slows"):
        obs[k] = obs.get(k) or []
    terms = {
        "res": [c_rcase(inp, obs["reservoirs"], i) for i in range(len(inp["reservoirs"]))],
        "err": [c_ecase(c, o) for c, o in zip(inp["errors"], obs["errors"])],
        "trace": [c_tcase(c, o) for c, o in zip(inp["traces"], obs["traces"])],
        "slow": [c_scase(c, o) for c, o in zip(inp["slows"], obs["slows"])],
    }
    results = {}
    try:
        with ThreadPoolExecutor(max_workers=4) as ex:
            futs = {cat: ex.submit(evaluate, cat, terms[cat]) for cat in CATS}
            for cat, f in futs.items():
                results[cat] = f.result()
    except RuntimeError as e:
        chk.fail("coq_eval.txt", "in-Coq evaluation of the C06 cases failed:\n" + str(e), no_input=True)
        return None
    return obs, results


def case_input(inp, cat, i):
    if cat == "res":
        return {"reservoirs": res_closure(inp, i), "errors": [], "traces": [], "slows": []}
    key = {"err": "errors", "trace": "traces", "slow": "slows"}[cat]
    d = {"reservoirs": [], "errors": [], "traces": [], "slows": []}
    d[key] = [inp[key][i]]
    return d


def case_obs(obs, cat, i):
    key = {"res": "reservoirs", "err": "errors", "trace": "traces", "slow": "slows"}[cat]
    return obs[key][i]


WHAT = {
    "res": "event reservoir: retained events are not the K highest-priority of everything offered "
           "(or counters / synthetics boost / split / payload disagree with what was offered)",
    "err": "ErrorHeap: retained errors are not the highest-priority ones, or an error was displaced by one of "
           "equal or lower priority, or AddError crashed",
    "trace": "TxnTraces: a pool does not hold the longest-running traces of its kind (1/10/20), or IsKeeper is wrong",
    "slow": "SlowSQLs: retained statements are not those with the largest maximum duration, or a retained "
            "record is not the merge of its observations (sum/sum/min/max/text of the slowest)",
}


def coverage(chk, inp, obs):
    dist = {"reservoirs": len(inp["reservoirs"]), "errors": len(inp["errors"]), "traces": len(inp["traces"]),
            "slows": len(inp["slows"]), "res_ops": {}, "res_groups": {}, "res_K": {}, "overflowed": 0}
    for i, rc in enumerate(inp["reservoirs"]):
        for op in rc["ops"]:
            dist["res_ops"][op["op"]] = dist["res_ops"].get(op["op"], 0) + 1
        g = (inp.get("res_meta") or [{}] * len(inp["reservoirs"]))[i].get("group", "replay")
        dist["res_groups"][g] = dist["res_groups"].get(g, 0) + 1
        dist["res_K"][str(rc["k"])] = dist["res_K"].get(str(rc["k"]), 0) + 1
        o = obs["reservoirs"][i]
        over = o["seen"] > o["saved"]
        dist["overflowed"] += 1 if over else 0
        chk.count_case(["res", rc["kind"], rc["k"], [(op["op"], op["p"]) for op in rc["ops"]], rc["split"]],
                       nontrivial=over)
    for c, o in zip(inp["errors"], obs["errors"]):
        chk.count_case(["err", c["k"], [p for p, _ in c["offers"]]], nontrivial=len(c["offers"]) > c["k"])
    for c, o in zip(inp["traces"], obs["traces"]):
        kinds = [("s" if s else ("f" if f else "r")) for _, s, f, _ in c["offers"]]
        over = kinds.count("s") > 20 or kinds.count("f") > 10 or kinds.count("r") > 1
        chk.count_case(["trace", c["gate"], [(d, s, f) for d, s, f, _ in c["offers"]]], nontrivial=over)
    for c, o in zip(inp["slows"], obs["slows"]):
        ids = [x["id"] for x in c["obs"]]
        chk.count_case(["slow", c["k"], [(x["id"], x["max"], x["count"]) for x in c["obs"]]],
                       nontrivial=len(set(ids)) > c["k"] or len(ids) > len(set(ids)))
    chk.cov["input_distribution"] = dist
    if inp["reservoirs"]:
        j = len(inp["reservoirs"]) - 1
        chk.sample({"reservoir": {"kind": inp["reservoirs"][j]["kind"], "k": inp["reservoirs"][j]["k"],
                                  "n_ops": len(inp["reservoirs"][j]["ops"])},
                    "observed": {k: obs["reservoirs"][j][k] for k in ("seen", "saved", "failed")}})
    if inp["errors"]:
        chk.sample({"errors": inp["errors"][0], "final": obs["errors"][0]["steps"][-1:]})
    if inp["slows"]:
        chk.sample({"slow_k": inp["slows"][-1]["k"], "n_obs": len(inp["slows"][-1]["obs"]),
                    "final": obs["slows"][-1]["final"][:2]})


def run(chk, replay=None):
    st = vlib.std_coq_stage(chk, "PropC06", gen=True)
    ok, out = vlib.coq_make(["C06Check.vo"])
    if not ok:
        chk.fail("broken.txt", "coq/C06Check.v does not build:\n" + out[-3000:], no_input=True)
        return
    rng = random.Random(chk.seed)
    if replay:
        inp = json.load(open(replay))
        inp = inp.get("input", inp)
        for k in ("reservoirs", "errors", "traces", "slows"):
            inp.setdefault(k, [])
    else:
        inp = Gen(rng, chk.tier).all()

    r = run_once(chk, inp, "")
    if r is None:
        return
    obs, results = r

    def decide(inp, obs, results):
        nviol = 0
        for cat in CATS:
            corr_bad, prop_bad, strict_bad = results[cat]
            for i in prop_bad[:3]:
                nviol += 1
                chk.fail("%s_%d.json" % (cat, i),
                         {"what": WHAT[cat], "category": cat, "input": case_input(inp, cat, i),
                          "observed": case_obs(obs, cat, i)},
                         sig="c06-%s-monitor" % cat)
        return nviol

    decide(inp, obs, results)
    corr_total = {cat: len(results[cat][0]) for cat in CATS}

    # correspondence differs but no monitor failure: widen the search once before calling it broken
    if any(corr_total.values()) and not chk.violations and not replay and chk.tier == "quick":
        inp2 = Gen(random.Random(chk.seed + 1), "thorough").all()
        r2 = run_once(chk, inp2, "_wide")
        if r2 is not None:
            obs2, results2 = r2
            decide(inp2, obs2, results2)
            chk.notes.append("widened search run: %s" % {cat: [len(x) for x in results2[cat]] for cat in CATS})

    coverage(chk, inp, obs)
    chk.cov["rule"] = (
        "reservoirs: every distinct order of small priority multisets (5-6 items quick, up to 7 thorough; ties, "
        "duplicates, synthetics) into K in 0..3, random sequences of K-1/K/K+1/3K offers around capacities 1..100 "
        "(thorough ..833) in 7 priority patterns, merge / merge-failed groups of up to 4 reservoirs, merge-failed "
        "chains of 9..12 attempts, Split; 'fill' group: for K<=6 (thorough 8) every division a+b = K-1, K, K+1 of "
        "own events + merged / merge-failed / split-and-carried-over events in non-heap order, each FOLLOWED by 1..K+2 "
        "further offers above / below / between / equal to the retained priorities and by merges after merges; the "
        "same fill-then-continue pattern for ErrorHeap (K<=6), each trace pool (limit-1, limit, limit+1) and SlowSQLs "
        "(fill, merge into a retained statement, continue); errors: all orders of small multisets into K<=3 and random runs at the real "
        "capacity 20; traces: random mixes of the three kinds around 1/10/20; slow SQLs: random observation runs "
        "around capacity 10 with repeated ids, ties and int32/uint64 wrap. Non-trivial = more offered than the "
        "capacity (reservoir/error/trace pool overflowed; slow SQL: more distinct ids than K or a repeated id); "
        "distinct by the case's operations and priorities.")
    chk.cov["disagreements"] = {cat: {"correspondence": len(results[cat][0]), "monitor": len(results[cat][1]),
                                      "strict_array_order_informational": len(results[cat][2])} for cat in CATS}
    chk.cov["strict_note"] = ("'strict' compares the model's exact array order and tie-break with the implementation; "
                              "it is recorded here only and never raises an alarm")

    broken = []
    if not st["build_ok"]:
        broken.append("theorems of PropC06.v no longer check:\n" + st["log"][-3000:])
    names = {"res": "Reservoir.run_res vs analyticsEvents", "err": "ErrTrace.run_errors vs ErrorHeap.AddError",
             "trace": "ErrTrace.run_traces vs TxnTraces", "slow": "SlowSQL.run_slow vs SlowSQLs.Observe"}
    for cat in CATS:
        cb = results[cat][0]
        if cb:
            broken.append("correspondence %s differs on %d cases, first: %s" % (
                names[cat], len(cb), json.dumps({"input": case_input(inp, cat, cb[0]),
                                                 "observed": case_obs(obs, cat, cb[0])})[:3000]))
    if broken and not chk.violations:
        chk.fail("broken.txt", "\n\n".join(broken), no_input=True)
    chk.assumptions += [
        "sampling priorities on the exact grid k/2^20 in [0,2) (float64 arithmetic incl. the +2 boost is exact there); "
        "NaN/Inf priorities not covered",
        "trace durations are integers below 2^53 (exact in float64)",
        "container/heap is transcribed in Heap.v and tied to Go's by the differential runs only",
        "int32 Count / uint64 TotalMicros additions wrap (written into the model and the monitor)",
    ]
