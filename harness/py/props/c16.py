"""C16 -- the span queue applies back-pressure without blocking.

The real TraceObserver (newTraceObserverWithWorker) is driven through scripted scenarios with a gated
sender (harness/go/infinite_tracing/zz_verif_c16_test.go); the 15 s back-off sleep goes through a hook woven
into a copy of the CURRENT trace_observer.go (time.Sleep( -> verifSleep(, nothing else).  The event log of
every scenario must be a (weak) trace of the LTS of coq/TraceObs.v in its current-code variant (fixed = true:
/repo with 924bc09, 296039d, 1697f0e; TraceObs.accepts, evaluated in Coq), and the model-independent monitor
TraceObs.c16_monitor judges
the observation alone: producer never blocked, no crash, queued spans and the capacity counter within
[0, QueueSize], every span accounted for exactly once, Shutdown back within its time-out and the worker not
left on a channel send.  The logs are also replayed in the old-code variant (fixed = false): if that one
accepts them and the current one does not, a repair was reverted, which the evidence says in so many words; the
monitor then reports the old defects' signatures again (the regress_* scenarios of the fixed corpus replay them
on every run).
"""
import json
import os
import random
import re

import vlib
from vlib import cN, cbool, clist

LEVEL = "proof"
W = 2 ** 64
CLAUSES = ["noblock", "nocrash", "bound", "acct", "shutdown"]
RES = {"ok": "ROk", "okerr": "RFail SOk %s", "shutdown": "RFail SShutdown %s", "restart": "RFail SRestart %s",
       "reconnect": "RFail SReconnect %s", "immediate": "RFail SImmediate %s"}
CODE = {"okerr": "SOk", "shutdown": "SShutdown", "restart": "SRestart", "reconnect": "SReconnect",
        "immediate": "SImmediate"}
WPOS = {"connect": "PosConnect", "send": "PosSend", "sleep": "PosSleep", "select": "PosSelect",
        "chansend": "PosChanSend", "gone": "PosGone", "other": "PosOther"}


# ------------------------------------------------------------------ scenarios

def call(c):
    return {"op": "call", "c": c}


def shutdown(ms):
    return {"op": "shutdown", "ms": ms}


def connect(r="ok", metric=False):
    return {"op": "connect", "r": r, "metric": metric}


def sendret(r="ok", metric=False):
    return {"op": "sendret", "r": r, "metric": metric}


WAKE = {"op": "wake"}


def epilogue(q):
    """release every gate a few times so that the worker can run to its end (inapplicable ops are skipped)"""
    ops = []
    for _ in range(q + 3):
        ops += [WAKE, connect("ok"), sendret("ok")]
    return ops


def corpus():
    """The fixed part: always runs, in this order.  Scenarios named regress_<commit>_* replay the defects repaired
    by that commit (DESIGN.md section 6, and the in-flight wrap found while modelling): on the current code they
    must pass; clean_* passed before the repairs as well."""
    scs = []
    # (1) zero-count batches never consume capacity: the third into a queue of 2 blocks the producer
    scs.append({"name": "regress_924bc09_zero_count", "family": "corpus", "q": 2, "ops": [call(0), call(0), call(0)]})
    scs.append({"name": "regress_924bc09_zero_count_q1", "family": "corpus", "q": 1, "ops": [call(0), call(0)]})
    # (2) count > QueueSize: emptyQueue cannot make room, the counter wraps, later batches overfill and block
    scs.append({"name": "regress_296039d_count_exceeds_queue", "family": "corpus", "q": 2, "ops": [call(3), call(1), call(1)]})
    scs.append({"name": "regress_296039d_count_exceeds_queue_q1", "family": "corpus", "q": 1, "ops": [call(2), call(1)]})
    # (2') counts within [1, QueueSize] but the capacity is held by a batch the worker has in hand: same wrap
    scs.append({"name": "regress_296039d_inflight_wrap_q1", "family": "corpus", "q": 1,
                "ops": [connect(), call(1), call(1), call(1)]})
    scs.append({"name": "regress_296039d_inflight_wrap_bound", "family": "corpus", "q": 2,
                "ops": [connect(), call(2), call(2), call(2)]})
    # zero-count batches fill messagesSent as well: the worker ends up on `messagesSent <-` for ever
    scs.append({"name": "regress_924bc09_zero_count_worker_stuck", "family": "corpus", "q": 1,
                "ops": [connect(), call(0), call(0), sendret(), sendret(), shutdown(5)]})
    # (3) Shutdown times out while the worker is still connecting; closeMessages closes the queue under it;
    #     the select then yields a nil batch (or sees the shutdown: Go picks at random, hence the repeats)
    for i in range(24):
        scs.append({"name": "regress_1697f0e_close_under_worker_%d" % i, "family": "corpus", "q": 2,
                    "ops": [call(1), shutdown(3), connect()] + epilogue(2)})
    # same, worker sleeping in the back-off
    for i in range(8):
        scs.append({"name": "regress_1697f0e_close_under_sleeper_%d" % i, "family": "corpus", "q": 2,
                    "ops": [connect("restart", True), call(1), shutdown(3), WAKE, connect()] + epilogue(2)})
    # clean: = QueueSize, dump and requeue, never connected
    scs.append({"name": "clean_exact_fit", "family": "corpus", "q": 2,
                "ops": [call(2), call(2), call(1), call(1), call(1), call(2), shutdown(3), call(1)]})
    # clean: connected, lock step, every status once
    scs.append({"name": "clean_lockstep", "family": "corpus", "q": 3,
                "ops": [connect(), call(1), sendret(), call(3), sendret("restart", True), WAKE, connect(),
                        call(2), sendret("reconnect", False), connect("immediate", True), connect(),
                        call(1), sendret("okerr", True), connect(), call(2), sendret(),
                        {"op": "shutdown_if_idle", "ms": 50}, call(1)]})
    # clean: unrecoverable connect error: the worker shuts the observer down, later batches are refused
    scs.append({"name": "clean_connect_shutdown", "family": "corpus", "q": 2,
                "ops": [call(1), connect("shutdown", True), call(1), call(2), call(1), shutdown(3)]})
    # clean: clone failure ends the worker without initiating shutdown: back-pressure keeps working
    scs.append({"name": "clean_clone_fails", "family": "corpus", "q": 2,
                "ops": [{"op": "setclone", "ok": False}, connect("reconnect", True), call(1), call(1), call(1),
                        call(2), shutdown(3), call(1)]})
    # clean: asynchronous error on the response channel
    scs.append({"name": "clean_response_error", "family": "corpus", "q": 2,
                "ops": [connect(), {"op": "resperr", "r": "restart", "metric": True}, call(1), call(1), call(1), WAKE,
                        connect(), sendret(), sendret(), {"op": "shutdown_if_idle", "ms": 50}]})
    return scs


def rand_status(rng, ok_p):
    if rng.random() < ok_p:
        return "ok", False
    return rng.choice(["restart", "reconnect", "immediate", "okerr", "restart", "shutdown"]), rng.random() < 0.6


def gen_clean_unconnected(rng):
    q = rng.choice([1, 2, 3, 5, 8])
    ops = []
    n = rng.randint(4, 18)
    sd = rng.randint(2, n + 4)
    for i in range(n):
        if i == sd:
            ops.append(shutdown(rng.choice([1, 3])))
        ops.append(call(rng.choice([1, q, rng.randint(1, q), rng.randint(1, q)])))
    return {"family": "clean_unconnected", "q": q, "ops": ops}


def gen_clean_lockstep(rng):
    """connected, the worker never holds a batch while the producer calls"""
    q = rng.choice([1, 2, 3, 5, 8])
    ops = []
    r, m = rand_status(rng, 0.7)
    ops.append(connect(r, m))
    alive = True
    for _ in range(rng.randint(3, 14)):
        # bring the worker back to the idle select whatever happened (inapplicable ops are skipped)
        ops += [WAKE, connect("ok"), call(rng.randint(1, q))]
        r, m = rand_status(rng, 0.6)
        ops.append(sendret(r, m))
        if rng.random() < 0.15:
            ops.append({"op": "resperr", "r": rng.choice(["restart", "reconnect", "immediate"]), "metric": rng.random() < 0.5})
        if rng.random() < 0.08:
            ops.append({"op": "shutdown_if_idle", "ms": 50})
    ops.append({"op": "shutdown_if_idle", "ms": 50})
    ops.append(call(1))
    return {"family": "clean_lockstep", "q": q, "ops": ops}


def gen_clean_busy(rng):
    """connected, batches queue up behind a slow sender; counts <= QueueSize/2 so that a batch in the worker's
    hands never makes the counter wrap; shutdown only while the worker is idle or gone"""
    q = rng.choice([2, 4, 6, 9])
    ops = [connect()]
    for _ in range(rng.randint(6, 30)):
        x = rng.random()
        if x < 0.55:
            ops.append(call(rng.randint(1, q // 2)))
        elif x < 0.85:
            r, m = rand_status(rng, 0.75)
            if r == "shutdown":
                r = "restart"
            ops.append(sendret(r, m))
        elif x < 0.95:
            ops += [WAKE, connect()]
        else:
            ops.append({"op": "shutdown_if_idle", "ms": 50})
    return {"family": "clean_busy", "q": q, "ops": ops}


def gen_edge(rng):
    """anything: sizes 0, = QueueSize, > QueueSize, huge; any sender behaviour; Shutdown at a random point with
    a small time-out; then every gate is released"""
    q = rng.choice([1, 2, 3, 5])
    sizes = [0, 1, q - 1 if q > 1 else 1, q, q, q + 1, 2 * q + 1, rng.randint(0, q + 2), 2 ** 63, W - 1, rng.randint(1, q)]
    ops = []
    if rng.random() < 0.6:
        r, m = rand_status(rng, 0.6)
        ops.append(connect(r, m))
    n = rng.randint(3, 14)
    sd = rng.randint(0, n + 2)
    for i in range(n):
        if i == sd:
            ops.append(shutdown(rng.choice([1, 3, 10])))
        x = rng.random()
        if x < 0.6:
            ops.append(call(rng.choice(sizes)))
        elif x < 0.8:
            r, m = rand_status(rng, 0.6)
            ops.append(sendret(r, m))
        elif x < 0.9:
            r, m = rand_status(rng, 0.6)
            ops += [WAKE, connect(r, m)]
        else:
            ops.append({"op": "resperr", "r": rng.choice(["restart", "reconnect", "immediate", "shutdown"]),
                        "metric": rng.random() < 0.5})
    if sd >= n and rng.random() < 0.7:
        ops.append(shutdown(rng.choice([1, 3])))
    ops += epilogue(min(q, 3))
    return {"family": "edge", "q": q, "ops": ops}


def gen_inflight(rng):
    """counts within [1, QueueSize], calls made while the worker holds a batch"""
    q = rng.choice([1, 2, 3, 4])
    ops = [connect()]
    for _ in range(rng.randint(3, 10)):
        ops.append(call(rng.randint(1, q)))
        if rng.random() < 0.3:
            ops.append(sendret(*rand_status(rng, 0.7)))
    return {"family": "inflight", "q": q, "ops": ops}


def gen_scenarios(rng, tier):
    scs = corpus()
    k = 1 if tier == "quick" else 6
    plan = [(gen_clean_unconnected, 40 * k), (gen_clean_lockstep, 40 * k), (gen_clean_busy, 40 * k),
            (gen_inflight, 10 * k), (gen_edge, 24 * k)]
    for g, n in plan:
        for i in range(n):
            sc = g(rng)
            sc["name"] = "%s_%d" % (sc["family"], i)
            scs.append(sc)
    return scs


# ------------------------------------------------------------------ weaving the sleep hook

def code_spans(src):
    """(start, end) of the parts of a Go source that are code (not comments / string / rune literals)"""
    i, n, start = 0, len(src), 0
    while i < n:
        two = src[i:i + 2]
        c = src[i]
        if two == "//":
            yield (start, i)
            j = src.find("\n", i)
            i = n if j < 0 else j
            start = i
        elif two == "/*":
            yield (start, i)
            j = src.find("*/", i + 2)
            i = n if j < 0 else j + 2
            start = i
        elif c in "\"'":
            yield (start, i)
            j = i + 1
            while j < n and src[j] != c:
                j += 2 if src[j] == "\\" else 1
            i = j + 1
            start = i
        elif c == "`":
            yield (start, i)
            j = src.find("`", i + 1)
            i = n if j < 0 else j + 1
            start = i
        else:
            i += 1
    yield (start, n)


def weave_sleep(src):
    if "verifSleep" in src:
        raise ValueError("the source already contains the identifier verifSleep")
    pat = re.compile(r"\btime\s*\.\s*Sleep\s*\(")
    out, last, count = [], 0, 0
    for a, b in code_spans(src):
        out.append(src[last:a])
        seg, k = pat.subn("verifSleep(", src[a:b])
        count += k
        out.append(seg)
        last = b
    out.append(src[last:])
    if count == 0:
        # the back-off is no longer a sleep: weave the timers instead (verifNewTimer / verifAfter make a timer of a
        # second or more, started by the worker goroutine, fire on the scenario's wake)
        if "verifNewTimer" in src or "verifAfter" in src:
            raise ValueError("the source already contains the identifier verifNewTimer / verifAfter")
        pat2 = re.compile(r"\btime\s*\.\s*(NewTimer|After)\s*\(")
        out, last = [], 0
        for a, b in code_spans(src):
            out.append(src[last:a])
            seg, k = pat2.subn(lambda m: "verif%s(" % m.group(1), src[a:b])
            count += k
            out.append(seg)
            last = b
        out.append(src[last:])
        if count == 0:
            raise ValueError("neither a time.Sleep( call nor a timer in trace_observer.go: the back-off is implemented "
                             "some other way now")
    return "".join(out), count


# ------------------------------------------------------------------ printing observations as Coq terms

def c_res(r, metric):
    t = RES[r]
    return "(%s)" % (t % cbool(metric)) if "%s" in t else t


def c_event(e):
    k = e["k"]
    if k == "call":
        return "OCall %s" % cN(e.get("n", 0))
    if k == "ret":
        return "ORet"
    if k == "blocked":
        return "OBlocked"
    if k == "prodcrash":
        return "OProdCrash"
    if k == "shutdown":
        return "OShutdown"
    if k == "shutdownret":
        return "OShutdownRet %s" % cbool(e.get("b", False))
    if k == "connect":
        return "OConnect %s" % c_res(e["r"], e.get("metric", False))
    if k == "sendcall":
        return "OSendCall %s" % cN(e.get("n", 0))
    if k == "sendret":
        return "OSendRet %s" % c_res(e["r"], e.get("metric", False))
    if k == "resperr":
        return "ORespErr %s %s" % (CODE[e["r"]], cbool(e.get("metric", False)))
    if k == "wake":
        return "OWake"
    if k == "clone":
        return "OClone %s" % cbool(e.get("b", False))
    if k == "workerend":
        return "OWorkerEnd"
    if k == "workercrash":
        return "OWorkerCrash"
    if k == "probe":
        p = e["probe"]
        q = "(Some %s)" % clistN(p["queued"] or []) if p["peeked"] else "None"
        return ("OProbe {| p_rem := %s; p_nmsgs := %s; p_queued := %s; p_nsent := %s; p_init := %s; "
                "p_complete := %s; p_wpos := %s |}" % (cN(p["rem"]), cN(p["nmsgs"]), q, cN(p["nsent"]),
                                                      cbool(p["init"]), cbool(p["complete"]), WPOS[p["wpos"]]))
    raise ValueError(k)


def clistN(xs):
    return "(@nil N)" if not xs else "[" + "; ".join(cN(x) for x in xs) + "]"


def cpairs(ps):
    return "(@nil (N * N))" if not ps else "[" + "; ".join("(%s, %s)" % (cN(a), cN(b)) for a, b in ps) + "]"


def derive(sc, o):
    """the monitor's input, from the harness output alone"""
    probes = [e["probe"] for e in o["events"] if e["k"] == "probe"]
    last = probes[-1]
    offered = [(x["id"], x["c"]) for x in o["offered"] if x["returned"]]
    refused = [(x["id"], x["c"]) for x in o["offered"] if x["returned"] and x["refused"]]
    received = [(a, b) for a, b in o["received"]]
    left = 0
    for a, b in zip(probes, probes[1:]):
        if b["peeked"] and b["closed"] and not (a["peeked"] and a["closed"]):
            left += sum(a["queued"] or []) if a["peeked"] else 0
    peek_ok = last["peeked"]
    queued_end = 0 if (not peek_ok or last["closed"]) else sum(last["queued"] or [])
    quiescent = o["ended"] == "" and peek_ok and last["wpos"] not in ("send", "chansend", "other")
    stuck = bool(last["init"]) and last["wpos"] == "chansend"
    # the supportability metrics are float64: span sums are exact only below 2^53
    exact = all(x["c"] < 2 ** 53 for x in o["offered"])
    return {"exact": exact,"offered": offered, "refused": refused, "received": received, "dumped": int(last["dumped"]),
            "left": left, "queued_end": queued_end, "quiescent": quiescent, "late": bool(o["shutdown_late"]),
            "stuck": stuck}


def c_mobs(sc, o, d):
    log = clist([c_event(e) for e in o["events"]]) if o["events"] else "(@nil obs)"
    return ("{| m_qsize := %s; m_log := %s; m_offered := %s; m_refused := %s; m_received := %s; m_dumped := %s; "
            "m_exact := %s; m_left := %s; m_queued_end := %s; m_quiescent := %s; m_shutdown_late := %s; m_worker_stuck := %s |}"
            % (cN(sc["q"]), log, cpairs(d["offered"]), cpairs(d["refused"]), cpairs(d["received"]), cN(d["dumped"]),
               cbool(d["exact"]), cN(d["left"]), cN(d["queued_end"]), cbool(d["quiescent"]), cbool(d["late"]), cbool(d["stuck"])))


def classify(sc, o, clause):
    """Signature of a monitor failure (labelling only; the verdict is Coq's).  The cause is read off the
    scenario: a count above QueueSize, a zero count, a call made while the worker had a batch in flight."""
    evs = o["events"]
    if clause == "nocrash":
        if any(e["k"] == "workercrash" for e in evs):
            return "c16-close-under-worker" if any(e["k"] == "shutdown" for e in evs) else "c16-worker-panic"
        return "c16-producer-panic"
    calls = [x["c"] for x in o["offered"]]
    probes = [e["probe"] for e in evs if e["k"] == "probe"]
    wrapped = any(p["rem"] > sc["q"] for p in probes)      # the counter left [0, QueueSize]
    # was anything in flight (in the worker's hands or unreported) when some call was made?
    inflight, last_probe = False, None
    for e in evs:
        if e["k"] == "probe":
            last_probe = e["probe"]
        elif e["k"] == "call" and last_probe is not None:
            if last_probe["wpos"] in ("send", "chansend") or last_probe["nsent"] > 0:
                inflight = True
    if wrapped:
        if any(c > sc["q"] for c in calls):
            return "c16-count-exceeds-queue"
        if inflight and clause in ("noblock", "bound", "shutdown"):
            return "c16-inflight-wrap"
        return "c16-%s-in-range" % clause
    if any(c == 0 for c in calls) and clause in ("noblock", "bound", "shutdown"):
        return "c16-zero-count-blocks"
    return "c16-%s-in-range" % clause


def corr_clean_first(corr_bad, res):
    """scenarios the LTS refuses, those the monitor accepts first"""
    failed = set()
    for clause in CLAUSES:
        failed |= set(res[clause])
    return [i for i in corr_bad if i not in failed] + [i for i in corr_bad if i in failed]


# ------------------------------------------------------------------ the check

def run(chk, replay=None):
    st = vlib.std_coq_stage(chk, "PropC16", gen=False)
    rng = random.Random(chk.seed)
    if replay:
        scs = json.load(open(replay))["scenarios"]
    else:
        scs = gen_scenarios(rng, chk.tier)

    # latent: handleSupportability returns once initiateAppShutdown is closed; the model assumes nobody closes it
    real = os.path.join(vlib.DAEMON, vlib.PKGS["infinite_tracing"], "trace_observer.go")
    src = open(real).read()
    callers = []
    pkgdir = os.path.dirname(real)
    for fn in sorted(os.listdir(pkgdir)):
        if fn.endswith(".go") and not fn.endswith("_test.go"):
            t = open(os.path.join(pkgdir, fn)).read()
            callers += [fn for m in re.finditer(r"\.closeInitiateAppShutdown\(\)", t)]
    chk.cov["closeInitiateAppShutdown_callers"] = callers
    chk.notes.append("latent (note, not a finding): handleSupportability returns once initiateAppShutdown is closed and every "
                     "later send on its unbuffered channels (emptyQueue / the drop path on the processor goroutine, "
                     "supportabilityError on the worker) would block; nothing calls closeInitiateAppShutdown (callers found in "
                     "the current sources: %d), the theorems assume app_sd_callable = false, the witness is "
                     "C16_latent_supportability_after_app_shutdown" % len(callers))
    if callers:
        # the assumption the theorems rest on no longer holds of the code
        chk.fail("app_shutdown_callers.json",
                 {"what": "closeInitiateAppShutdown now has a caller: the supportability goroutine can return and every "
                          "later send on its unbuffered channels blocks (emptyQueue on the processor goroutine)",
                  "callers": callers, "scenarios": []}, sig="c16-supportability-after-app-shutdown")

    # ---- weave, build, run
    try:
        woven_text, ncalls = weave_sleep(src)
    except ValueError as e:
        chk.fail("weave.txt", "the sleep weaver does not apply to the current trace_observer.go: %s" % e, no_input=True)
        return
    wdir = os.path.join(vlib.BUILD, "c16")
    os.makedirs(wdir, exist_ok=True)
    woven = os.path.join(wdir, "trace_observer_woven.go")
    vlib.write_if_changed(woven, woven_text)
    binary, blog = vlib.go_test_binary("infinite_tracing", only=["c16"], extra_replace={real: woven})
    if binary is None:
        chk.notes.append("harness build failed: " + blog[-2000:])
        chk.fail("harness_build.txt", "correspondence harness (package infinite_tracing, TestVerifC16) does not build "
                 "against the current tree:\n" + blog, no_input=True)
        return
    inp = os.path.join(wdir, "c16_in.json")
    outp = os.path.join(wdir, "c16_out.json")
    json.dump({"scenarios": scs}, open(inp, "w"))
    if os.path.exists(outp):
        os.remove(outp)
    rc, out = vlib.run_go_test(binary, "TestVerifC16", {"VERIF_IN": inp, "VERIF_OUT": outp}, timeout=900)
    if rc != 0 or not os.path.exists(outp):
        chk.fail("harness_run.txt", "harness TestVerifC16 (infinite_tracing) failed (rc=%d):\n%s" % (rc, out[-4000:]),
                 no_input=True)
        return
    obs = json.load(open(outp))["scenarios"]

    # ---- cases
    ders = [derive(sc, o) for sc, o in zip(scs, obs)]
    shard = 150
    res = {k: [] for k in ["corr_orig", "corr_fixed", "fuel"] + CLAUSES}
    rej = {}
    for s0 in range(0, len(scs), shard):
        items = ["(%s)" % c_mobs(sc, o, d) for sc, o, d in zip(scs[s0:s0 + shard], obs[s0:s0 + shard], ders[s0:s0 + shard])]
        v = """From Coq Require Import NArith List Bool.
From Verif Require Import Common TraceObs.
Import ListNotations.
Open Scope N_scope.
Definition cases : list mobs := %s.
Definition cfg_of (fx : bool) (o : mobs) : cfg := {| qsize := m_qsize o; fixed := fx; app_sd_callable := false |}.
Definition verdicts := Eval vm_compute in
  map (fun o => (accepts (cfg_of false o) (m_log o), accepts (cfg_of true o) (m_log o))) cases.
Definition corr_orig := Eval vm_compute in bad_idx (fun v => accepted (fst v)) verdicts 0.
Definition corr_fixed := Eval vm_compute in bad_idx (fun v => accepted (snd v)) verdicts 0.
Definition fuel := Eval vm_compute in
  bad_idx (fun v => match v with (OutOfFuel _, _) | (_, OutOfFuel _) => false | _ => true end) verdicts 0.
Definition rejpos := Eval vm_compute in
  map (fun v => let f := fun x => match x with Accept => O | Reject k => S k | OutOfFuel k => S k end in
                (f (fst v), f (snd v))) verdicts.
Definition noblock := Eval vm_compute in bad_idx mon_noblock cases 0.
Definition nocrash := Eval vm_compute in bad_idx mon_nocrash cases 0.
Definition bound := Eval vm_compute in bad_idx mon_bound cases 0.
Definition acct := Eval vm_compute in bad_idx mon_acct cases 0.
Definition shutdown := Eval vm_compute in bad_idx mon_shutdown cases 0.
Definition all_ok := Eval vm_compute in bad_idx c16_monitor cases 0.
Print corr_orig. Print corr_fixed. Print fuel. Print rejpos. Print noblock. Print nocrash. Print bound. Print acct.
Print shutdown. Print all_ok.
""" % (clist(items) if items else "(@nil mobs)")
        rc, cout = vlib.coq_eval("cases_c16_%d" % (s0 // shard), v, timeout=900)
        part = {k: vlib.parse_nat_list(vlib.parse_printed(cout, k)) for k in list(res.keys()) + ["all_ok"]}
        rp = vlib.parse_printed(cout, "rejpos")
        if rc != 0 or any(x is None for x in part.values()) or rp is None:
            chk.fail("coq_eval.txt", "in-Coq evaluation of the C16 cases failed:\n" + cout[-4000:], no_input=True)
            return
        union = set()
        for k in CLAUSES:
            union |= set(part[k])
        if union != set(part["all_ok"]):
            chk.fail("coq_eval.txt", "c16_monitor disagrees with the conjunction of its clauses", no_input=True)
            return
        for k in res:
            res[k] += [s0 + i for i in part[k]]
        pairs = re.findall(r"\(\s*(\d+)(?:%nat)?\s*,\s*(\d+)(?:%nat)?\s*\)", rp)
        for i, (a, b) in enumerate(pairs):
            rej[s0 + i] = (int(a), int(b))

    # The current code is the repaired variant: that is the model the logs must be runs of.  The old-code variant
    # is evaluated only to say "a repair was reverted" when it is the one that fits.
    corr_bad = res["corr_fixed"]
    if not res["corr_fixed"]:
        variant = "current"
    elif not res["corr_orig"]:
        variant = "old (before 924bc09/296039d/1697f0e)"
    else:
        variant = "neither"
    chk.cov["model_variant_followed"] = variant

    # ---- coverage
    dist = {"family": {}, "qsize": {}, "ops": {}, "events": 0, "ended": {}, "ops_skipped": 0, "wpos": {}}
    for sc, o in zip(scs, obs):
        fam = sc.get("family", "replay")
        dist["family"][fam] = dist["family"].get(fam, 0) + 1
        dist["qsize"][str(sc["q"])] = dist["qsize"].get(str(sc["q"]), 0) + 1
        for op, ap in zip(sc["ops"], o["applied"]):
            if ap:
                dist["ops"][op["op"]] = dist["ops"].get(op["op"], 0) + 1
            else:
                dist["ops_skipped"] += 1
        dist["events"] += len(o["events"])
        dist["ended"][o["ended"] or "completed"] = dist["ended"].get(o["ended"] or "completed", 0) + 1
        for e in o["events"]:
            if e["k"] == "probe":
                dist["wpos"][e["probe"]["wpos"]] = dist["wpos"].get(e["probe"]["wpos"], 0) + 1
        applied_ops = [op for op, ap in zip(sc["ops"], o["applied"]) if ap]
        ncalls_ = sum(1 for op in applied_ops if op["op"] == "call")
        chk.count_case({"q": sc["q"], "ops": applied_ops}, nontrivial=ncalls_ >= 2 and len(applied_ops) >= 3)
    mid = len(scs) // 2
    chk.sample({"scenario": {k: scs[mid][k] for k in ("name", "q")}, "ops_head": scs[mid]["ops"][:6],
                "events_head": [e["k"] for e in obs[mid]["events"]][:14], "derived": {k: ders[mid][k] for k in
                                                                                     ("dumped", "left", "queued_end", "quiescent")}})
    chk.sample({"scenario": scs[0]["name"], "events": [e["k"] for e in obs[0]["events"]]})
    chk.cov["rule"] = ("scenarios = op scripts (call n / shutdown ms / connect r / sendret r / wake / resperr / setclone) "
                       "against the real newTraceObserverWithWorker with a gated sender and a woven back-off sleep; a fixed "
                       "corpus (the repaired defects of DESIGN.md section 6 as regress_<commit>_* plus the clean boundary cases) "
                       "always runs first, then families "
                       "clean_unconnected, clean_lockstep, clean_busy (counts <= QueueSize/2), inflight, edge (sizes 0, "
                       "= QueueSize, > QueueSize, 2^63, 2^64-1; Shutdown with 1-10 ms at a random point; every gate released "
                       "afterwards).  Each applied op is followed by a probe (counter, queue peeked, len(messagesSent), "
                       "shutdown flags, where the worker goroutine is parked).  The log is replayed in the LTS "
                       "(TraceObs.accepts, tau steps interleaved freely).  Non-trivial: at least two QueueBatch calls and "
                       "three applied ops; distinct by the applied op list.")
    chk.cov["input_distribution"] = dist
    chk.cov["disagreements"] = {"accepts_current_code_model": len(res["corr_fixed"]),
                                "accepts_old_code_model": len(res["corr_orig"]),
                                "out_of_fuel": len(res["fuel"])}
    chk.cov["monitor_failures"] = {k: len(res[k]) for k in CLAUSES}
    chk.cov["unsettled_waits"] = sum(o.get("unsettled", 0) for o in obs)
    chk.cov["sleep_calls_woven"] = ncalls

    # ---- decide
    sigs = {}
    for clause in CLAUSES:
        for i in res[clause]:
            sc, o = scs[i], obs[i]
            sig = classify(sc, o, clause)
            sigs[sig] = sigs.get(sig, 0) + 1
            if sigs[sig] > 1:
                continue           # one replay per signature: the first scenario (the corpus runs first)
            chk.fail("%s.json" % sig,
                     {"what": "the observation violates C16, clause %s (%s)" % (clause, sig),
                      # Go's select picks at random between the closed queue and the shutdown signal: repeat
                      "scenarios": [sc] * (16 if sig == "c16-close-under-worker" else 1), "derived": ders[i],
                      "events": [e if e["k"] != "probe" else {"k": "probe", "probe": e["probe"]} for e in o["events"]][-24:]},
                     sig=sig)
    chk.cov["signatures"] = sigs
    broken = []
    if not st["build_ok"]:
        broken.append("theorems of PropC16.v no longer check:\n" + st["log"][-3000:])
    if res["fuel"]:
        broken.append("trace inclusion ran out of fuel on scenarios %s" % res["fuel"][:10])
    if corr_bad:
        det = []
        for i in (corr_clean_first(corr_bad, res) )[:3]:
            a, b = rej.get(i, (0, 0))
            k = b - 1
            det.append({"scenario": scs[i], "refused_event_index": k,
                        "events_around": obs[i]["events"][max(0, k - 5):k + 2]})
        broken.append("correspondence: the LTS of the current code has no run matching the observed log of scenarios %s "
                      "(current-code model refuses %d logs, old-code model refuses %d%s)\n%s"
                      % (corr_bad[:10], len(res["corr_fixed"]), len(res["corr_orig"]),
                         "; the implementation behaves like the code BEFORE the repairs 924bc09/296039d/1697f0e"
                         if variant.startswith("old") else "", json.dumps(det, indent=1)[:6000]))
    if chk.cov["unsettled_waits"]:
        chk.notes.append("%d settle waits expired (2 s); the log order may be unreliable there" % chk.cov["unsettled_waits"])
    # a scenario the monitor is happy with but the LTS cannot follow is a broken tie whatever else was found
    mon_failed = set()
    for clause in CLAUSES:
        mon_failed |= set(res[clause])
    corr_clean = [i for i in corr_bad if i not in mon_failed]
    chk.cov["disagreements"]["on_scenarios_the_monitor_accepts"] = len(corr_clean)
    if broken and (corr_clean or not st["build_ok"] or res["fuel"] or (not chk.violations)):
        chk.fail("broken.txt", "\n\n".join(broken), no_input=True)
    elif broken:
        chk.notes.append("also: " + "\n".join(broken)[:3000])
    chk.assumptions += ["Go channel / select / sync.Once semantics as modelled in TraceObs.lstep",
                        "the supportability goroutine is always back in its select (its bookkeeping is instantaneous)",
                        "QueueBatch and Shutdown are called from one goroutine at a time (processSpanBatch on the processor; "
                        "AppHarvest.Close only after the run left p.harvests)",
                        "nobody calls closeInitiateAppShutdown (checked on the current sources)",
                        "the harness log (one mutex) is a linearisation up to commuting steps: the worker is parked when the "
                        "producer acts; parking is read from the goroutine states of a runtime.Stack dump",
                        "real time only in Shutdown's ticker (1-50 ms) and the 300 ms watchdog"]
