"""C01 -- processor-level property; see proccheck.py / procgen.py / coq/Processor.v / coq/ProcMonitor.v."""
import proccheck

LEVEL = "proof"


def run(chk, replay=None):
    proccheck.run(chk, "PropC01", {'all_ok': 5, 'mixed': 3, 'failures': 1, 'multi': 1, 'exit': 1, 'leftover': 1}, 260, 4000, [101, 102, 103], replay=replay)
