"""C17 -- the worker is free of data races (PARTIAL: protocol theorem + race detector + access table).

Proof side   coq/PropC17.v: the vector-clock checker is sound for happens-before; every trace of the
             ownership protocol of the worker (any number of goroutines of every role) is race free.
Tie to code  (a) the access table extracted from the CURRENT source (tools/gens/access.py ->
             coq/Gen/Access_gen.v) is checked in Coq against the discipline table of coq/Ownership.v;
             (b) the real listener + processor + limit client + triggers + trace observers run under
             `go test -race` with concurrent agents, harvest ticks, mixed collector replies, restarts
             and CleanExit; every race report is a replay.
"""
import collections
import glob
import json
import os
import random
import re
import shutil
import sys

import vlib

LEVEL = "proof"

MODULE = "github.com/newrelic/newrelic-php-agent/daemon/"
HARNESS_FILE = "zz_verif_c17_test.go"


# ------------------------------------------------------------------ race report parsing

def short_fn(fn):
    """github.com/.../internal/newrelic/utilization.OverrideDockerId -> utilization.OverrideDockerId"""
    fn = fn.replace(MODULE, "")
    fn = re.sub(r"^(?:[A-Za-z0-9_.\-]+/)+", "", fn)
    fn = fn.replace("(*", "").replace(")", "")
    fn = re.sub(r"\.func\d+(\.\d+)*$", "", fn)       # closures: name of the enclosing function
    fn = re.sub(r"-fm$", "", fn)
    return fn


def parse_stack(block):
    """-> list of (function, file:line)"""
    frames = []
    lines = block.split("\n")
    i = 0
    while i + 1 < len(lines):
        m = re.match(r"^  (\S+)\(\)$", lines[i])
        if m:
            loc = lines[i + 1].strip().split(" ")[0]
            frames.append((m.group(1), loc))
            i += 2
        else:
            i += 1
    return frames


def daemon_frame(frames):
    """first frame of hand-written daemon code (not the harness, not generated *.pb.go, not libraries);
    a stack without any (a goroutine of a library) is named after the library"""
    for fn, loc in frames:
        if MODULE in fn and HARNESS_FILE not in loc and not loc.split(":")[0].endswith(".pb.go"):
            return fn, loc
    for fn, loc in frames:
        if "google.golang.org/grpc" in fn:
            return "grpc.grpc", loc
    return frames[0] if frames else ("?", "?")


def parse_reports(text):
    reps = []
    for chunk in text.split("=================="):
        if "WARNING: DATA RACE" not in chunk:
            continue
        parts = re.split(r"\n(?=(?:Read|Write|Previous read|Previous write|Atomic read|Atomic write|Previous atomic read|Previous atomic write) at )", chunk)
        acc = []
        for p in parts:
            m = re.match(r"^(Read|Write|Previous read|Previous write|Atomic read|Atomic write|Previous atomic read|Previous atomic write) at (\S+) by (.*?):\n", p)
            if not m:
                continue
            body = p.split("\n\n")[0]
            frames = parse_stack(body)
            fn, loc = daemon_frame(frames)
            inner = next(((f, l) for f, l in frames if MODULE in f), None)   # innermost frame of the module
            in_daemon = inner is None or HARNESS_FILE not in inner[1]
            acc.append({"op": m.group(1), "addr": m.group(2), "by": m.group(3), "fn": fn, "loc": loc,
                        "top": frames[0] if frames else None, "stack": body, "in_daemon": in_daemon})
        if len(acc) >= 2:
            names = sorted(short_fn(a["fn"]).split(".")[-1] for a in acc[:2])
            harness_only = not acc[0]["in_daemon"] and not acc[1]["in_daemon"]
            reps.append({"sig": ("harness-race-%s-%s" if harness_only else "c17-race-%s-%s") % (names[0], names[1]),
                         "accesses": acc[:2], "text": chunk.strip(), "harness_only": harness_only})
    return reps


# ------------------------------------------------------------------ rounds

def gen_rounds(rng, tier):
    if tier == "quick":
        n, ms = 6, 7000
    else:
        n, ms = 44, 11000
    rounds = []
    for i in range(n):
        rounds.append({
            "seed": rng.randrange(1, 2**31),
            "conns": rng.choice([4, 8, 12, 16]),
            "apps": rng.choice([3, 5, 8]),
            "ms": ms,
            "procs": [4, 2, 8, 1, 3, 6][i % 6],
            "jitter": rng.choice([0, 50, 200, 500]),
            "timeout_ms": rng.choice([0, 0, 150]),
            "log_level": i % 2 == 1,
            "grpc": i % 2 == 0,
            "real": i % 3 == 2,       # the real HTTPS client (perform, user agent, compression) instead of the mock
        })
    return rounds


PARALLEL = 3

KNOWN_CRASHES = [
    # (regex on the panic output, what it is): crashes that belong to other properties
    (r"nil pointer dereference[\s\S]{0,400}TraceObserver\)\.doStreaming",
     "C16 defect: closeMessages under a live worker gives a nil *spanBatch (nil dereference in doStreaming)"),
    (r"limit on \d+ simultaneously alive goroutines is exceeded",
     "the race detector's limit of simultaneously alive goroutines was exceeded (round aborted)"),
]


def run_one(binary, d, rnd, cert_dir):
    os.makedirs(d, exist_ok=True)
    inp, outp = d + "/in.json", d + "/out.json"
    json.dump({"rounds": [rnd], "cert_dir": cert_dir}, open(inp, "w"))
    env = {"VERIF_IN": inp, "VERIF_OUT": outp,
           "GORACE": "halt_on_error=0 history_size=5 log_path=%s/race" % d}
    if cert_dir:
        env["SSL_CERT_FILE"] = cert_dir + "/ca.pem"
        env["SSL_CERT_DIR"] = d + "/nonexistent"
    rc, out = vlib.run_go_test(binary, "TestVerifC17", env, timeout=rnd["ms"] // 1000 + 60, cwd=d)
    open(d + "/stdout.txt", "w").write(out)
    text = ""
    for f in sorted(glob.glob(d + "/race.*")):
        text += open(f, errors="replace").read() + "\n"
    stats = None
    if os.path.exists(outp):
        try:
            stats = json.load(open(outp))["rounds"][0]
        except Exception:
            stats = None
    crash = None
    if stats is None:
        crash = "unclassified: rc=%d\n%s" % (rc, out[-2500:])
        for rx, what in KNOWN_CRASHES:
            if re.search(rx, out):
                crash = what
    return stats, parse_reports(text), crash


def run_harness(chk, rounds, tag):
    """one process per round (a crash of the daemon code loses one round only)
    -> (list of stats|None, reports, list of crash descriptions|None)"""
    from concurrent.futures import ThreadPoolExecutor
    binary, blog = vlib.go_test_binary("newrelic", race=True, only=["c17"])
    if binary is None:
        chk.notes.append("harness build failed: " + blog[-2000:])
        chk.fail("harness_build.txt", "race harness (package newrelic, TestVerifC17, -race) does not build against "
                 "the current tree:\n" + blog, no_input=True)
        return None, [], []
    base = os.path.join(vlib.BUILD, "c17_" + tag)
    shutil.rmtree(base, ignore_errors=True)
    os.makedirs(base + "/cert")
    rc, out = vlib.run_go_test(binary, "TestVerifC17", {"VERIF_C17_GENCERT": base + "/cert"}, timeout=60)
    cert_dir = base + "/cert" if rc == 0 and os.path.exists(base + "/cert/ca.pem") else ""
    if not cert_dir:
        chk.notes.append("no certificate for the local trace observer endpoint: " + out[-500:])
    with ThreadPoolExecutor(max_workers=PARALLEL) as ex:
        res = list(ex.map(lambda ir: run_one(binary, "%s/r%d" % (base, ir[0]), ir[1], cert_dir), enumerate(rounds)))
    stats = [r[0] for r in res]
    reports = []
    for i, r in enumerate(res):
        for rep in r[1]:
            rep["round"] = i
            reports.append(rep)
    crashes = [r[2] for r in res]
    return stats, reports, crashes


# ------------------------------------------------------------------ access table in Coq

def table_case_text(ids):
    lst = "[" + "; ".join("%d%%nat" % x for x in ids) + "]" if ids else "(@nil nat)"
    return """From Coq Require Import List String Arith.
From Verif Require Import Ownership.
From Verif.Gen Require Import Access_gen.
Import ListNotations.
Definition ext_ok := Eval vm_compute in extraction_ok.
Definition n_roles := Eval vm_compute in List.length role_names.
Definition n_fields := Eval vm_compute in List.length field_names.
Definition n_accesses := Eval vm_compute in List.length accesses.
Definition viol := Eval vm_compute in violations role_names field_names accesses.
Definition viol_flat := Eval vm_compute in flat_map (fun v => let '(r, f, o) := v in [r; f; o]) viol.
Definition tbl_ok := Eval vm_compute in table_ok role_names field_names accesses.
Definition reports : list nat := %s.
Definition monitor := Eval vm_compute in no_race_reports reports.
Print ext_ok. Print n_roles. Print n_fields. Print n_accesses. Print viol_flat. Print tbl_ok. Print monitor.
""" % lst


def load_access_json():
    sys.path.insert(0, vlib.ROOT + "/tools/gens")
    import access as acc_gen
    try:
        return acc_gen.extract(vlib.BUILD, vlib.DAEMON, vlib.GOENV)
    except Exception as e:
        return {"error": str(e), "roles": [], "accesses": []}


def run(chk, replay=None):
    st = vlib.std_coq_stage(chk, "PropC17", gen=True)
    rng = random.Random(chk.seed)
    if replay:
        rp = json.load(open(replay))
        rounds = rp.get("rounds") or gen_rounds(rng, chk.tier)
    else:
        rounds = gen_rounds(rng, chk.tier)

    # ---- dynamic search
    stats, reports, crashes = run_harness(chk, rounds, chk.tier)
    by_sig = collections.OrderedDict()
    harness_races = [r for r in reports if r.get("harness_only")]
    for r in reports:
        if not r.get("harness_only"):
            by_sig.setdefault(r["sig"], []).append(r)
    sig_ids = list(range(len(by_sig)))

    # ---- access table against the discipline, inside Coq
    gok, gout = vlib.coq_make(["Gen/Access_gen.vo"])
    if not gok:
        chk.notes.append("Gen/Access_gen.v does not compile: " + gout[-1500:])
    rc, cout = vlib.coq_eval("cases_c17", table_case_text(sig_ids), timeout=300)
    vals = {k: vlib.parse_printed(cout, k) for k in ("ext_ok", "n_roles", "n_fields", "n_accesses", "viol_flat",
                                                      "tbl_ok", "monitor")}
    table_broken = None
    viol = []
    accj = load_access_json()
    if rc != 0 or any(v is None for v in vals.values()):
        table_broken = "in-Coq evaluation of the access table failed:\n" + cout[-3000:]
    elif vals["ext_ok"] != "true":
        table_broken = "the access extractor failed on the current tree: " + str(accj.get("error", ""))[-2000:]
    else:
        flat = vlib.parse_nat_list(vals["viol_flat"])
        roles = sorted(set(r["role"] for r in accj["roles"]) | set(a["role"] for a in accj["accesses"]))
        fields = sorted(set(a["field"] for a in accj["accesses"]))
        for i in range(0, len(flat), 3):
            r, f, o = flat[i:i + 3]
            viol.append((roles[r], fields[f], roles[o]))
        if (vals["monitor"] == "true") != (len(by_sig) == 0):
            table_broken = "monitor no_race_reports disagrees with the number of reports"

    # ---- coverage
    chk.cov["rule"] = ("dynamic: rounds of the real listener+processor+limit client+triggers+trace observers under "
                       "-race, one process per round (round parameters from the seed: connections, applications, "
                       "GOMAXPROCS, jitter, inactivity time-out, log level toggling, live trace observer endpoint); "
                       "one evaluation = one message sent by an agent connection, one collector request answered, or "
                       "one harvest tick seen; a round is non-trivial when it connected >= 1 application, saw harvest "
                       "replies 202, 503, 409 and 410, and CleanExit returned; static: every (role, field, read/write) "
                       "triple of the extracted access table is one evaluation")
    dist = collections.Counter()
    completed = 0
    unknown_crashes = []
    for i, rd in enumerate(rounds):
        s = stats[i] if stats else None
        if s is None:
            c = crashes[i] if crashes else "not run"
            dist["rounds_crashed"] += 1
            if c and c.startswith("unclassified"):
                unknown_crashes.append("round %d: %s" % (i, c))
                chk.notes.append("round %d did not complete (%s)" % (i, c[:600]))
            else:
                chk.notes.append("round %d did not complete: %s" % (i, c))
            continue
        completed += 1
        n = s["appinfo"] + s["txns"] + s["span_batches"] + sum(s["collector"].values()) + s["ticks_seen"]
        codes = set(k.split(":")[1] for k in s["collector"] if not k.startswith(("connect", "preconnect")))
        nontrivial = s["exited"] and any(k.startswith("connect:200") for k in s["collector"]) and \
            {"202", "503", "409", "410"} <= codes
        chk.cov["evaluations"] += n - 1
        chk.count_case({"round": rd, "collector": s["collector"]}, nontrivial=nontrivial)
        for k, v in s["collector"].items():
            dist["collector " + k.split(":")[1]] += v
        for k in ("appinfo", "txns", "span_batches", "ticks_seen", "ticks_mutated", "ticks_stale",
                  "msgs_sent_during_exit", "grpc_batches", "grpc_streams"):
            dist[k] += s[k]
        if not s["exited"]:
            chk.notes.append("round %d: CleanExit did not return within 15 s" % i)
        if len(chk.cov["samples"]) < 2:
            chk.sample({"round": rd, "stats": {k: v for k, v in s.items() if k != "collector"}})
    if vals.get("n_accesses"):
        try:
            chk.cov["evaluations"] += int(re.sub(r"%.*", "", vals["n_accesses"]))
            chk.cov["access_table"] = {"roles": vals["n_roles"], "fields": vals["n_fields"],
                                       "accesses": vals["n_accesses"], "uncovered": len(viol)}
        except Exception:
            pass
    chk.cov["input_distribution"] = dict(dist)
    # every collector command must have been exercised: a payload kind the rounds never build is a kind whose
    # goroutines are never raced (the log payloads were missing once: the agent limit scaled to zero)
    cmds_seen = set()
    for s in (stats or []):
        if s:
            cmds_seen.update(k.split(":")[0] for k in s["collector"])
    ALL_CMDS = {"preconnect", "connect", "metric_data", "error_data", "transaction_sample_data", "sql_trace_data",
                "custom_event_data", "error_event_data", "analytic_event_data", "span_event_data", "log_event_data",
                "update_loaded_modules"}
    chk.cov["commands_exercised"] = sorted(cmds_seen)
    coverage_hole = sorted(ALL_CMDS - cmds_seen) if completed else []
    chk.cov["race_reports"] = {s: len(v) for s, v in by_sig.items()}
    chk.cov["rounds"] = len(rounds)
    chk.cov["rounds_completed"] = completed

    # ---- decide
    dyn_text = " ".join(r["text"] for r in reports)
    for sig, reps in by_sig.items():
        r = reps[0]
        chk.fail("%s.json" % sig, {
            "what": "data race reported by the Go race detector while the worker's goroutines ran",
            "signature": sig, "times_reported": len(reps),
            "access_1": {k: r["accesses"][0][k] for k in ("op", "by", "fn", "loc")},
            "access_2": {k: r["accesses"][1][k] for k in ("op", "by", "fn", "loc")},
            "report": r["text"],
            "rounds": [rounds[r["round"]]],
            "replay": "./check C17 %s --replay <this file>  (re-runs this round under -race; a race is schedule "
                      "dependent, the thorough tier repeats more schedules)" % chk.tier,
        }, sig=sig)
    for role, field, other in viol:
        where = [a for a in accj["accesses"] if a["field"] == field and a["role"] in (role, other)]
        confirmed = any(a["pos"].split("/")[-1] in dyn_text for a in where)
        chk.fail("access_%s.json" % re.sub(r"[^A-Za-z0-9_.]", "_", field), {
            "what": "cross-goroutine access not covered by the ownership discipline (coq/Ownership.v: discipline)",
            "field": field, "role": role, "conflicting_role": other, "where": where,
            "confirmed_by_a_race_report_of_this_run": confirmed,
            "note": "type-based static table; the race detector is the dynamic witness",
        }, sig="c17-access-%s" % field, no_input=not confirmed)
    broken = []
    if not st["build_ok"]:
        broken.append("theorems of PropC17.v no longer check:\n" + st["log"][-3000:])
    if table_broken:
        broken.append(table_broken)
    if harness_races:
        broken.append("the harness itself raced (no daemon code on either stack):\n" + harness_races[0]["text"][:3000])
    if stats is None:
        broken.append("the race harness could not be run")
    elif unknown_crashes:
        broken.append("the race harness crashed:\n" + "\n".join(unknown_crashes))
    elif completed == 0:
        broken.append("no round of the race harness completed: " + "; ".join(str(c) for c in crashes))
    if coverage_hole:
        broken.append("the race rounds never produced these collector commands (their goroutines were not raced): %s" % coverage_hole)
    if broken and not chk.violations:
        chk.fail("broken.txt", "\n\n".join(broken), no_input=True)
    chk.assumptions += [
        "PARTIAL: the theorem is about the ownership protocol (coq/Ownership.v), not about the Go text",
        "adherence of the code to the protocol: Go race detector on the sampled schedules of this run, plus the "
        "type-based access table (reads made by reflection, e.g. encoding/json, and callbacks from library code "
        "other than interface conversions are invisible to it)",
        "the collector is a mock behind the real limitClient; the trace observer endpoint is a local TLS gRPC server",
    ]
