"""C13 -- security-policy handshake is fail-closed and most-secure-wins.

Real UnmarshalAppInfo + AppInfo.ConnectPayload + ConnectApplication with a recording mock collector
client (and, for a subset, the real Processor: NewProcessor / Run / IncomingAppInfo).  Exhaustive over
all agent/collector policy maps on <= 3 names x all flag combinations (with a token), <= 2 names
(without), plus random maps on <= 4 odd names, empty / disjoint / absent / null maps, failing and
malformed preconnect answers, failing connects.  Lasp.c13_monitor / c13_proc_monitor judge the
observation alone; Lasp.connect_application is compared on the projection (requests, error yes/no,
policies handed back, reply yes/no).
"""
import concurrent.futures
import itertools
import json
import os
import random

import vlib
from vlib import cbool, clist, coption

LEVEL = "proof"

FLAGS = [None, (False, False), (False, True), (True, False), (True, True)]
ODD_NAMES = ["a", "b", "c", "ab", "bc", "", "record_sql", "allow_raw_exception_messages", "p\"q", "p\\q",
             "é", "A", "enabled", "x y", "custom_events", "job_arguments"]
TOKENS = ["tok", "ffff-ffff-ffff-ffff", "0", " ", "t\"k"]


def mk_case(token, agent, coll, pc="reply", cn="ok", host="h", p0=None, proc=False, agent_raw="", pc_body=""):
    return {"token": token, "agent": agent, "agent_raw": agent_raw, "p0": p0, "pc": pc, "host": host,
            "coll": coll, "pc_body": pc_body, "cn": cn, "proc": proc}


def maps_from(names, acombo, ccombo):
    agent = {n: {"enabled": f[0], "supported": f[1]} for n, f in zip(names, acombo) if f is not None}
    coll = {n: {"enabled": f[0], "required": f[1]} for n, f in zip(names, ccombo) if f is not None}
    return agent, coll


def exhaustive(names, token):
    k = len(names)
    out = []
    for ac in itertools.product(FLAGS, repeat=k):
        for cc in itertools.product(FLAGS, repeat=k):
            agent, coll = maps_from(names, ac, cc)
            out.append(mk_case(token, agent, coll))
    return out


def rand_maps(rng, maxn=4):
    k = rng.randint(0, maxn)
    names = rng.sample(ODD_NAMES, k)
    shape = rng.random()
    agent, coll = {}, {}
    for n in names:
        in_a, in_c = True, True
        if shape < 0.15:                       # disjoint
            in_a = rng.random() < 0.5
            in_c = not in_a
        elif shape < 0.55:                     # mostly aligned
            in_a = rng.random() < 0.9
            in_c = rng.random() < 0.95
        else:
            in_a = rng.random() < 0.7
            in_c = rng.random() < 0.7
        if in_a:
            agent[n] = {"enabled": rng.random() < 0.5, "supported": rng.random() < 0.75}
        if in_c:
            coll[n] = {"enabled": rng.random() < 0.5, "required": rng.random() < 0.4}
    return agent, coll


def gen_cases(rng, tier):
    cases = []
    # exhaustive part
    cases += exhaustive(["a", "b", "c"], "tok")
    cases += exhaustive(["a", "b"], "")
    if tier != "quick":
        cases += exhaustive(["a", "b", "c"], "")
        cases += exhaustive(["ab", "c", "a"], "t")
    # random part
    nrand = 700 if tier == "quick" else 6000
    for i in range(nrand):
        agent, coll = rand_maps(rng)
        token = rng.choice(TOKENS) if rng.random() < 0.8 else ""
        pc = rng.choices(["reply", "err", "malformed"], [0.86, 0.07, 0.07])[0]
        cn = rng.choices(["ok", "err", "bad"], [0.7, 0.15, 0.15])[0]
        host = rng.choice(["h", "collector-7.example.com", "", "x\"y"])
        c = mk_case(token, agent, coll, pc=pc, cn=cn, host=host)
        r = rng.random()
        if r < 0.05:
            c["agent"], c["agent_raw"] = {}, rng.choice(["null", "{", "[]", "{}", "\"s\""])
        elif r < 0.08:
            c["agent"] = None                  # field absent from the App message
        r = rng.random()
        if pc == "reply" and r < 0.04:
            c["coll"], c["pc_body"] = {}, json.dumps({"redirect_host": host, "security_policies": None})
        elif pc == "reply" and r < 0.08:
            c["coll"] = None                   # no security_policies key at all
        elif pc == "reply" and r < 0.10:
            c["coll"], c["host"], c["pc_body"] = {}, "", "null"
        elif pc == "malformed":
            c["pc_body"] = rng.choice(["{\"redirect_host\":", "[]", "\"x\"", "{\"security_policies\":[1]}", "<html>"])
        if rng.random() < 0.08:
            c["p0"] = {rng.choice(ODD_NAMES): rng.random() < 0.5 for _ in range(rng.randint(0, 2))}
        cases.append(c)
    # processor-level part
    nproc = 48 if tier == "quick" else 240
    base = [mk_case("tok", {"a": {"enabled": True, "supported": True}}, {"a": {"enabled": False, "required": True}}),
            mk_case("tok", {"a": {"enabled": True, "supported": False}}, {"a": {"enabled": True, "required": True}}),
            mk_case("tok", {"a": {"enabled": True, "supported": True}}, {"b": {"enabled": True, "required": False}}),
            mk_case("tok", {}, {"a": {"enabled": True, "required": False}}),
            mk_case("tok", {"a": {"enabled": True, "supported": True}}, {}),
            mk_case("", {"a": {"enabled": True, "supported": False}}, {"a": {"enabled": True, "required": True}}),
            mk_case("tok", {"a": {"enabled": True, "supported": True}}, {"a": {"enabled": True, "required": True}}, pc="err"),
            mk_case("tok", {"a": {"enabled": True, "supported": True}}, {"a": {"enabled": True, "required": True}}, cn="err"),
            mk_case("tok", {"a": {"enabled": True, "supported": True}}, {"a": {"enabled": True, "required": True}}, cn="bad"),
            mk_case("tok", {"a": {"enabled": True, "supported": True}}, {"a": {"enabled": True, "required": True}},
                    pc="malformed", pc_body="{")]
    for c in base:
        c["proc"] = True
        cases.append(c)
    for i in range(nproc - len(base)):
        agent, coll = rand_maps(rng, 3)
        token = "tok" if rng.random() < 0.8 else ""
        pc = rng.choices(["reply", "err", "malformed"], [0.9, 0.05, 0.05])[0]
        cn = rng.choices(["ok", "err", "bad"], [0.8, 0.1, 0.1])[0]
        c = mk_case(token, agent, coll, pc=pc, cn=cn, proc=True)
        if pc == "malformed":
            c["pc_body"] = "{"
        cases.append(c)
    return cases


# ------------------------------------------------------------------------------- Coq terms

def cname(s):
    return vlib.cbytes(s.encode("utf-8"))


def c_amap(m):
    return clist(["(%s, mkA %s %s)" % (cname(k), cbool(v["enabled"]), cbool(v["supported"])) for k, v in (m or {}).items()])


def c_cmap(m):
    return clist(["(%s, mkC %s %s)" % (cname(k), cbool(v["enabled"]), cbool(v["required"])) for k, v in (m or {}).items()])


def c_pmap(m):
    return clist(["(%s, %s)" % (cname(k), cbool(v)) for k, v in (m or {}).items()])


def c_input(c):
    if c["pc"] == "reply":
        pc = "PcReply %s %s" % (cname(c["host"]), c_cmap(c["coll"]))
    elif c["pc"] == "err":
        pc = "PcTransportErr"
    else:
        pc = "PcMalformed"
    cn = {"ok": "CnOk", "err": "CnTransportErr", "bad": "CnBadReply"}[c["cn"]]
    return "(%s, %s, %s, (%s), %s)" % (cname(c["token"]), c_amap(c["agent"]), c_pmap(c["p0"]), pc, cn)


def c_reqs(reqs):
    out = []
    for r in reqs:
        if r["cmd"] == "preconnect":
            out.append("RPreconnect %s" % cname(r.get("token") or ""))
        elif r["cmd"] == "connect":
            out.append("RConnect %s %s" % (cname(r["host"]), c_pmap(r.get("policies") if r.get("has_pol") else {})))
        else:
            return None
    return clist(out)


def c_obs(c, o):
    reqs = c_reqs(o["reqs"] or [])
    if reqs is None:
        return None
    ret = coption(c_pmap(o.get("ret")) if o["has_ret"] else None)
    if c["proc"]:
        return "mkPObs %s %s %s" % (reqs, cbool(o["connected"]), ret)
    return "mkObs %s %s %s %s" % (reqs, cbool(o["err"]), ret, cbool(o["reply"]))


HEADER = """From Coq Require Import NArith List Bool.
From Verif Require Import Common Lasp.
Import ListNotations.
Open Scope N_scope.
Definition input := (name * amap * pmap * pc_outcome * cn_outcome)%type.
Definition run_model (i : input) := let '(t, ag, p0, pc, cn) := i in connect_application t ag p0 pc cn.
Definition mon (i : input) (o : observed) := let '(t, ag, p0, pc, cn) := i in c13_monitor t ag p0 pc cn o.
Definition pmon (i : input) (o : pobserved) := let '(t, ag, p0, pc, cn) := i in c13_proc_monitor t ag pc cn o.
"""


def coq_shard(args):
    name, dcases, pcases = args
    v = HEADER + """
Definition dcases : list (input * observed) := %s.
Definition pcases : list (input * pobserved) := %s.
Definition d_corr_bad := Eval vm_compute in bad_idx (fun c => obs_eqb (project (run_model (fst c))) (snd c)) dcases 0.
Definition d_prop_bad := Eval vm_compute in bad_idx (fun c => mon (fst c) (snd c)) dcases 0.
Definition p_corr_bad := Eval vm_compute in bad_idx (fun c => pobs_eqb (project_proc (run_model (fst c))) (snd c)) pcases 0.
Definition p_prop_bad := Eval vm_compute in bad_idx (fun c => pmon (fst c) (snd c)) pcases 0.
Print d_corr_bad. Print d_prop_bad. Print p_corr_bad. Print p_prop_bad.
""" % (clist(dcases) if dcases else "[]", clist(pcases) if pcases else "[]")
    rc, out = vlib.coq_eval(name, v, timeout=600)
    res = {}
    for k in ("d_corr_bad", "d_prop_bad", "p_corr_bad", "p_prop_bad"):
        res[k] = vlib.parse_nat_list(vlib.parse_printed(out, k))
    return rc, out, res


def acceptable(c):
    """Python rendering of the condition, used only to label failures and for the statistics."""
    a, co = c["agent"] or {}, c["coll"] or {}
    if not a or not co:
        return False
    for n, p in co.items():
        if p["required"] and not (n in a and a[n]["supported"]):
            return False
    return all(n in co for n in a)


def classify(c, o):
    names = [r["cmd"] for r in (o["reqs"] or [])]
    if c["pc"] == "reply" and c["token"] != "" and not acceptable(c):
        if "connect" in names:
            return "c13-connect-despite-failed-verification"
        return "c13-failed-verification-without-error"
    if c["pc"] != "reply":
        return "c13-connect-after-failed-preconnect" if "connect" in names else "c13-preconnect-failure-outcome"
    if names != ["preconnect", "connect"]:
        return "c13-verified-but-not-connected"
    pol = o["reqs"][1].get("policies") or {}
    if c["token"] == "":
        if pol != (c["p0"] or {}):
            return "c13-policies-without-token"
    else:
        a, co = c["agent"] or {}, c["coll"] or {}
        want = {n: (p["enabled"] and co.get(n, {"enabled": False})["enabled"]) for n, p in a.items() if p["supported"]}
        if pol != want:
            return "c13-payload-policies"
    want_ret = {n: p["enabled"] for n, p in (c["coll"] or {}).items()}
    if (o.get("ret") or {}) != want_ret or not o["has_ret"]:
        return "c13-returned-policies"
    return "c13-outcome"


def run(chk, replay=None):
    st = vlib.std_coq_stage(chk, "PropC13", gen=False)
    rng = random.Random(chk.seed)
    if replay:
        cases = json.load(open(replay))["cases"]
    else:
        cases = gen_cases(rng, chk.tier)

    binary, blog = vlib.go_test_binary("newrelic", only=["c13"])
    if binary is None:
        chk.notes.append("harness build failed: " + blog[-2000:])
        chk.fail("harness_build.txt", "correspondence harness (package newrelic, TestVerifC13) does not build "
                 "against the current tree:\n" + blog, no_input=True)
        return
    inp = os.path.join(vlib.BUILD, "c13_in.json")
    outp = os.path.join(vlib.BUILD, "c13_out.json")
    json.dump({"cases": cases}, open(inp, "w"))
    if os.path.exists(outp):
        os.remove(outp)
    rc, out = vlib.run_go_test(binary, "TestVerifC13", {"VERIF_IN": inp, "VERIF_OUT": outp}, timeout=600)
    if rc != 0 or not os.path.exists(outp):
        chk.fail("harness_run.txt", "harness TestVerifC13 failed (rc=%d):\n%s" % (rc, out[-4000:]), no_input=True)
        return
    obs = json.load(open(outp))["obs"]

    # ---- harness sanity: what the generator assumes about the decoded agent map, payload anomalies
    anomalies = []
    dterms, pterms, didx, pidx = [], [], [], []
    for i, (c, o) in enumerate(zip(cases, obs)):
        if o["agent_len"] != len(c["agent"] or {}):
            anomalies.append("case %d: agent map decoded to %d entries, generator assumed %d" % (i, o["agent_len"], len(c["agent"] or {})))
        for r in (o["reqs"] or []):
            if r.get("bad"):
                anomalies.append("case %d: request %s: %s" % (i, r["cmd"], r["bad"]))
        if o.get("ret_bad"):
            anomalies.append("case %d: returned policies: %s" % (i, o["ret_bad"]))
        if o.get("note"):
            anomalies.append("case %d: %s" % (i, o["note"]))
        t = c_obs(c, o)
        if t is None:
            anomalies.append("case %d: unexpected collector command in %s" % (i, [r["cmd"] for r in o["reqs"]]))
            continue
        term = "(%s, %s)" % (c_input(c), t)
        if c["proc"]:
            pterms.append(term)
            pidx.append(i)
        else:
            dterms.append(term)
            didx.append(i)

    # ---- evaluate model + monitors inside Coq, sharded
    size = 1200
    shards = []
    for s in range(0, max(len(dterms), 1), size):
        shards.append(("cases_c13_%d" % (s // size), dterms[s:s + size], pterms if s == 0 else [], s))
    d_corr, d_prop, p_corr, p_prop, coq_fail = [], [], [], [], []
    with concurrent.futures.ThreadPoolExecutor(max_workers=min(12, len(shards))) as ex:
        futs = [(sh, ex.submit(coq_shard, sh[:3])) for sh in shards]
        for sh, f in futs:
            rc, cout, res = f.result()
            if rc != 0 or any(v is None for v in res.values()):
                coq_fail.append(cout[-3000:])
                continue
            d_corr += [didx[sh[3] + j] for j in res["d_corr_bad"]]
            d_prop += [didx[sh[3] + j] for j in res["d_prop_bad"]]
            p_corr += [pidx[j] for j in res["p_corr_bad"]]
            p_prop += [pidx[j] for j in res["p_prop_bad"]]
    if coq_fail:
        chk.fail("coq_eval.txt", "in-Coq evaluation of the C13 cases failed:\n" + coq_fail[0], no_input=True)
        return

    # ---- coverage
    dist = {"token": 0, "no_token": 0, "pc_reply": 0, "pc_err": 0, "pc_malformed": 0, "cn_ok": 0, "cn_err": 0,
            "cn_bad": 0, "acceptable": 0, "unacceptable": 0, "processor_level": 0, "agent_empty": 0, "coll_empty": 0,
            "disjoint": 0, "err_types": {}, "map_sizes": {}}
    for c, o in zip(cases, obs):
        a, co = c["agent"] or {}, c["coll"] or {}
        dist["token" if c["token"] else "no_token"] += 1
        dist["pc_" + c["pc"]] += 1
        dist["cn_" + c["cn"]] += 1
        dist["processor_level"] += 1 if c["proc"] else 0
        if c["pc"] == "reply":
            dist["acceptable" if acceptable(c) else "unacceptable"] += 1
        dist["agent_empty"] += 0 if a else 1
        dist["coll_empty"] += 0 if co else 1
        dist["disjoint"] += 1 if (a and co and not set(a) & set(co)) else 0
        et = o.get("err_type") or ("none" if not o["err"] else "n/a")
        dist["err_types"][et] = dist["err_types"].get(et, 0) + 1
        k = "%d/%d" % (len(a), len(co))
        dist["map_sizes"][k] = dist["map_sizes"].get(k, 0) + 1
        chk.count_case({k: c[k] for k in ("token", "agent", "coll", "pc", "cn", "p0", "proc", "host", "pc_body", "agent_raw")},
                       nontrivial=(c["token"] != "" and c["pc"] == "reply"))
    chk.cov["rule"] = ("exhaustive: every agent map x collector map over names {a,b,c} (absent or any flag pair per name, "
                       "25^3 pairs) with a token, {a,b} without; random: <= 4 names from a pool with empty, quoted, non-ASCII "
                       "and prefix-related names, empty/disjoint/absent/null maps, failing or malformed preconnect, failing "
                       "connect, pre-set payload policies; processor-level subset through NewProcessor/Run/IncomingAppInfo. "
                       "Non-trivial = token present and a preconnect reply (verification decides); distinct by full input")
    chk.cov["input_distribution"] = dist
    chk.cov["exhaustive_small_maps"] = True
    for i in (0, len(cases) // 3, len(cases) - 1):
        chk.sample({"case": cases[i], "observed": obs[i]})
    chk.cov["disagreements"] = {"direct_corr": len(d_corr), "direct_monitor": len(d_prop),
                                "processor_corr": len(p_corr), "processor_monitor": len(p_prop)}

    # ---- decide
    seen = set()
    retry_bad = [i for i, (c, o) in enumerate(zip(cases, obs)) if c.get("proc") and o.get("retry_same") is False]
    chk.cov.setdefault("stages", {})["retries"] = {"applications_retried": sum(1 for o in obs if o.get("retries")),
                                                    "attempts": sum(o.get("retries", 0) for o in obs), "differing": len(retry_bad)}
    for i in retry_bad[:3]:
        chk.fail("retry_%d.json" % i, {"what": "a later connect attempt of an application that had not connected behaved differently "
                                               "from its first attempt although the collector gave the same answers: "
                                               + obs[i].get("retry_differ", "") + " (the handshake is fail-closed on every attempt)",
                                       "cases": [cases[i]], "observed": obs[i]}, sig="c13-retry-differs")
    for i in d_prop + p_prop:
        sig = classify(cases[i], obs[i])
        if sig in seen:
            continue
        seen.add(sig)
        chk.fail("case_%d.json" % i, {"what": "ConnectApplication / processor observation violates C13 (" + sig + ")",
                                      "cases": [cases[i]], "observed": obs[i]}, sig=sig)
    broken = []
    if not st["build_ok"]:
        broken.append("theorems of PropC13.v no longer check:\n" + st["log"][-3000:])
    if anomalies:
        broken.append("harness anomalies:\n" + "\n".join(anomalies[:20]))
    if d_corr:
        broken.append("correspondence Lasp.connect_application vs ConnectApplication differs on %d cases, e.g. %s"
                      % (len(d_corr), json.dumps([{"case": cases[i], "observed": obs[i]} for i in d_corr[:2]])))
    if p_corr:
        broken.append("correspondence Lasp.connect_application vs Processor differs on %d cases, e.g. %s"
                      % (len(p_corr), json.dumps([{"case": cases[i], "observed": obs[i]} for i in p_corr[:2]])))
    if broken and not chk.violations:
        chk.fail("broken.txt", "\n\n".join(broken), no_input=True)
    chk.assumptions += ["encoding/json decodes the policy maps (one entry per distinct key)",
                        "mock collector.Client: the collector's answers are scripted; request bodies are parsed from the bytes handed to the client"]
