"""C11 -- processor-level property; see proccheck.py / procgen.py / coq/Processor.v / coq/ProcMonitor.v."""
import exitcheck
import proccheck

LEVEL = "proof"


def run(chk, replay=None):
    proccheck.run(chk, "PropC11", {'exit': 7, 'mixed': 2, 'all_ok': 1}, 260, 4000, [501, 502, 503], replay=replay)
    exitcheck.run_stage(chk)
    exitcheck.worker_stage(chk)
