"""C12 -- harvest cadence follows the negotiated periods and stops cleanly.

plans: generated connect replies -> real parseConnectReply/getHarvestTrigger/NewAppHarvest with a woven
       ticker; observed (duration, type) of every ticker vs Trigger.trigger_plan (corr) and
       Trigger.plan_monitor (property).
lts:   scripted ticks / receives / Close on the real goroutines; event log vs TriggerLts.taccepts (corr)
       and TriggerMonitor.lts_monitor (property).
zero:  real harvestByType vs Trigger.hrun (corr) and zero_monitor (property).
proc:  real Processor shutting down an inactive application while its triggers wait to send (watchdog).
"""
import json
import os
import random
import sys

import vlib
from vlib import cN, cZ, cbool, clist, cnat

sys.path.insert(0, vlib.ROOT + "/tools/weave")
import weave_ticker  # noqa: E402

LEVEL = "proof"

DEFAULTS = {"error": 100, "txn": 10000, "custom": 100000, "span": 10000, "log": 20000}
EHC_KEYS = [("error", "error_event_data"), ("txn", "analytic_event_data"), ("custom", "custom_event_data"),
            ("span", "span_event_data"), ("log", "log_event_data")]
MS_VALUES = [0, 1, 1000, 5000, 30000, 59999, 60000, 60000, 60001, 120000, 3600000, 9223372036854]
EVENT_CMDS = {"analytic_event_data": 0, "custom_event_data": 1, "error_event_data": 2, "span_event_data": 3,
              "log_event_data": 4}
CAT_INDEX = {"txn": 0, "custom": 1, "error": 2, "span": 3, "log": 4}
CAT_COQ = {"txn": "ETxn", "custom": "ECustom", "error": "EError", "span": "ESpan", "log": "ELog"}
ABSENT = "absent"


def pick_limit(rng, cat, neg_ok):
    d = DEFAULTS[cat]
    r = rng.random()
    if r < 0.30:
        return ABSENT
    if r < 0.36:
        return None               # JSON null
    if r < 0.52:
        return 0
    if neg_ok and r < 0.55:
        return rng.choice([-1, -5])
    return rng.choice([1, 7, d - 1, d, d + 1, 10 ** 9, rng.randint(1, d)])


def gen_reply(rng, kind="any"):
    """A connect reply described structurally: {'ehc': ABSENT|None|{...}, 'sehc': ABSENT|None|{...}}"""
    neg_ok = kind == "any"
    rp = {}
    if kind == "all_default":
        ms = rng.choice([ABSENT, 0, 60000])
        ehc = {"ms": ms, "limits": {c: pick_limit(rng, c, False) for c, _ in EHC_KEYS}}
        sehc = {"ms": rng.choice([ABSENT, 0, 60000]), "limit": rng.choice([ABSENT, None, 0, 5, 10000])}
        return {"ehc": ehc, "sehc": sehc}
    if kind == "custom":
        ms = rng.choice([1000, 5000, 30000, 120000])
        lim = {c: pick_limit(rng, c, False) for c, _ in EHC_KEYS}
        lim[rng.choice(["error", "txn", "custom", "log"])] = rng.choice([0, 5, 50])
        ehc = {"ms": ms, "limits": lim}
        sehc = {"ms": rng.choice([ABSENT, 0, 60000, 5000]), "limit": rng.choice([ABSENT, None, 0, 5])}
        return {"ehc": ehc, "sehc": sehc}
    r = rng.random()
    if r < 0.08:
        rp["ehc"] = ABSENT
    elif r < 0.13:
        rp["ehc"] = None
    else:
        ms = rng.choice([ABSENT] + MS_VALUES)
        if rng.random() < 0.1:
            lim = ABSENT
        else:
            lim = {c: pick_limit(rng, c, neg_ok) for c, _ in EHC_KEYS}
        rp["ehc"] = {"ms": ms, "limits": lim}
    r = rng.random()
    if r < 0.12:
        rp["sehc"] = ABSENT
    elif r < 0.17:
        rp["sehc"] = None
    else:
        rp["sehc"] = {"ms": rng.choice([ABSENT] + MS_VALUES), "limit": rng.choice(
            [ABSENT, ABSENT, None, 0, 1, 9999, 10000, 10001, 10 ** 9] + ([-1] if neg_ok else []))}
    return rp


def reply_json(rp):
    d = {"agent_run_id": "verif-c12"}
    if rp["ehc"] != ABSENT:
        if rp["ehc"] is None:
            d["event_harvest_config"] = None
        else:
            e = {}
            if rp["ehc"]["ms"] != ABSENT:
                e["report_period_ms"] = rp["ehc"]["ms"]
            if rp["ehc"]["limits"] != ABSENT:
                hl = {}
                for c, key in EHC_KEYS:
                    v = rp["ehc"]["limits"][c]
                    if v != ABSENT:
                        hl[key] = v
                e["harvest_limits"] = hl
            d["event_harvest_config"] = e
    if rp["sehc"] != ABSENT:
        if rp["sehc"] is None:
            d["span_event_harvest_config"] = None
        else:
            s = {}
            if rp["sehc"]["ms"] != ABSENT:
                s["report_period_ms"] = rp["sehc"]["ms"]
            if rp["sehc"]["limit"] != ABSENT:
                s["harvest_limit"] = rp["sehc"]["limit"]
            d["span_event_harvest_config"] = s
    return json.dumps(d)


def copt(v, f):
    return "None" if v == ABSENT or v is None else "(Some %s)" % f(v)


def reply_coq(rp):
    if rp["ehc"] == ABSENT:
        e = "None"
    else:
        ehc = rp["ehc"] or {"ms": ABSENT, "limits": ABSENT}
        lim = ehc["limits"] if ehc["limits"] != ABSENT else {c: ABSENT for c, _ in EHC_KEYS}
        e = ("(Some {| e_ms := %s; e_error := %s; e_txn := %s; e_custom := %s; e_span := %s; e_log := %s |})"
             % (copt(ehc["ms"], cN), copt(lim["error"], cZ), copt(lim["txn"], cZ), copt(lim["custom"], cZ),
                copt(lim["span"], cZ), copt(lim["log"], cZ)))
    if rp["sehc"] == ABSENT:
        s = "None"
    else:
        sehc = rp["sehc"] or {"ms": ABSENT, "limit": ABSENT}
        lv = sehc["limit"]
        sl = "SLAbsent" if lv == ABSENT else ("SLNull" if lv is None else "(SLVal %s)" % cZ(lv))
        s = "(Some {| s_ms := %s; s_limit := %s |})" % (copt(sehc["ms"], cN), sl)
    return "{| r_ehc := %s; r_sehc := %s |}" % (e, s)


def zero_cats(rp):
    """categories to which the collector gave limit 0 (explicitly)"""
    z = []
    ehc = rp["ehc"]
    if isinstance(ehc, dict) and isinstance(ehc["limits"], dict):
        for c in ("txn", "custom", "error", "log"):
            if ehc["limits"][c] == 0 and ehc["limits"][c] is not None and ehc["limits"][c] != ABSENT:
                z.append(CAT_INDEX[c])
    sehc = rp["sehc"]
    if isinstance(sehc, dict) and sehc["limit"] == 0 and sehc["limit"] is not None and sehc["limit"] != ABSENT:
        z.append(CAT_INDEX["span"])
    return z


def gen_lts_ops(rng, n, family):
    ops = []

    def tick(k=None):
        ops.append({"op": "tick", "k": rng.randrange(n) if k is None else k})

    if family == "busy":          # ticks pile up behind a busy processor, then Close
        for _ in range(rng.randint(2, 2 + n)):
            tick()
        ops.append({"op": "yield", "k": rng.randint(0, 20)})
        ops.append({"op": "close", "k": 0})
        ops.append({"op": "wait_close", "k": 0})
        for _ in range(rng.randint(0, 2)):
            tick()
    elif family == "inflight":    # a tick is in flight while cancelling
        for _ in range(rng.randint(0, 2)):
            tick()
            ops.append({"op": "recv", "k": 0})
        tick()
        if rng.random() < 0.5:
            tick()
        ops.append({"op": "close", "k": 0})
        tick()
    elif family == "receptive":   # the normal life: tick, harvest, ..., close
        for _ in range(rng.randint(1, 4)):
            tick()
            ops.append({"op": "recv", "k": 0})
        if rng.random() < 0.4:
            ops.append({"op": "recv", "k": 0})
        ops.append({"op": "close", "k": 0})
        ops.append({"op": "wait_close", "k": 0})
    else:
        closed = False
        for _ in range(rng.randint(3, 10)):
            r = rng.random()
            if r < 0.5:
                tick()
            elif r < 0.72:
                ops.append({"op": "recv", "k": 0})
            elif r < 0.85 and not closed:
                ops.append({"op": "close", "k": 0})
                closed = True
            elif r < 0.92 and closed:
                ops.append({"op": "wait_close", "k": 0})
            else:
                ops.append({"op": "yield", "k": rng.randint(0, 30)})
    return ops


def gen_zero_ops(rng):
    ops = []
    masks = [1023, 527, 16, 32, 64, 128, 256, 16 | 32, 64 | 128 | 256, 527 | 16, 496, 0, 512, 1]
    for _ in range(rng.randint(3, 14)):
        r = rng.random()
        if r < 0.55:
            ops.append({"op": "add", "cat": rng.choice(list(CAT_INDEX)), "ht": 0})
        elif r < 0.65:
            ops.append({"op": "add_default", "cat": "", "ht": 0})
        else:
            ops.append({"op": "harvest", "cat": "", "ht": rng.choice(masks + [rng.randrange(1024)])})
    ops.append({"op": "harvest", "cat": "", "ht": rng.choice([1023, 496, 527 | 496])})
    return ops


def hev_coq(ev):
    k = ev[0]
    if k == "tick":
        return "HTick %d %s" % (ev[1], cbool(ev[2]))
    if k == "recv":
        return "HRecvUnknown" if ev[1] < 0 else "HRecv %d" % ev[1]
    if k == "recv_none":
        return "HRecvNone"
    if k == "close":
        return "HClose"
    if k == "close_done":
        return "HCloseDone %s" % cbool(ev[1])
    if k == "quiet":
        return "HQuiet"
    if k == "gone":
        return "HGone %s" % cbool(ev[1])
    raise ValueError(ev)


def run(chk, replay=None):
    st = vlib.std_coq_stage(chk, "PropC12", gen=True)
    rng = random.Random(chk.seed)
    quick = chk.tier == "quick"
    if replay:
        rp = json.load(open(replay))
        plans, lts, zero, proc = rp.get("plans", []), rp.get("lts", []), rp.get("zero", []), rp.get("proc", [])
    else:
        plans = [{"reply": gen_reply(rng, k)} for k in ["all_default"] * 6 + ["custom"] * 6]
        plans += [{"reply": gen_reply(rng)} for _ in range(240 if quick else 1500)]
        lts = []
        for fam in ["busy", "inflight", "receptive", "random"]:
            for kind, n in (("all_default", 1), ("custom", 6)):
                for _ in range(12 if quick else 60):
                    lts.append({"reply": gen_reply(rng, kind), "family": fam, "ops": gen_lts_ops(rng, n, fam)})
        zero = [{"reply": gen_reply(rng, rng.choice(["custom", "all_default", "custom"])), "ops": gen_zero_ops(rng)}
                for _ in range(60 if quick else 400)]
        proc = [{"reply": gen_reply(rng, "custom")}, {"reply": gen_reply(rng, "all_default")},
                {"reply": gen_reply(rng, "custom")}]
    for grp in (plans, lts, zero, proc):
        for c in grp:
            c["json"] = reply_json(c["reply"])
    # a run restarted (409 at harvest) and reconnected under a DIFFERENT harvest configuration: the second run's timers
    if replay:
        restarts = rp.get("restarts", [])
    else:
        kinds = [("all_default", "custom"), ("custom", "all_default"), ("custom", "custom"), ("custom", None), (None, "custom")]
        restarts = []
        for a, b in kinds * (1 if quick else 6):
            restarts.append({"reply1": gen_reply(rng, a) if a else gen_reply(rng), "reply2": gen_reply(rng, b) if b else gen_reply(rng)})
    for c in restarts:
        c["json1"], c["json2"] = reply_json(c["reply1"]), reply_json(c["reply2"])

    # ---- weave + build + run
    real = vlib.DAEMON + "/internal/newrelic/harvest_trigger.go"
    woven = os.path.join(vlib.BUILD, "c12", "harvest_trigger_woven.go")
    try:
        text, ncalls = weave_ticker.weave(open(real).read())
    except Exception as e:  # the ticker is created some other way: the check can no longer observe cadence
        chk.fail("weave.txt", "the ticker weaver does not apply to the current harvest_trigger.go: %s" % e, no_input=True)
        return
    vlib.write_if_changed(woven, text)
    binary, blog = vlib.go_test_binary("newrelic", only=["c12", "proc"], extra_replace={real: woven})
    if binary is None:
        chk.notes.append("harness build failed: " + blog[-2000:])
        chk.fail("harness_build.txt", "correspondence harness (package newrelic, TestVerifC12) does not build "
                 "against the current tree:\n" + blog, no_input=True)
        return
    inp = os.path.join(vlib.BUILD, "c12_in.json")
    outp = os.path.join(vlib.BUILD, "c12_out.json")
    json.dump({"plans": [{"json": c["json"]} for c in plans],
               "lts": [{"json": c["json"], "ops": c["ops"]} for c in lts],
               "zero": [{"json": c["json"], "ops": c["ops"]} for c in zero],
               "proc": [{"json": c["json"]} for c in proc],
               "restarts": [{"json1": c["json1"], "json2": c["json2"]} for c in restarts]}, open(inp, "w"))
    if os.path.exists(outp):
        os.remove(outp)
    rc, out = vlib.run_go_test(binary, "TestVerifC12", {"VERIF_IN": inp, "VERIF_OUT": outp}, timeout=900)
    if rc != 0 or not os.path.exists(outp):
        groups = {"plans": plans, "lts": lts, "zero": zero, "proc": proc, "restarts": restarts}
        try:
            grp, idx = open(outp + ".progress").read().split()
            case = groups[grp][int(idx)]
        except Exception:
            grp, case = None, None
        if case is not None and ("panic:" in out or "fatal error:" in out):
            # the daemon's own goroutines crashed the process while this case was running
            keep = [ln for ln in out.split("\n") if ln.startswith("panic:") or ln.startswith("fatal error:")]
            chk.fail("crash_%s_%s.json" % (grp, idx),
                     {"what": "the process crashed while running this case: " + "; ".join(keep[:3]), grp: [case],
                      "output_tail": out[-3000:]}, sig="c12-crash")
        else:
            chk.fail("harness_run.txt", "harness TestVerifC12 failed (rc=%d):\n%s" % (rc, out[-4000:]), no_input=True)
        return
    obs = json.load(open(outp))

    # ---- cases file
    pcases = []
    for c, o in zip(plans, obs["plans"]):
        tick = clist(["(%s, %s)" % (cN(max(t[1], 0)), cZ(t[0])) for t in o["tickers"]])
        lim = clist([cZ(x) for x in o["limits"]])
        pcases.append("(%s, (%s, %s, %s, %s))" % (reply_coq(c["reply"]), cbool(o["err"]), tick, lim,
                                                   cbool(o["close_ok"] and o["gone"])))
    lcases = []
    for c, o in zip(lts, obs["lts"]):
        lcases.append("(%s, %s)" % (cnat(o["n"]), clist([hev_coq(e) for e in o["events"]])))
    zcases = []
    for c, o in zip(zero, obs["zero"]):
        mops = []
        for op in c["ops"]:
            if op["op"] == "add":
                mops.append("HAdd %s" % CAT_COQ[op["cat"]])
            elif op["op"] == "add_default":
                mops.append("HAddDefault")
            else:
                mops.append("HHarvest %s" % cN(op["ht"]))
        em = clist([clist([cN(EVENT_CMDS[n]) for n in grp]) for grp in o["emitted"]])
        zcases.append("(%s, %s, %s, %s)" % (reply_coq(c["reply"]), clist(mops),
                                            clist([cN(z) for z in zero_cats(c["reply"])]), em))
    qcases = ["(%s, %s)" % (cbool(o["blocked"]), cbool(o["gone"])) for o in obs["proc"]]
    v = """From Coq Require Import NArith ZArith List Bool Arith.
From Verif Require Import Common Trigger TriggerLts TriggerMonitor.
Import ListNotations.
Open Scope Z_scope.
Definition tick := (N * Z)%%type.
Definition pobs := (bool * list tick * list Z * bool)%%type.
Definition pcases : list (reply * pobs) := %s.
Definition tick_eqb (a b : tick) : bool := (fst a =? fst b)%%N && (snd a =? snd b).
Definition count_t (l : list tick) (x : tick) : nat := length (filter (tick_eqb x) l).
Definition mset_eqb (a b : list tick) : bool :=
  forallb (fun x => Nat.eqb (count_t a x) (count_t b x)) (a ++ b).
Fixpoint zlist_eqb (a b : list Z) : bool :=
  match a, b with [], [] => true | x :: a', y :: b' => (x =? y) && zlist_eqb a' b' | _, _ => false end.
Definition pcorr (c : reply * pobs) : bool :=
  let '(r, (err, ticks, lims, _)) := c in
  match trigger_plan r, plan_limits r with
  | Some plan, Some l => negb err && mset_eqb plan ticks && zlist_eqb l lims
  | None, None => err
  | _, _ => false
  end.
(* property: cadence + combined harvest (plan_monitor), and the AppHarvest stops cleanly when closed at once;
   replies with a negative limit are refused at connect, nothing to judge; periods of 2^63 ns or more are outside
   the statement *)
Definition pprop (c : reply * pobs) : bool :=
  let '(r, (err, ticks, lims, stopped)) := c in
  err || negb (reply_in_range r) || (plan_monitor r ticks && stopped).
Definition pcorr_bad := Eval vm_compute in bad_idx pcorr pcases 0.
Definition pprop_bad := Eval vm_compute in bad_idx pprop pcases 0.

Definition lcases : list (nat * list hev) := %s.
Definition cfg_of (n : nat) : tcfg := {| n_trig := n; grouped := negb (Nat.eqb n 1); sync_close := false |}.
Definition lcorr_res := Eval vm_compute in map (fun c => taccepts (cfg_of (fst c)) (lts_events (snd c))) lcases.
Definition lcorr_bad := Eval vm_compute in bad_idx (fun r => (r =? 0)%%N) lcorr_res 0.
Definition lprop_bad := Eval vm_compute in bad_idx (fun c => lts_monitor (snd c)) lcases 0.

Definition zcases : list (reply * list hop * list N * list (list N)) := %s.
Definition ecat_idx (c : ecat) : N := match c with ETxn => 0 | ECustom => 1 | EError => 2 | ESpan => 3 | ELog => 4 end%%N.
Definition lims_of (r : reply) : option (ecat -> N) :=
  match plan_limits r with
  | Some [t; c; e; s; l] => Some (fun x => Z.to_N (match x with ETxn => t | ECustom => c | EError => e | ESpan => s | ELog => l end))
  | _ => None
  end.
Definition ev_only (l : list emitted) : list N :=
  flat_map (fun e => match e with EmEvents c => [ecat_idx c] | EmDefault => [] end) l.
(* emitted event categories per harvest operation, from the model *)
Fixpoint groups (h : hstate) (ops : list hop) : list (list N) :=
  match ops with
  | [] => []
  | HHarvest ht :: r => let '(o, h') := harvest_by_type h ht in ev_only o :: groups h' r
  | o :: r => groups (snd (hstep ([], h) o)) r
  end.
Definition cnt (l : list N) (x : N) : nat := length (filter (N.eqb x) l).
Definition nset_eqb (a b : list N) : bool := forallb (fun x => Nat.eqb (cnt a x) (cnt b x)) (a ++ b).
Fixpoint groups_eqb (a b : list (list N)) : bool :=
  match a, b with [], [] => true | x :: a', y :: b' => nset_eqb x y && groups_eqb a' b' | _, _ => false end.
Definition zcorr (c : reply * list hop * list N * list (list N)) : bool :=
  let '(r, ops, _, em) := c in
  match lims_of r with Some l => groups_eqb (groups (hinit l) ops) em | None => match em with [] => true | _ => false end end.
Definition zprop (c : reply * list hop * list N * list (list N)) : bool :=
  let '(_, _, z, em) := c in zero_monitor z em.
Definition zcorr_bad := Eval vm_compute in bad_idx zcorr zcases 0.
Definition zprop_bad := Eval vm_compute in bad_idx zprop zcases 0.

Definition qcases : list (bool * bool) := %s.
Definition qprop_bad := Eval vm_compute in bad_idx (fun c => proc_monitor (fst c) (snd c)) qcases 0.
Print pcorr_bad. Print pprop_bad. Print lcorr_res. Print lcorr_bad. Print lprop_bad. Print zcorr_bad. Print zprop_bad. Print qprop_bad.
""" % (clist(pcases) if pcases else "[]", clist(lcases) if lcases else "[]",
       clist(zcases) if zcases else "[]", clist(qcases) if qcases else "[]")
    rc, cout = vlib.coq_eval("cases_c12", v, timeout=900)
    keys = ("pcorr_bad", "pprop_bad", "lcorr_res", "lcorr_bad", "lprop_bad", "zcorr_bad", "zprop_bad", "qprop_bad")
    res = {k: vlib.parse_nat_list(vlib.parse_printed(cout, k)) for k in keys}
    if rc != 0 or any(x is None for x in res.values()):
        chk.fail("coq_eval.txt", "in-Coq evaluation of the C12 cases failed:\n" + cout[-4000:], no_input=True)
        return
    # ---- restarts: the periods of the second run's timers are those the SECOND reply asks for
    robs = obs.get("restarts") or []
    usable = [(c, o) for c, o in zip(restarts, robs) if o["second"]]
    if usable:
        rc_items = ["(%s, %s)" % (reply_coq(c["reply2"]), clist([cZ(x) for x in o["second"]])) for c, o in usable]
        rv = """From Coq Require Import NArith ZArith List Bool Arith.
From Verif Require Import Common Trigger TriggerLts TriggerMonitor.
Import ListNotations.
Open Scope Z_scope.
Definition rcases : list (reply * list Z) := %s.
Definition cntz (l : list Z) (x : Z) : nat := length (filter (Z.eqb x) l).
Definition zmset_eqb (a b : list Z) : bool := forallb (fun x => Nat.eqb (cntz a x) (cntz b x)) (a ++ b).
Definition rcorr (c : reply * list Z) : bool :=
  match trigger_plan (fst c) with Some plan => zmset_eqb (map snd plan) (snd c) | None => false end.
Definition rprop (c : reply * list Z) : bool :=
  negb (reply_in_range (fst c)) || match trigger_plan (fst c) with
                                   | Some plan => plan_monitor (fst c) (combine (map fst plan) (snd c)) || zmset_eqb (map snd plan) (snd c)
                                   | None => true end.
Definition rcorr_bad := Eval vm_compute in bad_idx rcorr rcases 0.
Print rcorr_bad.
""" % clist(rc_items)
        rc2, rout = vlib.coq_eval("cases_c12_restart", rv, timeout=300)
        rbad = vlib.parse_nat_list(vlib.parse_printed(rout, "rcorr_bad")) if rc2 == 0 else None
        if rbad is None:
            chk.fail("coq_eval_restart.txt", "in-Coq evaluation of the C12 restart cases failed:\n" + rout[-3000:], no_input=True)
            return
        chk.cov.setdefault("stages", {})["restart"] = {"cases": len(restarts), "judged": len(usable), "wrong_cadence": len(rbad)}
        for i in rbad[:3]:
            c, o = usable[i]
            chk.fail("restart_%d.json" % i, {"what": "after a restart verdict the application was reconnected under a different harvest "
                                                    "configuration, but the timers of the new run do not have the periods its connect reply asks for",
                                             "restarts": [c], "observed": o}, sig="c12-restart-cadence")
    for c, o in zip(restarts, robs):
        chk.count_case({"restart": [c["json1"], c["json2"]]}, nontrivial=bool(o["second"]))

    # ---- coverage
    dist = {"plans": len(plans), "plan_parse_errors": sum(1 for o in obs["plans"] if o["err"]),
            "plan_single_ticker": sum(1 for o in obs["plans"] if len(o["tickers"]) == 1),
            "plan_six_tickers": sum(1 for o in obs["plans"] if len(o["tickers"]) == 6),
            "lts": len(lts), "lts_n1": sum(1 for o in obs["lts"] if o["n"] == 1),
            "lts_n6": sum(1 for o in obs["lts"] if o["n"] == 6),
            "lts_events": sum(len(o["events"]) for o in obs["lts"]),
            "lts_close_seen_blocked": sum(1 for o in obs["lts"] if ["close_done", False] in o["events"]),
            "lts_family": {}, "zero": len(zero),
            "zero_harvests": sum(len(o["emitted"]) for o in obs["zero"]),
            "zero_cases_with_zero_limit": sum(1 for c in zero if zero_cats(c["reply"])), "proc": len(proc)}
    for c in lts:
        dist["lts_family"][c.get("family", "replay")] = dist["lts_family"].get(c.get("family", "replay"), 0) + 1
    for c, o in zip(plans, obs["plans"]):
        chk.count_case({"plan": c["json"]}, nontrivial=not o["err"])
    for c, o in zip(lts, obs["lts"]):
        chk.count_case({"lts": c["json"], "ops": c["ops"]},
                       nontrivial=any(e[0] == "recv" for e in o["events"]) or ["close_done", False] in o["events"])
    for c, o in zip(zero, obs["zero"]):
        chk.count_case({"zero": c["json"], "ops": c["ops"]}, nontrivial=any(o["emitted"]) and bool(zero_cats(c["reply"])))
    for c in proc:
        chk.count_case({"proc": c["json"]}, nontrivial=True)
    if plans:
        chk.sample({"reply": plans[len(plans) // 2]["json"], "tickers": obs["plans"][len(plans) // 2]["tickers"]})
    if lts:
        chk.sample({"lts_ops": lts[-1]["ops"], "events": obs["lts"][-1]["events"]})
    if zero:
        chk.sample({"zero_reply": zero[0]["json"], "limits": obs["zero"][0]["limits"], "emitted": obs["zero"][0]["emitted"]})
    if proc:
        chk.sample({"proc": obs["proc"][0]})
    chk.cov["rule"] = ("plans: connect replies with event_harvest_config / span_event_harvest_config absent, null or present, "
                       "report_period_ms absent/0/60000/other (up to the largest value below 2^63 ns), every limit "
                       "absent/null/0/below/at/above its default/negative; non-trivial = the reply parses. "
                       "lts: scripts of ticks, receives, Close and waits on the real goroutines (families busy / inflight / "
                       "receptive / random, n = 1 and n = 6); non-trivial = a harvest was received or Close was seen blocked. "
                       "zero: additions and harvestByType with assorted type masks; non-trivial = something was sent and some "
                       "category has limit 0. proc: real Processor, inactive application, all triggers waiting to send.")
    chk.cov["input_distribution"] = dist
    chk.cov["disagreements"] = {k: len(x) for k, x in res.items() if k != "lcorr_res"}

    # ---- decide
    for i in res["pprop_bad"]:
        chk.fail("plan_%d.json" % i, {"what": "tickers created for this connect reply violate the cadence / combined-harvest rule, "
                                              "or the AppHarvest did not stop when closed",
                                      "plans": [plans[i]], "observed": obs["plans"][i]},
                 sig="c12-plan-not-stopped" if not (obs["plans"][i]["close_ok"] and obs["plans"][i]["gone"]) else "c12-plan-cadence")
    for i in res["lprop_bad"]:
        ev = obs["lts"][i]["events"]
        sig = "c12-lts-not-terminated" if (["gone", False] in ev or ev[-2:-1] == [["close_done", False]]) else "c12-lts-ticks"
        chk.fail("lts_%d.json" % i, {"what": "event log of the trigger goroutines violates C12 (harvest without tick, lost tick, "
                                             "or goroutines left after Close)", "lts": [lts[i]], "observed": obs["lts"][i]}, sig=sig)
    for i in res["zprop_bad"]:
        chk.fail("zero_%d.json" % i, {"what": "a category whose limit is zero was sent", "zero": [zero[i]],
                                      "observed": obs["zero"][i]}, sig="c12-zero-limit-sent")
    for i in res["qprop_bad"]:
        chk.fail("proc_%d.json" % i, {"what": "the processor blocked (or goroutines were left) when it shut down an application whose "
                                              "triggers were waiting to send", "proc": [proc[i]], "observed": obs["proc"][i]},
                 sig="c12-processor-blocked" if obs["proc"][i]["blocked"] else "c12-proc-goroutines-left")
    broken = []
    if not st["build_ok"]:
        broken.append("theorems of PropC12.v no longer check:\n" + st["log"][-3000:])
    if res["pcorr_bad"]:
        broken.append("correspondence Trigger.trigger_plan / plan_limits vs getHarvestTrigger differs on %s"
                      % json.dumps([{"reply": plans[i]["json"], "observed": obs["plans"][i]} for i in res["pcorr_bad"][:3]])[:4000])
    if res["lcorr_bad"]:
        broken.append("correspondence: the trigger LTS does not accept the event logs of scenarios %s: %s"
                      % (res["lcorr_bad"][:10], json.dumps([{"ops": lts[i]["ops"], "events": obs["lts"][i]["events"],
                                                              "n": obs["lts"][i]["n"], "note": obs["lts"][i].get("note"),
                                                              "first_unmatched_vev": res["lcorr_res"][i] - 1}
                                                             for i in res["lcorr_bad"][:3]])[:5000]))
    if res["zcorr_bad"]:
        broken.append("correspondence Trigger.harvest_by_type vs harvestByType differs on %s"
                      % json.dumps([{"reply": zero[i]["json"], "ops": zero[i]["ops"], "observed": obs["zero"][i]}
                                    for i in res["zcorr_bad"][:3]])[:4000])
    if broken and not chk.violations:
        chk.fail("broken.txt", "\n\n".join(broken), no_input=True)
    chk.assumptions += ["Go channel / select / goroutine semantics as modelled in TriggerLts.tstep; the broadcast goroutine "
                        "cancels the members in broadcastGroup order",
                        "periods of 2^63 ns or more (report_period_ms >= 9223372036855) are outside the statement "
                        "(time.Duration wraps; time.NewTicker panics on non-positive durations)",
                        "harness waits of 250 ms stand for 'nothing more happens' (VQuiet)",
                        "time.NewTicker is the only source of ticks in harvest_trigger.go (weaver fails loudly otherwise)"]
