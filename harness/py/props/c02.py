"""C02 -- processor-level property; see proccheck.py / procgen.py / coq/Processor.v / coq/ProcMonitor.v."""
import proccheck
import statuscheck

LEVEL = "proof"


def run(chk, replay=None):
    proccheck.run(chk, "PropC02", {'failures': 5, 'mixed': 3, 'all_ok': 1}, 140, 3000, [101, 201, 202], replay=replay)
    statuscheck.run_stage(chk)
