"""C02 -- processor-level property; see proccheck.py / procgen.py / coq/Processor.v / coq/ProcMonitor.v."""
import random

from props import c07
import proccheck
import procgen
import statuscheck

LEVEL = "proof"


def run(chk, replay=None):
    # bulk: a reservoir of >= MaxTxnEvents/2 transaction events whose payload is split in two and keeps failing
    nbulk = 1 if chk.tier == "quick" else 8
    proccheck.run(chk, "PropC02", {'failures': 5, 'mixed': 3, 'all_ok': 1}, 140, 3000, [101, 201, 202, 203], replay=replay,
                  extra_histories=lambda rng: procgen.gen_histories(rng, 1, {"bulkfail": 1}) +
                  procgen.gen_histories(rng, nbulk - 1, {"bulk": 1, "bulkfail": 1}) +
                  procgen.gen_histories(rng, 3 if chk.tier == "quick" else 40, {"outage": 1}))
    statuscheck.run_stage(chk)
    # metric payloads: the attempt counter across MergeFailed / ApplyRules, below and above the table limit
    c07.run_table_cases(chk, c07.retry_cases(random.Random(chk.seed + 2)), "c02tab",
                        "a carried-over metric table is not re-sent / given up as specified: 1 + 5 attempts, whether or not "
                        "rename rules apply and whether or not forced metrics have pushed the table past its limit")
