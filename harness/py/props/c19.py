"""C19 -- settings resolve as command line over file over default, for all syntaxes.

Streams (all generated from chk.seed):
  main       random subsets of settings on the command line (every flag spelling, --define, legacy letters) and/or in
             a configuration file (single-quoted, double-quoted with escapes, raw with trailing comment, blank, any
             spacing, CRLF, comments, unknown keys, last line without newline).  The REAL configure() runs in a child
             process.  Monitor (ConfigMonitor.monitor, model-independent): every field of the returned Config equals
             the last command-line value, else the last file value, else the documented default; the listen address
             is address, else port, else @newrelic.  Correspondence: Config.configure on the same argv/file.
  malformed  a malformed value for a known key (file, flag, --define), a syntax error, an unknown flag, a missing
             file: the daemon must exit 1 (never run with a silent default).
  quirk      fixed edge cases (`--foreground false`, `--`, values with # and ;, keyword at EOF, help, ...):
             correspondence only; each is described in the final report.
  dq         `\\"` inside a double-quoted value (monitor; expected finding).
  decode     arbitrary byte strings through config.ParseString (package main on main.Config, package config on a
             mirror struct): no panic, no hang (monitor); same error/ok and same struct as Config.decode_effects.
  binary     the real daemon binary, listen address read back from the banner (new and legacy flags).
"""
import ast
import json
import os
import random
import re
import signal
import subprocess
import time

import vlib
from vlib import cN, cbool, clist, cbytes

LEVEL = "proof"
CFG_TOKEN = b"@@CFG@@"

# name, kind, new flags, legacy flag, file key -- the documented interface (usage text, newrelic.cfg.template)
SETTINGS = [
    ("BindPort", "str", ["port"], None, "port"),
    ("BindAddr", "str", ["address"], "P", "address"),
    ("Proxy", "str", ["proxy"], "x", "proxy"),
    ("Pidfile", "str", ["pidfile"], "p", "pidfile"),
    ("NoPidfile", "bool", ["no-pidfile"], "no-pidfile", None),
    ("LogFile", "str", ["logfile"], "l", "logfile"),
    ("LogLevel", "level", ["loglevel"], "d", "loglevel"),
    ("AuditFile", "str", ["auditlog"], "a", "auditlog"),
    ("Foreground", "bool", ["f", "foreground"], "f", None),
    ("WatchdogForeground", "bool", ["watchdog-foreground"], None, None),
    ("Utilization", "bool", ["utilization"], None, None),
    ("DetectAWS", "bool", [], None, "utilization.detect_aws"),
    ("DetectAzure", "bool", [], None, "utilization.detect_azure"),
    ("DetectGCP", "bool", [], None, "utilization.detect_gcp"),
    ("DetectPCF", "bool", [], None, "utilization.detect_pcf"),
    ("DetectDocker", "bool", [], None, "utilization.detect_docker"),
    ("DetectKubernetes", "bool", [], None, "utilization.detect_kubernetes"),
    ("LogicalProcessors", "int", [], None, "utilization.logical_processors"),
    ("TotalRamMIB", "int", [], None, "utilization.total_ram_mib"),
    ("BillingHostname", "str", [], None, "utilization.billing_hostname"),
    ("Agent", "bool", ["agent"], "A", None),
    ("MaxFiles", "uint", [], None, "rlimit_files"),
    ("PProfPort", "int", ["pprof"], None, None),
    ("CAPath", "str", ["capath"], "S", "ssl_ca_path"),
    ("CAFile", "str", ["cafile"], "b", "ssl_ca_bundle"),
    ("IntegrationMode", "bool", ["integration"], None, None),
    ("AppTimeout", "timeout", [], None, "app_timeout"),
    ("WaitForPort", "duration", ["wait-for-port"], None, "wait_for_port"),
]
BY_NAME = {s[0]: s for s in SETTINGS}

STRS = [b"", b"/var/run/newrelic-daemon.pid", b"8080", b"@nr-sock", b"127.0.0.1:9000", b"with space", b"a#b",
        b"semi;colon", b"it's", b'say "hi"', b"back\\slash", b"\\n literal", b"tab\there", b"two\nlines", b"cr\rlf\r\n",
        "ünïcöde".encode(), "日本".encode(), b"\xff\xfe raw bytes", b" lead", b"trail ", b"=eq=",
        b"-dash", b"--port", b"x", b"0", b"a\\", b"\\\\", b"'\"both", b"\x08\x0b\x0c", b"user:pw@proxy:8080",
        b"end\xc2\xa0", b"[::1]:31339", b"/tmp/.newrelic.sock", b"#hash", b";semi"]
ASCII_WS = (9, 10, 11, 12, 13, 32)
WS_LEAD = [b"", b"", b" ", b"\t", b"\n", b"\r\n", b"  \n\t", b"\n\n", b"\x0b\x0c", b"\xc2\xa0", b"\xc2\x85"]
WS1 = [b"", b"", b" ", b"\t", b"  ", b" \n ", b"\r\n", b"\xc2\xa0"]
WS2 = [b"", b"", b" ", b"\t", b" \t ", b"\r", b"\xc2\xa0 "]
TRAIL = [b"", b"", b" ", b"\t", b"  ", b"\r", b" \xc2\xa0"]
COMMENTS = [b"# comment", b"; old style", b"#", b"#port=1", b"; 'quote\" = x", b"# \xc3\xa9\xff"]
UNKNOWN_KEYS = [b"unknown", b"Port", b"utilization.detect_foo", b"port2", b"a.b.c", b"x_y", b"loglevel.x", b"PORT"]


def hx(b):
    return bytes(b).hex()


# ------------------------------------------------------------------ values and their spellings

def vs(b):
    return {"s": hx(b)}


def rand_case(rng, w):
    return "".join(ch.upper() if rng.random() < 0.4 else ch for ch in w)


def int_spelling(rng, n, signed=True):
    k = rng.randrange(7)
    a = abs(n)
    if k == 0 or (n < 0 and not signed):
        body = str(a)
    elif k == 1:
        body = rng.choice(["0x%x", "0X%X", "0x%X"]) % a
    elif k == 2:
        body = "0%o" % a if a else "0"
    elif k == 3:
        body = rng.choice(["0o%o", "0O%o"]) % a
    elif k == 4:
        body = rng.choice(["0b", "0B"]) + bin(a)[2:]
    elif k == 5 and a >= 1000:
        body = "%d_%03d" % (a // 1000, a % 1000)
    else:
        body = str(a)
    if n < 0:
        return "-" + body
    return ("+" if signed and rng.random() < 0.15 else "") + body


def gen_int(rng, signed=True):
    n = rng.choice([0, 1, 2, 7, 8, 64, 255, 1000, 2048, 4096, 65535, 123456, 2 ** 31, 2 ** 62, 2 ** 63 - 1,
                    rng.randrange(100000)])
    if signed and rng.random() < 0.2:
        n = -n
    return n


LEVELS = [("always", 0), ("error", 1), ("warning", 2), ("info", 3), ("healthcheck", 4), ("debug", 5),
          ("verbose", 5), ("verbosedebug", 5)]


def gen_level(rng):
    w, n = rng.choice(LEVELS)
    w = rand_case(rng, w)
    k = rng.randrange(5)
    if k == 0:
        w = rand_case(rng, "all") + "=" + w
    elif k == 1:
        w = "*=" + w
    return w.encode(), n


UNITS = [("ns", 1), ("us", 10 ** 3), ("ms", 10 ** 6), ("s", 10 ** 9), ("m", 60 * 10 ** 9), ("h", 3600 * 10 ** 9)]


def gen_duration(rng, bare_ms):
    """(spelling, nanoseconds); bare_ms: a number without unit is allowed and means milliseconds (config.Timeout)"""
    k = rng.randrange(8)
    n = rng.choice([0, 1, 2, 3, 5, 10, 30, 90, 600, 1500, rng.randrange(5000)])
    if k == 0 and bare_ms:
        return str(n).encode(), n * 10 ** 6
    if k == 1:
        a, b = rng.randrange(1, 5), rng.randrange(60)
        return ("%dh%dm" % (a, b)).encode(), a * 3600 * 10 ** 9 + b * 60 * 10 ** 9
    if k == 2:
        return b"0", 0
    u, f = rng.choice(UNITS)
    return ("%d%s" % (n, u)).encode(), n * f


TRUE_FLAG = ["1", "t", "T", "true", "TRUE", "True"]
FALSE_FLAG = ["0", "f", "F", "false", "FALSE", "False"]
TRUE_WORDS = ["y", "yes", "on", "true", "t", "1"]
FALSE_WORDS = ["n", "no", "off", "false", "f", "0"]


def gen_value(rng, kind, where):
    """where: 'flag' | 'file'.  Returns (token bytes or None for a bare bool flag, intended value)."""
    if kind == "str":
        b = rng.choice(STRS) if rng.random() < 0.8 else bytes(rng.choice([32, 35, 39, 34, 59, 92, 97, 98, 0xc3, 0xa9, 0xff, 10, 61])
                                                            for _ in range(rng.randrange(1, 8)))
        return b, vs(b)
    if kind == "bool":
        v = rng.random() < 0.5
        if where == "flag":
            if v and rng.random() < 0.5:
                return None, {"b": True}
            return rng.choice(TRUE_FLAG if v else FALSE_FLAG).encode(), {"b": v}
        if not v and rng.random() < 0.1:
            return b"", {"b": False}
        return rand_case(rng, rng.choice(TRUE_WORDS if v else FALSE_WORDS)).encode(), {"b": v}
    if kind == "int":
        n = gen_int(rng)
        return int_spelling(rng, n).encode(), {"i": n}
    if kind == "uint":
        n = gen_int(rng, signed=False)
        return int_spelling(rng, n, signed=False).encode(), {"i": n}
    if kind == "level":
        w, n = gen_level(rng)
        return w, {"i": n}
    if kind == "timeout":
        w, n = gen_duration(rng, bare_ms=True)
        return w, {"i": n}
    if kind == "duration":
        if where == "flag":
            w, n = gen_duration(rng, bare_ms=False)
            return w, {"i": n}
        n = rng.choice([0, 1, 5, 10 ** 9, 3 * 10 ** 9, 5 * 10 ** 9, rng.randrange(10 ** 10)])
        return int_spelling(rng, n).encode(), {"i": n}      # the file takes an integer number of nanoseconds
    raise ValueError(kind)


def raw_ok(v):
    if not v:
        return False
    if v[0] >= 128 or v[0] in ASCII_WS or v[0] in (39, 34):
        return False
    if any(c in v for c in b"#;\n"):
        return False
    return v[-1] < 128 and v[-1] not in ASCII_WS


def dq_escape(rng, v):
    out = bytearray()
    table = {8: b"\\b", 9: b"\\t", 10: b"\\n", 11: b"\\v", 12: b"\\f", 13: b"\\r"}
    for c in v:
        if c == 92:
            out += b"\\\\"
        elif c in table and rng.random() < 0.6:
            out += table[c]
        else:
            out.append(c)
    return bytes(out)


def file_value(rng, tok):
    """Text of a value in file syntax.  Returns (text, needs_eol) or None when no style can express tok."""
    styles = []
    if b"'" not in tok:
        styles.append("sq")
    if b'"' not in tok:
        styles.append("dq")
    if raw_ok(tok):
        styles += ["raw", "raw"]
    if tok == b"":
        styles += ["blank", "blank"]
    if not styles:
        return None
    st = rng.choice(styles)
    if st == "sq":
        return b"'" + tok + b"'", False
    if st == "dq":
        return b'"' + dq_escape(rng, tok) + b'"', False
    if st == "raw":
        t = tok + rng.choice(TRAIL)
        if rng.random() < 0.4:
            t += rng.choice(COMMENTS)
        return t, True
    return rng.choice([b"", b" ", b"\t"]), True


def eol(rng, crlf):
    return b"\r\n" if crlf else b"\n"


def file_item(rng, key, tok, crlf, last):
    """One assignment line.  None if tok cannot be written."""
    fv = file_value(rng, tok)
    if fv is None:
        return None
    text, needs = fv
    out = rng.choice(WS_LEAD) + key + rng.choice(WS1) + b"=" + rng.choice(WS2) + text
    if needs:
        if not (last and rng.random() < 0.5):
            out += eol(rng, crlf)
    else:
        k = rng.randrange(4)
        if k == 0:
            out += rng.choice(TRAIL) + rng.choice(COMMENTS) + (b"" if last and rng.random() < 0.5 else eol(rng, crlf))
        elif k == 1:
            out += eol(rng, crlf)
        elif k == 2:
            out += b" "
    return out


def gen_file(rng, legacy):
    """(content, intended list)"""
    crlf = rng.random() < 0.3
    keyed = [s for s in SETTINGS if s[4]]
    n = rng.choice([0, 1, 2, 3, 4, 6, 9])
    plan = []
    for _ in range(n):
        s = rng.choice(keyed)
        plan.append(("set", s))
        if rng.random() < 0.15:
            plan.append(("set", s))
    for _ in range(rng.randrange(3)):
        plan.insert(rng.randrange(len(plan) + 1), ("comment", None))
    for _ in range(rng.randrange(3)):
        plan.insert(rng.randrange(len(plan) + 1), ("unknown", None))
    out, intended = b"", []
    for i, (what, s) in enumerate(plan):
        last = i == len(plan) - 1
        if what == "comment":
            com = rng.choice(COMMENTS)
            if rng.random() < 0.06:
                # a comment longer than the reader's buffer whose tail reads like a setting (seeded/C19e2)
                com = rng.choice([b"# ", b"; "]) + rng.choice([b"x", b"long prose "]) * rng.choice([4090, 4200, 900]) \
                    + rng.choice([b" port = 9999", b" loglevel = always", b"pidfile=/c", b""])
            out += rng.choice(WS_LEAD) + com + (b"" if last and rng.random() < 0.5 else eol(rng, crlf))
        elif what == "unknown":
            tok = rng.choice([b"1", b"maybe", b"x y", b"", b"'", b"12x"])
            it = file_item(rng, rng.choice(UNKNOWN_KEYS), tok, crlf, last)
            out += it if it is not None else b""
        else:
            for _ in range(20):
                tok, val = gen_value(rng, s[1], "file")
                it = file_item(rng, s[4].encode(), tok, crlf, last)
                if it is not None:
                    out += it
                    intended.append([s[0], val])
                    break
    if out and rng.random() < 0.3 and out.endswith(b"\n"):
        out += rng.choice(WS_LEAD)
    return out, intended


def flag_args(rng, name, tok, is_bool=False):
    """-name v | --name v | -name=v | --name=v; a boolean flag takes its value only in the = form"""
    dd = b"--" if rng.random() < 0.5 else b"-"
    if tok is None:
        return [dd + name]
    if is_bool or rng.random() < 0.5:
        return [dd + name + b"=" + tok]
    return [dd + name, tok]


def gen_cmd(rng, legacy, cfg_path_token):
    """(args, intended list)"""
    args, intended = [], []
    if legacy:
        cands = [s for s in SETTINGS if s[3]]
    else:
        cands = [s for s in SETTINGS if s[2] or s[4]]
    n = rng.choice([0, 1, 2, 3, 5, 8])
    plan = []
    for _ in range(n):
        s = rng.choice(cands)
        plan.append(s)
        if rng.random() < 0.25:
            plan.append(s)                      # the same setting twice: the last one wins
    rng.shuffle(plan)
    chunks = []
    for s in plan:
        name, kind, flags, leg, key = s
        if legacy:
            tok, val = gen_value(rng, kind, "flag")
            if kind == "bool" and tok is not None and tok == b"":
                tok = None
            chunks.append((flag_args(rng, leg.encode(), tok, kind == "bool"), [name, val]))
            continue
        use_define = key and (not flags or rng.random() < 0.4)
        if use_define:
            for _ in range(20):
                tok, val = gen_value(rng, kind, "file")
                fv = file_value(rng, tok)
                if fv is None:
                    continue
                text, needs = fv
                d = key.encode() + rng.choice(WS1) + b"=" + rng.choice(WS2) + text
                if needs and rng.random() < 0.3:
                    d += b"\n"
                if rng.random() < 0.15:
                    d = rng.choice([b" ", b"\n", b"# c\n"]) + d
                chunks.append((flag_args(rng, b"define", d), [name, val]))
                break
        else:
            tok, val = gen_value(rng, kind, "flag")
            chunks.append((flag_args(rng, rng.choice(flags).encode(), tok, kind == "bool"), [name, val]))
    if legacy and not any(c[1][0] not in ("Foreground", "NoPidfile") for c in chunks):
        # make sure the new flag set rejects the command line
        tok, val = gen_value(rng, "str", "flag")
        chunks.append((flag_args(rng, b"l", tok), ["LogFile", val]))
    if not legacy and rng.random() < 0.05:
        chunks.append(([rng.choice([b"-v", b"--version", b"-version=true"])], ["printVersion", {"b": True}]))
    if cfg_path_token is not None:
        c = (flag_args(rng, b"c", cfg_path_token), ["ConfigFile", vs(cfg_path_token)])
        pos = rng.randrange(len(chunks) + 1)
        chunks.insert(pos, c)
        if rng.random() < 0.15:
            chunks.insert(rng.randrange(pos + 1), (flag_args(rng, b"c", b"/nonexistent/verif-c19.cfg"),
                                                   ["ConfigFile", vs(b"/nonexistent/verif-c19.cfg")]))
    for a, i in chunks:
        args += a
        intended.append(i)
    return args, intended


def gen_main(rng, n):
    cases = []
    for i in range(n):
        legacy = rng.random() < 0.3
        use_file = rng.random() < 0.75
        content, fint = gen_file(rng, legacy) if use_file else (None, [])
        args, cint = gen_cmd(rng, legacy, CFG_TOKEN if use_file else None)
        cases.append({"kind": "main", "legacy_cmd": legacy, "args": [hx(a) for a in args],
                      "file": None if content is None else hx(content), "cmd": cint, "fil": fint, "accept": True})
    return cases


def fixed_case(kind, args, content=None, cmd=None, fil=None, accept=True, note=""):
    return {"kind": kind, "legacy_cmd": False, "args": [hx(a) for a in args],
            "file": None if content is None else hx(content), "cmd": cmd or [], "fil": fil or [], "accept": accept,
            "note": note}


def gen_malformed(rng):
    c = CFG_TOKEN
    out = []
    bad_file = [b"utilization.detect_aws = maybe\n", b"utilization.logical_processors = 12x\n", b"rlimit_files = -1\n",
                b"rlimit_files = 0x\n", b"app_timeout = \n", b"app_timeout = 5 parsecs\n", b"app_timeout=abc",
                b"loglevel = loud\n", b"wait_for_port = 3s\n", b"utilization.total_ram_mib = 99999999999999999999\n",
                b"port = 1\nutilization.detect_gcp = 'ja'\n", b"loglevel = \"info,loud\"\n", b"rlimit_files = 1__0\n",
                b"utilization.detect_pcf = tru\n", b"app_timeout = 10\xc2\xb5\n",
                # syntax errors
                b"= value\n", b"port 8080\n", b"port = 'unclosed\n", b"port = \"unclosed", b"9key = 1\n",
                b"port\n", b"port ", b"pidfile : x\n", b"port = 1\n[section]\n", b"logfile = 'a'\n*\n"]
    for t in bad_file:
        out.append(fixed_case("malformed", [b"-c", c, b"--foreground"], t, accept=False, note="file: %r" % t))
        if rng.random() < 0.5:
            out.append(fixed_case("malformed", [b"-f", b"-c", c, b"-l", b"x.log"], t, accept=False,
                                  note="file (legacy flags): %r" % t))
    bad_cmd = [[b"--pprof", b"abc"], [b"--wait-for-port", b"5"], [b"--wait-for-port=soon"], [b"--loglevel", b"loud"],
               [b"--foreground=maybe"], [b"-f=yes"], [b"--define", b"rlimit_files=-1"], [b"--define", b"port 8080"],
               [b"--define", b"app_timeout="], [b"--define=utilization.detect_aws=si"], [b"-d", b"loud"],
               [b"-l", b"x", b"-A=maybe"], [b"--define", b"port='x"], [b"--pprof=0x"],
               # unknown flags, missing arguments, bad syntax
               [b"--bogus"], [b"-Z"], [b"--port"], [b"-l"], [b"---port", b"1"], [b"-=x"], [b"--port", b"1", b"--nope=2"],
               [b"-l", b"x", b"--port", b"1"], [b"--foreground", b"-P", b"x"], [b"-l", b"x", b"-h"],
               [b"-c", b"/nonexistent/verif-c19.cfg"], [b"-l", b"x", b"-c", b"/nonexistent/verif-c19.cfg"]]
    for a in bad_cmd:
        out.append(fixed_case("malformed", a, accept=False, note="argv: %r" % a))
    return out


def gen_quirks():
    c = CFG_TOKEN
    q = [
        fixed_case("quirk", [b"--foreground", b"false", b"--port", b"9000"], note="bool flag with a separate value: 'false' is positional and ends flag parsing"),
        fixed_case("quirk", [b"stop", b"--port", b"1"], note="first positional argument ends flag parsing"),
        fixed_case("quirk", [b"--", b"--port", b"1"], note="-- ends flag parsing"),
        fixed_case("quirk", [b"--port", b"1", b"--", b"--address", b"x"]),
        fixed_case("quirk", [b"-"], note="a single dash is positional"),
        fixed_case("quirk", [b"--help"], note="exit 2"),
        fixed_case("quirk", [b"-h"]),
        fixed_case("quirk", [b"--port", b"1", b"-help"]),
        fixed_case("quirk", [b"--version"]),
        fixed_case("quirk", [b"-v=false", b"-v"]),
        fixed_case("quirk", [b"--port=9", b"--address=a"], note="both given: warning, address wins"),
        fixed_case("quirk", [b"-c", c, b"--port", b"9"], b"address = filehost:1\n", note="file address beats command-line port"),
        fixed_case("quirk", [b"-c", c, b"--address", b""], b"address = filehost:1\nport=7\n", note="explicit empty --address"),
        fixed_case("quirk", [b"-c", c, b"--address", b"h:1"], b"port = 7\n", note="file port + command-line address"),
        fixed_case("quirk", [b"-c", c], b"port", note="keyword immediately followed by EOF: silently accepted"),
        fixed_case("quirk", [b"-c", c], b"port = 5\nloglevel", note="trailing bare keyword at EOF"),
        fixed_case("quirk", [b"-c", c], b"logfile = # none\n", note="comment character right after '=': taken as the value"),
        fixed_case("quirk", [b"-c", c], b"logfile = a#b\npidfile = x ; y\nproxy=;\n", note="# and ; inside raw values start a comment"),
        fixed_case("quirk", [b"-c", c], b"logfile = 'a' pidfile = 'b' proxy='c'", note="several assignments on one line after quoted values"),
        fixed_case("quirk", [b"-c", c], b"logfile = \"a\\qb\\\\n\\\"\nport=1", note="unknown escape kept; \\\" ends the string"),
        fixed_case("quirk", [b"-c", c], b"loglevel = info;debug\n", note="; in a raw log level is a comment"),
        # lines longer than the reader's 4096-byte buffer (a comment must be skipped to ITS end of line; seeded/C19e2)
        fixed_case("quirk", [b"-c", c], b"# " + b"x" * 4090 + b" use: port = 9999\nloglevel = debug\n", note="comment line of about 4110 bytes"),
        fixed_case("quirk", [b"-c", c], b"; " + b"long prose " * 800 + b"\r\nport = 7\r\n", note="8800-byte comment, CRLF"),
        fixed_case("quirk", [b"-c", c], b"port = 5\n#" + b"y" * 4095 + b"\n#" + b"z" * 4096 + b"k = v\nlogfile = /l\n", note="comments of exactly 4096 / 4097+ bytes"),
        fixed_case("quirk", [b"-c", c], b"logfile = /" + b"d" * 5000 + b" # c\npidfile = '" + b"q" * 4500 + b"'\n", note="values longer than the buffer"),
        fixed_case("quirk", [b"--define", b"# " + b"w" * 4200 + b" port = 1"], note="long comment in a --define"),
        fixed_case("quirk", [b"--loglevel", b"info;debug"]),
        fixed_case("quirk", [b"--loglevel", b"error,daemon=warning,x=always"]),
        fixed_case("quirk", [b"--loglevel", b"=debug"]),
        fixed_case("quirk", [b"--loglevel", b""]),
        fixed_case("quirk", [b"--define", b"port=1\naddress=x"], note="two assignments in one --define"),
        fixed_case("quirk", [b"--define", b"port"], note="--define with a bare keyword: accepted, no effect"),
        fixed_case("quirk", [b"--define", b""]),
        fixed_case("quirk", [b"--define", b"# only a comment"]),
        fixed_case("quirk", [b"--define=port=5", b"-define=address=6"]),
        fixed_case("quirk", [b"--port", b"1", b"--define", b"port=2"], note="flag then define: define wins (later)"),
        fixed_case("quirk", [b"--define", b"port=2", b"--port", b"1"], note="define then flag: flag wins (later)"),
        fixed_case("quirk", [b"--define", b"wait_for_port=7", b"--wait-for-port", b"2s"]),
        fixed_case("quirk", [b"--wait-for-port", b"2s", b"--define", b"wait_for_port=7"]),
        fixed_case("quirk", [b"-c", c, b"-f"], b"port = 'x\n", note="bad file with flags valid in both sets: legacy notice, exit 1"),
        fixed_case("quirk", [b"-c", c, b"-l", b"x"], b"port = 7\n", note="legacy: file port becomes the listen address"),
        fixed_case("quirk", [b"-l", b"x"], note="legacy: default listen address; wait-for-port default"),
        fixed_case("quirk", [b"-P", b"9", b"-l", b"x", b"-c", c], b"address=file:1\nwait_for_port=5\n"),
        fixed_case("quirk", [b"-f", b"-no-pidfile", b"-c", c], b"pidfile=/x\r\nlogfile=\"l\"\r\n"),
        fixed_case("quirk", [b"-c", c], b"\xef\xbb\xbfport = 1\n", note="UTF-8 byte order mark: syntax error"),
        fixed_case("quirk", [b"-c", c], b"p\xc3\xb6rt = 1\nport.x = 2\nport_ = 3\n", note="non-ASCII letters, dots, underscores in unknown keys"),
        fixed_case("quirk", [b"-c", c], b"utilization.detect_aws =\nutilization.logical_processors=\nrlimit_files=\nloglevel=\n", note="empty values: zero value (info for the level)"),
        fixed_case("quirk", [b"--pprof", b"-0x10"]),
        fixed_case("quirk", [b"-c", b""], note="empty config file name: no file"),
    ]
    return q


def gen_dq():
    c = CFG_TOKEN
    return [
        fixed_case("dq", [b"-c", c], b'proxy = "a\\"b"\n', fil=[["Proxy", vs(b'a"b')]], note='\\" inside a double-quoted value'),
        fixed_case("dq", [b"-c", c], b'proxy = "say \\"hi\\" = c"\n', fil=[["Proxy", vs(b'say "hi" = c')]]),
        fixed_case("dq", [b"--define", b'logfile="\\"q\\""'], cmd=[["LogFile", vs(b'"q"')]]),
    ]


ALPHABET = [b"port", b"address", b"loglevel", b"app_timeout", b"rlimit_files", b"utilization.detect_aws", b"s", b"b", b"i",
            b"n_1", b"t", b"d", b"l", b"a.b.c", b"cl\xc3\xa9.\xc3\x9f2", b"NoTag", b"=", b"=", b" = ", b"'", b'"', b"#", b";",
            b"\n", b"\n", b"\r\n", b" ", b"\t", b"\\", b"\\n", b"\\\"", b"true", b"yes", b"off", b"0x1F", b"017", b"1_000",
            b"-5", b"10m", b"1h30m", b"250", b"debug", b"all=error", b"x", b"9", b".", b"_", b"\xc3\xa9", b"\xe2\x80\xa8",
            b"\xc2\xa0", b"\xff", b"\xc3", b"\xe2\x82", b"\xf0\x9f\x98\x80", b"\xed\xa0\x80", b"\x00", b"\x0b", b"\xd9\xa3",
            b"\xe2\x85\xa7", b"\xc2\xb2", b"1.5s", b"\xc2\xb5s", b"18446744073709551615", b"9223372036854775808"]


def gen_texts(rng, n, seeds):
    out = [b"", b"\n", b"=", b"a", b"a=", b"a='", b"a=\"", b"a = b", b"#", b";x", b"s='v'", b"s=\"\\t\\q\\\\\"", b"s = v # c",
           b"b=yes\ni=0x10\nn_1=0777\nt=5\nd=7\nl=debug", b"t=", b"l=", b"i=", b"b=", b"n_1=", b"d=", b"s=",
           b"a.b.c = x\r\ncl\xc3\xa9.\xc3\x9f2 = y\r\nNoTag='z'", b"s=\xff\xfe", b"s = \xc2\xa0v\xc2\xa0", b"s = v\xc2",
           b"s = v\xe2\x80\xa8", b"s = v\xe1\x9a\x80 ", b"s=\xc2\xa0", b"\xc2\xa0s=1", b"s\xc2\xa0=1", b"s\xe2\x80\xa8=\xe2\x80\xa81",
           b"\xd9\xa3=1", b"s\xd9\xa3=1", b"s\xe2\x85\xa7 = 1", b"t=1.5s", b"t=10\xc2\xb5s", b"t=10\xce\xbcs", b"t=-5s",
           b"t=+5s", b"t=9223372036854775807ns", b"t=9223372036854775808ns", b"t=2562048h", b"t=3000000h", b"t=0",
           b"t=00", b"t=1h1", b"t=1h1m1", b"t=1x", b"t=s", b"i=+", b"i=-", b"i=0x", b"i=0b2", b"i=0o8", b"i=08", b"i=_1",
           b"i=1_", b"i=1__0", b"i=0x_1", b"i=0_7", b"i=-9223372036854775808", b"i=9223372036854775808",
           b"n_1=18446744073709551615", b"n_1=18446744073709551616", b"n_1=-0", b"n_1=+1", b"b=T", b"b=ON", b"b=2",
           b"b=tru\xc3\xa9", b"l=Verbose", b"l=x=debug,y=error", b"l=all=", b"l=,,;", b"l='a;b'", b"l=healthchec\xe2\x84\xaa"]
    while len(out) < n:
        k = rng.randrange(4)
        if k == 0:
            t = b"".join(rng.choice(ALPHABET) for _ in range(rng.randrange(1, 14)))
        elif k == 1:
            t = bytes(rng.getrandbits(8) for _ in range(rng.randrange(1, 40)))
        elif k == 2 and seeds:
            t = bytearray(rng.choice(seeds))
            for _ in range(rng.randrange(1, 4)):
                if not t:
                    break
                p = rng.randrange(len(t))
                m = rng.randrange(4)
                if m == 0:
                    del t[p:]
                elif m == 1:
                    t[p] = rng.getrandbits(8)
                elif m == 2:
                    t[p:p] = rng.choice([b"'", b'"', b"#", b"\n", b"=", b"\\", b"\xff"])
                else:
                    del t[p]
            t = bytes(t)
        else:
            key = rng.choice(ALPHABET[:16])
            t = key + rng.choice(WS1) + b"=" + rng.choice(WS2) + rng.choice(ALPHABET) + rng.choice(ALPHABET) + rng.choice([b"", b"\n"])
        out.append(t)
    return out[:n]


# ------------------------------------------------------------------ Coq terms

def cB(b):
    """byte string as ConfigCheck.B <length> <one hex numeral>: parsed far faster than a list of numerals"""
    b = bytes(b)
    return "(@nil N)" if not b else "(B %d 0x%s)" % (len(b), b.hex())


NAMES = {}


def cname(n):
    """a Go field name, defined once in the cases file and used by reference"""
    if n not in NAMES:
        NAMES[n] = "nm_%d" % len(NAMES)
    return NAMES[n]


def name_defs():
    return "".join("Definition %s : bytes := Eval vm_compute in %s.\n" % (v, cB(k.encode())) for k, v in NAMES.items())


def cval(v):
    if "s" in v:
        return "VStr %s" % cB(bytes.fromhex(v["s"]))
    if "b" in v:
        return "VBool %s" % cbool(v["b"])
    if "i" in v:
        return "VInt (%d)%%Z" % int(v["i"])
    return "VUnknown"


def cnamed(d, skip=("Role",)):
    """observed struct as a Coq `named`; Role is derived from the environment, not a setting"""
    items = []
    for name in sorted(d):
        if name in skip or "other" in d[name]:
            continue
        items.append("(%s, %s)" % (cname(name), cval(d[name])))
    return clist(items)


def cobserved(o):
    if o["outcome"] == "run":
        return "ORun %s %s %s" % (cbool(o["legacy"]), cbool(o["warning"]), cnamed(o["cfg"]))
    if o["outcome"] == "exit" and o["code"] >= 0:
        return "OExit %s" % cN(o["code"])
    return "OOther"


def cintended(l, subst):
    return clist(["(%s, %s)" % (cname(n), cval(subst(v))) for n, v in l])


def parse_detail(txt):
    if txt is None:
        return None
    t = re.sub(r"%[A-Za-z]+", "", txt).replace(";", ",")
    try:
        v = ast.literal_eval(t)
    except Exception:
        return None
    return [(int(i), [bytes(n).decode("latin-1") for n in names]) for i, names in v]


# ------------------------------------------------------------------ the real binary

def run_binary(chk, notes):
    """A few runs of the real daemon: (args, file, expected listen by the property, observed listen)."""
    binary, blog = vlib.go_build_daemon()
    if binary is None:
        return None, "daemon does not build:\n" + blog[-2000:]
    d = os.path.join(vlib.BUILD, "c19", "bin")
    os.makedirs(d, exist_ok=True)
    runs = [
        ("new-default", [], None, "@newrelic"),
        ("new-port", ["--port", "@verif-c19-p%d" % os.getpid()], None, "@verif-c19-p%d" % os.getpid()),
        ("new-address", ["--address", "@verif-c19-a%d" % os.getpid(), "--port", "1"], None, "@verif-c19-a%d" % os.getpid()),
        ("new-file-port", ["-c", "@F"], "port = \"@verif-c19-f%d\"\n" % os.getpid(), "@verif-c19-f%d" % os.getpid()),
        ("legacy-default", ["@LEGACY"], None, "@newrelic"),
        ("legacy-P", ["@LEGACY", "-P", "@verif-c19-l%d" % os.getpid()], None, "@verif-c19-l%d" % os.getpid()),
        ("legacy-file-port", ["@LEGACY", "-c", "@F"], "port = @verif-c19-g%d # comment\n" % os.getpid(), "@verif-c19-g%d" % os.getpid()),
    ]
    res = []
    procs = []
    for name, args, content, want in runs:
        logf = os.path.join(d, name + ".log")
        cfgf = os.path.join(d, name + ".cfg")
        for p in (logf,):
            if os.path.exists(p):
                os.remove(p)
        if content is not None:
            open(cfgf, "w").write(content)
        legacy = "@LEGACY" in args
        a = [x for x in args if x != "@LEGACY"]
        a = [cfgf if x == "@F" else x for x in a]
        if legacy:
            argv = [binary, "-f", "-l", logf, "-d", "debug"] + a
        else:
            argv = [binary, "--foreground", "--logfile", logf, "--loglevel", "debug",
                    "--define", "utilization.detect_aws=false", "--define", "utilization.detect_azure=false",
                    "--define", "utilization.detect_gcp=false", "--define", "utilization.detect_pcf=false",
                    "--define", "utilization.detect_docker=false"] + a
        env = dict(os.environ)
        env.pop("NEW_RELIC_DAEMON_ROLE", None)
        p = subprocess.Popen(argv, stdout=subprocess.DEVNULL, stderr=subprocess.DEVNULL, env=env, cwd=d,
                             start_new_session=True)
        procs.append((name, argv, logf, want, p))
    deadline = time.time() + 8
    pending = list(procs)
    got = {}
    while pending and time.time() < deadline:
        for item in list(pending):
            name, argv, logf, want, p = item
            try:
                txt = open(logf, errors="replace").read()
            except FileNotFoundError:
                txt = ""
            m = re.search(r'listen="((?:[^"\\]|\\.)*)"', txt)
            if m:
                got[name] = m.group(1)
                pending.remove(item)
        time.sleep(0.05)
    for name, argv, logf, want, p in procs:
        try:
            os.killpg(p.pid, signal.SIGKILL)
        except Exception:
            pass
        try:
            p.wait(timeout=5)
        except Exception:
            pass
        res.append({"name": name, "argv": argv[1:], "want_listen": want, "got_listen": got.get(name)})
    return res, None


# ------------------------------------------------------------------ run

def materialise(cases):
    """Write the configuration files; substitute the path token.  Returns per-case (args bytes list, files map, subst)."""
    d = os.path.join(vlib.BUILD, "c19", "files")
    os.makedirs(d, exist_ok=True)
    out = []
    for i, c in enumerate(cases):
        path = os.path.join(d, "case_%d.cfg" % i).encode()
        files = {}
        if c["file"] is not None:
            with open(path, "wb") as f:
                f.write(bytes.fromhex(c["file"]))
            files[path] = bytes.fromhex(c["file"])

        def sub(b, path=path):
            return b.replace(CFG_TOKEN, path)
        args = [sub(bytes.fromhex(a)) for a in c["args"]]

        def subv(v, sub=sub):
            return {"s": hx(sub(bytes.fromhex(v["s"])))} if "s" in v else v
        out.append((args, files, subv))
    return out


def run(chk, replay=None):
    st = vlib.std_coq_stage(chk, "PropC19", gen=True)
    ok, out = vlib.coq_make(["ConfigCheck.vo"])        # used by the generated cases files, not by PropC19.v
    if not ok:
        st["build_ok"] = False
        st["log"] = (st.get("log") or "") + "\nConfigCheck.v does not build:\n" + out[-2000:]
    check_cases(chk, st, replay)


def check_cases(chk, st, replay=None):
    rng = random.Random(chk.seed)
    quick = chk.tier == "quick"
    if replay:
        rp = json.load(open(replay))
        cases = rp.get("cases", [])
        texts = [bytes.fromhex(t) for t in rp.get("texts", [])]
        do_binary = False
    else:
        cases = gen_main(rng, 220 if quick else 1500) + gen_malformed(rng) + gen_quirks() + gen_dq()
        seeds = [bytes.fromhex(c["file"]) for c in cases if c["file"]]
        texts = gen_texts(rng, 500 if quick else 4000, seeds)
        do_binary = True

    t_start = time.time()
    timing = {}
    # ---- Go harnesses
    bin_main, blog = vlib.go_test_binary("main", only=["c19"])
    bin_cfg, blog2 = vlib.go_test_binary("config", only=["c19"])
    if bin_main is None or bin_cfg is None:
        chk.notes.append("harness build failed: " + (blog + blog2)[-2000:])
        chk.fail("harness_build.txt", "correspondence harness (TestVerifC19 in cmd/daemon or internal/newrelic/config) does "
                 "not build against the current tree:\n" + blog + blog2, no_input=True)
        return
    timing["go_build"] = round(time.time() - t_start, 1)
    mat = materialise(cases)
    wd = os.path.join(vlib.BUILD, "c19")
    os.makedirs(wd, exist_ok=True)
    inp, outp = os.path.join(wd, "main_in.json"), os.path.join(wd, "main_out.json")
    jcases = [{"mode": "configure", "args": [hx(a) for a in m[0]]} for m in mat]
    jcases += [{"mode": "decode", "text": hx(t)} for t in texts]
    json.dump({"cases": jcases}, open(inp, "w"))
    if os.path.exists(outp):
        os.remove(outp)
    rc, out = vlib.run_go_test(bin_main, "TestVerifC19", {"VERIF_IN": inp, "VERIF_OUT": outp}, timeout=600)
    if rc != 0 or not os.path.exists(outp):
        chk.fail("harness_run.txt", "harness TestVerifC19 (cmd/daemon) failed (rc=%d):\n%s" % (rc, out[-4000:]), no_input=True)
        return
    obs_all = json.load(open(outp))["obs"]
    obs, dobs = obs_all[:len(cases)], obs_all[len(cases):]
    inp2, outp2 = os.path.join(wd, "config_in.json"), os.path.join(wd, "config_out.json")
    json.dump({"texts": [hx(t) for t in texts]}, open(inp2, "w"))
    if os.path.exists(outp2):
        os.remove(outp2)
    rc, out = vlib.run_go_test(bin_cfg, "TestVerifC19", {"VERIF_IN": inp2, "VERIF_OUT": outp2}, timeout=600)
    if rc != 0 or not os.path.exists(outp2):
        chk.fail("harness_run.txt", "harness TestVerifC19 (config) failed (rc=%d):\n%s" % (rc, out[-4000:]), no_input=True)
        return
    mobs = json.load(open(outp2))["obs"]

    timing["go_run"] = round(time.time() - t_start, 1)
    # ---- model-independent: no panic, no hang, on any input
    for i, o in enumerate(obs):
        if o["outcome"] in ("panic", "hang"):
            chk.fail("panic_case_%d.json" % i, {"what": "configure() %s" % o["outcome"], "cases": [cases[i]], "observed": o},
                     sig="c19-configure-%s" % o["outcome"])
    for which, oo in (("main.Config", dobs), ("mirror struct", mobs)):
        for i, o in enumerate(oo):
            if o["outcome"] in ("panic", "hang"):
                chk.fail("decode_%s_%d.json" % (o["outcome"], i),
                         {"what": "config.ParseString %s into %s" % (o["outcome"], which), "texts": [hx(texts[i])],
                          "observed": o}, sig="c19-lexer-%s" % o["outcome"])

    # ---- evaluate inside Coq
    xcases = []
    for i, (c, m, o) in enumerate(zip(cases, mat, obs)):
        args, files, subv = m
        fmap = clist(["(%s, %s)" % (cB(p), cB(t)) for p, t in files.items()])
        monitored = c["kind"] in ("main", "malformed", "dq")
        xcases.append("((%s, %s, %s), (%s, %s, %s, %s))" % (
            clist([cB(a) for a in args]), fmap, cobserved(o), cbool(monitored), cbool(c["accept"]),
            cintended(c["cmd"], subv) if monitored else "[]", cintended(c["fil"], subv) if monitored else "[]"))

    def dterm(t, o):
        return "(%s, %s, %s)" % (cB(t), cbool(o["outcome"] == "ok"), cnamed(o.get("cfg") or {}, skip=("Role", "printVersion")))
    d_ok = [i for i in range(len(texts)) if dobs[i]["outcome"] in ("ok", "err") and mobs[i]["outcome"] in ("ok", "err")]
    hdr = ("From Coq Require Import NArith ZArith List Bool.\n"
           "From Verif Require Import Common ConfigBase Config ConfigInst ConfigMonitor ConfigCheck.\n"
           "From Verif.Gen Require Import Flags_gen.\nImport ListNotations.\nOpen Scope N_scope.\n")
    v1 = hdr + name_defs() + """
Definition xcases : list xcase := %s.
Definition unsup_idx := Eval vm_compute in bad_idx (fun x => negb (case_unsup (fst x))) xcases 0.
Definition corr_bad := Eval vm_compute in bad_idx (fun x => corr_configure default_listen_linux (fst x)) xcases 0.
Definition prop_detail := Eval vm_compute in detail_idx xcases 0.
Print unsup_idx. Print corr_bad. Print prop_detail.
""" % (clist(xcases) if xcases else "[]")
    rc1, cout1 = vlib.coq_eval("cases_c19_cfg", v1, timeout=600)
    res = {k: vlib.parse_nat_list(vlib.parse_printed(cout1, k)) for k in ("unsup_idx", "corr_bad")}
    detail = parse_detail(vlib.parse_printed(cout1, "prop_detail"))
    if rc1 != 0 or detail is None or any(v is None for v in res.values()):
        chk.fail("coq_eval.txt", "in-Coq evaluation of the C19 configure cases failed:\n" + cout1[-4000:], no_input=True)
        return
    dres = {}
    SH = 400
    for s0 in range(0, len(d_ok), SH):
        ids = d_ok[s0:s0 + SH]
        body = (clist([dterm(texts[i], dobs[i]) for i in ids]), clist([dterm(texts[i], mobs[i]) for i in ids]))
        v2 = hdr + name_defs() + """
Definition dmain : list dcase := %s.
Definition dmirror : list dcase := %s.
Definition dmain_unsup := Eval vm_compute in bad_idx (fun c => negb (dcase_unsup cfg_fields c)) dmain 0.
Definition dmirror_unsup := Eval vm_compute in bad_idx (fun c => negb (dcase_unsup mirror_fields c)) dmirror 0.
Definition dmain_bad := Eval vm_compute in bad_idx (corr_decode cfg_fields default_cfg) dmain 0.
Definition dmirror_bad := Eval vm_compute in bad_idx (corr_decode mirror_fields mirror_init) dmirror 0.
Print dmain_unsup. Print dmirror_unsup. Print dmain_bad. Print dmirror_bad.
""" % body
        rc2, cout2 = vlib.coq_eval("cases_c19_dec_%d" % (s0 // SH), v2, timeout=600)
        for k in ("dmain_unsup", "dmirror_unsup", "dmain_bad", "dmirror_bad"):
            l = vlib.parse_nat_list(vlib.parse_printed(cout2, k))
            if rc2 != 0 or l is None:
                chk.fail("coq_eval.txt", "in-Coq evaluation of the C19 decode cases failed:\n" + cout2[-4000:], no_input=True)
                return
            dres.setdefault(k, []).extend(ids[j] for j in l)

    timing["coq_eval"] = round(time.time() - t_start, 1)
    # ---- the real binary
    bres = None
    if do_binary:
        bres, berr = run_binary(chk, chk.notes)
        if berr:
            chk.notes.append(berr)

    timing["binary"] = round(time.time() - t_start, 1)
    chk.cov["timing_cumulative_s"] = timing
    # ---- coverage
    kinds = {}
    spell = {"flag": 0, "define": 0, "legacy_cmd": 0, "file_sq": 0, "file_dq": 0, "file_comment": 0, "crlf": 0}
    for c, o in zip(cases, obs):
        kinds[c["kind"]] = kinds.get(c["kind"], 0) + 1
        chk.count_case({"a": c["args"], "f": c["file"]}, nontrivial=bool(c["cmd"] or c["fil"]) or c["kind"] != "main")
        if c["kind"] == "main":
            spell["legacy_cmd"] += 1 if c["legacy_cmd"] else 0
            spell["define"] += sum(1 for a in c["args"] if b"define" in bytes.fromhex(a)[:9])
            spell["flag"] += len(c["cmd"])
            if c["file"]:
                f = bytes.fromhex(c["file"])
                spell["file_sq"] += f.count(b"'") // 2
                spell["file_dq"] += f.count(b'"') // 2
                spell["file_comment"] += f.count(b"#") + f.count(b";")
                spell["crlf"] += 1 if b"\r\n" in f else 0
    for t in texts:
        chk.count_case({"t": hx(t)}, nontrivial=len(t) > 0)
    chk.cov["rule"] = ("main: random subsets of the 28 settings on the command line (flag, --define, legacy letter; every "
                       "dash/= spelling; repeated settings) and/or in a generated file (every quoting style, spacing, CRLF, "
                       "comments, unknown keys, missing final newline), real configure() in a child process; non-trivial = "
                       "at least one setting given; malformed/quirk/dq: fixed lists; decode: byte strings (syntax alphabet, "
                       "random bytes, mutated generated files) through config.ParseString in two packages; distinct by input")
    chk.cov["input_distribution"] = {"cases_by_stream": kinds, "decode_texts": len(texts), "spellings": spell,
                                     "outcomes": {k: sum(1 for o in obs if o["outcome"] == k) for k in ("run", "exit", "panic", "hang")},
                                     "legacy_path_runs": sum(1 for o in obs if o.get("legacy")),
                                     "decode_errors": sum(1 for o in dobs if o["outcome"] == "err")}
    chk.cov["model_scope_skipped"] = {"configure": len(res["unsup_idx"]), "decode_main": len(dres.get("dmain_unsup", [])),
                                      "decode_mirror": len(dres.get("dmirror_unsup", []))}
    if bres is not None:
        chk.cov["binary_runs"] = bres
    for i in (0, len(cases) // 3):
        if i < len(cases):
            chk.sample({"args": [bytes.fromhex(a).decode("latin-1") for a in cases[i]["args"]],
                        "file": None if cases[i]["file"] is None else bytes.fromhex(cases[i]["file"]).decode("latin-1"),
                        "observed": obs[i]["outcome"]})
    if texts:
        chk.sample({"text": texts[-1].decode("latin-1"), "observed": dobs[-1]["outcome"]})

    # ---- decide: the property (one replay per signature, at most a few unsigned ones)
    seen, unsigned, other = set(), [0], [0]
    real_fail = chk.fail
    finding_sigs = ("c19-dquote-escaped-quote",)

    def fail_once(name, content, sig=None, **kw):
        if sig not in finding_sigs:
            other[0] += 1
        if sig is not None:
            if sig in seen:
                return
            seen.add(sig)
        else:
            unsigned[0] += 1
            if unsigned[0] > 5:
                return
        real_fail(name, content, sig=sig, **kw)
    for j, names in detail:
        i = j
        c, o = cases[i], obs[i]
        rest = list(names)
        if c["kind"] == "dq":
            fail_once("dquote_escaped_quote.json",
                     {"what": "a double-quoted value containing \\\" is cut at the escaped quote (ReadBytes('\"'))",
                      "cases": [c], "observed": o, "fields": rest}, sig="c19-dquote-escaped-quote")
        elif rest == ["!"]:
            what = ("well-formed settings were rejected" if c["accept"] else
                    "malformed / unknown input was not reported with exit status 1")
            fail_once("outcome_case_%d.json" % i, {"what": what, "cases": [c], "observed": o}, sig=None)
        else:
            fail_once("precedence_case_%d.json" % i,
                     {"what": "resolved setting(s) %s differ from command line over file over default" % rest,
                      "cases": [c], "observed": o}, sig=None)
    if bres:
        for r in bres:
            if r["got_listen"] != r["want_listen"]:
                fail_once("binary_%s.json" % r["name"], {"what": "listen address in the daemon's banner", "run": r},
                         sig="c19-binary-listen-%s" % r["name"])

    # ---- decide: proofs and correspondence
    broken = []
    if not st["build_ok"]:
        broken.append("theorems of PropC19.v no longer check:\n" + st["log"][-3000:])
    unsup = set(res["unsup_idx"])
    cb = [i for i in res["corr_bad"] if i not in unsup]
    if cb:
        broken.append("correspondence Config.configure vs configure() differs on cases %s; first: %s observed %s"
                      % (cb[:10], json.dumps(cases[cb[0]]), json.dumps(obs[cb[0]])[:1500]))
    for k, uk, which in (("dmain_bad", "dmain_unsup", "main.Config"), ("dmirror_bad", "dmirror_unsup", "mirror struct")):
        us = set(dres.get(uk, []))
        db = [i for i in dres.get(k, []) if i not in us]
        if db:
            broken.append("correspondence Config.decode_effects vs config.ParseString (%s) differs on texts %s; first: %r observed %s"
                          % (which, db[:10], texts[db[0]], json.dumps((dobs if k == "dmain_bad" else mobs)[db[0]])[:1200]))
    # the known finding of the unchanged tree must not hide a broken proof or correspondence: only a property
    # failure OTHER than that one counts as the failing input
    panics = any(o["outcome"] in ("panic", "hang") for o in list(obs) + list(dobs) + list(mobs))
    if broken and other[0] == 0 and not panics:
        chk.fail("broken.txt", "\n\n".join(broken), no_input=True)
    if broken:
        chk.notes.append("correspondence/proof problems: " + " | ".join(b[:300] for b in broken))
        # keep a replay of the differing inputs
        chk.replay_file("corr_inputs.json", {"cases": [cases[i] for i in cb[:20]],
                                              "texts": [hx(texts[i]) for i in (dres.get("dmain_bad", []) + dres.get("dmirror_bad", []))[:20]]})
    chk.cov["disagreements"] = {"configure": len(cb),
                                "decode_main": len(set(dres.get("dmain_bad", [])) - set(dres.get("dmain_unsup", []))),
                                "decode_mirror": len(set(dres.get("dmirror_bad", [])) - set(dres.get("dmirror_unsup", []))),
                                "monitor_cases_flagged": len(detail)}
    chk.assumptions += ["rune classes: the unicode package of the local toolchain (Gen/Unicode_gen.v)",
                        "GOOS=linux, 64-bit int", "the input reader fails only with EOF"]
