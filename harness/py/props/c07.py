"""C07 -- metric aggregation is order-independent; rename rules are applied faithfully.

Correspondence: the real MetricTable / MetricRules code (overlay-injected harness in package newrelic)
against Metrics.v / Rules.v evaluated inside Coq; monitors (MetricsMonitor.v, RulesMonitor.v) judge the
implementation's observed tables and rule results against the inputs only.
"""
import json
import os
import random
import time

import vlib
from vlib import cZ, cbool, clist, cnat, cbytes

LEVEL = "proof"

# ----------------------------------------------------------------------------- generators: rules

LIT = "abcxyzABW0159/_-: "
SEGS = ["a", "b", "ab", "abc", "A", "x1", "12", "foo", "Bar", "a1b2", "WebTransaction", "Custom", "0", "99", "", "xyz", "c-d", "w_9"]
FLAGS = [(i, e, a, t) for i in (False, True) for e in (False, True) for a in (False, True) for t in (False, True)]
BAD_EXPR = ["(a", "a)", "*a", "a**", "+"]


def gen_parts(rng):
    """regex of the concrete class as a list of (text, sample) parts; sample = a string the part matches"""
    parts = []
    for _ in range(rng.randint(1, 3)):
        k = rng.random()
        if k < 0.40:
            s = "".join(rng.choice(LIT) for _ in range(rng.randint(1, 3)))
            parts.append((s, s.swapcase() if rng.random() < 0.3 else s))
        elif k < 0.48:
            parts.append((".", rng.choice(LIT)))
        elif k < 0.58:
            parts.append((".*", "".join(rng.choice(LIT) for _ in range(rng.randint(0, 3)))))
        elif k < 0.63:
            parts.append((".+", "".join(rng.choice(LIT) for _ in range(rng.randint(1, 3)))))
        elif k < 0.75:
            parts.append(("[0-9]+", str(rng.randint(0, 9999))))
        elif k < 0.80:
            parts.append(("[0-9]*", rng.choice(["", "7", "42"])))
        elif k < 0.85:
            parts.append(("[0-9]", str(rng.randint(0, 9))))
        elif k < 0.93:
            c = rng.choice(LIT)
            parts.append((c + "*", c * rng.randint(0, 3)))
        else:
            c = rng.choice(LIT)
            parts.append((c + "+", c * rng.randint(1, 3)))
    return parts


def gen_regex(rng):
    """returns (expr, sample_match)"""
    if rng.random() < 0.04:
        return rng.choice(["", "^", "$", "()", "^$", "x*", ".*"]), ""
    parts = gen_parts(rng)
    texts = [p[0] for p in parts]
    if rng.random() < 0.45:
        i = rng.randint(0, len(parts) - 1)
        j = rng.randint(i, len(parts) - 1)
        texts[i] = "(" + texts[i]
        texts[j] = texts[j] + ")"
    expr = "".join(texts)
    r = rng.random()
    if r < 0.25:
        expr = "^" + expr
    elif r < 0.40:
        expr = expr + "$"
    elif r < 0.50:
        expr = "^" + expr + "$"
    elif r < 0.52:
        expr = expr + "^"  # can never match after text
    return expr, "".join(p[1] for p in parts)


def gen_repl(rng):
    out = []
    for _ in range(rng.randint(0, 3)):
        k = rng.random()
        if k < 0.45:
            out.append("".join(rng.choice("abXY09/_-") for _ in range(rng.randint(1, 3))))
        elif k < 0.80:
            out.append("\\1")
        elif k < 0.88:
            out.append("\\0")
        elif k < 0.93:
            out.append("\\2")
        elif k < 0.96:
            out.append("\\12")
        elif k < 0.98:
            out.append("\\")  # lone backslash (followed by whatever comes next)
        else:
            out.append("\\\\1")  # ambiguous: the rule is skipped
    return "".join(out)


def gen_rule(rng, flags, order):
    expr, sample = gen_regex(rng)
    if rng.random() < 0.02:
        expr, sample = rng.choice(BAD_EXPR), "a"
    i, e, a, t = flags
    r = {"match_expression": expr, "replacement": gen_repl(rng), "eval_order": order}
    # JSON default of an absent flag is false: sometimes leave false flags out
    for nm, v in (("ignore", i), ("each_segment", e), ("replace_all", a), ("terminate_chain", t)):
        if v or rng.random() < 0.5:
            r[nm] = v
    return r, sample


def gen_name(rng, samples):
    k = rng.random()
    segs = [rng.choice(SEGS) for _ in range(rng.randint(1, 4))]
    if samples and k < 0.7:
        s = rng.choice(samples)
        pos = rng.randint(0, len(segs))
        if rng.random() < 0.5:
            segs.insert(pos, s)
        else:
            segs.insert(pos, s + rng.choice(SEGS))
        if rng.random() < 0.3:
            segs.insert(rng.randint(0, len(segs)), s)  # overlap / repeated match
    name = "/".join(segs)
    if rng.random() < 0.1 and samples:
        name = rng.choice(samples)
    return name


def gen_rule_case(rng, idx, ties):
    n = rng.randint(1, 5)
    rules, samples = [], []
    orders = list(range(-2, 12))
    rng.shuffle(orders)
    for j in range(n):
        flags = FLAGS[(idx * 5 + j * 7 + rng.randint(0, 1)) % 16]
        if rng.random() < 0.55:
            flags = (False,) + flags[1:]  # ignore rules end the chain: keep them rarer
        order = orders[j]
        if ties and j > 0 and rng.random() < 0.6:
            order = rules[rng.randint(0, j - 1)]["eval_order"]
        r, s = gen_rule(rng, flags, order)
        rules.append(r)
        samples.append(s)
    names = [gen_name(rng, samples) for _ in range(8)]
    return {"rules": rules, "names": names, "ties": ties}


# ----------------------------------------------------------------------------- generators: tables

def new_node(mx):
    return {"k": "new", "real": True} if mx == "real" else {"k": "new", "max": mx}


def unit_contribs(u):
    """contributions (name, scope) of a delivery unit"""
    if u["u"] == "tm":
        ks = [(u["name"], "")]
        if u["scoped"]:
            ks.append((u["name"], u["txn"]))
        return ks
    return [(u["name"], u["scope"])]


def units_to_nodes(rng, t, units):
    """deliver units in order into tree t: adds nodes and txn nodes"""
    i = 0
    while i < len(units):
        u = units[i]
        if u["u"] == "tm":
            j = i
            ms = []
            while j < len(units) and units[j]["u"] == "tm" and units[j]["txn"] == u["txn"]:
                ms.append({"name": units[j]["name"], "scoped": units[j]["scoped"], "forced": units[j]["forced"], "d": units[j]["d"]})
                j += 1
            t = {"k": "txn", "b": t, "txn": u["txn"], "ms": ms}
            i = j
        else:
            ops = []
            j = i
            while j < len(units) and units[j]["u"] != "tm":
                v = units[j]
                if v["u"] == "raw":
                    ops.append({"how": rng.choice(["raw", "rawslice"]), "name": v["name"], "scope": v["scope"], "forced": v["forced"], "d": v["d"]})
                else:
                    ops.append({"how": v["u"], "name": v["name"], "scope": v["scope"], "forced": v["forced"], "v": v["v"]})
                j += 1
            t = {"k": "adds", "b": t, "ops": ops}
            i = j
    return t


def partition(rng, xs, maxparts):
    if not xs:
        return []
    k = rng.randint(1, min(maxparts, len(xs)))
    cuts = sorted(rng.sample(range(1, len(xs)), k - 1)) if k > 1 else []
    out, prev = [], 0
    for c in cuts + [len(xs)]:
        out.append(xs[prev:c])
        prev = c
    return out


def deliver(rng, units, mx, submax, depth, allow_fail=True, stats=None):
    """a tree that delivers exactly these units (in some grouping) into a fresh table"""
    t = new_node(mx)
    for ch in partition(rng, units, 4):
        how = rng.random()
        if depth >= 2 or how < 0.5:
            t = units_to_nodes(rng, t, ch)
        elif how < 0.75:
            sub = deliver(rng, ch, submax, submax, depth + 1, allow_fail, stats)
            t = {"k": "merge", "b": t, "f": sub}
            if stats is not None:
                stats["merge"] = stats.get("merge", 0) + 1
        else:
            sub = deliver(rng, ch, submax, submax, depth + 1, allow_fail, stats)
            n = rng.choice([0, 0, 1, 3, 4, 5, 6]) if allow_fail else rng.choice([0, 1, 2, 3])
            for _ in range(n):
                sub = {"k": "mfail", "b": new_node(submax), "f": sub}
            t = {"k": "mfail", "b": t, "f": sub}
            if stats is not None:
                stats["mfail"] = stats.get("mfail", 0) + 1
                stats["mfail_chain_%d" % n] = stats.get("mfail_chain_%d" % n, 0) + 1
    return t


def gen_units(rng, n, names, txns, forced_of, allow_count=True, allow_empty_txn=True, allow_zero=False):
    """n delivery units; every contribution gets a distinct power of two as total (a scoped
    transaction metric carries the same value under its two keys)"""
    bits = list(range(n))
    rng.shuffle(bits)
    units = []
    low = sorted(bits)[:n]  # value units need small totals: v*v must stay exact
    for i in range(n):
        nm = rng.choice(names)
        k = rng.random()
        bit = bits[i]
        tot = 1 << bit
        d = [1, tot, rng.randrange(0, 1 << 30), rng.randrange(0, 1 << 30), rng.randrange(0, 1 << 30), rng.randrange(0, 1 << 30)]
        if allow_zero and rng.random() < 0.08:
            # an apdex-style contribution (class A only: at capacity the monitor names contributions by their totals): no calls and no time, the other fields carry the information (a failing
            # transaction contributes (0, 0, 1, t, t, 0)); it must be combined like any other (seeded/C07e2)
            d = [0, 0, rng.choice([1, 1, 3]), rng.randrange(0, 1 << 20), rng.randrange(0, 1 << 20), rng.choice([0, 0, 5])]
            if rng.random() < 0.6:
                txn = rng.choice(txns)
                units.append({"u": "tm", "name": nm, "txn": txn, "scoped": rng.random() < 0.5, "forced": forced_of(rng, nm, ""), "d": d})
            else:
                sc = rng.choice([""] * 2 + txns)
                units.append({"u": "raw", "name": nm, "scope": sc, "forced": forced_of(rng, nm, sc), "d": d})
            continue
        if k < 0.45:
            sc = rng.choice([""] * 3 + txns)
            units.append({"u": "raw", "name": nm, "scope": sc, "forced": forced_of(rng, nm, sc), "d": d})
        elif k < 0.85:
            txn = rng.choice(txns + ([""] if allow_empty_txn and rng.random() < 0.1 else []))
            units.append({"u": "tm", "name": nm, "txn": txn, "scoped": rng.random() < 0.6, "forced": forced_of(rng, nm, ""), "d": d})
        elif k < 0.95 and bit <= 19:
            sc = rng.choice(["", ""] + txns)
            units.append({"u": "value", "name": nm, "scope": sc, "forced": forced_of(rng, nm, sc), "v": tot})
        elif allow_count:
            sc = rng.choice(["", ""] + txns)
            units.append({"u": "count", "name": nm, "scope": sc, "forced": forced_of(rng, nm, sc), "v": rng.randint(1, 1000)})
        else:
            sc = ""
            units.append({"u": "raw", "name": nm, "scope": sc, "forced": forced_of(rng, nm, sc), "d": d})
    return units


def forced_policy(rng, consistent):
    memo = {}

    def f(r, nm, sc):
        if not consistent:
            return r.random() < 0.4
        if nm not in memo:
            memo[nm] = r.random() < 0.4
        return memo[nm]
    return f


def gen_tree_rules(rng, names):
    """rule list for ApplyRules inside a tree: distinct eval_order"""
    n = rng.randint(1, 4)
    orders = rng.sample(range(-3, 20), n)
    rules, samples = [], []
    for j in range(n):
        flags = FLAGS[rng.randrange(16)]
        if rng.random() < 0.8:
            flags = (False,) + flags[1:]
        r, s = gen_rule(rng, flags, orders[j])
        if rng.random() < 0.5:
            # aim at the names in use
            nm = rng.choice(names)
            seg = rng.choice(nm.split("/"))
            if seg and all(c in LIT for c in seg):
                r["match_expression"] = rng.choice(["", "^"]) + seg + rng.choice(["", "/", ".*", "/(.*)"])
        if len(names) >= 2 and rng.random() < 0.25:
            # rename one name in use onto ANOTHER name in use (which the rule leaves alone)
            a, b = rng.sample(names, 2)
            if all(c in LIT for c in a) and "\\" not in b:
                r["match_expression"] = "^" + a + "$"
                r["replacement"] = b
                r["ignore"] = False
        rules.append(r)
    return rules


NAMEPOOL = ["WebTransaction/Uri/a", "WebTransaction/Uri/b", "Custom/a/b", "Custom/a/c", "Datastore/all", "External/h1/all",
            "External/h22/all", "a/b/c", "a/12/c", "a/345/c", "x", "OtherTransaction/php/job7", "OtherTransaction/php/job81", "Apdex"]


def distinct_keys(units):
    s = set()
    for u in units:
        s.update(unit_contribs(u))
    return s


def gen_case_A(rng, idx, stats):
    """no refusal possible: every table has room for all distinct keys"""
    names = rng.sample(NAMEPOOL, rng.randint(2, 6))
    txns = rng.sample(["WebTransaction/Uri/a", "OtherTransaction/php/job7", "T"], rng.randint(1, 2))
    consistent = rng.random() < 0.7
    n = rng.randint(3, 36)
    units = gen_units(rng, n, names, txns, forced_policy(rng, consistent), allow_zero=True)
    with_rules = rng.random() < 0.4
    k = len(distinct_keys(units))
    if with_rules:
        mx = rng.choice([1000, "real"])
    else:
        mx = rng.choice([k, k, k + 1, 1000, "real"])
    submax = mx if mx != "real" else rng.choice([1000, "real"])
    order = list(units)
    rng.shuffle(order)
    t = deliver(rng, order, mx, submax, 0, True, stats)
    rules = None
    if with_rules:
        rules = gen_tree_rules(rng, names)
        kind = rng.random()
        if kind < 0.6:
            t = {"k": "rules", "b": t, "rules": json.dumps(rules)}
        elif kind < 0.8:
            # rename in the middle: more data arrives afterwards
            more = gen_units(rng, rng.randint(1, 4), names, txns, forced_policy(rng, False))
            for i, u in enumerate(more):  # fresh totals above the ones in use
                tot = 1 << (n + i)
                if u["u"] in ("raw", "tm"):
                    u["d"][1] = tot
                elif u["u"] == "value":
                    u["u"], u["d"] = "raw", [1, tot, 0, 5, 5, 25]
            t = units_to_nodes(rng, {"k": "rules", "b": t, "rules": json.dumps(rules)}, more)
            consistent = False
        elif kind < 0.9:
            t = {"k": "rules", "b": t, "rules": "[]"}
        else:
            t = {"k": "rules", "b": t, "rules": None}
    add_only = json.dumps(t).count('"merge"') + json.dumps(t).count('"mfail"') + json.dumps(t).count('"rules"') == 0
    # the forced flag of an entry is that of the first contribution to reach it: under merges / renames onto a shared key
    # it depends on the map iteration order unless all contributions to the key agree
    return {"cls": "A", "mode": "full", "cmp_forced": bool(add_only or (consistent and not with_rules)), "tree": t,
            "desc": "A n=%d keys=%d max=%s rules=%s" % (n, k, mx, with_rules)}


def gen_case_scoped(rng, idx):
    names = rng.sample(NAMEPOOL, rng.randint(1, 4))
    txn = rng.choice(["WebTransaction/Uri/a", "T", "OtherTransaction/php/job7", ""])
    ms = []
    for i in range(rng.randint(1, 6)):
        ms.append({"name": rng.choice(names), "scoped": rng.random() < 0.6, "forced": rng.random() < 0.3,
                   "d": [1, 1 << i, rng.randrange(1 << 20), rng.randrange(1 << 20), rng.randrange(1 << 20), rng.randrange(1 << 20)]})
    t = {"k": "txn", "b": new_node(rng.choice([1000, "real"])), "txn": txn, "ms": ms}
    return {"cls": "A", "mode": "full", "cmp_forced": True, "tree": t, "scoped": True, "desc": "scoped txn=%r" % txn}


def gen_case_B(rng, idx, stats):
    """tables at capacity: refusals expected"""
    mx = rng.choice([0, 1, 2, 3, 3, 5, 6])
    names = rng.sample(NAMEPOOL, min(len(NAMEPOOL), mx + rng.randint(1, 4)))
    txns = rng.sample(["WebTransaction/Uri/a", "T"], rng.randint(1, 2))
    consistent = rng.random() < 0.7
    pol = forced_policy(rng, consistent)
    n = rng.randint(mx + 1, 34)
    units = gen_units(rng, n, names, txns, pol, allow_count=False, allow_empty_txn=False)
    shape = rng.random()
    if shape < 0.5:
        t = units_to_nodes(rng, new_node(mx), units)
        mode, cmpf = "full", True
    else:
        cut = rng.randint(1, len(units) - 1) if len(units) > 1 else 1
        t = units_to_nodes(rng, new_node(mx), units[:cut])
        sub = units_to_nodes(rng, new_node(1000), units[cut:])
        if rng.random() < 0.5:
            t = {"k": "merge", "b": t, "f": sub}
        else:
            for _ in range(rng.choice([0, 1, 4, 5])):
                sub = {"k": "mfail", "b": new_node(1000), "f": sub}
            t = {"k": "mfail", "b": t, "f": sub}
        mode, cmpf = "coarse", False
        if rng.random() < 0.3:
            # more data after an order-dependent merge: even count+dropped depends on the order now
            t = units_to_nodes(rng, t, gen_tail(rng, names, txns, pol, n))
            mode = "none"
    if rng.random() < 0.35:
        rules = gen_tree_rules(rng, names)
        t = {"k": "rules", "b": t, "rules": json.dumps(rules)}
        if mode == "coarse":
            mode = "none"
        cmpf = False
    stats["B_" + mode] = stats.get("B_" + mode, 0) + 1
    return {"cls": "B", "mode": mode, "cmp_forced": cmpf, "tree": t, "desc": "B max=%d n=%d" % (mx, n)}


def gen_tail(rng, names, txns, pol, n):
    out = []
    for i in range(rng.randint(1, 3)):
        nm = rng.choice(names)
        out.append({"u": "raw", "name": nm, "scope": "", "forced": pol(rng, nm, ""),
                    "d": [1, 1 << (n + i), rng.randrange(1 << 20), rng.randrange(1 << 20), rng.randrange(1 << 20), rng.randrange(1 << 20)]})
    return out


def gen_case_capacity_rename(rng, mx, nforced, real=False):
    """max unforced metrics, then forced ones push count past the limit, then rename: nothing may be lost"""
    ops = []
    nun = 2000 if real else mx
    for i in range(nun):
        ops.append({"how": "raw", "name": "%d/u/seg" % i, "scope": "", "forced": False, "d": [1, 0, i % 7, i % 5, i % 11, 1]})
    for i in range(nforced):
        ops.append({"how": "raw", "name": "%d/f/seg" % i, "scope": "", "forced": True, "d": [1, 0, 3, i, i, 2]})
    t = {"k": "adds", "b": new_node("real" if real else mx), "ops": ops}
    rules = [{"match_expression": "^([0-9]+)/u/", "replacement": "U/\\1/", "eval_order": 2},
             {"match_expression": "[0-9]+/f/", "replacement": "F/", "eval_order": 1, "terminate_chain": True},
             {"match_expression": "seg$", "replacement": "s", "eval_order": 3}]
    t = {"k": "rules", "b": t, "rules": json.dumps(rules)}
    return {"cls": "A", "mode": "full", "cmp_forced": True, "tree": t,
            "desc": "capacity-rename unforced=%d forced=%d real=%s" % (nun, nforced, real)}


def gen_case_real_overflow(rng):
    ops = []
    for i in range(1995):
        ops.append({"how": "raw", "name": "%d/u" % i, "scope": "", "forced": False, "d": [1, 0, 1, 2, 3, 4]})
    for i in range(10):
        ops.append({"how": "raw", "name": "%d/f" % i, "scope": "", "forced": True, "d": [1, 0, 1, 2, 3, 4]})
    for i in range(10):
        ops.append({"how": "raw", "name": "%d/late" % i, "scope": "", "forced": False, "d": [1, 0, 1, 2, 3, 4]})
    for i in range(5):
        ops.append({"how": "raw", "name": "%d/u" % i, "scope": "", "forced": False, "d": [1, 0, 1, 9, 0, 4]})
    t = {"k": "adds", "b": new_node("real"), "ops": ops}
    return {"cls": "B", "mode": "full", "cmp_forced": True, "tree": t, "desc": "real table overflow 1995u+10f+10u"}


def gen_case_rename_collision(rng, k):
    """rules rename k names ONTO a name that is itself in the table and that no rule changes: the
    contributions must be combined whatever order the table is walked in (seeded/C07b)"""
    target = rng.choice(["Custom/user/all", "a/b/c", "x"])
    stem = target.rsplit("/", 1)[0] if "/" in target else "y"
    names = [target] + ["%s/%d" % (stem, 10 + i) for i in range(k)] + ["Apdex"]
    units = gen_units(rng, 3 * (k + 2), names, ["T", "WebTransaction/Uri/a"], forced_policy(rng, True), allow_count=False)
    # make sure the target and every colliding name really are present, scoped and unscoped
    for j, nm in enumerate(names[:-1]):
        units.append({"u": "raw", "name": nm, "scope": "" if j % 2 == 0 else "T", "forced": False,
                      "d": [1, 1 << (3 * (k + 2) + j), j, j + 1, j + 2, j + 3]})
    sub = units_to_nodes(rng, new_node(1000), units)
    rules = [{"match_expression": "^%s/[0-9]+$" % stem, "replacement": target, "eval_order": 1}]
    sub = {"k": "rules", "b": sub, "rules": json.dumps(rules)}
    # cmp_forced False: which of the colliding entries gives the merged entry its forced flag depends on the
    # order in which Go walks the map (the flag is not part of the reported data)
    return {"cls": "A", "mode": "full", "cmp_forced": False, "tree": sub, "desc": "rename collision onto an unchanged name k=%d" % k}


def gen_case_failed_chain(rng, n, with_rules, overlimit=False):
    """MergeFailed chain of length n carrying one payload, optionally renamed at every step;
    overlimit: every table holds more (forced) metrics than its limit, so that ApplyRules takes its
    lift-the-limit branch (seeded/C02c: the attempt counter was lost there)"""
    names = ["Custom/a/b", "Custom/a/c", "x"]
    mx = 3 if overlimit else 1000
    if overlimit:
        units = [{"u": "raw", "name": nm, "scope": sc, "forced": True, "d": [1, 1 << (3 * i + j), i + 1, i + 2, i + 3, i + 4]}
                 for i, nm in enumerate(names + ["Custom/z", "y/1", "y/2"]) for j, sc in enumerate(["", "T"])]
    else:
        units = gen_units(rng, 6, names, ["T"], forced_policy(rng, True), allow_count=False)
    sub = units_to_nodes(rng, new_node(mx), units)
    rules = [{"match_expression": "^Custom/(.*)$", "replacement": "C/\\1", "eval_order": 1}]
    for _ in range(n):
        if with_rules:
            sub = {"k": "rules", "b": sub, "rules": json.dumps(rules)}
        sub = {"k": "mfail", "b": new_node(mx), "f": sub}
    if with_rules:
        sub = {"k": "rules", "b": sub, "rules": json.dumps(rules)}
    return {"cls": "A", "mode": "full", "cmp_forced": True, "tree": sub,
            "desc": "failed chain n=%d rules=%s overlimit=%s" % (n, with_rules, overlimit)}


# ----------------------------------------------------------------------------- Coq printing

def cname(s):
    """name as a Coq term: MetricsMonitor.nm decodes the bytes of a hexadecimal number"""
    b = s.encode("utf-8")
    if len(b) == 0:
        return "(@nil N)"
    if b[0] == 0:
        return cbytes(b)
    return "(nm 0x%s%%N)" % b.hex()


def cmd(d):
    return "(MD %s %s %s %s %s %s)" % tuple(cZ(int(x)) for x in d)


def ckey(n, s):
    return "(%s, %s)" % (cname(n), cname(s))


def craw(r):
    return "(RAW %s %s %s %s %s %s %s)" % (
        cbool(r.get("ignore", False)), cbool(r.get("each_segment", False)), cbool(r.get("replace_all", False)),
        cbool(r.get("terminate_chain", False)), cZ(r["eval_order"]), cname(r["replacement"]), cname(r["match_expression"]))


def ctree(t):
    k = t["k"]
    if k == "new":
        return "(BNew REAL)" if t.get("real") else "(BNew %s)" % cZ(t["max"])
    if k == "adds":
        ops = []
        for o in t["ops"]:
            if o["how"] in ("raw", "rawslice"):
                ops.append("ARaw %s %s %s" % (ckey(o["name"], o["scope"]), cbool(o["forced"]), cmd(o["d"])))
            elif o["how"] == "count":
                ops.append("ACount %s %s %s" % (ckey(o["name"], o["scope"]), cbool(o["forced"]), cZ(int(o["v"]))))
            else:
                ops.append("AValue %s %s %s" % (ckey(o["name"], o["scope"]), cbool(o["forced"]), cZ(int(o["v"]))))
        return "(BAdds %s %s)" % (ctree(t["b"]), clist(ops))
    if k == "txn":
        ms = ["TM %s %s %s %s" % (cname(m["name"]), cbool(m["scoped"]), cbool(m["forced"]), cmd(m["d"])) for m in t["ms"]]
        return "(BTxn %s %s %s)" % (ctree(t["b"]), cname(t["txn"]), clist(ms))
    if k == "merge":
        return "(BMerge %s %s)" % (ctree(t["b"]), ctree(t["f"]))
    if k == "mfail":
        return "(BMergeFailed %s %s)" % (ctree(t["b"]), ctree(t["f"]))
    if k == "rules":
        if t["rules"] is None:
            return "(BRules %s None)" % ctree(t["b"])
        return "(BRules %s (RN %s))" % (ctree(t["b"]), clist([craw(r) for r in json.loads(t["rules"])]))
    raise ValueError(k)


def ctobs(o):
    es = ["(%s, %s, %s)" % (ckey(e["name"], e["scope"]), cbool(e["forced"]), cmd(e["d"])) for e in o["entries"]]
    return "(TO %s %s %s %s %s)" % (cZ(o["max"]), cZ(o["count"]), cZ(o["dropped"]), cZ(o["failed"]), clist(es))


RES = {0: "RMatched", 1: "RUnmatched", 2: "RIgnore"}

HEADER = """From Coq Require Import ZArith NArith List Bool.
From Verif Require Import Common Metrics Rules MetricsMonitor RulesMonitor.
From Verif.Gen Require Import Limits_gen.
Import ListNotations.
Definition MRN (ws : list craw) : option (name -> name) := c_rename_of (c_rules_from_json ws).
"""


def ascii_ok(s):
    return all(32 <= ord(c) < 127 for c in s)


def table_defs(i, case, obs, pre):
    t = case["tree"]
    out = ["Definition tc_%d (RN : list craw -> option (name -> name)) (REAL : Z) : build := %s." % (i, ctree(t)),
           "Definition to_%d : tobs := %s." % (i, ctobs(obs))]
    mode = case["mode"]
    if mode == "full":
        corr = "corr_full %s (exec (tc_%d MRN MaxMetrics)) to_%d" % (cbool(case["cmp_forced"]), i, i)
    elif mode == "coarse":
        corr = "corr_coarse (exec (tc_%d MRN MaxMetrics)) to_%d" % (i, i)
    else:
        corr = "true"
    mons = []
    if case["cls"] == "A":
        mons.append("mon_exact (tc_%d mon_rename_of 2000) to_%d" % (i, i))
    else:
        mons.append("mon_capacity (tc_%d mon_rename_of 2000) to_%d" % (i, i))
    if case.get("scoped"):
        ms = ["TM %s %s %s %s" % (cname(m["name"]), cbool(m["scoped"]), cbool(m["forced"]), cmd(m["d"])) for m in t["ms"]]
        mons.append("mon_scoped %s %s to_%d" % (cname(t["txn"]), clist(ms), i))
    if t["k"] == "rules" and pre is not None:
        out.append("Definition tp_%d : tobs := %s." % (i, ctobs(pre)))
        if t["rules"] is None:
            rn = "None"
        else:
            rn = "(mon_rename_of %s)" % clist([craw(r) for r in json.loads(t["rules"])])
        mons.append("mon_rename %s tp_%d to_%d" % (rn, i, i))
    if t.get("real") or '"real": true' in json.dumps(t):
        pass
    out.append("Definition tcorr_%d : bool := %s." % (i, corr))
    out.append("Definition tmon_%d : list bool := %s." % (i, clist(mons)))
    return "\n".join(out)


def rule_defs(i, rc, o):
    ws = clist([craw(r) for r in rc["rules"]])
    obs = clist(["(%s, (%s, %s))" % (cname(n), RES[r], cname(s)) for n, r, s in zip(rc["names"], o["res"], o["out"])])
    stored = clist([cnat(x) for x in o["stored"]])
    orders = clist([cZ(x) for x in o["orders"]])
    return ("Definition rw_%d : list craw := %s.\nDefinition ro_%d := %s.\n"
            "Definition rcorr_%d : bool := corr_rules rw_%d %s %s ro_%d.\n"
            "Definition rmon_%d : bool := mon_rules rw_%d %s ro_%d.") % (i, ws, i, obs, i, i, stored, orders, i, i, i, stored, i)


def eval_shard(name, tcases, tobs, tpres, toff, rcases, robs, roff):
    parts = [HEADER]
    for j, (c, o, p) in enumerate(zip(tcases, tobs, tpres)):
        parts.append(table_defs(toff + j, c, o, p))
    for j, (rc, o) in enumerate(zip(rcases, robs)):
        parts.append(rule_defs(roff + j, rc, o))
    ti = range(toff, toff + len(tcases))
    ri = range(roff, roff + len(rcases))
    parts.append("Definition t_corr_bad := Eval vm_compute in bad_idx (fun b : bool => b) %s 0." % clist(["tcorr_%d" % i for i in ti]))
    parts.append("Definition t_mon_bad := Eval vm_compute in bad_idx (fun l : list bool => forallb (fun b => b) l) %s 0." % clist(["tmon_%d" % i for i in ti]))
    parts.append("Definition r_corr_bad := Eval vm_compute in bad_idx (fun b : bool => b) %s 0." % clist(["rcorr_%d" % i for i in ri]))
    parts.append("Definition r_mon_bad := Eval vm_compute in bad_idx (fun b : bool => b) %s 0." % clist(["rmon_%d" % i for i in ri]))
    parts.append("Print t_corr_bad. Print t_mon_bad. Print r_corr_bad. Print r_mon_bad.")
    rc, out = vlib.coq_eval(name, "\n".join(parts) + "\n", timeout=900)
    res = {}
    for k in ("t_corr_bad", "t_mon_bad", "r_corr_bad", "r_mon_bad"):
        res[k] = vlib.parse_nat_list(vlib.parse_printed(out, k))
    if rc != 0 or any(v is None for v in res.values()):
        return None, out
    return res, out


def which_monitor(i, case, obs, pre):
    """re-evaluate one failing table case to name the monitor that is false"""
    v = HEADER + table_defs(i, case, obs, pre) + "\nDefinition which := Eval vm_compute in bad_idx (fun b : bool => b) tmon_%d 0.\nPrint which.\n" % i
    rc, out = vlib.coq_eval("cases_c07_which", v, timeout=300)
    idx = vlib.parse_nat_list(vlib.parse_printed(out, "which")) or []
    names = ["aggregate" if case["cls"] == "A" else "capacity"]
    if case.get("scoped"):
        names.append("scoped")
    if case["tree"]["k"] == "rules" and pre is not None:
        names.append("rename")
    return [names[j] for j in idx if j < len(names)]


# ----------------------------------------------------------------------------- a table stage for other properties

def retry_cases(rng):
    """C02: carried-over metric tables that keep failing, with and without rename rules, below and above the limit"""
    cs = []
    for n in (1, 4, 5, 6, 7, 9):
        for rules in (False, True):
            for over in (False, True):
                cs.append(gen_case_failed_chain(rng, n, rules, overlimit=over))
    return cs


def capacity_cases(rng, n):
    """C05: tables at capacity with scoped and unscoped contributions from several transactions (a new scope of a name that is
    already in the table counts against the limit like any other key -- seeded/C05f1)"""
    stats = {}
    return [gen_case_B(rng, i, stats) for i in range(n)]


def gen_case_processor(rng, via):
    """the same claim through a REAL processor: the rule list arrives in the collector's connect reply, the contributions
    as TXN messages, and the metric payload of the harvest path [via] (all-at-once tick, default-data tick, final flush)
    is read back (seeded/C07g1: one path took its rules from somewhere else).  Names and rules stay under "Vf/"."""
    base = ["Vf/legacy/job", "Vf/current/job", "Vf/a", "Vf/q/c", "Vf/q/d", "Vf/legacy/mail"]
    names = rng.sample(base, rng.randint(2, 5))
    if rng.random() < 0.7 and "Vf/legacy/job" not in names:
        names.append("Vf/legacy/job")
    txns = rng.sample(["WebTransaction/Uri/vf", "OtherTransaction/php/vfjob"], rng.randint(1, 2))
    t = new_node("real")
    bit = 0
    for _ in range(rng.randint(1, 4)):
        ms = []
        for _ in range(rng.randint(1, 4)):
            ms.append({"name": rng.choice(names), "scoped": rng.random() < 0.5, "forced": False,
                       "d": [1, 1 << bit, rng.randrange(1 << 20), rng.randrange(1 << 20), rng.randrange(1 << 20), rng.randrange(1 << 20)]})
            bit += 1
        t = {"k": "txn", "b": t, "txn": rng.choice(txns), "ms": ms}
    pool = [{"match_expression": "^Vf/legacy/(.*)$", "replacement": "Vf/current/\\1"},
            {"match_expression": "^Vf/q/", "replacement": "Vf/r/"},
            {"match_expression": "^Vf/a$", "ignore": True, "replacement": ""},
            {"match_expression": "^Vf/q/d$", "replacement": "Vf/q/c", "terminate_chain": True},
            {"match_expression": "^Vf/current/job$", "replacement": "Vf/done"}]
    picked = rng.sample(pool, rng.randint(1, 3))
    if rng.random() < 0.7 and pool[0] not in picked:
        picked.append(pool[0])
    orders = rng.sample(range(0, 20), len(picked))
    rules = []
    for r, o in zip(picked, orders):
        r = dict(r)
        r["eval_order"] = o
        rules.append(r)
    which = rng.random()
    rj = json.dumps(rules) if which < 0.85 else ("[]" if which < 0.93 else None)
    return {"cls": "A", "mode": "full", "cmp_forced": False, "tree": {"k": "rules", "b": t, "rules": rj, "via": via},
            "desc": "processor path=%s rules=%d" % (via, len(rules))}


def processor_cases(rng, n):
    return [gen_case_processor(rng, ("all", "default", "exit")[i % 3]) for i in range(n)]


def run_table_cases(chk, tcases, tag, what):
    """run table cases against the real MetricTable and judge them in Coq (correspondence with Metrics.exec and
    the table monitors); used by the C02 check for the attempt bound of metric payloads"""
    okm, outm = vlib.coq_make(["MetricsMonitor.vo", "RulesMonitor.vo"])
    if not okm:
        chk.fail("%s_build.txt" % tag, "metric monitor files do not build:\n" + outm[-2000:], no_input=True)
        return
    binary, blog = vlib.go_test_binary("newrelic", only=["c07"])
    if binary is None:
        chk.fail("%s_harness_build.txt" % tag, "metric table harness does not build against the current tree:\n" + blog, no_input=True)
        return
    inp = os.path.join(vlib.BUILD, tag + "_in.json")
    outp = os.path.join(vlib.BUILD, tag + "_out.json")
    json.dump({"tables": [c["tree"] for c in tcases], "rules": []}, open(inp, "w"))
    if os.path.exists(outp):
        os.remove(outp)
    rc, out = vlib.run_go_test(binary, "TestVerifC07", {"VERIF_IN": inp, "VERIF_OUT": outp}, timeout=300)
    if rc != 0 or not os.path.exists(outp):
        chk.fail("%s_harness_run.txt" % tag, "harness TestVerifC07 failed (rc=%d):\n%s" % (rc, out[-3000:]), no_input=True)
        return
    obs = json.load(open(outp))
    tobs, tpres = obs["tables"], obs["pres"]
    r, cout = eval_shard("cases_" + tag, tcases, tobs, tpres, 0, [], [], 0)
    if r is None:
        chk.fail("%s_eval.txt" % tag, "in-Coq evaluation of the table cases failed:\n" + cout[-3000:], no_input=True)
        return
    for c in tcases:
        chk.count_case(c["tree"])
    chk.cov.setdefault("stages", {})[tag] = {"table_cases": len(tcases), "monitor_false": len(r["t_mon_bad"]),
                                             "differs_from_model": len(r["t_corr_bad"])}
    bad = sorted(set(r["t_mon_bad"]) | set(r["t_corr_bad"]))
    for i in bad[:4]:
        chk.fail("%s_%d.json" % (tag, i), {"what": what, "case": tcases[i]["desc"], "tables": [tcases[i]], "observed": tobs[i],
                                           "monitor_false": i in r["t_mon_bad"], "differs_from_model": i in r["t_corr_bad"],
                                           "replay": "./check C07 quick --replay <this file>"}, sig="%s-table" % tag)


# ----------------------------------------------------------------------------- the check

def run(chk, replay=None):
    st = vlib.std_coq_stage(chk, "PropC07", gen=True)
    okm, outm = vlib.coq_make(["MetricsMonitor.vo", "RulesMonitor.vo", "RulesMonitorProofs.vo"])
    rng = random.Random(chk.seed)
    quick = chk.tier == "quick"
    stats = {}
    if replay:
        rp = json.load(open(replay))
        tcases, rcases = rp.get("tables", []), rp.get("rules", [])
    else:
        tcases, rcases = [], []
        nA, nB, nR = (140, 110, 260) if quick else (3000, 2500, 8000)
        # fixed shapes first
        tcases.append(gen_case_capacity_rename(rng, 2000, 100, real=True))
        tcases.append(gen_case_real_overflow(rng))
        for mx, nf in ((1, 1), (3, 2), (5, 4), (8, 3)):
            tcases.append(gen_case_capacity_rename(rng, mx, nf))
        for n in (1, 4, 5, 6, 7):
            tcases.append(gen_case_failed_chain(rng, n, False))
            tcases.append(gen_case_failed_chain(rng, n, True))
            tcases.append(gen_case_failed_chain(rng, n, True, overlimit=True))
        tcases.append(gen_case_failed_chain(rng, 6, False, overlimit=True))
        for k in (1, 2, 4, 8, 8, 6) if quick else [1, 2, 3, 4, 5, 6, 7, 8] * 8:
            tcases.append(gen_case_rename_collision(rng, k))
        for i in range(12 if quick else 100):
            tcases.append(gen_case_scoped(rng, i))
        for i in range(nA):
            tcases.append(gen_case_A(rng, i, stats))
        for i in range(nB):
            tcases.append(gen_case_B(rng, i, stats))
        for i in range(nR):
            rcases.append(gen_rule_case(rng, i, ties=(i % 4 == 3)))

    binary, blog = vlib.go_test_binary("newrelic", only=["c07"])
    if binary is None:
        chk.notes.append("harness build failed: " + blog[-2000:])
        chk.fail("harness_build.txt", "correspondence harness (package newrelic, TestVerifC07) does not build against "
                 "the current tree:\n" + blog, no_input=True)
        return
    inp = os.path.join(vlib.BUILD, "c07_in.json")
    outp = os.path.join(vlib.BUILD, "c07_out.json")
    json.dump({"tables": [c["tree"] for c in tcases],
               "rules": [{"json": json.dumps(rc["rules"]), "names": rc["names"]} for rc in rcases]}, open(inp, "w"))
    if os.path.exists(outp):
        os.remove(outp)
    t0 = time.time()
    rc, out = vlib.run_go_test(binary, "TestVerifC07", {"VERIF_IN": inp, "VERIF_OUT": outp}, timeout=600)
    if rc != 0 or not os.path.exists(outp):
        chk.fail("harness_run.txt", "harness TestVerifC07 failed (rc=%d):\n%s" % (rc, out[-4000:]), no_input=True)
        return
    obs = json.load(open(outp))
    chk.cov["go_run_s"] = round(time.time() - t0, 2)
    tobs, tpres, robs = obs["tables"], obs["pres"], obs["rules"]

    # sanity of the harness output itself (outside the exact domain / non-ASCII would void the comparison)
    for i, o in enumerate(tobs):
        if o["inexact"]:
            chk.fail("domain_%d.json" % i, {"what": "a metric value left the exact integer domain; generator bug", "tables": [tcases[i]]}, no_input=True)
            return
    for rcase, o in zip(rcases, robs):
        if any(not ascii_ok(s) for s in o["out"]):
            chk.fail("domain_rules.json", {"what": "non-ASCII rule output", "rules": [rcase]}, no_input=True)
            return

    # ---- evaluate in Coq, sharded
    t0 = time.time()
    shard_t, shard_r = 60, 70
    res = {"t_corr_bad": [], "t_mon_bad": [], "r_corr_bad": [], "r_mon_bad": []}
    jobs = []
    # table shards: a case with more than 500 operations gets a shard of its own
    bounds, start = [], 0
    for i, c in enumerate(tcases):
        big = len(json.dumps(c["tree"])) > 60000
        if big:
            if start < i:
                bounds.append((start, i))
            bounds.append((i, i + 1))
            start = i + 1
        elif i + 1 - start >= shard_t:
            bounds.append((start, i + 1))
            start = i + 1
    if start < len(tcases):
        bounds.append((start, len(tcases)))
    sid = 0
    for (a, b) in bounds:
        jobs.append((sid, a, b, 0, 0))
        sid += 1
    for a in range(0, len(rcases), shard_r):
        jobs.append((sid, 0, 0, a, min(len(rcases), a + shard_r)))
        sid += 1
    jobs.sort(key=lambda j: -(j[2] - j[1] == 1))  # big ones first
    from concurrent.futures import ThreadPoolExecutor

    def work(j):
        s, ta, tb, ra, rb = j
        ta, ra = min(ta, tb), min(ra, rb)
        return j, eval_shard("cases_c07_%d" % s, tcases[ta:tb], tobs[ta:tb], tpres[ta:tb], ta, rcases[ra:rb], robs[ra:rb], ra)
    with ThreadPoolExecutor(max_workers=12) as ex:
        results = list(ex.map(work, jobs))
    for (s, ta, tb, ra, rb), (r, cout) in results:
        if r is None:
            chk.fail("coq_eval.txt", "in-Coq evaluation of the C07 cases (shard %d) failed:\n%s" % (s, cout[-4000:]), no_input=True)
            return
        ta, ra = min(ta, tb), min(ra, rb)
        res["t_corr_bad"] += [ta + i for i in r["t_corr_bad"]]
        res["t_mon_bad"] += [ta + i for i in r["t_mon_bad"]]
        res["r_corr_bad"] += [ra + i for i in r["r_corr_bad"]]
        res["r_mon_bad"] += [ra + i for i in r["r_mon_bad"]]
    chk.cov["coq_eval_s"] = round(time.time() - t0, 2)

    # ---- coverage
    dist = dict(stats)
    for c in tcases:
        key = "table_%s_%s" % (c["cls"], c["mode"])
        dist[key] = dist.get(key, 0) + 1
        refusals = 0
        chk.count_case(c["tree"], nontrivial=True)
    flagcount = {}
    nmatched = 0
    for rc_, o in zip(rcases, robs):
        chk.count_case({"rules": rc_["rules"], "names": rc_["names"]}, nontrivial=any(x != 1 for x in o["res"]))
        nmatched += sum(1 for x in o["res"] if x != 1)
        for r in rc_["rules"]:
            fk = "rule_flags_i%d_e%d_a%d_t%d" % (r.get("ignore", False), r.get("each_segment", False), r.get("replace_all", False), r.get("terminate_chain", False))
            flagcount[fk] = flagcount.get(fk, 0) + 1
    dist.update(flagcount)
    dist["rule_cases"] = len(rcases)
    dist["rule_cases_with_ties"] = sum(1 for r in rcases if r.get("ties"))
    dist["rule_applications"] = sum(len(r["names"]) for r in rcases)
    dist["rule_applications_matched_or_ignored"] = nmatched
    dist["tables_with_refusals"] = sum(1 for o in tobs if o["dropped"] > 0)
    dist["table_entries_total"] = sum(len(o["entries"]) for o in tobs)
    chk.cov["input_distribution"] = dist
    chk.cov["rule"] = ("table cases: operation trees (AddRaw/AddCount/AddValue, aggregateMetrics on a real flatbuffers "
                       "transaction, Merge, MergeFailed chains, ApplyRules with rules from JSON) delivering random contribution "
                       "multisets (call count 1, totals distinct powers of two) in shuffled orders and groupings; class A has room "
                       "for every key (or the fixed 'fill then forced then rename' shape), class B is at capacity with small max "
                       "and the real 2000; every table case is non-trivial (>= 1 contribution).  rule cases: 1-5 rules over all 16 "
                       "flag combinations, regexes of the concrete class, 8 names each built around sample matches; a rule case is "
                       "non-trivial when at least one name is matched or ignored; distinct by projected input")
    if tcases:
        chk.sample({"table_case": tcases[min(30, len(tcases) - 1)]["desc"], "observed_count": tobs[min(30, len(tcases) - 1)]["count"]})
    if rcases:
        chk.sample({"rules": rcases[0]["rules"], "names": rcases[0]["names"], "out": robs[0]["out"]})

    # ---- decide
    for i in res["t_mon_bad"]:
        which = which_monitor(i, tcases[i], tobs[i], tpres[i])
        chk.fail("table_%d.json" % i, {"what": "observed metric table violates C07 monitor(s) %s" % which,
                                        "monitors_false": which, "tables": [tcases[i]], "observed": tobs[i], "observed_before_rules": tpres[i]},
                 sig="c07-table-" + "-".join(which))
        if len(chk.violations) >= 5:
            break
    for i in res["r_mon_bad"][:5]:
        chk.fail("rules_%d.json" % i, {"what": "MetricRules.Apply result differs from the rule specification (or rules not in ascending eval_order)",
                                        "rules": [rcases[i]], "observed": robs[i]}, sig="c07-rules-apply")
    if not replay:
        run_table_cases(chk, processor_cases(random.Random(chk.seed + 11), 18 if quick else 120), "c07via",
                        "the metric payload a REAL processor sends on this harvest path differs from the rules of the connect "
                        "reply applied to the field-wise combination of the transactions' contributions")
    broken = []
    if not st["build_ok"]:
        broken.append("theorems of PropC07.v no longer check:\n" + st["log"][-3000:])
    if not okm:
        broken.append("monitor files do not build:\n" + outm[-2000:])
    for i in res["t_corr_bad"][:3]:
        chk.replay_file("corr_table_%d.json" % i, {"what": "model/implementation correspondence differs", "tables": [tcases[i]],
                                                    "observed": tobs[i]})
    for i in res["r_corr_bad"][:3]:
        chk.replay_file("corr_rules_%d.json" % i, {"what": "model/implementation correspondence differs", "rules": [rcases[i]],
                                                    "observed": robs[i]})
    if res["t_corr_bad"]:
        i = res["t_corr_bad"][0]
        broken.append("correspondence Metrics.exec vs MetricTable differs on %d table cases, first %d (%s):\ntree=%s\nobserved=%s"
                      % (len(res["t_corr_bad"]), i, tcases[i]["desc"], json.dumps(tcases[i]["tree"])[:3000], json.dumps(tobs[i])[:3000]))
    if res["r_corr_bad"]:
        i = res["r_corr_bad"][0]
        broken.append("correspondence Rules.c_rules_apply / rules_from_json vs MetricRules differs on %d rule cases, first %d:\n%s\nobserved=%s"
                      % (len(res["r_corr_bad"]), i, json.dumps(rcases[i]), json.dumps(robs[i])))
    if broken and not chk.violations:
        chk.fail("broken.txt", "\n\n".join(broken), no_input=True)
    chk.cov["disagreements"] = {k: len(v) for k, v in res.items()}
    chk.cov["table_cases"] = len(tcases)
    chk.cov["rule_cases"] = len(rcases)
    chk.assumptions += [
        "Go regexp is outside the model: Rules.v is parametric in an abstract matcher; the concrete matcher covers literals "
        "(case-insensitive), '.', '[0-9]', greedy '*'/'+' on single-character atoms, '^', '$', one capture group, templates with "
        "${n}; generated rules stay in that class (ASCII names, replacements without '$')",
        "metric values on the exact domain only: integers below 2^40 (float64 arithmetic exact); NaN/Inf/rounding not claimed",
        "Go map iteration order: theorems quantify over every order; correspondence compares order-independent projections",
    ]
