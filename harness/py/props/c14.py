"""C14 -- credentials never reach the logs (PARTIAL by design: see DESIGN.md section 4 C14 and section 8).

Proved (PropC14.v): LicenseKey.String / obfuscated URL noninterference (short keys: known finding),
removeURLFromError, the ARGV echo against a model of Go's flag syntax (full statement since the echo steps
through the arguments like the flag package, /repo 3800b33), the --define lexer lemma, and the typed table of
log call sites generated from the current sources.

Tied to the code here:
  * correspondence: real redactArgs, real flag sets (Parse -> cfg.Proxy), real LicenseKey.String / RpmCmd.url,
    real removeURLFromError on generated inputs vs Redact.v (evaluated in Coq), with model-independent monitors
    (echo / logged text must not contain the secret);
  * dynamic search: the real collector client against local servers for every outcome class x commands, proxy
    settings with credentials, and the real daemon binary started with every spelling of the proxy option
    (command line, --define, legacy -x, configuration file); every log / audit byte is scanned for the full
    license key and the proxy password.
"""
import concurrent.futures
import json
import os
import random
import re
import shutil
import subprocess
import tempfile

import vlib
from vlib import cbool, clist, coption

LEVEL = "proof"

PW = "S3CR3TPW"
PROXY_V = "http://user:%s@127.0.0.1:1" % PW
KEY40 = "0123456789abcdef0123456789abcdefABCDEF67"
URLSECRET = "LICENSEKEYSECRET0123456789"
PROG = "/usr/sbin/newrelic-daemon"


def cstr(s):
    return vlib.cbytes(s.encode("utf-8"))


# ------------------------------------------------------------------------------ generators

NEUTRAL_NEW = [["--foreground"], ["-f"], ["--logfile", "/tmp/verif.log"], ["--loglevel", "debug"], ["--loglevel=info"],
               ["--pidfile", "/tmp/p.pid"], ["--auditlog=/tmp/a.log"], ["--agent"], ["--no-pidfile"],
               ["--wait-for-port", "1s"], ["--pprof", "0"], ["--port", "/tmp/s.sock"], ["--address=/tmp/s.sock"],
               ["--cafile", "x.pem"], ["--integration"], ["-v"], ["--foreground=true"], ["--agent=0"],
               ["-logfile", "l"], ["--capath=/etc/ssl"], ["--define", "logfile=/tmp/l"], ["--define=loglevel=debug"],
               ["--watchdog-foreground"], ["--pidfile", "--"], ["--logfile", "--proxy=keep"], ["--auditlog", "-x=1"]]
NEUTRAL_LEGACY = [["-f"], ["-l", "/tmp/verif.log"], ["-d", "debug"], ["-P", "/tmp/s.sock"], ["-p", "/tmp/p.pid"],
                  ["-A"], ["-b", "x.pem"], ["-S", "/etc/ssl"], ["-a=/tmp/a.log"], ["--no-pidfile"], ["-l=-x=1"]]


def proxy_values(rng):
    return rng.choice([PROXY_V, PROXY_V, "-" + PW, "user:%s@h:1" % PW, "a=%s" % PW, "proxy://%s" % PW,
                       "socks5://u:%s@127.0.0.1:1080" % PW, PW, "--%s" % PW, "-x=%s" % PW])


def proxy_piece(rng, legacy):
    v = proxy_values(rng)
    if legacy:
        return rng.choice([["-x", v], ["-x=" + v], ["--x", v], ["--x=" + v]])
    r = rng.random()
    if r < 0.5:
        return rng.choice([["--proxy", v], ["-proxy", v], ["--proxy=" + v], ["-proxy=" + v]])
    d = rng.choice(["proxy=%s", "proxy = %s", "proxy='%s'", "proxy=\"%s\"", "loglevel=debug\nproxy=%s",
                    "logfile=/tmp/x\n\n  proxy\t=\t%s # c", "proxy=%s\nloglevel=info", "# c\nproxy=%s", "proxy  =%s\n",
                    "pidfile='a b'\nproxy=%s"]) % v
    return rng.choice([["--define", d], ["-define", d], ["--define=" + d], ["-define=" + d]])


SHADOWS_NEW = [["--pidfile", "-x", "--proxy", PROXY_V], ["--logfile", "--proxy", "--proxy", PROXY_V],
               ["--auditlog", "--define", "--define", "proxy=" + PROXY_V], ["--pidfile", "-proxy", "-proxy", PROXY_V],
               ["--cafile", "--x", "--proxy", PROXY_V], ["--capath", "-define", "-define", "proxy = " + PROXY_V]]
SHADOWS_LEGACY = [["-l", "-x", "-x", PROXY_V], ["-p", "--proxy", "-x", PROXY_V], ["-b", "-define", "-x", PROXY_V]]
ERRORS = [["--bogus"], ["---x"], ["-=x"], ["-h"], ["--help"], ["--foreground=maybe"], ["--proxy"], ["-x"],
          ["--define"], ["--define", "proxy"], ["--define", "proxy=\"unterminated"], ["--define", "=x"],
          ["--define", "proxy=a\n!"]]


DANGLING = (["--proxy"], ["-x"], ["--define"])


def gen_argvs(rng, n):
    """Returns (args, strict) pairs.  strict: the password only occurs as the value of a proxy spelling (or
    inside a define text), so it must not appear anywhere in the echo.  A dangling `--proxy` / `-x` / `--define`
    dropped in the middle swallows the next argument and moves the password to a position that is not the proxy
    setting: such lines are judged only through the proxy value the real parser ends up with."""
    out = []
    fixed = [[], ["--proxy", PROXY_V], ["-x", PROXY_V],
             ["--proxy", PROXY_V, "--proxy", "other"], ["--define", "proxy=" + PROXY_V, "--define", "proxy=" + PROXY_V],
             ["-"], ["--"]]
    # fixed corpus: the command lines the echo leaked on before /repo 3800b33 (an option's value that reads
    # like -x / --proxy / -define), new and legacy flag sets
    fixed += SHADOWS_NEW + SHADOWS_LEGACY + [e for e in ERRORS]
    for a in fixed:
        out.append((list(a), True))
    # after "--" or a stray argument nothing is parsed: the password there is not the proxy setting
    for a in (["--", "--proxy", PROXY_V], ["stray", "--proxy", PROXY_V], ["-f", "--", "-x", PROXY_V]):
        out.append((list(a), False))
    while len(out) < n:
        legacy = rng.random() < 0.3
        strict = True
        pool = NEUTRAL_LEGACY if legacy else NEUTRAL_NEW
        pieces = [list(rng.choice(pool)) for _ in range(rng.randint(0, 4))]
        for _ in range(rng.choice([1, 1, 2])):
            pieces.insert(rng.randint(0, len(pieces)), proxy_piece(rng, legacy))
        r = rng.random()
        if r < 0.08:
            pieces.insert(rng.randint(0, len(pieces)), list(rng.choice(SHADOWS_LEGACY if legacy else SHADOWS_NEW)))
        elif r < 0.16:
            e = list(rng.choice(ERRORS))
            at = rng.randint(0, len(pieces))
            if e in [list(d) for d in DANGLING] and at < len(pieces):
                strict = False
            pieces.insert(at, e)
        elif r < 0.24:
            at = rng.randint(0, len(pieces))
            if at < len(pieces):
                strict = False
                # what follows the stopper is not parsed: give it another password, so that the setting the
                # parser ends up with cannot also occur there by construction
                pieces[at:] = [[x.replace(PW, "0THERPW") for x in pc] for pc in pieces[at:]]
            pieces.insert(at, rng.choice([["--"], ["stray"], ["-"]]))
        out.append(([a for p in pieces for a in p], strict))
    return out


KEY_ALPHA = "abcdefghijklmnopqrstuvwxyzABCDEFGHIJKLMNOPQRSTUVWXYZ0123456789"
KEY_ODD = KEY_ALPHA + " .&=%+/~-_.:@#?"


def gen_keys(rng, n):
    out = []
    for ln in [0, 1, 2, 3, 4, 5, 6, 7, 8, 39, 40, 41]:
        out.append("".join(rng.choice(KEY_ALPHA) for _ in range(ln)))
    out += ["ab...", "...de", "ab..ef", "ab.cd", "....", KEY40]
    while len(out) < n:
        ln = rng.choice([5, 6, 7, 8, 12, 40, 40, 40, 64])
        alpha = KEY_ALPHA if rng.random() < 0.7 else KEY_ODD
        k = "".join(rng.choice(alpha) for _ in range(ln))
        out.append(k)
        if rng.random() < 0.3 and ln > 6:       # a partner agreeing on the first and last two bytes
            out.append(k[:2] + "".join(rng.choice(KEY_ALPHA) for _ in range(ln - 4)) + k[-2:])
    cmds = ["preconnect", "connect", "metric_data", "error_data", "transaction_sample_data", "sql_trace_data",
            "custom_event_data", "error_event_data", "analytic_event_data", "span_event_data", "log_event_data",
            "update_loaded_modules", "odd name&x=1"]
    res = []
    for k in out[:n]:
        res.append({"key": k, "host": rng.choice(["collector.newrelic.com", "127.0.0.1:8443", "h"]),
                    "name": rng.choice(cmds), "run_id": rng.choice(["", "12345", "run id/1", "a&b=c"])})
    return res


def gen_errs(rng, n):
    out = []
    url = "https://collector.newrelic.com/agent_listener/invoke_raw_method?license_key=%s&method=connect" % URLSECRET
    plain = ["dial tcp 127.0.0.1:1: connect: connection refused", "EOF", "context deadline exceeded", "stopped after 10 redirects",
             "x509: certificate signed by unknown authority", "", "net/http: timeout awaiting response headers"]
    base = [[{"k": "url", "op": "Post", "url": url}, {"k": "plain", "msg": plain[0]}],
            [{"k": "plain", "msg": "payload size too large: 5 greater than 1"}],
            [{"k": "wrap", "pre": "client: ", "post": ""}, {"k": "url", "op": "Post", "url": url}, {"k": "plain", "msg": "EOF"}],
            [{"k": "url", "op": "parse", "url": "http://user:%s@h:bad" % URLSECRET}, {"k": "plain", "msg": "invalid port \":bad\" after host"}],
            [{"k": "url", "op": "Post", "url": url}, {"k": "url", "op": "Get", "url": "https://elsewhere.example/x"}, {"k": "plain", "msg": "EOF"}]]
    out += base
    while len(out) < n:
        chain = []
        for _ in range(rng.randint(0, 2)):
            chain.append({"k": "wrap", "pre": rng.choice(["", "outer: ", "proxyconnect tcp: ", "Post: "]),
                          "post": rng.choice(["", "", " (retry)"])})
        if rng.random() < 0.8:
            chain.append({"k": "url", "op": rng.choice(["Post", "Get", "parse", "Connect"]),
                          "url": rng.choice([url, "http://user:%s@127.0.0.1:1" % URLSECRET, URLSECRET, ""])})
            for _ in range(rng.randint(0, 2)):
                chain.append({"k": "wrap", "pre": rng.choice(["", "net/http: ", "dial: "]), "post": rng.choice(["", ""])})
            if rng.random() < 0.15:
                chain.append({"k": "url", "op": "Get", "url": "https://elsewhere.example/y"})
        chain.append({"k": "plain", "msg": rng.choice(plain)})
        out.append(chain)
    return out[:n]


STATUSES = [202, 400, 401, 403, 404, 405, 407, 408, 409, 410, 411, 413, 414, 415, 417, 418, 429, 431, 500, 503]
ALL_CMDS = ["preconnect", "connect", "metric_data", "error_data", "transaction_sample_data", "sql_trace_data",
            "custom_event_data", "error_event_data", "analytic_event_data", "span_event_data", "log_event_data",
            "update_loaded_modules"]


def gen_scenarios(rng, tier):
    scs = []

    def add(name, **kw):
        sc = {"name": "%03d_%s" % (len(scs), name), "server": "status", "status": 200, "body": "{\"return_value\":{}}",
              "cmd": "metric_data", "run_id": "12345", "key": KEY40, "proxy": "", "proxy_mode": "", "timeout_ms": 4000,
              "via": "execute", "token": "", "host": ""}
        sc.update(kw)
        scs.append(sc)

    ncmd = 3 if tier == "quick" else len(ALL_CMDS)

    def cmds():
        c = rng.sample(ALL_CMDS, ncmd)
        return c

    outcomes = [("refused", {}), ("reset", {}), ("timeout", {"timeout_ms": 250}), ("tls_untrusted", {}), ("plain", {}),
                ("redirect_loop", {}), ("redirect_away", {}),
                ("status", {"status": 200, "body": "{\"return_value\":{\"ok\":1}}"}),
                ("status", {"status": 200, "body": "<html>not json</html>"}),
                ("status", {"status": 200, "body": ""}),
                ("status", {"status": 200, "body": "{\"exception\":{\"message\":\"Invalid license key\",\"error_type\":\"NewRelic::Agent::LicenseException\"}}"}),
                ("status", {"status": 200, "body": "{\"return_value\":"})]
    outcomes += [("status", {"status": s, "body": "{\"exception\":{\"message\":\"m\",\"error_type\":\"t\"}}"}) for s in STATUSES]
    for server, kw in outcomes:
        for c in cmds():
            add("%s_%s_%s" % (server, kw.get("status", ""), c), server=server, cmd=c,
                run_id="" if c in ("preconnect", "connect") else "12345", **kw)
    # bad collector host names (the host of the connect request comes from the preconnect answer)
    for h in ["exa mple.com", "host:bad", "[::1", "%zz", "h\x7f.example"]:
        add("badhost", server="refused", host=h, cmd="connect", run_id="")
    # the real connect handshake
    for server, kw in outcomes[:8] + [("status", {"status": s, "body": ""}) for s in (401, 409, 410, 503)]:
        for tok in ("", "tok-" + PW[:0] + "abc"):
            add("connect_%s_%s" % (server, kw.get("status", "")), via="connect", server=server, token=tok, **kw)
    # proxies with credentials
    proxies = [("http://user:%s@127.0.0.1:1" % PW, ""), ("https://user:%s@127.0.0.1:1" % PW, ""),
               ("socks5://user:%s@127.0.0.1:1" % PW, ""), ("user:%s@127.0.0.1:1" % PW, ""),
               ("http://user:%s@{PROXYADDR}" % PW, "407"), ("http://user:%s@{PROXYADDR}" % PW, "close"),
               ("http://user:%s@{PROXYADDR}" % PW, "garbage"), ("http://user:%s@{PROXYADDR}" % PW, "502"),
               ("https://user:%s@{PROXYADDR}" % PW, "garbage"), ("socks5://user:%s@{PROXYADDR}" % PW, "close"),
               ("socks5://user:%s@{PROXYADDR}" % PW, "garbage"), ("user:%s@{PROXYADDR}" % PW, "407"),
               ("http://user:%s@127.0.0.1:bad" % PW, ""), ("http://user:%s@host:1:2" % PW, "")]
    for p, mode in proxies:
        add("proxy_exec", proxy=p, proxy_mode=mode, server="status", cmd=rng.choice(ALL_CMDS), timeout_ms=3000)
        add("proxy_connect", proxy=p, proxy_mode=mode, server="status", via="connect", timeout_ms=3000)
    bad = ["http://user:%s@[::1" % PW, "http://user:%s%%zz@h" % PW, "ftp://user:%s@h:21" % PW, "://user:%s@h" % PW,
           "http://user:%s@h\x7f" % PW, "socks4://user:%s@h:1" % PW, " http://user:%s@h" % PW,
           "http://us er:%s@h" % PW, "http://user:%s@h:99999999999" % PW, "%s://h" % PW, "http://%s:x@[bad" % PW,
           "socks5://user:%s@h:bad" % PW, "socks5://user:%s@" % PW, "user:%s@[h" % PW, "http://[%s]" % PW]
    for p in bad:
        add("proxy_unparsable", proxy=p, via="newclient")
    # key shapes
    for k in ["abcd", "ab", "ab..ef", "abcdefg", "k e&y=%+1234567", KEY40 + " ", "'" + KEY40 + "'", KEY40[:39], KEY40 + "Z"]:
        add("key_shape", key=k, server="status", status=503, body="")
        add("key_shape_connect", key=k, server="status", status=503, body="", via="connect")
        # every verdict the processor has a diagnostic of its own for (seeded/C14f2: the invalid-license branch)
        for st in (401, 410, 409):
            add("key_shape_connect_%d" % st, key=k, server="status", status=st, body="", via="connect")
    return scs


def daemon_spellings():
    v = PROXY_V
    sp = [("proxy2", ["--proxy", v]), ("proxy1", ["-proxy", v]), ("proxy2eq", ["--proxy=" + v]), ("proxy1eq", ["-proxy=" + v]),
          ("define2", ["--define", "proxy=" + v]), ("define1", ["-define", "proxy=" + v]),
          ("define2eq", ["--define=proxy=" + v]), ("define1eq", ["-define=proxy=" + v]),
          ("define_multiline", ["--define", "loglevel=debug\nproxy=" + v]),
          ("define_spaced", ["--define", "proxy = " + v]), ("define_squote", ["--define", "proxy='%s'" % v]),
          ("define_dquote", ["--define", "proxy=\"%s\"" % v]), ("define_tab_comment", ["--define", "proxy\t=\t%s # c" % v]),
          ("define_twice", ["--define", "loglevel=debug", "--define", "proxy=" + v]),
          ("proxy_twice", ["--proxy", v, "--proxy", v.replace("user", "user2")]),
          ("proxy_dash_value", ["--proxy", "-" + PW]), ("proxy_after_bool", ["--agent", "--proxy", v]),
          ("proxy_unparsable", ["--proxy", "http://user:%s@[::1" % PW]), ("proxy_badscheme", ["--proxy", "ftp://user:%s@h:21" % PW]),
          ("proxy_badescape", ["--proxy=http://user:%s%%zz@h" % PW]), ("proxy_space", ["--proxy", " http://user:%s@h" % PW]),
          ("proxy_socks_bad", ["--define", "proxy=socks5://user:%s@h:bad" % PW]),
          ("shadow_pidfile_x", ["--pidfile", "-x", "--proxy", v]),
          ("shadow_define", ["--pidfile", "--define", "--define", "proxy=" + v]),
          ("shadow_cafile_proxy", ["--capath", "--proxy", "--proxy", v])]
    legacy = [("legacy_x", ["-x", v]), ("legacy_xeq", ["-x=" + v]), ("legacy_xx", ["--x", v]),
              ("legacy_x_unparsable", ["-x", "http://user:%s@[::1" % PW]),
              ("legacy_shadow", ["-p", "-x", "-x", v])]
    return sp, legacy


def run_daemon(binary, base, args, cfgtext=None):
    d = tempfile.mkdtemp(prefix="verifc14d", dir=vlib.BUILD)
    try:
        lf, af = os.path.join(d, "daemon.log"), os.path.join(d, "audit.log")
        argv = [binary] + [a.replace("{LOG}", lf).replace("{AUDIT}", af) for a in base]
        if cfgtext is not None:
            cf = os.path.join(d, "newrelic.cfg")
            open(cf, "w").write(cfgtext)
            argv += ["-c", cf]
        argv += args
        env = {k: v for k, v in os.environ.items() if k != "NEW_RELIC_DAEMON_ROLE" and not k.lower().endswith("_proxy")}
        try:
            p = subprocess.run(argv, cwd=d, env=env, stdout=subprocess.PIPE, stderr=subprocess.STDOUT, timeout=25,
                               stdin=subprocess.DEVNULL)
            rc, out = p.returncode, p.stdout.decode("utf-8", "replace")
        except subprocess.TimeoutExpired as e:
            rc, out = 124, (e.stdout or b"").decode("utf-8", "replace")
        logs = ""
        for f in (lf, af):
            if os.path.exists(f):
                logs += open(f, errors="replace").read()
        return {"rc": rc, "stdout": out, "log": logs, "argv": argv[1:]}
    finally:
        shutil.rmtree(d, ignore_errors=True)


def leak_sig(kind, text, secret):
    """Signature of a leak: the log call site is recognised by the first words of the message."""
    for line in text.split("\n"):
        if secret in line:
            m = re.search(r"\) (?:Error|Warning|Info|Debug|Healthcheck|Always): (.*)$", line)
            msg = m.group(1) if m else line
            msg = msg.split(secret)[0]
            msg = re.sub(r"'[^']*'|\"[^\"]*\"|ARGV\[\d+\]", " ", msg)
            words = re.findall(r"[A-Za-z]+", msg)[:3]
            return "c14-%s-%s" % (kind, "_".join(w.lower() for w in words) or "line"), line[:400]
    return "c14-%s-unknown" % kind, ""


# ------------------------------------------------------------------------------------- run

def run(chk, replay=None):
    st = vlib.std_coq_stage(chk, "PropC14", gen=True)
    vlib.coq_make(["Gen/LogSites_gen.vo", "RedactProofs.vo"])
    rng = random.Random(chk.seed)
    quick = chk.tier == "quick"
    rp = json.load(open(replay)) if replay else None
    reported = {}
    raw_fail = chk.fail

    def fail_once(name, content, sig=None, no_input=False):
        # one replay per signature; further hits are only counted
        if sig is not None:
            reported[sig] = reported.get(sig, 0) + 1
            if reported[sig] > 1:
                return
        raw_fail(name, content, sig=sig, no_input=no_input)
    chk.fail = fail_once

    broken = []
    if not st["build_ok"]:
        broken.append("theorems of PropC14.v no longer check:\n" + st["log"][-3000:])

    # ---------------- 1. typed log-site table (translation): which sites are rejected
    v = """From Coq Require Import Ascii String.
From Coq Require Import NArith List Bool.
From Verif Require Import Common LogSites.
From Verif.Gen Require Import LogSites_gen.
Import ListNotations.
Definition bad := Eval vm_compute in bad_idx site_ok log_sites 0.
Definition sane := Eval vm_compute in (if table_sane log_sites then [] else [0%nat]).
Definition count := Eval vm_compute in [length log_sites].
Print bad. Print sane. Print count.
"""
    rc, cout = vlib.coq_eval("cases_c14_sites", v, timeout=300)
    bad_sites = vlib.parse_nat_list(vlib.parse_printed(cout, "bad"))
    sane = vlib.parse_nat_list(vlib.parse_printed(cout, "sane"))
    nsites = vlib.parse_nat_list(vlib.parse_printed(cout, "count"))
    sites_json = []
    try:
        gf = "/verif/build/gofacts"
        p = subprocess.run([gf, "logsites", vlib.DAEMON], cwd=vlib.DAEMON, env=vlib.GOENV, stdout=subprocess.PIPE,
                           stderr=subprocess.PIPE, timeout=300)
        sites_json = json.loads(p.stdout.decode())
    except Exception as e:  # noqa: BLE001
        chk.notes.append("gofacts logsites failed: %s" % e)
    if rc != 0 or bad_sites is None or sane is None:
        broken.append("evaluation of the log-site table failed:\n" + cout[-2000:])
        bad_sites, sane = [], []
    chk.cov["log_sites"] = nsites[0] if nsites else 0
    for i in bad_sites:
        s = sites_json[i] if i < len(sites_json) else {"index": i}
        badargs = [a for a in s.get("args", []) if a.get("features")]
        slug = "%s-%s" % (os.path.basename(s.get("file", "?")), re.sub(r"[^A-Za-z0-9]+", "_", s.get("func", "?")).strip("_"))
        chk.fail("logsite_%d.json" % i, {"what": "a log call passes a raw secret carrier", "site": s, "offending_args": badargs},
                 sig="c14-logsite-" + slug)
    if sane:
        chk.fail("logsite_table.json", {"what": "the ARGV echo no longer prints redactArgs(os.Args), or the collector client "
                                               "no longer logs the URL through cmd.url(true) only",
                                        "sites": [s for s in sites_json if s.get("func") in ("main", "*clientImpl.Execute")]},
                 sig="c14-logsite-table")

    # ---------------- 2. package main: redactArgs + flag sets
    if rp and "argvs" in rp:
        argvs, strict = rp["argvs"], rp.get("strict", [True] * len(rp["argvs"]))
    elif rp:
        argvs, strict = [], []
    else:
        pairs = gen_argvs(rng, 260 if quick else 2500)
        argvs, strict = [a for a, _ in pairs], [t for _, t in pairs]
    binary, blog = vlib.go_test_binary("main", only=["c14"])
    main_res = None
    if binary is None:
        broken.append("harness (package main, TestVerifC14) does not build:\n" + blog[-2000:])
    elif argvs:
        inp, outp = os.path.join(vlib.BUILD, "c14_main_in.json"), os.path.join(vlib.BUILD, "c14_main_out.json")
        json.dump({"argvs": [[PROG] + a for a in argvs], "flags": argvs}, open(inp, "w"))
        if os.path.exists(outp):
            os.remove(outp)
        rc, out = vlib.run_go_test(binary, "TestVerifC14", {"VERIF_IN": inp, "VERIF_OUT": outp}, timeout=300)
        if rc != 0 or not os.path.exists(outp):
            broken.append("harness TestVerifC14 (main) failed (rc=%d):\n%s" % (rc, out[-3000:]))
        else:
            main_res = json.load(open(outp))

    # ---------------- 3. package collector: keys, URLs, error chains
    keys = rp.get("keys", []) if rp else gen_keys(rng, 220 if quick else 2000)
    errs = rp.get("errs", []) if rp else gen_errs(rng, 160 if quick else 1500)
    binary, blog = vlib.go_test_binary("collector", only=["c14"])
    col_res = None
    if binary is None:
        broken.append("harness (package collector, TestVerifC14) does not build:\n" + blog[-2000:])
    elif keys or errs:
        inp, outp = os.path.join(vlib.BUILD, "c14_col_in.json"), os.path.join(vlib.BUILD, "c14_col_out.json")
        json.dump({"keys": keys, "errs": errs}, open(inp, "w"))
        if os.path.exists(outp):
            os.remove(outp)
        rc, out = vlib.run_go_test(binary, "TestVerifC14", {"VERIF_IN": inp, "VERIF_OUT": outp}, timeout=300)
        if rc != 0 or not os.path.exists(outp):
            broken.append("harness TestVerifC14 (collector) failed (rc=%d):\n%s" % (rc, out[-3000:]))
        else:
            col_res = json.load(open(outp))

    # ---------------- 4. evaluate model + monitors in Coq
    res = {}
    if main_res is not None or col_res is not None:
        acases, kcases, ecases = [], [], []
        if main_res is not None:
            for a, echo, fo, stc in zip(argvs, main_res["echo"], main_res["flags"], strict):
                proceeds = (not fo["new_err"]) or (not fo["legacy_err"])
                acases.append("(%s, %s, %s, %s, %s, %s)" % (
                    clist([cstr(x) for x in a]), clist([cstr(x) for x in echo]),
                    coption(None if fo["new_err"] else cstr(fo["new_proxy"])),
                    coption(None if fo["legacy_err"] else cstr(fo["legacy_proxy"])), cbool(proceeds), cbool(stc)))
        if col_res is not None:
            for k, o in zip(keys, col_res["keys"]):
                kcases.append("(%s, %s, %s, %s, %s, %s, %s)" % (cstr(k["key"]), cstr(k["host"]), cstr(k["name"]), cstr(k["run_id"]),
                                                                 cstr(o["str"]), cstr(o["url_obf"]), cstr(o["url_raw"])))
            for chain, o in zip(errs, col_res["errs"]):
                t = None
                for n in reversed(chain):
                    if n["k"] == "plain":
                        t = "EPlain %s" % cstr(n.get("msg", ""))
                    elif n["k"] == "wrap" and n.get("post", "") == "":
                        # the harness builds this one with fmt.Errorf("%s%w"): its text is fixed at creation
                        t = "errorf quote_simple %s [] (%s)" % (cstr(n.get("pre", "")), t)
                    elif n["k"] == "wrap":
                        t = "EWrap %s %s (%s)" % (cstr(n.get("pre", "")), cstr(n.get("post", "")), t)
                    else:
                        t = "EUrl %s %s (%s)" % (cstr(n.get("op", "")), cstr(n.get("url", "")), t)
                ecases.append("(%s, %s)" % (t, cstr(o)))
        v = """From Coq Require Import Ascii String.
From Coq Require Import NArith List Bool.
From Verif Require Import Common Redact.
Import ListNotations.
Open Scope N_scope.
Definition prog : str := %s.
Definition pw : str := %s.
Definition urlsecret : str := %s.
Definition acase := (list str * list str * option str * option str * bool * bool)%%type.
Definition acases : list acase := %s.
Definition echo_corr (c : acase) := let '(a, echo, np, lp, pr, stc) := c in strs_eqb (redact_args (prog :: a)) echo.
Definition new_corr (c : acase) := let '(a, echo, np, lp, pr, stc) := c in ostr_eqb (parse_proxy new_flags [] a) np.
Definition legacy_corr (c : acase) := let '(a, echo, np, lp, pr, stc) := c in ostr_eqb (parse_proxy legacy_flags [] a) lp.
(* monitor: when the daemon gets as far as the echo (one of its two flag sets accepts the line), no echoed
   line contains the proxy setting the real parser ended up with; and on lines where the password was only
   put into proxy positions (strict) no echoed line contains the password at all *)
Definition final_proxy (np lp : option str) : str :=
  match np with Some p => p | None => match lp with Some p => p | None => [] end end.
Definition echo_mon (c : acase) := let '(a, echo, np, lp, pr, stc) := c in
  if pr then
    (match final_proxy np lp with [] => true | p => if contains pw p then echo_monitor p echo else true end) &&
    (if stc then echo_monitor pw echo else true)
  else true.
Definition a_echo_corr_bad := Eval vm_compute in bad_idx echo_corr acases 0.
Definition a_new_corr_bad := Eval vm_compute in bad_idx new_corr acases 0.
Definition a_legacy_corr_bad := Eval vm_compute in bad_idx legacy_corr acases 0.
Definition a_prop_bad := Eval vm_compute in bad_idx echo_mon acases 0.
Definition kcase := (str * str * str * str * str * str * str)%%type.
Definition kcases : list kcase := %s.
Definition k_corr (c : kcase) := let '(k, h, n, r, s, uo, ur) := c in
  str_eqb (lk_string k) s && str_eqb (rpm_url true h n r k) uo && str_eqb (rpm_url false h n r k) ur.
(* monitor: neither the printed key nor the logged URL contains a (non-empty) key, literally or query-escaped *)
Definition k_mon (c : kcase) := let '(k, h, n, r, s, uo, ur) := c in
  match k with [] => true | _ => negb (contains k s) && negb (contains k uo) && negb (contains (qescape k) uo) end.
Definition k_corr_bad := Eval vm_compute in bad_idx k_corr kcases 0.
Definition k_prop_bad := Eval vm_compute in bad_idx k_mon kcases 0.
Definition quote_simple (s : str) : str := [34] ++ s ++ [34].
Definition ecases : list (gerr * str) := %s.
Definition e_corr_bad := Eval vm_compute in bad_idx (fun c => str_eqb (format quote_simple (scrub (fst c))) (snd c)) ecases 0.
(* monitor: on a chain without an eagerly formatted wrapper above the first url.Error (a property of the
   input), the scrubbed text does not contain the secret URL part *)
Definition e_prop_bad := Eval vm_compute in
  bad_idx (fun c => if lazy_chain (fst c) then negb (contains urlsecret (snd c)) else true) ecases 0.
Print a_echo_corr_bad. Print a_new_corr_bad. Print a_legacy_corr_bad. Print a_prop_bad.
Print k_corr_bad. Print k_prop_bad. Print e_corr_bad. Print e_prop_bad.
""" % (cstr(PROG), cstr(PW), cstr(URLSECRET), clist(acases) if acases else "[]",
       clist(kcases) if kcases else "[]", clist(ecases) if ecases else "[]")
        rc, cout = vlib.coq_eval("cases_c14", v, timeout=600)
        for k in ("a_echo_corr_bad", "a_new_corr_bad", "a_legacy_corr_bad", "a_prop_bad", "k_corr_bad", "k_prop_bad",
                  "e_corr_bad", "e_prop_bad"):
            res[k] = vlib.parse_nat_list(vlib.parse_printed(cout, k))
        if rc != 0 or any(x is None for x in res.values()):
            broken.append("in-Coq evaluation of the C14 cases failed:\n" + cout[-3000:])
            res = {}

    if res:
        for i in res["a_prop_bad"]:
            a = argvs[i]
            # label only: the shape repaired by /repo 3800b33 (an option's value that reads like a proxy/define flag)
            sig, shape = "c14-argv-echo", "other"
            for j in range(len(a) - 1):
                if re.match(r"^--?(pidfile|logfile|auditlog|cafile|capath|port|address|c|loglevel|pprof|wait-for-port|l|p|a|b|S|P|d)$", a[j]) \
                        and re.match(r"^--?(proxy|x|define)$", a[j + 1]):
                    shape = "the value of another option reads like a proxy/define flag (regression of 3800b33)"
            chk.fail("argv_%d.json" % i, {"what": "the ARGV echo prints the proxy password", "shape": shape, "argvs": [a], "strict": [strict[i]],
                                          "echo": main_res["echo"][i], "flags": main_res["flags"][i]}, sig=sig)
        for i in res["k_prop_bad"]:
            k = keys[i]
            sig = "c14-short-license-key" if len(k["key"].encode()) <= 6 else "c14-key-printed"
            chk.fail("key_%d.json" % i, {"what": "LicenseKey.String / the logged URL contains the whole license key",
                                         "keys": [k], "observed": col_res["keys"][i]}, sig=sig)
        for i in res["e_prop_bad"]:
            chk.fail("err_%d.json" % i, {"what": "the scrubbed error text still contains the URL", "errs": [errs[i]],
                                         "observed": col_res["errs"][i]}, sig="c14-urlerror-not-scrubbed")
        for name, what, data in (("a_echo_corr_bad", "Redact.redact_args vs redactArgs", argvs),
                                 ("a_new_corr_bad", "Redact.parse_proxy new_flags vs createDaemonFlagSet.Parse", argvs),
                                 ("a_legacy_corr_bad", "Redact.parse_proxy legacy_flags vs createLegacyFlagSet.Parse", argvs),
                                 ("k_corr_bad", "Redact.lk_string / rpm_url vs LicenseKey.String / RpmCmd.url", keys),
                                 ("e_corr_bad", "Redact.format (scrub e) vs removeURLFromError", errs)):
            if res[name]:
                i = res[name][0]
                obs = None
                if name.startswith("a_") and main_res:
                    obs = {"echo": main_res["echo"][i], "flags": main_res["flags"][i]}
                elif name.startswith("k_") and col_res:
                    obs = col_res["keys"][i]
                elif col_res:
                    obs = col_res["errs"][i]
                broken.append("correspondence %s differs on %d cases, e.g. %s -> %s" % (what, len(res[name]), json.dumps(data[i]), json.dumps(obs)))

    # ---------------- 5. dynamic search: the real client
    scs = rp.get("scenarios", []) if rp else gen_scenarios(rng, chk.tier)
    dyn_res = None
    binary, blog = vlib.go_test_binary("newrelic", only=["c14"])
    if binary is None:
        broken.append("harness (package newrelic, TestVerifC14) does not build:\n" + blog[-2000:])
    elif scs:
        inp, outp = os.path.join(vlib.BUILD, "c14_dyn_in.json"), os.path.join(vlib.BUILD, "c14_dyn_out.json")
        json.dump({"scenarios": scs}, open(inp, "w"))
        if os.path.exists(outp):
            os.remove(outp)
        env = {"VERIF_IN": inp, "VERIF_OUT": outp, "HTTPS_PROXY": "", "https_proxy": "", "HTTP_PROXY": "", "http_proxy": "",
               "NO_PROXY": "127.0.0.1,localhost"}
        rc, out = vlib.run_go_test(binary, "TestVerifC14", env, timeout=900)
        if rc != 0 or not os.path.exists(outp):
            broken.append("harness TestVerifC14 (newrelic, dynamic search) failed (rc=%d):\n%s" % (rc, out[-3000:]))
        else:
            dyn_res = json.load(open(outp))["results"]
    dyn_stats = {"scenarios": 0, "log_bytes": 0, "with_error": 0, "leaks": 0, "error_kinds": {}}
    if dyn_res is not None:
        for sc, r in zip(scs, dyn_res):
            text = r["log"] + "\n" + r["audit"]
            dyn_stats["scenarios"] += 1
            dyn_stats["log_bytes"] += len(text)
            errtxt = r.get("reply_err") or r.get("client_err") or ""
            if errtxt:
                dyn_stats["with_error"] += 1
                kind = re.sub(r"[0-9]+", "N", errtxt)[:60]
                dyn_stats["error_kinds"][kind] = dyn_stats["error_kinds"].get(kind, 0) + 1
            if r.get("note"):
                broken.append("dynamic scenario %s: %s" % (sc["name"], r["note"]))
            chk.count_case({k: sc[k] for k in ("server", "status", "body", "cmd", "proxy", "proxy_mode", "via", "key", "host", "token")},
                           nontrivial=bool(errtxt) or sc["via"] == "connect")
            found = []
            import urllib.parse as _up
            forms = [sc["key"]] + ([f for f in {_up.quote_plus(sc["key"]), _up.quote(sc["key"], safe="")} if f != sc["key"]]
                                   if sc["key"] else [])       # the key as it is, or as a query / path escape of it
            hit = next((f for f in forms if f and f in text), None)
            if hit:
                sig, line = leak_sig("key", text, hit)
                if len(sc["key"]) <= 6:
                    sig = "c14-short-license-key"
                found.append((sig, line, "license key"))
            if PW in text:
                sig, line = leak_sig("proxy", text, PW)
                found.append((sig, line, "proxy password"))
            for sig, line, what in found:
                dyn_stats["leaks"] += 1
                chk.fail("dyn_%s.json" % sc["name"], {"what": "the %s appears in the log / audit log" % what, "line": line,
                                                      "scenarios": [sc], "reply_err": r.get("reply_err"),
                                                      "client_err": r.get("client_err")}, sig=sig)
        if dyn_res:
            chk.sample({"scenario": scs[0]["name"], "log_excerpt": dyn_res[0]["log"][:600]})
    chk.cov["dynamic_client"] = dyn_stats

    # ---------------- 6. dynamic search: the real daemon binary, every spelling of the proxy option
    dstats = {"runs": 0, "leaks": 0, "echo_seen": 0, "client_error_seen": 0}
    if rp is None or rp.get("daemon_runs"):
        dbin, dlog = vlib.go_build_daemon()
        if dbin is None:
            broken.append("the daemon does not build:\n" + dlog[-2000:])
        else:
            new_sp, legacy_sp = daemon_spellings()
            base_new = ["--foreground", "--loglevel", "debug", "--logfile", "{LOG}", "--auditlog", "{AUDIT}",
                        "--address", "/nonexistent-verif-dir/daemon.sock"]
            base_legacy = ["-f", "-d", "debug", "-l", "{LOG}", "-a", "{AUDIT}", "-P", "/nonexistent-verif-dir/daemon.sock"]
            jobs = [(n, base_new, a, None) for n, a in new_sp] + [(n, base_legacy, a, None) for n, a in legacy_sp]
            jobs += [("cfgfile_plain", base_new, [], "proxy=%s\n" % PROXY_V),
                     ("cfgfile_quoted", base_new, [], "# comment\nloglevel = debug\nproxy = \"%s\"\n" % PROXY_V),
                     ("cfgfile_legacy", base_legacy, [], "proxy='%s'\n" % PROXY_V),
                     ("cfgfile_unparsable", base_new, [], "proxy=http://user:%s@[::1\n" % PW),
                     ("cfgfile_and_flag", base_new, ["--proxy", PROXY_V.replace("user", "flaguser")], "proxy=%s\n" % PROXY_V)]
            if rp and rp.get("daemon_runs"):
                want = set(rp["daemon_runs"])
                jobs = [j for j in jobs if j[0] in want]
            with concurrent.futures.ThreadPoolExecutor(max_workers=8) as ex:
                futs = [(j, ex.submit(run_daemon, dbin, j[1], j[2], j[3])) for j in jobs]
                for j, f in futs:
                    r = f.result()
                    dstats["runs"] += 1
                    if "ARGV[" in r["log"]:
                        dstats["echo_seen"] += 1
                    if "unable to create client" in r["log"]:
                        dstats["client_error_seen"] += 1
                    chk.count_case({"daemon": j[0], "args": j[2], "cfg": j[3]}, nontrivial=True)
                    if not r["log"]:
                        broken.append("daemon run %s wrote no log (rc=%s): %s" % (j[0], r["rc"], r["stdout"][-300:]))
                    if PW in r["log"]:
                        dstats["leaks"] += 1
                        sig, line = leak_sig("daemon", r["log"], PW)
                        if "ARGV[" in line:
                            sig = "c14-argv-echo"
                        chk.fail("daemon_%s.json" % j[0], {"what": "the proxy password appears in the daemon's log", "line": line,
                                                          "daemon_runs": [j[0]], "argv": r["argv"], "config_file": j[3]}, sig=sig)
                    elif PW in r["stdout"]:
                        chk.notes.append("daemon run %s: the proxy password appears on stdout/stderr (not a log): %s"
                                         % (j[0], [l for l in r["stdout"].split("\n") if PW in l][:1]))
            chk.sample({"daemon_run": jobs[0][0], "argv": jobs[0][2]})
    chk.cov["daemon_runs"] = dstats

    # ---------------- coverage
    if main_res is not None:
        for a, fo in zip(argvs, main_res["flags"]):
            chk.count_case({"argv": a}, nontrivial=(PW in fo["new_proxy"] or PW in fo["legacy_proxy"]))
    for k in keys:
        chk.count_case({"key": k}, nontrivial=len(k["key"]) > 0)
    for e in errs:
        chk.count_case({"err": e}, nontrivial=any(n["k"] == "url" for n in e))
    chk.cov["rule"] = ("argv: command lines composed of neutral options, every proxy spelling (new, legacy, define texts), "
                       "stoppers, parse errors and shadowing constructs; non-trivial = the real flag set ends with a proxy "
                       "holding the password. keys: lengths 0..8, 39..41, 64, odd bytes, pairs agreeing on both ends. "
                       "errors: url.Error / wrappers / plain chains. dynamic client: outcome class x command x proxy; "
                       "non-trivial = the request failed or went through the real connect handshake. daemon runs: one per "
                       "spelling (command line, define, legacy, configuration file)")
    dist = {"argvs": len(argvs), "keys": len(keys), "error_chains": len(errs), "client_scenarios": len(scs),
            "daemon_runs": dstats["runs"]}
    if main_res is not None:
        dist["argv_new_parse_ok"] = sum(1 for f in main_res["flags"] if not f["new_err"])
        dist["argv_legacy_parse_ok"] = sum(1 for f in main_res["flags"] if not f["legacy_err"])
        dist["argv_proxy_assigned"] = sum(1 for f in main_res["flags"] if PW in f["new_proxy"] or PW in f["legacy_proxy"])
    chk.cov["input_distribution"] = dist
    chk.cov["disagreements"] = {k: len(v) for k, v in res.items()} if res else {}
    chk.cov["failures_by_signature"] = dict(reported)

    if broken and not chk.violations:
        chk.fail("broken.txt", "\n\n".join(broken), no_input=True)
    elif broken:
        chk.notes.append("also: " + " | ".join(b[:300] for b in broken))
    chk.assumptions += ["net/http, crypto/tls, x/net/proxy error values are sampled (outcome classes listed in the evidence), not enumerated",
                        "the typed log-site table classifies arguments by static type and one level of definition, not by data flow",
                        "collector answers are not secrets: a collector that echoes the key in a response body is out of scope",
                        "flag model: value flags other than proxy/x/define accept their value; bytes >= 128 are not letters in the define lexer"]
