"""C03 -- processor-level property; see proccheck.py / procgen.py / coq/Processor.v / coq/ProcMonitor.v."""
import proccheck
import statuscheck

LEVEL = "proof"


def tablefull(rng):
    """one or two histories around the application limit (250 applications, long silence, verdicts asked again)"""
    import procgen
    return [procgen.HistGen(rng, "tablefull").build() for _ in range(2)]


def run(chk, replay=None):
    proccheck.run(chk, "PropC03", {'lifecycle': 5, 'overlap': 4, 'inactivity': 2, 'silence': 3, 'staletick': 1, 'mixed': 2, 'multi': 1}, 260, 4000, [301, 302, 303, 304, 305, 306], replay=replay,
                  extra_histories=tablefull)
    statuscheck.run_stage(chk)
