"""C08 -- every outbound payload is well-formed for its endpoint."""
import json
import os
import random
import struct
import time
from concurrent.futures import ThreadPoolExecutor

import vlib
from vlib import cN, cbool, clist, cbytes, coption

LEVEL = "proof"

# ------------------------------------------------------------------ generators


def hx(b):
    return bytes(b).hex()


VALID_SEQS = [b"\xc2\x80", b"\xc3\xa9", b"\xdf\xbf", b"\xe0\xa0\x80", b"\xe2\x80\xa8", b"\xe2\x80\xa9",
              b"\xe2\x80\xa7", b"\xe2\x80\xaa", b"\xe2\x81\xa8", b"\xed\x9f\xbf", b"\xee\x80\x80",
              b"\xef\xbf\xbd", b"\xef\xbf\xbf", b"\xf0\x90\x80\x80", b"\xf0\x9f\x98\x80", b"\xf4\x8f\xbf\xbf",
              b"\xe1\x80\x80", b"\xec\xbf\xbf", b"\xf1\x80\x80\x80", b"\xf3\xbf\xbf\xbf"]
BAD_SEQS = [b"\xc0\x80", b"\xc1\xbf", b"\xe0\x80\x80", b"\xe0\x9f\xbf", b"\xf0\x80\x80\x80", b"\xf0\x8f\xbf\xbf",
            b"\xed\xa0\x80", b"\xed\xbf\xbf", b"\xf4\x90\x80\x80", b"\xf5\x80\x80\x80", b"\xf8\x88\x80\x80\x80",
            b"\xff", b"\xfe", b"\x80", b"\xbf", b"\xc2", b"\xe2\x80", b"\xf0\x9f\x98", b"\xf0\x9f", b"\xf0",
            b"\xe2\x28\xa1", b"\xe2\x82\x28", b"\xf0\x28\x8c\xbc", b"\xf0\x90\x28\xbc", b"\xf0\x28\x8c\x28",
            b"\xc2\xc2\x80", b"\xe2\xe2\x80\xa8"]
SPECIAL = [b'"', b"\\", b"<", b">", b"&", b"/", b"\n", b"\r", b"\t", b"\x00", b"\x1f", b"\x7f", b"\x08", b"\x0c",
           b" ", b"'", b"\\u0041", b'\\"', b"\\\\"]


def crafted_strings():
    out = [b""]
    for c in range(32):
        out.append(b"a" + bytes([c]) + b"b")
    for s in VALID_SEQS + BAD_SEQS + SPECIAL:
        out += [s, b"x" + s, s + b"y", s + s, s + b'"', b"\\" + s]
    # every proper prefix of every valid multi-byte sequence, alone / followed by ASCII / by a lead / by a continuation
    for s in VALID_SEQS:
        for k in range(1, len(s)):
            p = s[:k]
            out += [p, p + b"z", p + b"\xe2", p + b"\x80", p + b'"', p + s]
    # boundaries of the accept ranges for the second byte
    for lead, los in ((0xE0, (0x9F, 0xA0, 0xBF, 0xC0)), (0xED, (0x7F, 0x80, 0x9F, 0xA0)),
                      (0xF0, (0x8F, 0x90, 0xBF, 0xC0)), (0xF4, (0x7F, 0x80, 0x8F, 0x90)),
                      (0xE1, (0x7F, 0x80, 0xBF, 0xC0)), (0xF1, (0x7F, 0x80, 0xBF, 0xC0)),
                      (0xC2, (0x7F, 0x80, 0xBF, 0xC0)), (0xDF, (0x7F, 0x80, 0xBF, 0xC0))):
        for b2 in los:
            for tail in (b"", b"\x80", b"\x80\x80", b"\x80\x80\x80", b"\xbf\xbf\xbf", b"\x7f", b"\xc0"):
                out.append(bytes([lead, b2]) + tail)
    out.append(bytes(range(0, 64)))
    out.append(bytes(range(64, 128)))
    out.append(b"\xe2\x80\xa8" * 21)
    out.append(b'"' * 64)
    out.append(b"\\" * 64)
    out.append(b"\xff" * 64)
    out.append(b"\xf0\x9f\x98\x80" * 16)
    return [s[:64] for s in out]


def random_string(rng, maxlen=64):
    mode = rng.random()
    n = rng.randint(0, maxlen)
    if mode < 0.25:
        return bytes(rng.randrange(256) for _ in range(n))
    if mode < 0.5:
        return bytes(rng.choice([rng.randrange(0x80, 0x100), rng.randrange(0x80, 0xC0), rng.randrange(256)])
                     for _ in range(n))
    if mode < 0.75:
        out = b""
        while len(out) < n:
            out += rng.choice(VALID_SEQS + BAD_SEQS + SPECIAL + [b"a", b"Z", b"0"])
        return out[:maxlen]
    return bytes(rng.choice([rng.randrange(0x20, 0x7F), rng.randrange(0x20), 0x22, 0x5C, rng.randrange(256)])
                 for _ in range(n))


def odd_name(rng, maxlen=20):
    r = rng.random()
    if r < 0.3:
        return rng.choice([b"WebTransaction/Uri/index.php", b"Datastore/all", b"a", b"Custom/x y", b"OtherTransaction/php/cli"])
    return random_string(rng, maxlen) or b"n"


def fbits(x):
    return str(struct.unpack("<Q", struct.pack("<d", x))[0])


FINITE = [0.0, -0.0, 1.0, -1.0, 0.5, 1e-7, 1.5e-7, 123.456, 1e21, 1e20, 100000.0, 1e308, 5e-324, 2.2250738585072014e-308,
          3.0, 1234567.0, 0.1, 1e6, 1e-5, 9007199254740993.0, 1.7976931348623157e308]
NONFINITE = [float("nan"), float("inf"), float("-inf")]


def gen_floats(rng, bad):
    vals = [rng.choice(FINITE) if rng.random() < 0.7 else rng.uniform(-1e6, 1e6) for _ in range(6)]
    if bad:
        vals[rng.randrange(6)] = rng.choice(NONFINITE)
    return [fbits(v) for v in vals]


def gen_metric_case(rng, i):
    n = [0, 1, 2, 3][i] if i < 4 else rng.randint(0, 9)
    bad = (i % 5 == 4)
    entries = []
    names = [odd_name(rng) for _ in range(max(1, n))]
    for k in range(n):
        nm = rng.choice(names) if rng.random() < 0.2 else names[k % len(names)]
        entries.append({"name": hx(nm), "scope": hx(b"" if rng.random() < 0.5 else odd_name(rng, 12)),
                        "data": gen_floats(rng, bad and k == n - 1), "forced": rng.random() < 0.5})
    if i % 7 == 6 and n >= 1:
        # two finite contributions whose sum overflows to +Inf
        big = [fbits(1.7976931348623157e308)] * 6
        entries.append({"name": hx(b"overflow"), "scope": "", "data": big, "forced": True})
        entries.append({"name": hx(b"overflow"), "scope": "", "data": big, "forced": True})
    return {"id": hx(odd_name(rng, 16)), "start": rng.choice([0, 1700000000, 1, 2**31, -5]),
            "now": rng.choice([1700000060, 0, 2**33]), "max": rng.choice([2000, 2000, 3, 0, 1]), "entries": entries,
            "merge": i % 6 == 5}


def rand_unicode(rng, maxlen=10):
    n = rng.randint(0, maxlen)
    out = []
    for _ in range(n):
        r = rng.random()
        if r < 0.4:
            out.append(chr(rng.randrange(0x20, 0x7F)))
        elif r < 0.55:
            out.append(rng.choice(['"', "\\", "\n", "\t", "\x00", "\x1f", "<", ">", "&", "/", "\x7f", "\r", "\x08"]))
        elif r < 0.7:
            out.append(rng.choice(["\u2028", "\u2029", "\ufffd", "\u00e9", "\u0800", "\uffff", "\ud7ff", "\ue000"]))
        elif r < 0.85:
            out.append(chr(rng.randrange(0x80, 0xD800)))
        else:
            out.append(chr(rng.randrange(0x10000, 0x110000)))
    return "".join(out)


def rand_json_value(rng, depth=0):
    r = rng.random()
    if depth > 3 or r < 0.35:
        return rng.choice([None, True, False, 0, -1, 1.5, 1e21, 1e-7, 12345678901234567890, rand_unicode(rng), "", "x"])
    if r < 0.65:
        return [rand_json_value(rng, depth + 1) for _ in range(rng.randint(0, 3))]
    return {rand_unicode(rng, 5): rand_json_value(rng, depth + 1) for _ in range(rng.randint(0, 3))}


def dump_json(rng, v):
    seps = rng.choice([(",", ":"), (", ", ": "), (" ,", " : ")])
    s = json.dumps(v, ensure_ascii=rng.random() < 0.5, separators=seps)
    if rng.random() < 0.2:
        s = rng.choice([" ", "\n", "\t "]) + s + rng.choice(["", " ", "\r\n"])
    return s.encode("utf-8")


FIXED_FRAGS = [b"{}", b"[]", b"1", b'""', b"null", b"true", b"-0", b"[1]", b" {} ", b'{"a":1}', b"1e5", b"[[]]",
               b'{"intrinsics":{"type":"Transaction","name":"a\\"b"},"x":[1,2,{"y":null}]}',
               b'[{"type":"Span","traceId":"\\u2028"},{},{"k":"\xe2\x80\xa8\xf0\x9f\x98\x80"}]',
               b"[" * 20 + b"]" * 20, b'"\\ud83d\\ude00"', b"0.0", b"-1.5E+10", b'{"a" : [ 1 , 2 ] }']


def gen_fragment(rng):
    if rng.random() < 0.4:
        return rng.choice(FIXED_FRAGS)
    return dump_json(rng, rand_json_value(rng))


def gen_event_case(rng, i):
    kind = ["txn", "custom", "error", "span", "log"][i % 5]
    cap = [0, 1, 2, 5][(i // 5) % 4] if i < 20 else rng.randint(0, 8)
    n = [0, 1, 2][(i // 5) % 3] if i < 15 else rng.randint(0, 10)
    events = [{"data": hx(gen_fragment(rng)), "prio": round(rng.random() * 2, 6)} for _ in range(n)]
    c = {"kind": kind, "cap": cap, "id": hx(odd_name(rng, 16)), "events": events,
         "split": kind != "log" and rng.random() < 0.3, "merge": kind != "log" and rng.random() < 0.25, "labels": []}
    if kind == "log":
        for _ in range(rng.randint(0, 3)):
            c["labels"].append([hx(rng.choice([b"", b"env", odd_name(rng, 8)])), hx(rng.choice([b"", b"prod", odd_name(rng, 8)]))])
    return c


def gen_pkg_case(rng, i):
    pk = [(rand_unicode(rng, 8), rand_unicode(rng, 5)) for _ in range(rng.randint(0, 5))]
    if pk and rng.random() < 0.3:
        pk.append(pk[0])
    items = [[n, v, {}] for n, v in pk]
    mode = i % 10
    seen = []
    if mode == 1:
        data = None
    elif mode == 2:
        data = rng.choice([b"", b"{", b"{}", b"[1,", b"nope", b'"str"', b"12"])
    elif mode == 3:
        items.insert(rng.randint(0, len(items)), rng.choice([["a", "b"], "str", 5, ["a", "b", {}, 1], {}, None]))
        data = dump_json(rng, items)
    elif mode == 4:
        items.append([rng.choice([5, None, [], {}]), rng.choice([1.5, "v", True]), {}])
        data = dump_json(rng, items)
    elif mode == 5:
        # invalid UTF-8 / odd escapes inside the JSON strings
        data = rng.choice([b'[["a\xff","1",{}]]', b'[["\\ud800x","\\u0000",{}],["\\"","\\\\",{}]]',
                           b'[["\xe2\x80\xa8","\xf0\x9f\x98\x80",{}]]', b'[["a\\/b","<>&",{"k":1}]]',
                           b'[["\xed\xa0\x80","\xc0\xaf",[]]]'])
    elif mode == 6:
        data = dump_json(rng, items)
        seen = [[hx(n.encode("utf-8", "surrogatepass")), hx(v.encode("utf-8", "surrogatepass"))] for n, v in pk]   # all seen
    else:
        data = dump_json(rng, items)
        for n, v in pk:
            if rng.random() < 0.3:
                seen.append([hx(n.encode("utf-8")), hx(v.encode("utf-8"))])
    raw = (mode == 9)
    if raw:
        data = dump_json(rng, items)
    return {"seen": seen, "data": None if data is None else hx(data), "raw": raw}


def gen_connect_case(rng, i):
    kind = ["preconnect", "connect", "connect", "connect", "bad"][i % 5]
    frag = lambda: hx(gen_fragment(rng))
    c = {"kind": kind, "token": hx(odd_name(rng, 12)), "appname": hx(odd_name(rng, 16) + b";" + odd_name(rng, 8)),
         "host": hx(odd_name(rng, 12)), "display": hx(odd_name(rng, 12)), "lang": hx(b"php"),
         "version": hx(odd_name(rng, 6)), "env": frag(), "labels": frag(), "meta": frag(), "security": rng.random() < 0.5}
    if i % 11 == 10:
        c["env"] = hx(rng.choice([b"{bad", b"", b"[1,]", b"\xff"]))   # encoding/json must reject it
    return c


def gen_other_case(rng, i):
    kind = ["errors", "traces", "slowsqls"][i % 3]
    n = [0, 1, 2][(i // 3) % 3] if i < 9 else rng.randint(0, 5)
    frags = [hx(gen_fragment(rng)) for _ in range(n)]
    if i % 8 == 7 and frags:
        frags[-1] = hx(rng.choice([b"", b"{", b"[1,]", b"\x00"]))
    return {"kind": kind, "id": hx(odd_name(rng, 12)), "strs": [hx(odd_name(rng, 16)) for _ in range(4)], "frags": frags}


def gen_inputs(rng, tier):
    quick = tier == "quick"
    strings = [bytes([b]) for b in range(256)]
    strings += crafted_strings()
    n2 = 3000 if quick else 0     # thorough runs ALL two-byte strings through the all2 channel
    strings += [bytes([v >> 8, v & 255]) for v in rng.sample(range(65536), n2)]
    strings += [random_string(rng) for _ in range(1200 if quick else 12000)]
    floats = [[]] + [gen_floats(rng, k % 4 == 3)[:rng.randint(1, 6)] for k in range(40 if quick else 300)]
    return {
        "strings": [hx(s) for s in strings],
        "all2": not quick,
        "floats": floats,
        "metrics": [gen_metric_case(rng, i) for i in range(40 if quick else 400)],
        "events": [gen_event_case(rng, i) for i in range(60 if quick else 600)],
        "pkgs": [gen_pkg_case(rng, i) for i in range(40 if quick else 400)],
        "connects": [gen_connect_case(rng, i) for i in range(22 if quick else 220)],
        "others": [gen_other_case(rng, i) for i in range(24 if quick else 240)],
    }


# ------------------------------------------------------------------ Coq terms

def cb(h):
    """hex string -> Coq list N"""
    return cbytes(bytes.fromhex(h))


def cob(h):
    return coption(None if h is None else cb(h))


def cfval(fr):
    return "FBad" if fr == "BAD" else "(FNum %s)" % cb(fr)


PREAMBLE = """From Coq Require Import NArith List Bool.
From Verif Require Import Common Json.
Import ListNotations.
Open Scope N_scope.
Definition ob_eqb (a b : option (list N)) : bool :=
  match a, b with Some x, Some y => bytes_eqb x y | None, None => true | _, _ => false end.
Definition has_bad (a : list fval) : bool := existsb (fun x => match x with FBad => true | _ => false end) a.
"""


def coq_strings(cases):
    # (input, output, (rune, size))
    items = ["(%s, %s, (%s, %s))" % (cb(i), cb(o["out"]), cN(o["rune"] % (1 << 32)), cN(o["size"])) for i, o in cases]
    return PREAMBLE + """Definition cases : list (list N * list N * (N * N)) := %s.
Definition corr_bad := Eval vm_compute in bad_idx (fun c => match c with (i, o, (r, sz)) =>
  bytes_eqb (append_string i) o && (let (r', sz') := decode_rune i in (r' =? r) && (sz' =? sz)) end) cases 0.
Definition prop_bad := Eval vm_compute in bad_idx (fun c => match c with (i, o, _) => string_monitor o end) cases 0.
Print corr_bad. Print prop_bad.
""" % clist(items)


def coq_all2(base, outs):
    items = [cb(o) for o in outs]
    return PREAMBLE + """Definition outs : list (list N) := %s.
Definition base : N := %d.
Fixpoint number {A} (i : N) (l : list A) : list (N * A) :=
  match l with [] => [] | x :: r => (i, x) :: number (N.succ i) r end.
Definition cases := number base outs.
Definition corr_bad := Eval vm_compute in bad_idx (fun c : N * list N =>
  bytes_eqb (append_string [fst c / 256; fst c mod 256]) (snd c)) cases 0.
Definition prop_bad := Eval vm_compute in bad_idx (fun c : N * list N => string_monitor (snd c)) cases 0.
Print corr_bad. Print prop_bad.
""" % (clist(items), base)


def coq_payloads(inp, obs):
    v = [PREAMBLE]
    # ---- float arrays
    fl = ["(%s, %s)" % (clist([cfval(f) for f in o["frags"] or []]), cob(o["out"])) for o in obs["floats"]]
    v.append("""Definition fl_cases : list (list fval * option (list N)) := %s.
Definition fl_corr_bad := Eval vm_compute in bad_idx (fun c => ob_eqb (append_float_array [] (fst c)) (snd c)) fl_cases 0.
Definition fl_prop_bad := Eval vm_compute in bad_idx (fun c =>
  match snd c with
  | None => has_bad (fst c)
  | Some o => negb (has_bad (fst c)) && shape_monitor (SArrOf SNum) o &&
              match json_parse o with Some t => match arr_len t with Some n => n =? N.of_nat (length (fst c)) | None => false end | None => false end
  end) fl_cases 0.
""" % clist(fl))
    # ---- metrics
    ms = []
    for c, o in zip(inp["metrics"], obs["metrics"]):
        ents = clist(["{| m_name := %s; m_scope := %s; m_data := %s |}" %
                      (cb(e["name"]), cb(e["scope"]), clist([cfval(f) for f in e["frags"]])) for e in (o["entries"] or [])])
        ms.append("(%s, %s, %s, %s, %s, %s)" % (cb(c["id"]), cb(o["t0"]), cb(o["t1"]), cN(o["count"]), ents, cob(o["out"])))
    v.append("""Definition me_cases : list (list N * list N * list N * N * list metric_entry * option (list N)) := %s.
Definition me_corr_bad := Eval vm_compute in bad_idx (fun c => match c with (id, t0, t1, cnt, ms, out) =>
  match metric_payload id t0 t1 cnt ms, out with
  | None, None => true
  | Some b, Some o => match json_parse b, json_parse o with
                      | Some tb, Some to => metric_tree_eqb tb to
                      | None, None => true     (* both malformed: judged by the monitor *)
                      | _, _ => false end
  | _, _ => false
  end end) me_cases 0.
(* monitor: a non-finite value => no body; else a body of the metric_data shape with one element per table entry;
   mt.count equals the number of entries *)
Definition me_prop_bad := Eval vm_compute in bad_idx (fun c => match c with (id, t0, t1, cnt, ms, out) =>
  match out with
  | None => existsb (fun m => has_bad (m_data m)) ms
  | Some o => negb (existsb (fun m => has_bad (m_data m)) ms) && shape_monitor shape_metric o &&
              match json_parse o with
              | Some (JArr [_; _; _; JArr es]) => N.of_nat (length es) =? N.of_nat (length ms)
              | _ => false end
  end end) me_cases 0.
Definition me_count_bad := Eval vm_compute in bad_idx (fun c => match c with (id, t0, t1, cnt, ms, out) =>
  cnt =? N.of_nat (length ms) end) me_cases 0.
""" % clist(ms))
    # ---- events (non-log) and logs
    evs, logs = [], []
    for c, os_ in zip(inp["events"], obs["events"]):
        for o in os_:
            items = clist([cb(x) for x in (o["items"] or [])])
            if c["kind"] == "log":
                logs.append("(%s, %s, %s)" % (cob(o["labels_json"]), items, cob(o["out"])))
            else:
                evs.append("(%s, %s, %s, %s, %s)" % (cb(o["id_json"]), cb(o["rs"]), cb(o["es"]), items, cob(o["out"])))
    v.append("""Definition ev_cases : list (list N * list N * list N * list (list N) * option (list N)) := %s.
Definition ev_corr_bad := Eval vm_compute in bad_idx (fun c => match c with (idj, rs, es, items, out) =>
  ob_eqb (Some (event_payload idj rs es items)) out end) ev_cases 0.
Definition ev_prop_bad := Eval vm_compute in bad_idx (fun c => match c with (idj, rs, es, items, out) =>
  match out with
  | Some o => shape_monitor shape_events o &&
              match json_parse o with Some (JArr [_; _; JArr ts]) => N.of_nat (length ts) =? N.of_nat (length items) | _ => false end
  | None => false end end) ev_cases 0.
Definition lg_cases : list (option (list N) * list (list N) * option (list N)) := %s.
Definition lg_corr_bad := Eval vm_compute in bad_idx (fun c => match c with (lj, items, out) =>
  ob_eqb (Some (log_payload lj items)) out end) lg_cases 0.
Definition lg_prop_bad := Eval vm_compute in bad_idx (fun c => match c with (lj, items, out) =>
  match out with Some o => shape_monitor shape_log o | None => false end end) lg_cases 0.
""" % (clist(evs), clist(logs)))
    # ---- packages
    pk = []
    for c, o in zip(inp["pkgs"], obs["pkgs"]):
        seen = clist(["(%s, %s)" % (cb(a), cb(b)) for a, b in c["seen"]])
        if o["has_decoded"]:
            dec = "(Some %s)" % clist(["(PkgOk %s %s)" % (cb(d["name"]), cb(d["ver"])) if d["ok"] else "PkgMalformed"
                                       for d in o["decoded"]])
        else:
            dec = "None"
        pk.append("(%s, %s, %s, %s, %s, (%s, %s))" % (cbool(c["raw"]), seen, dec, cN(o["num_seen"]), cob(c["data"]),
                                                  cob(o["filtered"]), cob(o["out"])))
    v.append("""Definition pk_t : Type := (bool * list (list N * list N) * option (list pkg_item) * N * option (list N) *
                            (option (list N) * option (list N)))%%type.
Definition pk_cases : list pk_t := %s.
Definition pk_corr_bad := Eval vm_compute in bad_idx (fun c : pk_t => match c with (raw, seen, dec, ns, data, (filtered, out)) =>
  if raw then ob_eqb (if pkg_empty ns data then None else Some (pkg_payload ns data)) out
  else ob_eqb (filter_php_packages seen dec) filtered && ob_eqb (pkg_harvest_payload seen ns dec) out end) pk_cases 0.
Definition pk_prop_bad := Eval vm_compute in bad_idx (fun c : pk_t => match c with (raw, seen, dec, ns, data, (filtered, out)) =>
  match out with
  | None => true                                  (* Empty(): nothing is sent *)
  | Some o => if raw then shape_monitor (STuple [SStrLit k_Jars; SAny]) o else shape_monitor shape_pkg o
  end &&
  match filtered with
  | Some f => raw || shape_monitor (SArrOf (STuple [SStr; SStr; SObj []])) f
  | None => true end end) pk_cases 0.
""" % clist(pk))
    # ---- connect
    cn = ["(%s, %s)" % (cob(o["encoded"]), cob(o["out"])) for o in obs["connects"]]
    v.append("""Definition cn_cases : list (option (list N) * option (list N)) := %s.
Definition cn_corr_bad := Eval vm_compute in bad_idx (fun c => ob_eqb (encode_payload (fst c)) (snd c)) cn_cases 0.
Definition cn_prop_bad := Eval vm_compute in bad_idx (fun c =>
  match snd c with Some o => shape_monitor shape_connect o | None => match fst c with None => true | Some _ => false end end) cn_cases 0.
""" % clist(cn))
    # ---- errors / traces / slow sqls (encoding/json: monitor only)
    ot = []
    for c, o in zip(inp["others"], obs["others"]):
        ot.append("(%s, %s, %s)" % (cN({"errors": 0, "traces": 1, "slowsqls": 2}[c["kind"]]), cob(o["out"]), cob(o["audit"])))
    v.append("""Definition ot_cases : list (N * option (list N) * option (list N)) := %s.
Definition ot_prop_bad := Eval vm_compute in bad_idx (fun c => match c with (k, out, audit) =>
  match out with
  | None => true     (* the encoder failed: no body *)
  | Some o => shape_monitor (match k with 0 => shape_errors | 1 => shape_traces | _ => shape_slowsqls end) o
  end && match audit with None => true | Some a => json_validb a end end) ot_cases 0.
Print fl_corr_bad. Print fl_prop_bad. Print me_corr_bad. Print me_prop_bad. Print me_count_bad.
Print ev_corr_bad. Print ev_prop_bad. Print lg_corr_bad. Print lg_prop_bad. Print pk_corr_bad. Print pk_prop_bad.
Print cn_corr_bad. Print cn_prop_bad. Print ot_prop_bad.
""" % clist(ot))
    return "\n".join(v)


PAYLOAD_KEYS = ["fl_corr_bad", "fl_prop_bad", "me_corr_bad", "me_prop_bad", "me_count_bad", "ev_corr_bad", "ev_prop_bad",
                "lg_corr_bad", "lg_prop_bad", "pk_corr_bad", "pk_prop_bad", "cn_corr_bad", "cn_prop_bad", "ot_prop_bad"]


def eval_shard(args):
    name, text, keys = args
    rc, out = vlib.coq_eval(name, text, timeout=900)
    res = {k: vlib.parse_nat_list(vlib.parse_printed(out, k)) for k in keys}
    return name, rc, out, res


def needs_escape(b):
    return any(c < 0x20 or c >= 0x80 or c in (0x22, 0x5C, 0x3C, 0x3E, 0x26) for c in b)


# ------------------------------------------------------------------ the check

def run_go(chk, pkg, inp, tag):
    binary, blog = vlib.go_test_binary(pkg, only=["c08"])
    if binary is None:
        chk.notes.append("harness build failed: " + blog[-2000:])
        chk.fail("harness_build_%s.txt" % pkg, "correspondence harness (package %s, TestVerifC08) does not build "
                 "against the current tree:\n%s" % (pkg, blog), no_input=True)
        return None
    inp_p = os.path.join(vlib.BUILD, "c08_%s_in.json" % tag)
    out_p = os.path.join(vlib.BUILD, "c08_%s_out.json" % tag)
    json.dump(inp, open(inp_p, "w"))
    if os.path.exists(out_p):
        os.remove(out_p)
    rc, out = vlib.run_go_test(binary, "TestVerifC08", {"VERIF_IN": inp_p, "VERIF_OUT": out_p}, timeout=600)
    if rc != 0 or not os.path.exists(out_p):
        chk.fail("harness_run_%s.txt" % pkg, "harness TestVerifC08 (%s) failed (rc=%d):\n%s" % (pkg, rc, out[-4000:]),
                 no_input=True)
        return None
    return json.load(open(out_p))


def run(chk, replay=None):
    t0 = time.time()
    st = vlib.std_coq_stage(chk, "PropC08", gen=False)
    rng = random.Random(chk.seed)
    if replay:
        inp = {"strings": [], "all2": False, "floats": [], "metrics": [], "events": [], "pkgs": [], "connects": [], "others": []}
        inp.update(json.load(open(replay))["inputs"])
    else:
        inp = gen_inputs(rng, chk.tier)

    jx = run_go(chk, "jsonx", {"strings": inp["strings"], "all2": inp["all2"], "floats": inp["floats"]}, "jsonx")
    nr = run_go(chk, "newrelic", {k: inp[k] for k in ("metrics", "events", "pkgs", "connects", "others")}, "newrelic")
    if jx is None or nr is None:
        return
    for k in ("strings", "all2", "floats"):
        jx[k] = jx.get(k) or []
    for k in ("metrics", "events", "pkgs", "connects", "others"):
        nr[k] = nr.get(k) or []

    # ---- shards for Coq
    jobs = []
    scases = list(zip(inp["strings"], jx["strings"]))
    SH = 1500
    for s in range(0, len(scases), SH):
        jobs.append(("cases_c08_str%d" % (s // SH), coq_strings(scases[s:s + SH]), ["corr_bad", "prop_bad"]))
    A2 = 8192
    for s in range(0, len(jx["all2"]), A2):
        jobs.append(("cases_c08_all2_%d" % (s // A2), coq_all2(s, jx["all2"][s:s + A2]), ["corr_bad", "prop_bad"]))
    obs = dict(nr)
    obs["floats"] = jx["floats"]
    # payload shards: split the case lists so that each file stays small
    PS = 40
    nsh = max(1, max((len(inp[k]) + PS - 1) // PS for k in ("metrics", "events", "pkgs", "connects", "others", "floats")))
    pshards = []
    for s in range(nsh):
        sub_i = {k: inp[k][s * PS:(s + 1) * PS] for k in ("metrics", "events", "pkgs", "connects", "others", "floats")}
        sub_o = {k: obs[k][s * PS:(s + 1) * PS] for k in ("metrics", "events", "pkgs", "connects", "others", "floats")}
        pshards.append((s, sub_i, sub_o))
        jobs.append(("cases_c08_pay%d" % s, coq_payloads(sub_i, sub_o), PAYLOAD_KEYS))
    with ThreadPoolExecutor(max_workers=8) as ex:
        results = list(ex.map(eval_shard, jobs))

    coq_failed = [(n, out) for n, rc, out, res in results if rc != 0 or any(v is None for v in res.values())]
    if coq_failed:
        chk.fail("coq_eval.txt", "in-Coq evaluation of the C08 cases failed (%s):\n%s"
                 % (coq_failed[0][0], coq_failed[0][1][-4000:]), no_input=True)
        return
    rmap = {n: res for n, rc, out, res in results}

    # ---- decide: strings
    broken = []
    disagreements = {}
    nstr = 0
    for s in range(0, len(scases), SH):
        res = rmap["cases_c08_str%d" % (s // SH)]
        for i in res["prop_bad"]:
            h, o = scases[s + i]
            chk.fail("string_%d.json" % (s + i), {"what": "jsonx.AppendString wrote bytes that are not a JSON string token",
                                                 "inputs": {"strings": [h]}, "observed": o,
                                                 "replay": "jsonx.AppendString(buf, string(hex %s))" % h},
                     sig="c08-appendstring-%s" % h[:16])
        if res["corr_bad"]:
            i = res["corr_bad"][0]
            broken.append("correspondence Json.append_string / decode_rune vs jsonx.AppendString / utf8.DecodeRuneInString "
                          "differs on %d strings, first: input hex %s observed %s" % (len(res["corr_bad"]), scases[s + i][0], scases[s + i][1]))
        disagreements["strings_corr"] = disagreements.get("strings_corr", 0) + len(res["corr_bad"])
        disagreements["strings_prop"] = disagreements.get("strings_prop", 0) + len(res["prop_bad"])
    for s in range(0, len(jx["all2"]), A2):
        res = rmap["cases_c08_all2_%d" % (s // A2)]
        for i in res["prop_bad"]:
            v = s + i
            h = hx(bytes([v >> 8, v & 255]))
            chk.fail("string2_%d.json" % v, {"what": "jsonx.AppendString wrote bytes that are not a JSON string token",
                                            "inputs": {"strings": [h]}, "observed": jx["all2"][v]},
                     sig="c08-appendstring-%s" % h)
        if res["corr_bad"]:
            v = s + res["corr_bad"][0]
            broken.append("correspondence append_string vs AppendString differs on %d two-byte strings, first %04x -> %s"
                          % (len(res["corr_bad"]), v, jx["all2"][v]))
        disagreements["all2_corr"] = disagreements.get("all2_corr", 0) + len(res["corr_bad"])
        disagreements["all2_prop"] = disagreements.get("all2_prop", 0) + len(res["prop_bad"])
    # Go's own json.Valid as a second opinion (recorded; a disagreement with the Coq recogniser is reported)
    second = {"json_valid_false": 0, "disagree_with_coq": 0}
    for (h, o) in scases:
        if not o["valid"]:
            second["json_valid_false"] += 1
    if inp["all2"] and not jx.get("all2_valid", True):
        second["json_valid_false"] += 1

    # ---- decide: payloads
    kinds = [("fl", "floats", "jsonx.AppendFloatArray"), ("me", "metrics", "MetricTable.CollectorJSON"),
             ("ev", "events", "analyticsEvents.CollectorJSON"), ("lg", "events", "LogEvents.CollectorJSON"),
             ("pk", "pkgs", "filterPhpPackages / PhpPackages.CollectorJSON"), ("cn", "connects", "EncodePayload"),
             ("ot", "others", "ErrorHeap / TxnTraces / SlowSQLs Data")]
    for s, sub_i, sub_o in pshards:
        res = rmap["cases_c08_pay%d" % s]
        # map flattened event/log indices back to cases
        ev_idx, lg_idx = [], []
        for ci, (c, os_) in enumerate(zip(sub_i["events"], sub_o["events"])):
            for oi, o in enumerate(os_):
                (lg_idx if c["kind"] == "log" else ev_idx).append((ci, oi))
        for pre, key, what in kinds:
            def case_of(i):
                if pre == "ev":
                    ci, oi = ev_idx[i]
                    return sub_i["events"][ci], sub_o["events"][ci][oi]
                if pre == "lg":
                    ci, oi = lg_idx[i]
                    return sub_i["events"][ci], sub_o["events"][ci][oi]
                return sub_i[key][i], sub_o[key][i]
            for i in res.get(pre + "_prop_bad", []):
                c, o = case_of(i)
                sig = "c08-%s" % key
                if pre == "me":
                    sig = "c08-metric-nonfinite-passed" if any("BAD" in e["frags"] for e in (o["entries"] or [])) and o["out"] else "c08-metric-malformed"
                if pre == "fl":
                    sig = "c08-float-nonfinite-passed" if "BAD" in (o["frags"] or []) and o["out"] else "c08-float-array-malformed"
                if pre == "pk":
                    sig = "c08-pkg-malformed"
                chk.fail("%s_%d_%d.json" % (key if pre != "lg" else "logs", s, i),
                         {"what": "%s produced a body that is not well-formed JSON of the endpoint's shape "
                                  "(or produced a body although a value was NaN/Inf)" % what,
                          "inputs": {key: [c]}, "observed": o,
                          "body": None if not o.get("out") else bytes.fromhex(o["out"]).decode("latin-1")},
                         sig=sig)
            if pre != "ot" and res.get(pre + "_corr_bad"):
                i = res[pre + "_corr_bad"][0]
                c, o = case_of(i)
                broken.append("correspondence model vs %s differs on %d cases of shard %d, first: input %s observed %s"
                              % (what, len(res[pre + "_corr_bad"]), s, json.dumps(c)[:1500], json.dumps(o)[:1500]))
            for suffix in ("_corr_bad", "_prop_bad"):
                if pre + suffix in res:
                    disagreements[pre + suffix] = disagreements.get(pre + suffix, 0) + len(res[pre + suffix])
        for i in res["me_count_bad"]:
            c, o = sub_i["metrics"][i], sub_o["metrics"][i]
            chk.fail("metric_count_%d_%d.json" % (s, i), {"what": "MetricTable.count differs from the number of entries in the map "
                                                         "(the trailing-comma decision uses count)", "inputs": {"metrics": [c]}, "observed": o},
                     sig="c08-metric-count-mismatch")
        disagreements["me_count_bad"] = disagreements.get("me_count_bad", 0) + len(res["me_count_bad"])
        # second opinion: Go's json.Valid on every body
        for key in ("metrics", "pkgs", "connects", "others", "floats"):
            for o in sub_o[key]:
                if o.get("out") and not o["valid"]:
                    second["json_valid_false"] += 1
        for os_ in sub_o["events"]:
            for o in os_:
                if o.get("out") and not o["valid"]:
                    second["json_valid_false"] += 1
    # Go says invalid but no Coq monitor complained -> the recogniser and encoding/json disagree
    total_prop = sum(v for k, v in disagreements.items() if k.endswith("prop") or k.endswith("_prop_bad"))
    if second["json_valid_false"] and total_prop == 0:
        second["disagree_with_coq"] = second["json_valid_false"]
        broken.append("Go's json.Valid rejects %d bodies that the Coq recogniser accepts" % second["json_valid_false"])

    if not st["build_ok"]:
        broken.append("theorems of PropC08.v no longer check:\n" + st["log"][-3000:])
    if broken and not chk.violations:
        chk.fail("broken.txt", "\n\n".join(broken), no_input=True)

    # ---- coverage
    for h, o in scases:
        b = bytes.fromhex(h)
        chk.count_case(["s", h], nontrivial=needs_escape(b))
    for key in ("floats", "metrics", "pkgs", "connects", "others"):
        for c, o in zip(inp[key], obs[key]):
            nontriv = True
            if key == "metrics":
                nontriv = len(c["entries"]) > 0
            if key == "floats":
                nontriv = len(c) > 0
            if key == "others":
                nontriv = len(c["frags"]) > 0
            chk.count_case([key, c], nontrivial=nontriv)
    for c, os_ in zip(inp["events"], obs["events"]):
        chk.count_case(["events", c], nontrivial=len(c["events"]) > 0 and c["cap"] > 0)
    if jx["all2"]:
        # the exhaustive two-byte sweep is counted after the hashed cases (count_case recomputes the distinct total)
        chk.cov["evaluations"] += len(jx["all2"])
        chk.cov["distinct_nontrivial"] += sum(1 for v in range(65536) if needs_escape(bytes([v >> 8, v & 255])))
        chk.cov["exhaustive_two_byte"] = True
    sizes = [len(o["out"]) // 2 for o in obs["metrics"] if o.get("out")]
    sizes += [len(o["out"]) // 2 for os_ in obs["events"] for o in os_ if o.get("out")]
    chk.cov["rule"] = ("AppendString: all 256 one-byte strings, crafted strings <= 64 bytes (every control, quotes, backslashes, "
                       "<>&, truncated / overlong / surrogate / out-of-range UTF-8, U+2028/9, accept-range boundaries), "
                       "a seeded sample of two-byte strings (quick) or all 65536 (thorough), random strings; compared byte for byte "
                       "with Json.append_string, and DecodeRuneInString with Json.decode_rune.  Payloads: real encoders "
                       "(MetricTable, Txn/Custom/Error/Span/Log events incl. Split halves, filterPhpPackages + PhpPackages, EncodePayload, "
                       "ErrorHeap, TxnTraces, SlowSQLs) on generated names and JSON fragments; bodies compared with the model "
                       "(metric entries as a multiset) and judged by the in-Coq monitor json_parse + endpoint shape.  "
                       "A string case is non-trivial when some byte needs escaping or is >= 0x80; a payload case when its container is non-empty.")
    chk.cov["input_distribution"] = {
        "strings": len(scases), "all_two_byte": len(jx["all2"]), "float_arrays": len(inp["floats"]),
        "metric_tables": len(inp["metrics"]), "metric_tables_with_nonfinite": sum(1 for o in obs["metrics"] if o["out"] is None),
        "event_payloads": sum(len(x) for x in obs["events"]), "event_cases_split": sum(1 for c in inp["events"] if c["split"]),
        "event_cases_carried_over": sum(1 for c in inp["events"] if c.get("merge")),
        "metric_tables_carried_over": sum(1 for c in inp["metrics"] if c.get("merge")),
        "log_payloads": sum(1 for c in inp["events"] if c["kind"] == "log"),
        "pkg_cases": len(inp["pkgs"]), "pkg_not_sent": sum(1 for o in obs["pkgs"] if o["out"] is None),
        "connect_cases": len(inp["connects"]), "connect_encoder_errors": sum(1 for o in obs["connects"] if o["out"] is None),
        "other_cases": len(inp["others"]), "other_encoder_errors": sum(1 for o in obs["others"] if o["out"] is None),
        "max_body_bytes": max(sizes) if sizes else 0,
    }
    chk.cov["disagreements"] = disagreements
    chk.cov["go_json_valid_second_opinion"] = second
    if scases:
        h, o = scases[min(len(scases) - 1, 300)]
        chk.sample({"AppendString_input_hex": h, "output_hex": o["out"]})
    if obs["metrics"]:
        o = next((x for x in obs["metrics"] if x.get("out") and len(x["entries"] or []) == 1), obs["metrics"][0])
        chk.sample({"metric_body": None if not o.get("out") else bytes.fromhex(o["out"]).decode("latin-1")[:300]})
    if obs["pkgs"]:
        o = next((x for x in obs["pkgs"] if x.get("out")), obs["pkgs"][0])
        chk.sample({"pkg_body": None if not o.get("out") else bytes.fromhex(o["out"]).decode("latin-1")[:300]})
    chk.assumptions += [
        "strconv.AppendInt/AppendFloat print JSON numbers (oracle; the printed fragments are recorded by the harness and "
        "every body is re-checked by the in-Coq recogniser)",
        "encoding/json (Encoder.Encode, Marshal, Unmarshal) is an oracle: run id string, sampling struct, label map, connect "
        "payload, error/trace/slow-SQL bodies are its output; only their validity and shape are checked (monitor)",
        "agent-supplied JSON fragments are valid JSON texts (the property's proviso); generators only produce valid ones for "
        "the raw-concatenation sites",
    ]
    chk.notes.append("wall %.1fs" % (time.time() - t0))
