"""C10 -- malformed agent messages are contained.

Well-formed App / Transaction / SpanBatch messages are built by the Go harness with the repository's own protocol
builders (mode "bases").  This driver locates every structural position in them (root offset, vtable offsets and
lengths, field offsets, vector and string lengths, scalars) by walking them with the schema facts of
tools/gens/schema.py, and derives mutants: boundary values at those positions, bit flips, truncations, splices,
appended junk, tiny raw messages.  The mutants go through the REAL path (CommandsHandler.HandleMessage on a live
Processor, harness/go/newrelic/zz_verif_c10_test.go); per mutant the harness reports the outcome class on the
connection goroutine, the Incoming* call made, whether the processor goroutine survived, what changed in the
harvest of the addressed live run and of a bystander run, and liveness of well-formed traffic afterwards.

In Coq (ProtoMonitor.v): prop_bad = mutants whose observation violates the monitor (no model involved);
corr_bad = mutants where the model (ProtoDecode.step / decode_txn / process_binary on the same bytes, rebuilt in Coq
from base + edits) predicts another observation.
Hostile VALUES in well-formed App messages are a separate list (each on a fresh processor that then connects).
"""
import concurrent.futures
import json
import os
import random
import re
import struct
import sys

import vlib
from vlib import cN, cZ, cbool, clist

LEVEL = "proof"
sys.path.insert(0, vlib.ROOT + "/tools/gens")

BASE_ORDER = ["app_new", "app_live", "app_dead", "txn_live", "txn_dead", "span_live", "span_dead", "app_b"]
APP_FIELDS = ["license", "appname", "language", "version", "redirect", "environment", "labels", "metadata", "host",
              "display_host", "policy_token", "to_host", "docker_id"]
M32 = 0xFFFFFFFF


# ------------------------------------------------------------------ walking a well-formed message

def positions(buf, S):
    """[(tag, offset, size)] of every structural position of a well-formed message"""
    fbs = S["fbs"]
    out = []
    u16 = lambda o: struct.unpack_from("<H", buf, o)[0]
    u32 = lambda o: struct.unpack_from("<I", buf, o)[0]
    i32 = lambda o: struct.unpack_from("<i", buf, o)[0]
    size_of = {"KBool": 1, "KU8": 1, "KI8": 1, "KU16": 2, "KI16": 2, "KU32": 4, "KI32": 4, "KU64": 8, "KI64": 8,
               "KF32": 4, "KF64": 8}

    def table(T, p, depth=0):
        out.append(("soffset", p, 4))
        vt = p - i32(p)
        out.append(("vtlen", vt, 2))
        out.append(("tablen", vt + 2, 2))
        vlen = u16(vt)
        fields = fbs["tables"][T]["fields"]
        for f in fields:
            e = vt + 4 + 2 * f["num"]
            if e + 2 > vt + vlen:
                continue
            out.append(("vtentry", e, 2))
            o = u16(e)
            if o == 0:
                continue
            fp = p + o
            k = f["kind"]
            if k in size_of:
                out.append(("tag" if f.get("union") else "scalar", fp, size_of[k]))
            elif k == "KBytes":
                out.append(("uoffset", fp, 4))
                out.append(("strlen", fp + u32(fp), 4))
            elif k.startswith("KTable"):
                out.append(("uoffset", fp, 4))
                table(k.split(" ", 1)[1], fp + u32(fp), depth + 1)
            elif k.startswith("KVecTable"):
                out.append(("uoffset", fp, 4))
                v = fp + u32(fp)
                out.append(("veclen", v, 4))
                for j in range(u32(v)):
                    ep = v + 4 + 4 * j
                    out.append(("uoffset", ep, 4))
                    table(k.split(" ", 1)[1], ep + u32(ep), depth + 1)
            elif k.startswith("KStruct"):
                for m in fbs["structs"][k.split(" ", 1)[1]]["members"]:
                    out.append(("scalar", fp + m["num"], m["size"]))
            elif k == "KUnion":
                out.append(("uoffset", fp, 4))
                tagf = [x for x in fields if x["name"] == f["name"] + "_type"][0]
                te = vt + 4 + 2 * tagf["num"]
                tv = buf[p + u16(te)] if u16(te) else 0
                names = {v: n for n, v in fbs["unions"][tagf["union"]]["members"]}
                if names.get(tv) in fbs["tables"]:
                    table(names[tv], fp + u32(fp), depth + 1)

    out.append(("root", 0, 4))
    table(fbs["root"], u32(0))
    return out


def cur(buf, off, size):
    return int.from_bytes(buf[off:off + size], "little")


def values_for(tag, off, size, buf, rng):
    n, c = len(buf), cur(buf, off, size)
    if tag in ("root", "uoffset"):
        v = [0, 1, 3, 4, c - 4, c + 4, c + 1, c - 1, n - off, n - off - 1, n - off - 4, n, 0x7FFFFFFF, 0x80000000,
             0xFFFFFFFC, M32, (1 << 32) - off, (1 << 32) - off + 4, rng.getrandbits(32), rng.randrange(0, n + 8)]
    elif tag == "soffset":
        v = [0, 1, c + 2, c - 2, c + 4, M32, 0x80000000, off, off + 1, (off - n) & M32, rng.getrandbits(32), rng.randrange(0, n + 8)]
    elif tag == "vtlen":
        v = [0, 1, 2, 3, 4, 5, 6, c - 2, c + 2, c + 40, 0xFFFF, 0x8000]
    elif tag == "tablen":
        v = [0, 0xFFFF, c + 1]
    elif tag == "vtentry":
        v = [0, 1, 2, 3, 4, c + 1, c + 4, c - 4, 0xFFFF, 0x8000, n & 0xFFFF, rng.getrandbits(16)]
    elif tag in ("veclen", "strlen"):
        v = [0, 1, c + 1, c - 1, c + 2, c * 2, 1000, n, n - off, n - off - 4, n - off - 3, 0x7FFFFFFF, 0x3FFFFFFF, M32, 0xFFFFFFF0,
             (1 << 32) - off - 4, rng.getrandbits(32)]
    elif tag == "tag":
        v = [0, 1, 2, 3, 4, 5, 6, 127, 128, 255]
    else:
        mx = (1 << (8 * size)) - 1
        v = [0, 1, mx, 1 << (8 * size - 1), rng.getrandbits(8 * size)]
    mask = (1 << (8 * size)) - 1
    return sorted(set(x & mask for x in v if (x & mask) != c))


def edit_apply(bases, buf, e):
    b = bytearray(buf)
    k = e[0]
    if k == "flip":
        if e[1] < len(b):
            b[e[1]] ^= 1 << e[2]
    elif k in ("set8", "set16", "set32"):
        w = {"set8": 1, "set16": 2, "set32": 4}[k]
        for i in range(w):
            if e[1] + i < len(b):
                b[e[1] + i] = (e[2] >> (8 * i)) & 0xFF
    elif k == "trunc":
        b = b[:e[1]]
    elif k == "splice":
        b = b[:e[1]] + bytearray(bases[e[2]][e[3]:])
    elif k == "append":
        b = b + bytearray(bytes.fromhex(e[1]))
    elif k == "raw":
        b = bytearray(bytes.fromhex(e[1]))
    return bytes(b)


def edit_coq(e):
    k = e[0]
    if k == "flip":
        return "EFlip %s %s" % (cN(e[1]), cN(e[2]))
    if k in ("set8", "set16", "set32"):
        return "%s %s %s" % ({"set8": "ESet8", "set16": "ESet16", "set32": "ESet32"}[k], cN(e[1]), cN(e[2]))
    if k == "trunc":
        return "ETrunc %s" % cN(e[1])
    if k == "splice":
        return "ESplice %s %s %s" % (cN(e[1]), cN(e[2]), cN(e[3]))
    if k == "append":
        return "EAppend %s" % vlib.cbytes(bytes.fromhex(e[1]))
    return "ERaw %s" % vlib.cbytes(bytes.fromhex(e[1]))


def checksum(b):
    a = 7
    for x in b:
        a = (a * 31 + x + 1) % 4294967291
    return a


def gen_mutants(rng, bases, S, tier):
    """list of {base, edits, hex}"""
    per_pos = 3 if tier == "quick" else 40
    nflip = 50 if tier == "quick" else 900
    muts, seen = [], set()

    def add(bi, edits):
        buf = bases[bi]
        for e in edits:
            buf = edit_apply(bases, buf, e)
        key = buf.hex()
        if key in seen:
            return
        seen.add(key)
        muts.append({"base": bi, "edits": [list(e) for e in edits], "hex": key, "family": edits[0][0] if edits else "base"})

    for bi in range(len(bases)):
        if BASE_ORDER[bi] == "app_b":
            continue
        buf = bases[bi]
        add(bi, [])
        pos = positions(buf, S)
        structured = []
        for tag, off, size in pos:
            vals = values_for(tag, off, size, buf, rng)
            rng.shuffle(vals)
            # always: zero, one more than the current value, all ones; then a sample of the other boundary values
            must = [x for x in (0, (cur(buf, off, size) + 1) & ((1 << (8 * size)) - 1), (1 << (8 * size)) - 1) if x in vals]
            vals = must + [x for x in vals if x not in must]
            for v in vals[:max(per_pos, len(must))]:
                structured.append(({1: "set8", 2: "set16", 4: "set32"}.get(size, "set32"), off, v & M32) if size <= 4
                                  else ("set32", off + rng.choice([0, 4]), v & M32))
        for e in structured:
            add(bi, [e])
        for _ in range(len(structured) // (8 if tier == "quick" else 3)):
            add(bi, [rng.choice(structured), rng.choice(structured)])
        for _ in range(nflip):
            add(bi, [("flip", rng.randrange(len(buf)), rng.randrange(8))])
        cuts = set([0, 1, 2, 3, 4, 5, 8, 11, 12, 13, 16, 20, len(buf) - 1, len(buf) - 4, len(buf) // 2])
        if tier == "quick":
            cuts |= set(rng.randrange(len(buf)) for _ in range(25))
        else:
            cuts |= set(range(len(buf)))
        for c in sorted(x for x in cuts if 0 <= x < len(buf)):
            add(bi, [("trunc", c)])
        for _ in range(12 if tier == "quick" else 120):
            b2 = rng.randrange(len(bases))
            add(bi, [("splice", rng.randrange(len(buf)), b2, rng.randrange(len(bases[b2])))])
        for _ in range(6 if tier == "quick" else 40):
            add(bi, [("append", bytes(rng.getrandbits(8) for _ in range(rng.randint(1, 24))).hex())])
    # fill up to the tier's volume with random combinations of two to four of the structured edits and bit flips
    target = 2400 if tier == "quick" else 50000
    pool = {}
    for bi in range(len(bases)):
        if BASE_ORDER[bi] == "app_b":
            continue
        pool[bi] = []
        for tag, off, size in positions(bases[bi], S):
            for v in values_for(tag, off, size, bases[bi], rng):
                pool[bi].append(({1: "set8", 2: "set16", 4: "set32"}.get(size, "set32"), off, v & M32))
    guard = 0
    while len(muts) < target and guard < 20 * target:
        guard += 1
        bi = rng.choice(sorted(pool))
        es = []
        for _ in range(rng.randint(2, 4)):
            es.append(rng.choice(pool[bi]) if rng.random() < 0.7 else ("flip", rng.randrange(len(bases[bi])), rng.randrange(8)))
        add(bi, es)
    raws = [b"", b"\x00", b"\x00\x00\x00", b"\x00" * 4, b"\x00" * 12, b"\x00" * 13, b"\x0c" + b"\x00" * 15, b"\xff" * 16,
            b"\x04\x00\x00\x00" + b"\x00" * 20, b"\x10\x00\x00\x00" + b"\xff" * 28]
    for _ in range(30 if tier == "quick" else 600):
        raws.append(bytes(rng.getrandbits(8) for _ in range(rng.choice([1, 2, 3, 4, 8, 12, 13, 16, 24, 40, 64]))))
    for r in raws:
        add(0, [("raw", r.hex())])
    return muts


# ------------------------------------------------------------------ observations as Coq terms

def blob(hx):
    b = bytes.fromhex(hx)
    return "(%s, 0x%s%%N)" % (cN(len(b)), (b[::-1].hex() or "0"))


def num_blob(width, v):
    return "(%s, %s)" % (cN(width), cN(int(v) % (1 << (8 * width))))


def cat_list(d):
    out = []
    for k, lst in sorted((d or {}).items()):
        if k in ("11", "cmds"):
            continue
        for x in lst:
            hx = x.split("|", 1)[0] if k in ("7", "9") else x
            out.append("(%s, %s)" % (cN(int(k)), blob(hx)))
    return clist(out)


def obs_coq(mo):
    d = mo["delivery"]
    cls = {"none": 0, "error": 3, "conn_panic": 4, "hung": 5, "reply_lost": 5}.get(d["class"], 5)
    if d["class"] == "reply":
        cls = 2 if d["valid"] else 1
    calls = d.get("calls") or []
    kind, oid, extra = 0, "None", []
    if calls:
        c = calls[-1]
        kind = {"txn": 1, "app": 2, "span": 3}[c["kind"]]
        oid = "None" if c.get("id") is None else "(Some %s)" % blob(c["id"])
        if c["kind"] == "app":
            i = c["info"]
            extra = [blob(i[f]) for f in APP_FIELDS] + [num_blob(2, i["to_port"]), num_blob(8, i["queue_size"]),
                                                         num_blob(1, 1 if i["high_security"] == "true" else 0),
                                                         num_blob(8, i["span_limit"]), num_blob(8, i["log_limit"]),
                                                         num_blob(8, i["custom_limit"])]
        elif c["kind"] == "span":
            extra = [num_blob(8, c["count"]), blob(c.get("batch") or "")]
    if len(calls) > 1:
        kind = 9
    proc = 0 if mo["proc"] == "" else (1 if mo["proc"].startswith("crash") else 2)
    return "(mkObs %s %s %s %s %s %s %s %s %s %s %s %s %s)" % (
        cN(cls), cN(kind), oid, clist(extra), cN(proc), cat_list(mo.get("added")), cat_list(mo.get("removed")),
        cbool(mo.get("b_changed", False)), cZ(mo.get("apps_delta", 0)), cZ(mo.get("runs_delta", 0)),
        cbool(mo.get("live_query") == "ok"), cbool(mo.get("live_txn") == "ok"), cbool(d.get("conn_closed", False)))


VALUES = [
    # (to_host, port, queue, span, log, custom)
    ("", 0, 0, 2000, 10000, 30000), ("", 0, 0, 0, 0, 0), ("", 0, 1 << 62, 1, 1, 1), ("", 0, (1 << 64) - 1, 1, 1, 1),
    ("", 65535, 5, (1 << 64) - 1, (1 << 63), 1 << 32), ("", 0, 0, (1 << 63) - 1, (1 << 63) - 1, (1 << 63) - 1),
    ("", 0, 0, (1 << 31), (1 << 31) - 1, (1 << 31) + 1), ("", 0, 0, 9999, 19999, 99999), ("", 0, 0, 10000, 20000, 100000),
    ("", 0, 0, 10001, 20001, 100001), ("", 0, 0, (1 << 64) - 1, (1 << 64) - 1, (1 << 64) - 1), ("", 0, 0, 5, 9999, 7),
    ("127.0.0.1", 1, 0, 2000, 10000, 30000), ("127.0.0.1", 65535, 1, 2000, 10000, 30000),
    ("127.0.0.1", 443, 1000, 2000, 10000, 30000),
    ("127.0.0.1", 443, 1 << 62, 2000, 10000, 30000),     # probe of the span queue size: panics before allocating
]

# text fields of a well-formed App message given hostile bytes (the numbers are ordinary): the daemon treats them as opaque
# text, truncates some of them (display_host: 255 bytes, on a rune boundary) and must survive every content -- seeded/C10g1
HOSTILE_TEXT = [b"\x80" * 300, b"\xbf" * 256 + b"tail", b"a" * 254 + "\u00e9".encode(), b"a" * 253 + "\U0001F600".encode() + b"zz",
                b"a" * 255 + b"\x80" * 3, b"\xff" * 1000, b"\x00" * 300, b"h" * 70000, b"\xe2\x82" * 200, b"\xf0\x9f\x98" * 100,
                "\u00e9".encode() * 128, b"a" * 255, b"a" * 256]
TEXT_FIELDS = ["display_host", "host", "appname", "docker_id", "version"]


def text_values():
    out = []
    for f in TEXT_FIELDS:
        for t in HOSTILE_TEXT:
            if f == "appname" and (not t or b";" in t):
                continue
            out.append(["", 0, 0, 2000, 10000, 30000, {f: t.hex()}])
    # several fields at once
    out.append(["", 0, 0, 2000, 10000, 30000, {f: HOSTILE_TEXT[0].hex() for f in TEXT_FIELDS}])
    return out


def run(chk, replay=None):
    import schema
    st = vlib.std_coq_stage(chk, "PropC10", gen=True)
    rng = random.Random(chk.seed)
    S = schema.load(vlib.REPO)
    binary, blog = vlib.go_test_binary("newrelic", only=["c10"])
    if binary is None:
        chk.notes.append("harness build failed: " + blog[-2000:])
        chk.fail("harness_build.txt", "correspondence harness (package newrelic, TestVerifC10) does not build against the "
                 "current tree:\n" + blog, no_input=True)
        return
    inp, outp = os.path.join(vlib.BUILD, "c10_in.json"), os.path.join(vlib.BUILD, "c10_out.json")

    def harness(payload, timeout=900):
        json.dump(payload, open(inp, "w"))
        if os.path.exists(outp):
            os.remove(outp)
        rc, out = vlib.run_go_test(binary, "TestVerifC10", {"VERIF_IN": inp, "VERIF_OUT": outp}, timeout=timeout)
        if rc != 0 or not os.path.exists(outp):
            return None, "rc=%d\n%s" % (rc, out[-4000:])
        return json.load(open(outp)), ""

    o, err = harness({"mode": "bases"})
    if o is None:
        chk.fail("harness_run.txt", "harness TestVerifC10 (bases) failed: " + err, no_input=True)
        return
    bases = [bytes.fromhex(o["bases"][k]) for k in BASE_ORDER]

    if replay:
        rp = json.load(open(replay))
        muts = rp.get("mutants", [])
        values = rp.get("values", [])
    else:
        muts = gen_mutants(rng, bases, S, chk.tier)
        rng.shuffle(muts)
        values = [list(v) for v in VALUES] + text_values()
    bsz = 48
    batches = [muts[i:i + bsz] for i in range(0, len(muts), bsz)]
    payload = {"mode": "run", "batches": [[m["hex"] for m in b] for b in batches], "parallel": 8,
               "values": [{"to_host": v[0], "to_port": v[1], "queue": str(v[2]), "span": str(v[3]), "log": str(v[4]),
                           "custom": str(v[5]), "strs": (v[6] if len(v) > 6 else {})} for v in values]}
    res, err = harness(payload)
    if res is None:
        # the test binary died: a panic escaped every recover of the daemon code AND of the harness.  Find the
        # message: run the batches one at a time, the harness leaves a marker before every delivery
        culprit = None
        for bi, b in enumerate(batches):
            cur = os.path.join(vlib.BUILD, "c10_out.json.cur")
            if os.path.exists(cur):
                os.remove(cur)
            r1, e1 = harness({"mode": "run", "batches": [[m["hex"] for m in b]], "parallel": 1, "values": []})
            if r1 is None:
                try:
                    mi = int(open(cur).read().strip())
                except Exception:
                    mi = None
                culprit = (bi, mi, e1)
                break
        if culprit and culprit[1] is not None:
            bi, mi, e1 = culprit
            m = batches[bi][mi]
            chk.fail("process_death_%d_%d.json" % (bi, mi),
                     {"what": "the whole process died while this message was handled (a panic escaped every recover): the daemon would "
                              "exit, closing every connection and losing the buffered data of every application",
                      "mutants": batches[bi][:mi + 1], "message": m, "panic": e1[-2500:],
                      "replay": "./check C10 quick --replay <this file>"}, sig="c10-process-death")
            return
        chk.fail("harness_run.txt", "harness TestVerifC10 (run) failed -- if the test binary died, a panic escaped every "
                 "recover of the harness too:\n" + err, no_input=True)
        return

    # ---------------- segments (a restart of the harness processor starts a fresh model state)
    segments, seg_src = [], []   # list of list of (mutant, observation); seg_src: (batch, index)
    setup_fail, final_fail = [], []
    for bi, (b, bo) in enumerate(zip(batches, res["batches"])):
        if bo.get("setup"):
            setup_fail.append((bi, bo["setup"]))
        if bo.get("final_a", "ok") != "ok" or bo.get("final_b", "ok") != "ok" or bo.get("final_proc"):
            final_fail.append((bi, bo.get("final_a"), bo.get("final_b"), bo.get("final_proc")))
        segc, srcc = [], []
        for mi, mo in enumerate(bo.get("mutants") or []):
            segc.append((b[mi], mo))
            srcc.append((bi, mi))
            if mo["proc"] != "" or mo["delivery"]["class"] in ("hung", "reply_lost"):
                segments.append(segc)
                seg_src.append(srcc)
                segc, srcc = [], []
        if segc:
            segments.append(segc)
            seg_src.append(srcc)

    # ---------------- Coq
    ok_mk, mlog = vlib.coq_make(["ProtoMonitor.vo"])
    vrows = []
    for v, vo in zip(values, res["values"]):
        crashed = vo["proc"] != ""
        sl = json.loads(vo["sent_limits"]) if vo.get("sent_limits") else {}
        vrows.append("(%s, %s, %s, %s, %s, (%s, %s, %s, %s, %s))" % (
            cN(v[2]), cbool(v[0] != ""), cN(v[4]), cN(v[3]), cN(v[5]), cbool(crashed), cZ(sl.get("span_event_data", 0)),
            cZ(sl.get("log_event_data", 0)), cZ(sl.get("custom_event_data", 0)), cZ(vo.get("log_cap", 0))))
    nsh = (16 if chk.tier == "thorough" else 8) if len(segments) > 16 else 1
    shards = [list(range(i, len(segments), nsh)) for i in range(nsh)]
    base_def = "Definition bases : list bytes := %s." % clist([vlib.cbytes(b) for b in bases])

    def shard_file(si):
        rows = []
        for gi in shards[si]:
            cs = []
            for m, mo in segments[gi]:
                cs.append("(%s, %s, %s, %s)" % (cN(m["base"]), clist([edit_coq(e) for e in m["edits"]]),
                                                cN(checksum(bytes.fromhex(m["hex"]))), obs_coq(mo)))
            rows.append("(%s, %s)" % (vlib.cnat(gi), clist(cs)))
        extra = ""
        if si == 0:
            extra = """Definition value_cases : list value_case := %s.
Definition value_corr_bad := Eval vm_compute in bad_idx (value_corr max_chan_elems 10000%%Z) value_cases 0%%nat.
Definition value_prop_bad := Eval vm_compute in bad_idx value_monitor value_cases 0%%nat.
Print value_corr_bad. Print value_prop_bad.
""" % (clist(vrows) if vrows else "[]")
        return """From Coq Require Import NArith ZArith List Bool.
From Verif Require Import Common Flatbuf2 ProtoDecode ProtoMonitor.
Import ListNotations.
Open Scope N_scope.
%s
Definition st0 : pstate := init_state (nth 0 bases []) (nth 7 bases []).
Definition segs : list (nat * list case) := %s.
Definition corr_bad := Eval vm_compute in
  flat_map (fun s : nat * list case => map (fun i => (fst s, i)) (corr_batch max_chan_elems bases st0 (snd s) 0%%nat)) segs.
Definition prop_bad := Eval vm_compute in
  flat_map (fun s : nat * list case => map (fun i => (fst s, i)) (prop_batch (snd s) 0%%nat)) segs.
Definition setup_ok := Eval vm_compute in lenN (map ai_to_port (ps_apps st0)).
Print corr_bad. Print prop_bad. Print setup_ok.
%s""" % (base_def, clist(rows) if rows else "[]", extra)

    def eval_shard(si):
        rc, cout = vlib.coq_eval("cases_c10_%d" % si, shard_file(si), timeout=1200)
        return si, rc, cout

    corr_bad, prop_bad, coq_fail = [], [], None
    vres = {"value_corr_bad": [], "value_prop_bad": []}
    with concurrent.futures.ThreadPoolExecutor(max_workers=nsh) as ex:
        for si, rc, cout in ex.map(eval_shard, range(nsh)):
            a, b = vlib.parse_printed(cout, "corr_bad"), vlib.parse_printed(cout, "prop_bad")
            if rc != 0 or a is None or b is None:
                coq_fail = cout[-3000:]
                continue
            a, b = a.replace("%nat", ""), b.replace("%nat", "")
            corr_bad += [(int(x), int(y)) for x, y in re.findall(r"\(\s*(\d+)\s*,\s*(\d+)\s*\)", a)]
            prop_bad += [(int(x), int(y)) for x, y in re.findall(r"\(\s*(\d+)\s*,\s*(\d+)\s*\)", b)]
            if si == 0:
                for k in vres:
                    vres[k] = vlib.parse_nat_list(vlib.parse_printed(cout, k)) or []
                so = vlib.parse_printed(cout, "setup_ok")
                if so is not None and not so.startswith("2"):
                    coq_fail = "the model does not decode the two base App messages (setup_ok = %s)" % so

    # ---------------- coverage
    dist, fam = {}, {}
    nm = 0
    for seg in segments:
        for m, mo in seg:
            nm += 1
            k = mo["delivery"]["class"] + "/" + ((mo["delivery"].get("calls") or [{}])[-1].get("kind") or "-")
            if mo["proc"]:
                k += "/" + mo["proc"].split(":")[0]
            dist[k] = dist.get(k, 0) + 1
            fam[m["family"]] = fam.get(m["family"], 0) + 1
            chk.count_case(m["hex"], nontrivial=bool(m["edits"]))
    chk.cov["rule"] = ("mutants of 7 well-formed messages (App without / with live / with dead run id, Transaction and SpanBatch "
                       "with live / dead run id): boundary values at every structural position found by walking the message "
                       "with the schema, pairs of those, bit flips, truncations, splices, appended junk, short raw strings; "
                       "each through CommandsHandler.HandleMessage on a live processor; distinct by message bytes; "
                       "non-trivial = differs from its base")
    chk.cov["input_distribution"] = {"outcome_class/call": dist, "family": fam, "hostile_value_cases": len(values)}
    chk.cov["batches"] = len(batches)
    chk.cov["restarts"] = sum(b.get("restarts", 0) for b in res["batches"])
    chk.cov["partial_decodes"] = sum(1 for seg in segments for m, mo in seg
                                     if (mo["delivery"].get("calls") or [{}])[-1].get("kind") == "txn" and mo.get("added")
                                     and len(mo["added"].get("2", [])) < 2)
    for seg in segments[:1]:
        for m, mo in seg[:2]:
            chk.sample({"mutant": {k: m[k] for k in ("base", "edits")}, "observed": {k: mo[k] for k in ("proc", "b_changed", "live_txn")},
                        "class": mo["delivery"]["class"]})
    chk.cov["disagreements"] = {"corr_bad": len(corr_bad), "prop_bad": len(prop_bad), "value_corr_bad": len(vres["value_corr_bad"]),
                                "value_prop_bad": len(vres["value_prop_bad"]), "setup_fail": len(setup_fail),
                                "final_fail": len(final_fail)}

    # ---------------- decide
    for gi, i in prop_bad[:40]:
        m, mo = segments[gi][i]
        what, sig = "the observation of this message violates the containment property", "c10-containment"
        if mo["proc"].startswith("crash"):
            what = "ESCAPED PANIC on the processor goroutine (the worker would exit with status 3): " + mo["proc"]
            sig = "c10-escaped-panic"
        elif mo["proc"] or mo["delivery"]["class"] == "hung":
            what, sig = "the processor did not finish handling the message (wedged)", "c10-wedged"
        elif mo.get("b_changed"):
            what, sig = "the harvest of the bystander run rB changed", "c10-bystander-changed"
        elif mo.get("live_query") != "ok" or mo.get("live_txn") != "ok":
            what, sig = "well-formed traffic after the message is not served: %s / %s" % (mo.get("live_query"), mo.get("live_txn")), "c10-liveness"
        chk.fail("mutant_%d_%d.json" % (gi, i), {"what": what, "message_hex": m["hex"], "mutants": [m], "observed": mo,
                                                  "base": BASE_ORDER[m["base"]]}, sig=sig)
    for i in vres["value_prop_bad"]:
        v, vo = values[i], res["values"][i]
        sig = "c10-span-queue-size-unbounded" if (v[0] != "" and v[2] >= (1 << 45)) else "c10-hostile-value"
        chk.fail("value_%d.json" % i, {"what": "a well-formed App message with this value stops the processor when the application "
                                              "connects: " + vo["proc"],
                                      "app_message": {"trace_observer_host": v[0], "trace_observer_port": v[1], "span_queue_size": v[2],
                                                      "span_events_max_samples_stored": v[3], "log_events_max_samples_stored": v[4],
                                                      "custom_events_max_samples_stored": v[5],
                                                      "text_fields_hex": (v[6] if len(v) > 6 else {})},
                                      "values": [v], "observed": vo}, sig=sig)
    for bi, s in setup_fail[:3]:
        chk.fail("setup_%d.txt" % bi, "batch %d: the harness could not bring up a processor with two connected applications: %s" % (bi, s),
                 no_input=True)
    for bi, fa, fb, fp in final_fail[:3]:
        chk.fail("final_%d.json" % bi, {"what": "the harvest after the hostile messages of this batch is not what well-formed traffic "
                                               "contributed", "rA": fa, "rB": fb, "processor": fp, "mutants": batches[bi]},
                 sig="c10-final-harvest")
    broken = []
    if not st["build_ok"]:
        broken.append("theorems of PropC10.v no longer check:\n" + st["log"][-3000:])
    if coq_fail:
        broken.append("in-Coq evaluation of the C10 cases failed:\n" + coq_fail)
    if corr_bad:
        gi, i = corr_bad[0]
        m, mo = segments[gi][i]
        broken.append("correspondence: the model (ProtoDecode) predicts another observation for %d mutants; first: base %s edits %s "
                      "hex %s observed %s" % (len(corr_bad), BASE_ORDER[m["base"]], m["edits"], m["hex"], json.dumps(mo)[:1500]))
        chk.replay_file("corr_mutants.json", {"mutants": [segments[g][j][0] for g, j in corr_bad[:50]]})
    if vres["value_corr_bad"]:
        broken.append("correspondence (hostile values): model and daemon differ on value cases %s: %s" % (
            vres["value_corr_bad"], [(values[i], res["values"][i]) for i in vres["value_corr_bad"][:3]]))
    # the span-queue-size finding is present in every run (as a violation, or as a known finding once it is listed):
    # it must not hide a broken proof or a correspondence difference
    other = [i for i in vres["value_prop_bad"] if not (values[i][0] != "" and values[i][2] >= (1 << 45))]
    if broken and not prop_bad and not other and not setup_fail and not final_fail:
        chk.fail("broken.txt", "\n\n".join(broken), no_input=True)
    chk.assumptions += ["the message buffer has cap = len (listener.go ReadMessage)",
                        "serve()'s recover and worker.go's crashGuard are represented by recovers in the harness goroutines",
                        "collector answers come from a mock; applications created by mutants never get a connect answer",
                        "span queue sizes between 2^16 and 2^45 are not probed (they allocate); 2^62 is (it panics before allocating)"]
