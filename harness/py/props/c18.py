"""C18 -- outbound requests are limited without leaking capacity.

Real NewLimitClient(max in {1,2,3,100}) around an inner client under harness control; scripted arrivals,
completions (return / panic), sleeps around a short real time-out.  The harness log is a linearisation
that the limiter LTS must accept (Limiter.accepts, evaluated in Coq); the monitor (Limiter.c18_monitor)
judges the observation alone.  Wiring: the real newrelic.NewClient is inspected for cap = 100, 45 s.
"""
import json
import os
import random

import vlib
from vlib import cN, cZ, cbool, clist

LEVEL = "proof"
TIMEOUT_MS = 30
OUTCOME = {"inner_ret": "OInnerRet", "inner_panic": "OInnerPanic", "err_no_inner": "OErrNoInner",
           "stuck": "OStuck", "bad": "OBad"}
FINAL = {"inner_ret": "Done ROk", "inner_panic": "Done RPanic", "err_no_inner": "Done RTimeout",
         "stuck": "Waiting false", "bad": "Idle"}


def op(o, a=0):
    return {"op": o, "arg": a}


def burst_n(rng, mx):
    if mx >= 100:
        return rng.choice([mx + 1, 2 * mx + 37, 3 * mx + 50])
    return rng.choice([mx + 1, 2 * mx + 1, 4 * mx + 3, 6 * mx + 5, 25])


def gen_scenario(rng, family, mx):
    """One scripted scenario.  Families straddle the limit (max-1, max, max+1, >> max)."""
    sc = {"family": family, "max": mx, "timeout_ms": 0, "n": 0, "panics": [], "ops": []}
    if family == "boundary":
        sc["n"] = max(1, mx + rng.choice([-1, 0, 1]))
        sc["ops"] = [op("arrive", sc["n"]), op("settle")]
        pan = 0.3
    elif family == "burst":
        sc["n"] = burst_n(rng, mx)
        ops = [op("arrive", sc["n"]), op("settle")]
        for _ in range(rng.randint(1, 3 * min(mx, 6))):
            ops.append(op("complete", rng.randint(0, 1000)))
            if rng.random() < 0.5:
                ops.append(op("settle"))
        sc["ops"] = ops
        pan = rng.choice([0.0, 0.3, 0.6])
    elif family == "all_panic":
        sc["n"] = burst_n(rng, mx)
        sc["ops"] = [op("arrive", sc["n"]), op("settle"), op("complete", 0), op("settle")]
        pan = 1.0
    elif family == "staggered":
        sc["n"] = burst_n(rng, mx) if mx < 100 else mx + 40
        ops, left = [], sc["n"]
        while left > 0:
            k = rng.randint(1, max(1, min(left, 2 * mx if mx < 100 else 60)))
            ops.append(op("arrive", k))
            left -= k
            if rng.random() < 0.7:
                ops.append(op("settle"))
            for _ in range(rng.randint(0, 3)):
                ops.append(op("complete", rng.randint(0, 1000)))
        sc["ops"] = ops
        pan = 0.3
    elif family == "timeout_expire":
        # more than max arrive, the inner calls stay blocked: everybody else must come back with an error
        sc["timeout_ms"] = TIMEOUT_MS
        extra = rng.randint(1, 8)
        sc["n"] = mx + extra + rng.randint(0, 4)
        sc["ops"] = [op("arrive", mx + extra), op("settle"), op("expire"), op("settle"),
                     op("complete", rng.randint(0, 1000)), op("settle")]
        pan = 0.3
    elif family == "timeout_race":
        # permits are freed around the moment the timers fire: either branch of the select is legal
        sc["timeout_ms"] = TIMEOUT_MS
        extra = rng.randint(1, 6)
        sc["n"] = mx + extra
        ops = [op("arrive", sc["n"]), op("settle"), op("sleep", TIMEOUT_MS + rng.randint(-6, 3))]
        for _ in range(min(mx, extra + 1)):
            ops.append(op("complete", rng.randint(0, 1000)))
        ops.append(op("expire"))
        sc["ops"] = ops
        pan = 0.3
    elif family == "timeout_unused":
        # a time-out is configured but permits are always available in time
        sc["timeout_ms"] = TIMEOUT_MS
        sc["n"] = max(1, mx if mx < 100 else 100)
        sc["ops"] = [op("arrive", sc["n"]), op("settle")]
        pan = 0.3
    else:
        raise ValueError(family)
    sc["panics"] = [rng.random() < pan for _ in range(sc["n"])]
    return sc


def gen_scenarios(rng, tier):
    scs = []
    fams = ["boundary", "burst", "all_panic", "staggered", "timeout_expire", "timeout_race", "timeout_unused"]
    reps = 5 if tier == "quick" else 25
    for mx in (1, 2, 3, 100):
        for fam in fams:
            r = reps
            if mx == 100:
                r = 2 if tier == "quick" else 6
            for _ in range(r):
                scs.append(gen_scenario(rng, fam, mx))
    return scs


def label_terms(sc, log):
    out = []
    for kind, i in log:
        if kind == "A":
            out.append("LArrive %d" % i)
        elif kind == "S":
            out.append("LAcquire %d" % i)
        elif kind == "E":
            out.append(("LPanic %d" if sc["panics"][i] else "LReturn %d") % i)
        elif kind == "T":
            out.append("LFire %d" % i)
            out.append("LTimeout %d" % i)
    return out


def classify(sc, o):
    """Signature of a monitor failure (labelling only; the verdict is Coq's)."""
    if o["max_running"] > sc["max"]:
        return "c18-bound-exceeded"
    if o["overdue"]:
        return "c18-waiting-past-timeout"
    if o["eroded"]:
        return "c18-capacity-eroded"
    if o["sem_cap"] != sc["max"]:
        return "c18-semaphore-size"
    if o["sem_len"] != sc["max"]:
        return "c18-permits-not-restored"
    if "stuck" in o["outcomes"]:
        return "c18-request-stuck"
    return "c18-outcome"


def run(chk, replay=None):
    st = vlib.std_coq_stage(chk, "PropC18", gen=True)
    rng = random.Random(chk.seed)
    if replay:
        scs = json.load(open(replay))["scenarios"]
    else:
        scs = gen_scenarios(rng, chk.tier)
    newclient = [[0, 0], [-1, 45000000000], [1, 0], [1, 1000000], [3, 45000000000], [100, 45000000000],
                 [100, 0], [rng.randint(2, 500), rng.choice([0, 1, 10**9])]]

    # ---- run the harnesses
    binary, blog = vlib.go_test_binary("collector", only=["c18"])
    if binary is None:
        chk.notes.append("harness build failed: " + blog[-2000:])
        chk.fail("harness_build.txt", "correspondence harness (package collector, TestVerifC18) does not build "
                 "against the current tree:\n" + blog, no_input=True)
        return
    inp = os.path.join(vlib.BUILD, "c18_in.json")
    outp = os.path.join(vlib.BUILD, "c18_out.json")
    json.dump({"scenarios": scs, "newclient": newclient}, open(inp, "w"))
    if os.path.exists(outp):
        os.remove(outp)
    rc, out = vlib.run_go_test(binary, "TestVerifC18", {"VERIF_IN": inp, "VERIF_OUT": outp}, timeout=900)
    if rc != 0 or not os.path.exists(outp):
        chk.fail("harness_run.txt", "harness TestVerifC18 (collector) failed (rc=%d):\n%s" % (rc, out[-4000:]),
                 no_input=True)
        return
    obs = json.load(open(outp))
    obs["scenarios"] = obs.get("scenarios") or []
    obs["newclient"] = obs.get("newclient") or []

    wiring = None
    binary2, blog2 = vlib.go_test_binary("newrelic", only=["c18"])
    outp2 = os.path.join(vlib.BUILD, "c18_wiring_out.json")
    if binary2 is None:
        chk.notes.append("wiring harness build failed: " + blog2[-2000:])
    else:
        if os.path.exists(outp2):
            os.remove(outp2)
        rc2, out2 = vlib.run_go_test(binary2, "TestVerifC18", {"VERIF_IN": inp, "VERIF_OUT": outp2}, timeout=300)
        if rc2 == 0 and os.path.exists(outp2):
            wiring = json.load(open(outp2))
        else:
            chk.notes.append("wiring harness failed: " + out2[-2000:])

    # ---- cases file
    idx = [i for i, o in enumerate(obs["scenarios"]) if not o.get("skipped")]
    skipped = len(scs) - len(idx)
    cases = []
    for i in idx:
        sc, o = scs[i], obs["scenarios"][i]
        cfg = "{| max := %s; has_timer := %s |}" % (cN(sc["max"]), cbool(sc["timeout_ms"] != 0))
        tr = clist(label_terms(sc, o["log"]))
        final = clist([FINAL[x] for x in o["outcomes"]])
        beh = clist([cbool(b) for b in sc["panics"]])
        lobs = ("{| o_outcomes := %s; o_max_running := %s; o_sem_len := %s; o_sem_cap := %s; o_eroded := %s |}"
                % (clist([OUTCOME[x] for x in o["outcomes"]]), cN(o["max_running"]), cN(max(o["sem_len"], 0)),
                   cN(max(o["sem_cap"], 0)), cbool(o["eroded"] or o["overdue"])))
        cases.append("(%s, %d%%nat, %s, %s, %s, %s, %s)" % (cfg, sc["n"], tr, final, cN(max(o["sem_len"], 0)), beh, lobs))
    ncs = []
    for q, o in zip(newclient, obs["newclient"]):
        ncs.append("(%s, %s, (%s, %s, %s, %s))" % (cZ(q[0]), cZ(q[1]), cbool(o["limited"] and not o["err"]),
                                                   cZ(o["sem_cap"]), cZ(o["sem_len"]), cbool(o["timeout_out_ns"] != 0)))
    w = wiring or {"limited": False, "sem_cap": -1, "timeout_ns": -1}
    v = """From Coq Require Import NArith ZArith List Bool.
From Verif Require Import Common Limiter.
Import ListNotations.
Open Scope N_scope.
Definition case := (lcfg * nat * list label * list rstate * N * list bool * lobs)%%type.
Definition cases : list case := %s.
Definition corr (c : case) : bool :=
  let '(cfg, n, tr, final, sem, beh, o) := c in accepts cfg n tr final sem.
Definition prop (c : case) : bool :=
  let '(cfg, n, tr, final, sem, beh, o) := c in c18_monitor (max cfg) (has_timer cfg) beh o.
Definition corr_bad := Eval vm_compute in bad_idx corr cases 0.
Definition prop_bad := Eval vm_compute in bad_idx prop cases 0.
Definition refused := Eval vm_compute in
  map (fun c => let '(cfg, n, tr, final, sem, beh, o) := c in
                match first_refused cfg (linit cfg n) tr 0 with Some k => S k | None => O end) cases.
(* collector.NewClient(MaxParallel, Timeout): limiter installed? capacity, pre-filled, timer? *)
Definition ncases : list (Z * Z * (bool * Z * Z * bool)) := %s.
Definition ncorr (c : Z * Z * (bool * Z * Z * bool)) : bool :=
  let '(mp, t, (lim, cp, ln, tm)) := c in
  match new_client_limiter mp t with
  | None => negb lim
  | Some cfg => lim && (Z.of_N (max cfg) =? cp)%%Z && (Z.of_N (max cfg) =? ln)%%Z && Bool.eqb (has_timer cfg) tm
  end.
Definition ncorr_bad := Eval vm_compute in bad_idx ncorr ncases 0.
Definition wiring_ok := Eval vm_compute in c18_wiring_monitor %s %s %s.
Print corr_bad. Print prop_bad. Print refused. Print ncorr_bad. Print wiring_ok.
""" % (clist(cases) if cases else "[]", clist(ncs), cZ(w["sem_cap"]), cZ(w["timeout_ns"]), cbool(w["limited"]))
    rc, cout = vlib.coq_eval("cases_c18", v, timeout=600)
    res = {k: vlib.parse_nat_list(vlib.parse_printed(cout, k)) for k in ("corr_bad", "prop_bad", "refused", "ncorr_bad")}
    wiring_ok = vlib.parse_printed(cout, "wiring_ok")
    if rc != 0 or any(x is None for x in res.values()) or wiring_ok not in ("true", "false"):
        chk.fail("coq_eval.txt", "in-Coq evaluation of the C18 cases failed:\n" + cout[-4000:], no_input=True)
        return

    # ---- coverage
    dist = {"family": {}, "max": {}, "outcomes": {}, "timeout_ms": {}, "log_labels": 0}
    for i in idx:
        sc, o = scs[i], obs["scenarios"][i]
        dist["family"][sc.get("family", "replay")] = dist["family"].get(sc.get("family", "replay"), 0) + 1
        dist["max"][str(sc["max"])] = dist["max"].get(str(sc["max"]), 0) + 1
        dist["timeout_ms"][str(sc["timeout_ms"])] = dist["timeout_ms"].get(str(sc["timeout_ms"]), 0) + 1
        for x in o["outcomes"]:
            dist["outcomes"][x] = dist["outcomes"].get(x, 0) + 1
        dist["log_labels"] += len(o["log"])
        nontrivial = sc["n"] > sc["max"] or any(sc["panics"]) or "err_no_inner" in o["outcomes"]
        chk.count_case({"max": sc["max"], "t": sc["timeout_ms"], "n": sc["n"], "p": sc["panics"], "ops": sc["ops"]},
                       nontrivial=nontrivial)
    for q in newclient:
        chk.count_case({"newclient": q}, nontrivial=True)
    chk.count_case({"wiring": "newrelic.NewClient"}, nontrivial=True)
    if idx:
        i = idx[len(idx) // 2]
        chk.sample({"scenario": {k: scs[i][k] for k in ("family", "max", "timeout_ms", "n") if k in scs[i]},
                    "ops": scs[i]["ops"][:8], "observed": {k: obs["scenarios"][i][k] for k in
                                                           ("max_running", "sem_len", "sem_cap", "eroded", "overdue")},
                    "outcomes_head": obs["scenarios"][i]["outcomes"][:10]})
    chk.sample({"newrelic.NewClient": wiring})
    chk.cov["rule"] = ("scenarios = scripts (arrive k / settle / complete j-th oldest / sleep / expire) against the real "
                       "NewLimitClient for max in {1,2,3,100}, request counts max-1, max, max+1 and far above, inner client "
                       "returning or panicking, time-out 0 or %d ms with completions placed around the firing time; the "
                       "mutex-ordered event log is replayed in the LTS (accepts). A scenario is non-trivial when it has "
                       "contention (n > max), a panicking inner call or an observed time-out; distinct by full script. "
                       "Plus collector.NewClient on %d (MaxParallel, Timeout) pairs and newrelic.NewClient once."
                       % (TIMEOUT_MS, len(newclient)))
    chk.cov["input_distribution"] = dist
    chk.cov["scenarios_skipped_after_failures"] = skipped
    chk.cov["disagreements"] = {k: len(x) for k, x in res.items() if k != "refused"}

    # ---- decide
    for k in res["prop_bad"]:
        i = idx[k]
        sc, o = scs[i], obs["scenarios"][i]
        chk.fail("scenario_%d.json" % i,
                 {"what": "limiter observation violates C18 (bound / permits restored / no request lost or stuck)",
                  "scenarios": [sc],
                  "observed": {kk: o[kk] for kk in ("outcomes", "max_running", "sem_len", "sem_cap", "eroded", "overdue", "note")
                               if kk in o}},
                 sig=classify(sc, o))
    if wiring is not None and wiring_ok == "false":
        chk.fail("wiring.json", {"what": "newrelic.NewClient does not install a limiter of 100 permits with a 45 s time-out",
                                 "observed": wiring, "scenarios": []}, sig="c18-wiring")
    # ---- a time-out that coincides with a freed slot (one processor, the holder's goroutine keeps it busy)
    if not replay:
        coutp = os.path.join(vlib.BUILD, "c18_coincide_out.json")
        if os.path.exists(coutp):
            os.remove(coutp)
        crc, clog = vlib.run_go_test(binary, "TestVerifC18Coincide",
                                     {"VERIF_OUT": coutp, "VERIF_TRIALS": "40" if chk.tier == "quick" else "400"}, timeout=300)
        if crc != 0 or not os.path.exists(coutp):
            chk.fail("coincide_run.txt", "TestVerifC18Coincide failed:\n" + clog[-3000:], no_input=True)
        else:
            co = json.load(open(coutp))
            chk.cov.setdefault("stages", {})["coincide"] = co
            chk.count_case(["coincide", co["trials"], co["probe_denied"]])
            if co["probe_denied"] > 0:
                chk.fail("coincide.json", {"what": "after a waiter was handed a slot at the moment its time-out expired, the idle limiter "
                                                   "refuses a new request: a unit of capacity was lost (Limiter.v: permits + running = max "
                                                   "in every reachable state; here permits < max with nothing running)",
                                           "observed": co, "replay": "go test -run TestVerifC18Coincide (harness/go/collector/zz_verif_c18_test.go): "
                                           "max 1, time-out 25 ms, GOMAXPROCS 1, the holder ends 0.15-1.5 ms before the waiter's deadline and "
                                           "keeps the processor for 3 ms"}, sig="c18-coincide-slot-lost")
            elif co["waiter_got_slot"] == 0 or co["waiter_timed_out"] == 0:
                chk.notes.append("coincidence stage: the two outcomes were not both seen (%s)" % co)
    broken = []
    if not st["build_ok"]:
        broken.append("theorems of PropC18.v no longer check:\n" + st["log"][-3000:])
    if wiring is None:
        broken.append("wiring harness (package newrelic, TestVerifC18) did not build or run:\n" + blog2[-1500:])
    if res["corr_bad"]:
        det = []
        for k in res["corr_bad"][:3]:
            i = idx[k]
            r = res["refused"][k]
            det.append({"scenario": scs[i], "refused_label_index": (r - 1) if r else None,
                        "log_around": obs["scenarios"][i]["log"][max(0, (r or 1) - 6):(r or 1) + 2],
                        "observed": {kk: obs["scenarios"][i][kk] for kk in ("max_running", "sem_len", "sem_cap")}})
        broken.append("correspondence: the limiter LTS does not accept the observed event log / final state of scenarios %s\n%s"
                      % ([idx[k] for k in res["corr_bad"][:10]], json.dumps(det, indent=1)[:6000]))
    if res["ncorr_bad"]:
        broken.append("correspondence: new_client_limiter differs from collector.NewClient on %s"
                      % [(newclient[k], obs["newclient"][k]) for k in res["ncorr_bad"][:5]])
    if broken and not chk.violations:
        chk.fail("broken.txt", "\n\n".join(broken), no_input=True)
    chk.assumptions += ["Go channel / select / defer semantics as modelled in Limiter.lstep",
                        "the harness log (one mutex) is a linearisation: inner-start is logged after the permit was taken, "
                        "inner-end before it is given back",
                        "real time is used only for the %d ms time-out scenarios; nothing is asserted that depends on which "
                        "branch of the select wins" % TIMEOUT_MS]
