"""C05 -- buffers are bounded by the negotiated capacities and counted exactly.

Stages (all on the REAL code through the overlay-injected harnesses TestVerifC05 in packages newrelic and
collector):
  nego      limit negotiation on a grid of agent x collector values x report periods: connect reply JSON text ->
            parseConnectReply, App flatbuffers message -> UnmarshalAppInfo, processLogEventLimits, NewHarvest
            (capacity of every reservoir), advertised limits of the connect payload; a sample also through a
            real Processor (mock collector)
  coll      getEventConfig / EventHarvestConfig.UnmarshalJSON / SpanEventHarvestConfig.UnmarshalJSON /
            NewHarvestLimits called directly
  res       event reservoirs: NumSeen / NumSaved / payload header / Split at sizes 0, 1, K-1, K, K+1, 3K, merges
  tables    MetricTable: count / numDropped over stages of forced/unforced adds and merges
  harvests  NewHarvest + offers + createFinalMetrics: the Supportability Seen / Sent / MetricsDropped counters,
            errors / slow SQLs / traces
  apps      251+ applications against a real Processor
Everything observed is judged inside Coq: correspondence with the models (Limits.v, Reservoir.v, Metrics.v,
Processor.v) and model-independent monitors carrying the documented numbers (Limits.mon_nego, C05Check.mon_*).
"""
import json
import os
import random
from concurrent.futures import ThreadPoolExecutor

import vlib
from vlib import cN, cZ, cnat, cbool, clist, coption

LEVEL = "proof"
GRID = 1 << 20
CATS = ["error", "txn", "custom", "span", "log"]
MAXES = {"error": 100, "txn": 10000, "custom": 100000, "span": 10000, "log": 20000}
JSON_KEYS = {"error": "error_event_data", "txn": "analytic_event_data", "custom": "custom_event_data",
             "span": "span_event_data", "log": "log_event_data"}
OTHERS = ['"12"', '1.5', '{}', 'true', '1e3', '[1]', '10.0']
SHARD = 600


# ------------------------------------------------------------------ JSON values

def jv_abs():
    return ["absent"]


def jv_int(z):
    return ["int", z]


def grid_vals(mx):
    return [jv_abs(), jv_int(0), jv_int(1), jv_int(mx - 1), jv_int(mx), jv_int(mx + 1), jv_int(-1), jv_int(2 ** 31),
            jv_int(2 ** 63 - 1), jv_int(2 ** 63), jv_int(2 ** 64 - 1)]


PERIODS = [jv_abs(), jv_int(0), jv_int(5000), jv_int(60000), jv_int(120000)]
PERIODS_X = PERIODS + [["null"], jv_int(1), jv_int(2 ** 63), jv_int(2 ** 64 - 1), jv_int(2 ** 64), jv_int(-1),
                       jv_int(9223372036854), jv_int(9223372036855), ["other", '"5000"'], ["other", "2.5"]]


def agent_vals(mx):
    return [None, 0, 1, mx - 1, mx, mx + 1, 2 ** 31, 2 ** 63 - 1, 2 ** 63, 2 ** 64 - 1]


def jv_text(j):
    if j[0] == "null":
        return "null"
    if j[0] == "int":
        return str(j[1])
    if j[0] == "other":
        return j[1]
    raise ValueError(j)


def jv_coq(j):
    if j[0] == "absent":
        return "JAbsent"
    if j[0] == "null":
        return "JNull"
    if j[0] == "int":
        return "(JInt %s)" % cZ(j[1])
    return "JOther"


def render_ehc(e):
    parts = []
    if e["period"][0] != "absent":
        parts.append('"report_period_ms":%s' % jv_text(e["period"]))
    lims = ['"%s":%s' % (JSON_KEYS[c], jv_text(e[c])) for c in CATS if e[c][0] != "absent"]
    if lims or e.get("hl", "obj") == "obj":
        parts.append('"harvest_limits":{%s}' % ",".join(lims))
    elif e.get("hl") == "null":
        parts.append('"harvest_limits":null')
    return "{%s}" % ",".join(parts)


def render_sehc(s):
    parts = []
    if s["period"][0] != "absent":
        parts.append('"report_period_ms":%s' % jv_text(s["period"]))
    if s["limit"][0] != "absent":
        parts.append('"harvest_limit":%s' % jv_text(s["limit"]))
    return "{%s}" % ",".join(parts)


def render_reply(c, i):
    parts = ['"agent_run_id":"c05run%d"' % i]
    if c["ehc"] is not None:
        parts.append('"event_harvest_config":%s' % render_ehc(c["ehc"]))
    if c["sehc"] is not None:
        parts.append('"span_event_harvest_config":%s' % render_sehc(c["sehc"]))
    return "{%s}" % ",".join(parts)


def coq_ehc(e):
    return "(RawEhc %s %s %s %s %s %s)" % (jv_coq(e["period"]), jv_coq(e["error"]), jv_coq(e["txn"]), jv_coq(e["custom"]),
                                         jv_coq(e["span"]), jv_coq(e["log"]))


def coq_sehc(s):
    return "(RawSehc %s %s)" % (jv_coq(s["period"]), jv_coq(s["limit"]))


def coq_reply(c):
    return "(ReplyIn %s %s)" % (coption(coq_ehc(c["ehc"]) if c["ehc"] is not None else None),
                                coption(coq_sehc(c["sehc"]) if c["sehc"] is not None else None))


def coq_agent(a):
    return "(Agent %s %s %s)" % tuple(cZ(0 if x is None else x) for x in a)


def zl(l):
    return clist([cZ(int(x)) for x in l])


# ------------------------------------------------------------------ generators

def default_ehc():
    e = {"period": jv_abs(), "hl": "obj"}
    for c in CATS:
        e[c] = jv_abs()
    return e


def gen_nego(rng, tier):
    cases = []
    rot = [0]

    def agents(log=None):
        rot[0] += 1
        a = [agent_vals(10000)[rot[0] % 10], agent_vals(20000)[(rot[0] * 3) % 10], agent_vals(100000)[(rot[0] * 7) % 10]]
        if log is not None:
            a[1] = log[0]
        return a

    # A: log: collector limit x agent limit x report period
    for cv in grid_vals(20000):
        for ag in agent_vals(20000):
            for per in PERIODS:
                e = default_ehc()
                e["period"], e["log"] = per, cv
                if rot[0] % 3 == 0:
                    e["txn"], e["custom"] = jv_int(833), jv_int(30000)
                cases.append({"agent": agents(log=[ag]), "ehc": e, "sehc": {"period": jv_abs(), "limit": jv_abs()},
                              "group": "log-grid"})
    # B: the other categories (span both ways)
    for cat in ["error", "txn", "custom", "span", "sehc"]:
        mx = MAXES["span" if cat == "sehc" else cat]
        for cv in grid_vals(mx):
            for per in PERIODS:
                e = default_ehc()
                s = {"period": jv_abs(), "limit": jv_abs()}
                if cat == "sehc":
                    s = {"period": per, "limit": cv}
                    e["period"] = rng.choice(PERIODS)
                else:
                    e["period"], e[cat] = per, cv
                    if rng.random() < 0.5:
                        s = {"period": rng.choice(PERIODS), "limit": rng.choice(grid_vals(10000)[:6])}
                cases.append({"agent": agents(), "ehc": e, "sehc": s, "group": cat + "-grid"})
    # C: presence / null / type errors / wrapping periods
    specials = []
    for ehc_p in (True, False):
        for sehc_p in (True, False):
            specials.append({"agent": agents(), "ehc": default_ehc() if ehc_p else None,
                             "sehc": {"period": jv_abs(), "limit": jv_abs()} if sehc_p else None, "group": "presence"})
    for per in PERIODS_X:
        e = default_ehc()
        e["period"] = per
        e["log"] = jv_int(5000)
        specials.append({"agent": [None, 3000, None], "ehc": e, "sehc": {"period": per, "limit": jv_int(700)}, "group": "period"})
    for cat in CATS:
        for j in (["null"], ["other", '"7"'], ["other", "1.5"], ["other", "{}"], ["other", "1e3"]):
            e = default_ehc()
            e[cat] = j
            specials.append({"agent": agents(), "ehc": e, "sehc": {"period": jv_abs(), "limit": jv_abs()}, "group": "types"})
    for j in (["null"], ["other", '"7"'], ["other", "0.5"]):
        specials.append({"agent": agents(), "ehc": default_ehc(), "sehc": {"period": jv_int(5000), "limit": j}, "group": "types"})
    for hl in ("omit", "null"):
        e = default_ehc()
        e["hl"] = hl
        e["period"] = jv_int(5000)
        specials.append({"agent": [5, 7, 9], "ehc": e, "sehc": {"period": jv_abs(), "limit": jv_abs()}, "group": "presence"})
    # small negative agent values (as uint64) with a short period: the scaled value truncates to 0
    # (fix b82e6ce: 2^64-1 .. 2^64-11 are -1 .. -11 as an int, scale to 0 with a 5 s period and must be ignored)
    for ag in [2 ** 64 - d for d in range(1, 14)] + [2 ** 63 + 5, 11, 12, 13, 239999, 240000, 240001]:
        for per in (5000, 60000, 120000):
            e = default_ehc()
            e["period"], e["log"] = jv_int(per), jv_int(rng.choice([20000, 10000, 1]))
            specials.append({"agent": [None, ag, None], "ehc": e, "sehc": {"period": jv_abs(), "limit": jv_abs()}, "group": "scale"})
    cases += specials
    # D: random combinations
    n_rand = 400 if tier == "quick" else 20000
    for _ in range(n_rand):
        e = None
        if rng.random() < 0.93:
            e = default_ehc()
            e["period"] = rng.choice(PERIODS_X if rng.random() < 0.3 else PERIODS)
            for c in CATS:
                r = rng.random()
                if r < 0.55:
                    e[c] = rng.choice(grid_vals(MAXES[c]))
                elif r < 0.8:
                    e[c] = jv_int(rng.randint(0, MAXES[c] + 10))
                elif r < 0.84:
                    e[c] = ["null"]
                elif r < 0.86:
                    e[c] = ["other", rng.choice(OTHERS)]
            e["hl"] = rng.choice(["obj", "obj", "omit", "null"])
        s = None
        if rng.random() < 0.93:
            s = {"period": rng.choice(PERIODS_X if rng.random() < 0.3 else PERIODS), "limit": jv_abs()}
            r = rng.random()
            if r < 0.5:
                s["limit"] = rng.choice(grid_vals(10000))
            elif r < 0.8:
                s["limit"] = jv_int(rng.randint(0, 10010))
            elif r < 0.85:
                s["limit"] = ["null"]
            elif r < 0.88:
                s["limit"] = ["other", rng.choice(OTHERS)]
        a = []
        for mx in (10000, 20000, 100000):
            r = rng.random()
            a.append(rng.choice(agent_vals(mx)) if r < 0.6 else (rng.randint(0, mx * 13) if r < 0.9 else rng.randint(0, 2 ** 64 - 1)))
        cases.append({"agent": a, "ehc": e, "sehc": s, "group": "random"})
    # a sample goes through a real Processor as well
    sane = [["absent"], ["int", 0], ["int", 5000], ["int", 60000], ["int", 120000]]
    cand = [i for i, c in enumerate(cases)
            if c["ehc"] is not None and c["sehc"] is not None and c["ehc"]["period"] in sane and c["sehc"]["period"] in sane]
    for i in rng.sample(cand, min(len(cand), 60 if tier == "quick" else 220)):
        cases[i]["e2e"] = True
    return cases


def gen_coll(rng, tier, nego):
    gec = []
    for raw in [None, 0, 1, 99, 100, 101, -1, -2 ** 63, 2 ** 31, 2 ** 63 - 1]:
        for dl in (100, 10000, 0):
            gec.append({"raw": raw, "rate": rng.choice([5 * 10 ** 9, 60 * 10 ** 9, 0, -7]), "dlimit": dl, "drate": 60 * 10 ** 9})
    for _ in range(100 if tier == "quick" else 1000):
        dl = rng.choice([100, 10000, 20000, 100000])
        gec.append({"raw": rng.choice([None, rng.randint(-5, dl + 5), dl - 1, dl, dl + 1]),
                    "rate": rng.randint(0, 10 ** 12), "dlimit": dl, "drate": 60 * 10 ** 9})
    ehc = [c["ehc"] for c in nego if c["ehc"] is not None]
    sehc = [c["sehc"] for c in nego if c["sehc"] is not None]
    step_e = max(1, len(ehc) // (300 if tier == "quick" else 3000))
    step_s = max(1, len(sehc) // (150 if tier == "quick" else 1500))
    ehc, sehc = ehc[::step_e], sehc[::step_s]
    nhl = [None]
    for sp in [0, 1, 9999, 10000, 10001, -1, 2 ** 31, -2 ** 63, 2 ** 63 - 1]:
        nhl.append([sp, rng.choice([0, 19999, 20000, 20001, -1]), rng.choice([0, 99999, 100000, 100001, -1])])
    for lg in [0, 1, 19999, 20000, 20001, -1, 2 ** 63 - 1, -2 ** 63]:
        nhl.append([rng.choice([5, 10000]), lg, rng.choice([7, 100000])])
    for cu in [0, 1, 99999, 100000, 100001, -1, 2 ** 63 - 1, -2 ** 63]:
        nhl.append([rng.choice([5, 10000]), rng.choice([6, 20000]), cu])
    return {"gec": gec, "ehc": ehc, "sehc": sehc, "nhl": nhl}


def prio_items(rng, n, mode):
    base = rng.randrange(0, GRID)
    out = []
    for i in range(n):
        if mode == "wide":
            p = rng.randrange(0, GRID)
        elif mode == "equal":
            p = base
        elif mode == "asc":
            p = (base // 2 + i * 7) % GRID
        else:
            p = (base + GRID - i * 7) % GRID
        out.append(p)
    return out


def gen_res(rng, tier):
    res = []
    kind_i = [0]

    def kind():
        kind_i[0] += 1
        return CATS[kind_i[0] % 5]

    def adds(n, synth_rate=0.0, kd="custom"):
        mode = rng.choice(["wide", "equal", "asc", "desc"])
        return [{"op": "synth" if (kd == "txn" and rng.random() < synth_rate) else "add", "p": p, "r": 0}
                for p in prio_items(rng, n, mode)]

    ks = [1, 2, 3, 5, 8, 16, 33, 64, 100] if tier == "quick" else [1, 2, 3, 4, 5, 7, 8, 9, 16, 17, 33, 64, 100, 128, 200]
    for k in ks:
        for n in sorted(set([0, 1, k - 1, k, k + 1, 3 * k])):
            kd = kind()
            res.append({"kind": kd, "k": k, "ops": adds(n, 0.3, kd), "split": rng.random() < 0.5, "model": True, "group": "sizes"})
    for n in (0, 1, 4):
        res.append({"kind": kind(), "k": 0, "ops": adds(n), "split": n == 4, "model": True, "group": "sizes"})
    # merges of carried-over data: base reservoirs first (not judged for top-level coverage), then the merging one
    for _ in range(40 if tier == "quick" else 1000):
        kd = kind()
        k = rng.choice([0, 1, 2, 3, 5, 8, 16])
        others = []
        for _j in range(rng.randint(1, 3)):
            k2 = rng.choice([0, 1, 2, 3, 5, 8, 16, k])
            n2 = rng.choice([0, 1, max(k2 - 1, 0), k2, k2 + 1, 3 * k2 + 1])
            res.append({"kind": kd, "k": k2, "ops": adds(n2, 0.2, kd), "split": False, "model": True, "group": "merge-base"})
            others.append(len(res) - 1)
        ops = adds(rng.choice([0, 1, k, k + 2]), 0.2, kd)
        for o in others:
            ops.append({"op": rng.choice(["merge", "mergefailed"]), "p": 0, "r": o})
            ops += adds(rng.choice([0, 1, 3]), 0.2, kd)
        res.append({"kind": kd, "k": k, "ops": ops, "split": rng.random() < 0.4, "model": True, "group": "merge"})
    # failed-harvest chains: attempt 10 is carried, attempt 11 is given up
    for length in ([9, 10, 11, 12] if tier == "quick" else [1, 5, 9, 10, 11, 12, 13]):
        kd = kind()
        k = rng.choice([2, 3, 4])
        res.append({"kind": kd, "k": k, "ops": adds(k + 2, 0, kd), "split": False, "model": True, "group": "chain-base"})
        prev = len(res) - 1
        for lvl in range(length):
            ops = adds(rng.choice([0, 1]), 0, kd) + [{"op": "mergefailed", "p": 0, "r": prev}] + adds(rng.choice([0, 1]), 0, kd)
            res.append({"kind": kd, "k": k, "ops": ops, "split": False, "model": True, "group": "chain"})
            prev = len(res) - 1
    # the real maxima (monitor only: the list-based heap model is too slow at these sizes)
    big = [("error", 100, [99, 100, 101, 300]), ("txn", 10000, [9999, 10000, 10001]), ("span", 10000, [10001]),
           ("log", 20000, [20001])]
    if tier != "quick":
        big += [("custom", 100000, [99999, 100000, 100001]), ("txn", 10000, [30000]), ("log", 20000, [19999, 20000, 60000])]
    for kd, k, ns in big:
        for n in ns:
            res.append({"kind": kd, "k": k, "ops": [{"op": "addn", "p": 0, "r": 0, "n": n}], "split": kd == "txn",
                        "model": False, "group": "real-max"})
    # overflowed real-size reservoir carried over into a fresh one (events_seen through a merge)
    res.append({"kind": "txn", "k": 10000, "ops": [{"op": "addn", "p": 0, "r": 0, "n": 10500}], "split": False, "model": False,
                "group": "real-max-base"})
    res.append({"kind": "txn", "k": 10000, "ops": [{"op": "addn", "p": 0, "r": 0, "n": 700},
                                                    {"op": "mergefailed", "p": 0, "r": len(res) - 1}],
                "split": True, "model": False, "group": "real-max"})
    return res


def gen_tables(rng, tier):
    tables = []

    def offers(n, forced_rate, key_lo, key_n):
        return [[key_lo + rng.randrange(max(key_n, 1)), 1 if rng.random() < forced_rate else 0] for _ in range(n)]

    def distinct(n, forced_rate, key_lo):
        return [[key_lo + i, 1 if rng.random() < forced_rate else 0] for i in range(n)]

    small = [0, 1, 2, 3, 5, 8] if tier == "quick" else [0, 1, 2, 3, 4, 5, 8, 13, 21]
    reps = 2 if tier == "quick" else 8
    for k in small:
        for n in sorted(set([0, 1, max(k - 1, 0), k, k + 1, 3 * k])):
            for fr in ([0.0, 0.3, 1.0] if tier == "quick" else [0.0, 0.1, 0.3, 0.7, 1.0]):
                for _ in range(reps):
                    st = [{"kind": "adds", "offers": distinct(n, fr, 1) if rng.random() < 0.5 else offers(n + 2, fr, 1, n + 1)}]
                    if rng.random() < 0.6:
                        st.append({"kind": "adds", "offers": offers(rng.choice([1, 3, k + 1]), rng.choice([0.0, 0.5, 1.0]), 1, 2 * n + 3)})
                    tables.append({"max": k, "stages": st, "group": "sizes"})
    # merges / carried-over tables
    for _ in range(60 if tier == "quick" else 1500):
        k = rng.choice([1, 2, 3, 5, 8])
        base = []
        for _j in range(rng.randint(1, 3)):
            k2 = rng.choice([1, 2, 3, 5, 8, k])
            n2 = rng.choice([0, 1, k2 - 1, k2, k2 + 2, 3 * k2])
            tables.append({"max": k2, "stages": [{"kind": "adds", "offers": offers(n2, rng.choice([0.0, 0.3, 1.0]), 1, 2 * k + 4)}],
                           "group": "merge-base"})
            base.append(len(tables) - 1)
        st = [{"kind": "adds", "offers": offers(rng.choice([0, 1, k - 1, k, k + 2]), rng.choice([0.0, 0.3]), 1, 2 * k + 4)}]
        for b in base:
            st.append({"kind": rng.choice(["merge", "mfail"]), "from": b})
            if rng.random() < 0.5:
                st.append({"kind": "adds", "offers": offers(rng.choice([1, 2, k]), rng.choice([0.0, 0.5]), 1, 2 * k + 6)})
        tables.append({"max": k, "stages": st, "group": "merge"})
    # failed-harvest chains: 5 attempts, then given up
    for length in (4, 5, 6, 7):
        k = 3
        tables.append({"max": k, "stages": [{"kind": "adds", "offers": distinct(2, 0.0, 1)}], "group": "chain-base"})
        prev = len(tables) - 1
        for _lvl in range(length):
            tables.append({"max": k, "stages": [{"kind": "adds", "offers": distinct(1, 0.0, 50)}, {"kind": "mfail", "from": prev}],
                           "group": "chain"})
            prev = len(tables) - 1
    # first-flag-wins witness (C05_forced_data_in_unforced_entry_can_be_lost) on the real MetricTable
    tables.append({"max": 1, "stages": [{"kind": "adds", "offers": [[120, 0], [120, 1]]}], "group": "witness-base"})
    tables.append({"max": 1, "stages": [{"kind": "adds", "offers": [[121, 0]]}, {"kind": "mfail", "from": len(tables) - 1}],
                   "group": "witness"})
    # the real table of NewHarvest (2000)
    real = [(1999, 0.0), (2000, 0.0), (2001, 0.0), (6000, 0.02)] if tier == "quick" else \
           [(1999, 0.0), (2000, 0.0), (2001, 0.0), (2001, 0.05), (6000, 0.0), (6000, 0.02), (2100, 0.5)]
    for n, fr in real:
        st = [{"kind": "adds", "offers": distinct(n, fr, 1)},
              {"kind": "adds", "offers": offers(40, 0.5, 1, 2 * n + 50)}]
        tables.append({"max": -1, "stages": st, "group": "real-max"})
    # a full real table receives a carried-over table
    tables.append({"max": -1, "stages": [{"kind": "adds", "offers": distinct(300, 0.1, 5000)}], "group": "real-max-base"})
    tables.append({"max": -1, "stages": [{"kind": "adds", "offers": distinct(1900, 0.0, 1)}, {"kind": "mfail", "from": len(tables) - 1},
                                         {"kind": "adds", "offers": distinct(10, 1.0, 9000)}], "group": "real-max"})
    return tables


def harvest_prios(n):
    return [(j * 7919) % GRID for j in range(n)]


def gen_harvests(rng, tier):
    hs = []
    for _ in range(12 if tier == "quick" else 200):
        caps = [rng.choice([0, 1, 2, 5, 16, 33]) for _ in range(5)]
        ev = [rng.choice([0, 1, max(c - 1, 0), c, c + 1, 3 * c + 1]) for c in caps]
        n_unf = rng.choice([0, 5, 1999, 2000, 2001, 2050])
        n_for = rng.choice([0, 3, 40])
        metrics = [[i + 1, 0] for i in range(n_unf)] + [[100000 + i, 1] for i in range(n_for)]
        if rng.random() < 0.5:
            rng.shuffle(metrics)
        hs.append({"caps": caps, "events": ev, "metrics": metrics, "errors": rng.choice([0, 1, 19, 20, 21, 60]),
                   "slows": rng.choice([0, 1, 9, 10, 11, 30]),
                   "traces": [rng.choice([0, 1, 2, 5]), rng.choice([0, 9, 10, 11, 30]), rng.choice([0, 19, 20, 21, 60])],
                   "model": True})
    # the documented maxima
    hs.append({"caps": [100, 10000, 100000, 10000, 20000], "events": [101, 10001, 100001 if tier != "quick" else 500, 10001, 20001],
               "metrics": [[i + 1, 0] for i in range(2105)], "errors": 21, "slows": 11, "traces": [2, 11, 21], "model": False})
    return hs


def gen_apps(rng, tier):
    a = list(range(1, 252)) + [5, 250, 251, 252, 1, 300]
    b = [rng.randrange(1, 320) for _ in range(700 if tier == "quick" else 1500)]
    return [a, b]


# ------------------------------------------------------------------ harness plumbing

def run_harness(chk, pkg, inp, tag):
    binary, blog = vlib.go_test_binary(pkg, only=["c05"])
    if binary is None:
        chk.notes.append("harness build failed (%s): %s" % (pkg, blog[-2000:]))
        chk.fail("harness_build.txt", "correspondence harness (package %s, TestVerifC05) does not build against the "
                 "current tree:\n%s" % (pkg, blog), no_input=True)
        return None
    inf = os.path.join(vlib.BUILD, "c05_%s_in%s.json" % (pkg, tag))
    outf = os.path.join(vlib.BUILD, "c05_%s_out%s.json" % (pkg, tag))
    json.dump(inp, open(inf, "w"))
    if os.path.exists(outf):
        os.remove(outf)
    rc, out = vlib.run_go_test(binary, "TestVerifC05", {"VERIF_IN": inf, "VERIF_OUT": outf}, timeout=600)
    if rc != 0 or not os.path.exists(outf):
        chk.fail("harness_run.txt", "harness TestVerifC05 (%s) failed (rc=%d):\n%s" % (pkg, rc, out[-4000:]), no_input=True)
        return None
    return json.load(open(outf))


HEADER = """From Coq Require Import List ZArith NArith Arith Bool.
From Verif Require Import Common Reservoir Metrics Limits C05Check.
Import ListNotations.
Open Scope Z_scope.
"""


def shard_v(ctype, corr, mon, terms):
    return HEADER + """Definition cases : list %s := %s.
Definition corr_bad := Eval vm_compute in bad_idx %s cases 0.
Definition prop_bad := Eval vm_compute in bad_idx %s cases 0.
Print corr_bad. Print prop_bad.
""" % (ctype, "[\n" + ";\n".join(terms) + "]", corr, mon)


def evaluate(name, ctype, corr, mon, terms, shard=SHARD):
    shards = [terms[i:i + shard] for i in range(0, len(terms), shard)] or [[]]

    def one(j):
        rc, out = vlib.coq_eval("cases_c05_%s_%d" % (name, j), shard_v(ctype, corr, mon, shards[j]), timeout=900)
        res = [vlib.parse_nat_list(vlib.parse_printed(out, k)) for k in ("corr_bad", "prop_bad")]
        if rc != 0 or any(r is None for r in res):
            raise RuntimeError("cases_c05_%s_%d: %s" % (name, j, out[-3000:]))
        return [[j * shard + x for x in r] for r in res]

    with ThreadPoolExecutor(max_workers=8) as ex:
        parts = list(ex.map(one, range(len(shards))))
    return tuple(sum((p[i] for p in parts), []) for i in range(2))


# ------------------------------------------------------------------ Coq terms per stage

def nego_obs_term(o, e2e=False):
    if e2e:
        ok = o.get("e2e_state") == "connected"
        caps = o.get("e2e_caps") or []
        return "(NegoObs %s %s %s %s)" % (cbool(ok), zl(caps if ok else []), cZ(o.get("e2e_adv_ms", 0)), zl(o.get("e2e_adv") or []))
    return "(NegoObs %s %s %s %s)" % (cbool(o["parse_ok"]), zl(o["caps"]), cZ(o["adv_ms"]), zl(o["adv"]))


def nego_terms(cases, obs):
    terms, index = [], []
    for i, (c, o) in enumerate(zip(cases, obs)):
        det = "None"
        if o["parse_ok"]:
            det = "(Some (NegoDetail %s %s %s %s))" % (zl(o["limits"]), zl(o["periods"]), cZ(o["report"]), zl(o["agent"]))
        terms.append("(%s, %s, %s, %s, true)" % (coq_agent(c["agent"]), coq_reply(c), nego_obs_term(o), det))
        index.append((i, "direct"))
        if c.get("e2e") and o.get("e2e_state"):
            terms.append("(%s, %s, %s, %s, false)" % (coq_agent(c["agent"]), coq_reply(c), nego_obs_term(o, True), det))
            index.append((i, "processor"))
    return terms, index


NEGO_TYPE = "(agent_u64 * reply_in * nego_obs * option nego_detail * bool)"
NEGO_CORR = ("(fun c : " + NEGO_TYPE + " => let '(a, r, o, d, full) := c in nego_obs_eqb (model_nego a r) o && "
             "(if full then nego_detail_eqb (model_detail a r) d else true))")
NEGO_MON = "(fun c : " + NEGO_TYPE + " => let '(a, r, o, d, full) := c in mon_nego a r o)"


def res_literal(rc, o):
    items = clist(["mkEv %s 0%%N" % cZ(p) for p in o["prios"]])
    return "(mkRes %s %s %s %s)" % (cnat(rc["k"]), items, cZ(o["seen"]), cZ(o["failed"]))


def hdr_term(h):
    return "(Some (Hdr %s %s %s))" % (cZ(h["seen"]), cZ(h["size"]), cZ(h["n"])) if h["valid"] else "None"


def res_term(res, outs, i):
    rc, o = res[i], outs[i]
    ops, bulk = [], 0
    for op in rc["ops"]:
        if op["op"] == "add":
            ops.append("OAdd (mkEv %s 0%%N)" % cZ(op["p"]))
        elif op["op"] == "synth":
            ops.append("OAddSynth (mkEv %s 0%%N)" % cZ(op["p"]))
        elif op["op"] == "addn":
            bulk += op["n"]
        else:
            src, so = res[op["r"]], outs[op["r"]]
            if not src["model"]:
                # too big to spell out: a literal with the right counters and no items listed is not usable by the
                # model, the monitor needs length / seen / failed only
                lit = "(mkRes %s (repeat (mkEv 0 0%%N) %s) %s %s)" % (cnat(src["k"]), cnat(so["len"]), cZ(so["seen"]), cZ(so["failed"]))
            else:
                lit = res_literal(src, so)
            ops.append("%s %s" % ("OMerge" if op["op"] == "merge" else "OMergeFailed", lit))
    halves = clist(["Half5 %s %s %s %s" % (cZ(h["seen"]), cZ(h["len"]), cZ(h["cap"]), hdr_term(h["hdr"])) for h in o["halves"]])
    return "Res5 %s %s %s %s %s %s %s %s %s %s %s" % (
        cnat(rc["k"]), clist(ops), cZ(bulk), cbool(rc["model"]), cZ(o["seen"]), cZ(o["saved"]), cZ(o["len"]), cZ(o["cap"]),
        cZ(o["failed"]), hdr_term(o["hdr"]), halves)


def tobs_term(o):
    ents = clist(["(%s, %s, %s)" % (cN(k), cbool(f != 0), cZ(c)) for k, f, c in o["entries"]])
    return "(TObs %s %s %s %s)" % (cZ(o["count"]), cZ(o["dropped"]), cZ(o["failed"]), ents)


def table_term(tables, outs, i):
    tc, so = tables[i], outs[i]
    mx = 2000 if tc["max"] < 0 else tc["max"]
    stages = []
    for st, o in zip(tc["stages"], so):
        if st["kind"] == "adds":
            s = "SAdds %s" % clist(["(%s, %s)" % (cN(k), cbool(f != 0)) for k, f in st["offers"]])
        else:
            src = tables[st["from"]]
            fmax = 2000 if src["max"] < 0 else src["max"]
            s = "%s %s %s" % ("SMerge" if st["kind"] == "merge" else "SMFail", cZ(fmax), tobs_term(outs[st["from"]][-1]))
        stages.append("(%s, %s)" % (s, tobs_term(o)))
    return "TCase %s %s" % (cZ(mx), clist(stages))


def harvest_term(c, o):
    prios = clist([zl(harvest_prios(n)) for n in c["events"]]) if c["model"] else "[]"
    return "HCase %s %s %s %s %s %s %s %s %s %s %s %s %s %s %s %s" % (
        zl(c["caps"]), zl(c["events"]), prios, clist(["(%s, %s)" % (cN(k), cbool(f != 0)) for k, f in c["metrics"]]),
        cZ(c["errors"]), cZ(c["slows"]), zl(c["traces"]),
        zl(o["seen"]), zl(o["sent"]), zl(o["limits"]), cZ(o["dropped"]), cZ(o["user"]), cZ(o["unforced"]),
        cZ(o["n_errors"]), cZ(o["n_slows"]), zl(o["n_traces"]))


def apps_term(keys, o):
    return "ACase %s %s %s" % (clist([cN(k) for k in keys]), zl(o["counts"]), cZ(o["preconnect"]))


def opt_z(x):
    return coption(None if x is None else cZ(x))


def coll_terms(ci, co):
    g = ["GCase %s %s %s %s %s %s %s" % (opt_z(c["raw"]), cZ(c["rate"]), cZ(c["dlimit"]), cZ(c["drate"]), cbool(o["err"]),
                                        cZ(o["limit"]), cZ(o["period"])) for c, o in zip(ci["gec"], co["gec"])]
    e = ["ECase %s %s %s %s %s" % (coq_ehc(c), cbool(o["err"]), cZ(o["report"]), zl(o["limits"]), zl(o["periods"]))
         for c, o in zip(ci["ehc"], co["ehc"])]
    s = ["SCase %s %s %s %s" % (coq_sehc(c), cbool(o["err"]), cZ(o["limit"]), cZ(o["period"])) for c, o in zip(ci["sehc"], co["sehc"])]
    n = []
    for c, o in zip(ci["nhl"], co["nhl"]):
        ag = "None" if c is None else "(Some (AgentLimits %s %s %s))" % (cZ(c[0]), cZ(c[1]), cZ(c[2]))
        n.append("NCase %s %s %s %s %s %s" % (ag, zl(o["limits"]), zl(o["periods"]), cZ(o["report"]),
                                              cZ(o["json_ms"] if o["json_ok"] else -1), zl(o["json"] or [])))
    return g, e, s, n


def coll_input(ci):
    def s(x):
        return None if x is None else str(x)
    return {"gec": [{"raw": s(c["raw"]), "rate": str(c["rate"]), "dlimit": str(c["dlimit"]), "drate": str(c["drate"])} for c in ci["gec"]],
            "ehc": [render_ehc(c) for c in ci["ehc"]], "sehc": [render_sehc(c) for c in ci["sehc"]],
            "nhl": [None if c is None else [str(x) for x in c] for c in ci["nhl"]]}


def closure(items, i, refs):
    """item i and everything it refers to (transitively), re-indexed"""
    order, seen = [], {}

    def visit(j):
        if j in seen:
            return
        for r in refs(items[j]):
            visit(r)
        seen[j] = len(order)
        order.append(j)

    visit(i)
    return order, seen


# ------------------------------------------------------------------ main

def generate(chk, rng):
    nego = gen_nego(rng, chk.tier)
    return {"nego": nego, "coll": gen_coll(rng, chk.tier, nego), "res": gen_res(rng, chk.tier),
            "tables": gen_tables(rng, chk.tier), "harvests": gen_harvests(rng, chk.tier), "apps": gen_apps(rng, chk.tier)}


def run_all(chk, inp, tag):
    """-> (obs, results) or None.  results[name] = (corr_bad, prop_bad)"""
    nr_in = {
        "nego": [{"reply": render_reply(c, i), "agent": [None if x is None else str(x) for x in c["agent"]],
                  "e2e": bool(c.get("e2e")), "again": (chk.tier == "quick" or i % 4 == 0)} for i, c in enumerate(inp["nego"])],
        "res": [{"kind": r["kind"], "k": r["k"], "ops": r["ops"], "split": r["split"]} for r in inp["res"]],
        "tables": [{"max": t["max"], "stages": t["stages"]} for t in inp["tables"]],
        "harvests": [{k: h[k] for k in ("caps", "events", "metrics", "errors", "slows", "traces")} for h in inp["harvests"]],
        "apps": inp["apps"],
    }
    with ThreadPoolExecutor(max_workers=2) as ex:
        f1 = ex.submit(run_harness, chk, "newrelic", nr_in, tag)
        f2 = ex.submit(run_harness, chk, "collector", coll_input(inp["coll"]), tag)
        o1, o2 = f1.result(), f2.result()
    if o1 is None or o2 is None:
        return None
    for k in ("nego", "res", "tables", "harvests", "apps"):
        o1[k] = o1.get(k) or []
    nt, nidx = nego_terms(inp["nego"], o1["nego"])
    g, e, s, n = coll_terms(inp["coll"], o2)
    jobs = {
        "nego": (NEGO_TYPE, NEGO_CORR, NEGO_MON, nt, SHARD),
        "res": ("c5res", "corr_res5", "mon_res5", [res_term(inp["res"], o1["res"], i) for i in range(len(inp["res"]))], 150),
        "tables": ("tcase", "corr_table", "mon_table", [table_term(inp["tables"], o1["tables"], i) for i in range(len(inp["tables"]))], 150),
        "harvests": ("hcase", "corr_harvest", "mon_harvest", [harvest_term(c, o) for c, o in zip(inp["harvests"], o1["harvests"])], 8),
        "apps": ("acase", "corr_apps", "mon_apps", [apps_term(k, o) for k, o in zip(inp["apps"], o1["apps"])], 1),
        "gec": ("gcase", "corr_gec", "mon_gec", g, SHARD),
        "ehc": ("ecase", "corr_ehc", "(fun _ => true)", e, SHARD),
        "sehc": ("scase", "corr_sehc", "(fun _ => true)", s, SHARD),
        "nhl": ("ncase", "corr_nhl", "mon_nhl", n, SHARD),
    }
    results = {}
    try:
        with ThreadPoolExecutor(max_workers=5) as ex:
            futs = {k: ex.submit(evaluate, k, *v) for k, v in jobs.items()}
            for k, f in futs.items():
                results[k] = f.result()
    except RuntimeError as ex_:
        chk.fail("coq_eval.txt", "in-Coq evaluation of the C05 cases failed:\n" + str(ex_), no_input=True)
        return None
    return {"nr": o1, "coll": o2, "nego_index": nidx}, results


WHAT = {
    "nego": "limit negotiation: a reservoir capacity is not min(daemon maximum, collector limit) (log events: further capped "
            "by the agent limit scaled to the report period), or the advertised limits are not the maxima lowered to the "
            "agent's settings, or a well-formed reply is refused / a negative limit accepted",
    "res": "event reservoir: holds more than its capacity, or NumSeen / NumSaved / events_seen / reservoir_size / Split "
           "counts differ from what was offered and included",
    "tables": "metric table: more than the maximum of unforced metrics, a forced metric refused, or numDropped / count "
              "differ from the offers refused / the metrics held",
    "harvests": "harvest: a Supportability Seen / Sent / MetricsDropped counter differs from offered / included / refused, "
                "or errors / slow SQLs / traces exceed 20 / 10 / 1-10-20",
    "apps": "application cap: more than 250 applications tracked (or fewer than offered below the cap)",
    "gec": "getEventConfig: not (nil -> defaults, negative -> error, else min(limit, maximum) at the collector's period)",
    "nhl": "NewHarvestLimits / NewEventHarvestConfig: advertised limits are not the maxima lowered to the agent's span / "
           "log / custom settings in [0, max)",
}


def case_replay(inp, obs, name, i):
    if name == "nego":
        ci, how = obs["nego_index"][i]
        c = dict(inp["nego"][ci])
        if how == "processor":
            c["e2e"] = True
        return {"nego": [c], "observed": obs["nr"]["nego"][ci], "route": how}
    if name == "res":
        order, seen = closure(inp["res"], i, lambda r: [op["r"] for op in r["ops"] if op["op"] in ("merge", "mergefailed")])
        out = []
        for j in order:
            r = json.loads(json.dumps(inp["res"][j]))
            for op in r["ops"]:
                if op["op"] in ("merge", "mergefailed"):
                    op["r"] = seen[op["r"]]
            out.append(r)
        return {"res": out, "observed": obs["nr"]["res"][i]}
    if name == "tables":
        order, seen = closure(inp["tables"], i, lambda t: [st["from"] for st in t["stages"] if st["kind"] != "adds"])
        out = []
        for j in order:
            t = json.loads(json.dumps(inp["tables"][j]))
            for st in t["stages"]:
                if st["kind"] != "adds":
                    st["from"] = seen[st["from"]]
            out.append(t)
        return {"tables": out, "observed": obs["nr"]["tables"][i]}
    if name == "harvests":
        return {"harvests": [inp["harvests"][i]], "observed": obs["nr"]["harvests"][i]}
    if name == "apps":
        return {"apps": [inp["apps"][i]], "observed": obs["nr"]["apps"][i]}
    key = name
    return {"coll": {k: ([inp["coll"][k][i]] if k == key else []) for k in ("gec", "ehc", "sehc", "nhl")},
            "observed": obs["coll"][key][i]}


def fill_replay(r):
    d = {"nego": [], "res": [], "tables": [], "harvests": [], "apps": [], "coll": {"gec": [], "ehc": [], "sehc": [], "nhl": []}}
    for k in d:
        if k in r:
            d[k] = r[k]
    for k in ("gec", "ehc", "sehc", "nhl"):
        d["coll"].setdefault(k, [])
    for x in d["res"]:
        x.setdefault("model", x["k"] <= 200)
    for h in d["harvests"]:
        h.setdefault("model", max(h["caps"]) <= 200)
    return d


def sig_of(name, inp, obs, i):
    """specific signature of a failing case (for KNOWN_FINDINGS matching)"""
    if name == "nego":
        ci, how = obs["nego_index"][i]
        return "c05-nego-%s" % inp["nego"][ci].get("group", "case")
    return "c05-%s-monitor" % name


def coverage(chk, inp, obs):
    o = obs["nr"]
    dist = {"nego": {}, "res": {}, "tables": {}, "coll": {k: len(v) for k, v in inp["coll"].items()},
            "harvests": len(inp["harvests"]), "apps_ops": [len(a) for a in inp["apps"]]}
    parse_fail = e2e = 0
    for c, oc in zip(inp["nego"], o["nego"]):
        g = c.get("group", "replay")
        dist["nego"][g] = dist["nego"].get(g, 0) + 1
        parse_fail += 0 if oc["parse_ok"] else 1
        e2e += 1 if c.get("e2e") else 0
        # non-trivial: some limit or the agent's log setting actually lowers a capacity, or the reply is refused
        lowered = (not oc["parse_ok"]) or any(cp < MAXES[k] for cp, k in zip(oc["caps"], CATS)) or oc["adv"] != [100, 10000, 100000, 10000, 20000]
        chk.count_case(["nego", c["agent"], c["ehc"], c["sehc"]], nontrivial=lowered)
    dist["nego_refused_replies"], dist["nego_through_processor"] = parse_fail, e2e
    over = 0
    for r, oc in zip(inp["res"], o["res"]):
        g = r.get("group", "replay")
        dist["res"][g] = dist["res"].get(g, 0) + 1
        ov = oc["seen"] > oc["len"]
        over += 1 if ov else 0
        chk.count_case(["res", r["kind"], r["k"], [(op["op"], op.get("p"), op.get("n")) for op in r["ops"]], r["split"]], nontrivial=ov)
    dist["res_overflowed"] = over
    dropped = 0
    keysets = []
    for t in inp["tables"]:
        ks = set()
        for stg in t["stages"]:
            if stg["kind"] == "adds":
                ks |= set(k for k, _f in stg["offers"])
            else:
                ks |= keysets[stg["from"]]
        keysets.append(ks)
    for t, oc, ks in zip(inp["tables"], o["tables"], keysets):
        g = t.get("group", "replay")
        dist["tables"][g] = dist["tables"].get(g, 0) + 1
        # more distinct keys offered (directly or through merged tables) than the capacity; judged on the inputs
        # only: which offers are refused in a merge depends on Go's map iteration order
        d = len(ks) > (2000 if t["max"] < 0 else t["max"])
        dropped += 1 if d else 0
        chk.count_case(["table", t["max"], t["stages"]], nontrivial=d)
    dist["tables_over_capacity"] = dropped
    for t, oc in zip(inp["tables"], o["tables"]):
        if t.get("group") == "witness" and oc:
            # informational (not a violation of the property as stated): a Forced contribution aggregated into an
            # entry whose first contribution was unforced is refused with that entry by MergeFailed into a full table
            chk.cov["forced_data_in_unforced_entry_lost_by_implementation"] = (
                oc[-1]["dropped"] == 1 and [e[0] for e in oc[-1]["entries"]] == [121])
    for h, oc in zip(inp["harvests"], o["harvests"]):
        chk.count_case(["harvest", h["caps"], h["events"], len(h["metrics"]), h["errors"], h["slows"], h["traces"]],
                       nontrivial=any(e > c for e, c in zip(h["events"], h["caps"])) or oc["dropped"] > 0)
    for a, oc in zip(inp["apps"], o["apps"]):
        chk.count_case(["apps", a], nontrivial=len(set(a)) > 250)
    for k in ("gec", "ehc", "sehc", "nhl"):
        for c in inp["coll"][k]:
            chk.count_case(["coll", k, c], nontrivial=True)
    chk.cov["input_distribution"] = dist
    if inp["nego"]:
        j = min(len(inp["nego"]) - 1, 137)
        chk.sample({"nego": {"agent": inp["nego"][j]["agent"], "reply": render_reply(inp["nego"][j], j)},
                    "observed": {k: o["nego"][j][k] for k in ("parse_ok", "caps", "adv")}})
    if inp["res"]:
        chk.sample({"reservoir": {"kind": inp["res"][-1]["kind"], "k": inp["res"][-1]["k"]},
                    "observed": {k: o["res"][-1][k] for k in ("seen", "saved", "cap", "hdr")}})
    if inp["tables"]:
        last = o["tables"][-1][-1]
        chk.sample({"table_max": inp["tables"][-1]["max"],
                    "observed_last_stage": {"count_plus_dropped": last["count"] + last["dropped"], "failed": last["failed"]}})
    if inp["apps"]:
        chk.sample({"apps_offered_distinct": len(set(inp["apps"][0])), "tracked_max": max(o["apps"][0]["counts"] or [0]),
                    "preconnect_requests": o["apps"][0]["preconnect"]})


def run(chk, replay=None):
    st = vlib.std_coq_stage(chk, "PropC05", gen=True)
    ok, out = vlib.coq_make(["C05Check.vo"])
    if not ok:
        chk.fail("broken.txt", "coq/C05Check.v does not build:\n" + out[-3000:], no_input=True)
        return
    rng = random.Random(chk.seed)
    if replay:
        r = json.load(open(replay))
        inp = fill_replay(r.get("input", r))
    else:
        inp = generate(chk, rng)

    r = run_all(chk, inp, "")
    if r is None:
        return
    obs, results = r

    def decide(inp, obs, results):
        for name in results:
            for i in results[name][1][:3]:
                chk.fail("%s_%d.json" % (name, i), {"what": WHAT.get(name, name), "stage": name, "input": case_replay(inp, obs, name, i)},
                         sig=sig_of(name, inp, obs, i))

    decide(inp, obs, results)
    corr_total = {k: len(v[0]) for k, v in results.items()}

    # correspondence differs but no monitor failure: widen the search once before calling it broken
    if any(corr_total.values()) and not chk.violations and not replay and chk.tier == "quick":
        chk2 = vlib.Check(chk.pid, "thorough", chk.seed + 1)
        inp2 = generate(chk2, random.Random(chk.seed + 1))
        r2 = run_all(chk, inp2, "_wide")
        if r2 is not None:
            decide(inp2, r2[0], r2[1])
            chk.notes.append("widened search run: %s" % {k: [len(x) for x in v] for k, v in r2[1].items()})

    # the same application connecting a second time must negotiate exactly what it negotiated the first time: the
    # application's description outlives its runs (seeded/C05i1: the scaled log limit was written back into it)
    again = [(i, o) for i, o in enumerate(obs["nr"]["nego"]) if o.get("again_run")]
    again_bad = [(i, o) for i, o in again if not o.get("again_same")]
    chk.cov.setdefault("stages", {})["reconnect"] = {"negotiations_repeated": len(again), "differing": len(again_bad)}
    for i, o in again_bad[:3]:
        c = dict(inp["nego"][i])
        c["reply_text"] = render_reply(c, i)
        chk.fail("reconnect_%d.json" % i, {"what": "the second connect of the same application does not negotiate what the first did: "
                                                   + o.get("again_note", ""), "nego": [c], "observed": o},
                 sig="c05-reconnect-differs")

    coverage(chk, inp, obs)
    chk.cov["rule"] = (
        "negotiation: collector limit x agent limit x report period on {absent, 0, 1, max-1, max, max+1, -1, 2^31, 2^63-1, "
        "2^63, 2^64-1} x {absent, 0, 1, max-1, max, max+1, 2^31, 2^63-1, 2^63, 2^64-1} x {absent, 0, 5 s, 60 s, 120 s} for log "
        "events, collector limit x period for the other categories (span both in event_harvest_config and "
        "span_event_harvest_config), absent / null / wrongly typed members, wrapping periods, random combinations; a sample "
        "through a real Processor.  Non-trivial = a capacity or an advertised limit is lowered, or the reply refused.  "
        "Reservoirs / metric tables: sizes 0, 1, K-1, K, K+1, 3K for K in 0..100 (thorough ..200) and the real maxima, "
        "forced/unforced mixes, merges and failed-harvest chains; non-trivial = overflowed (seen > held / more distinct metric keys offered than the capacity).  "
        "Harvests: offers to every container + createFinalMetrics.  Applications: 251+ distinct applications; non-trivial = "
        "more than 250 distinct keys.  Distinct by the case's inputs.")
    chk.cov["disagreements"] = {k: {"correspondence": len(v[0]), "monitor": len(v[1])} for k, v in results.items()}

    broken = []
    if not st["build_ok"]:
        broken.append("theorems of PropC05.v no longer check:\n" + st["log"][-3000:])
    names = {"nego": "Limits.negotiate / advertised vs parseConnectReply + processLogEventLimits + NewHarvest + connect payload",
             "res": "Reservoir.run_res counters vs analyticsEvents", "tables": "Metrics (count, numDropped) vs MetricTable",
             "harvests": "models vs NewHarvest + createFinalMetrics counters", "apps": "Processor.app_info vs processAppInfo",
             "gec": "Limits.get_event_config vs getEventConfig", "ehc": "Limits.unmarshal_ehc vs EventHarvestConfig.UnmarshalJSON",
             "sehc": "Limits.unmarshal_sehc vs SpanEventHarvestConfig.UnmarshalJSON",
             "nhl": "Limits.new_event_harvest_config vs NewEventHarvestConfig"}
    for k, v in results.items():
        if v[0]:
            broken.append("correspondence %s differs on %d cases, first: %s" % (
                names[k], len(v[0]), json.dumps(case_replay(inp, obs, k, v[0][0]), default=str)[:3000]))
    if broken and not chk.violations:
        chk.fail("broken.txt", "\n\n".join(broken), no_input=True)
    chk.assumptions += [
        "Go int is int64 (amd64); float64 -> int conversion of an out-of-range value gives the minimum int64",
        "processLogEventLimits' float64 arithmetic is modelled on Z: exact when agent*period < 2^53, and above that the "
        "result exceeds every collector limit either way",
        "encoding/json: a number that does not fit the Go field type is an error; modelled, tied by the differential runs",
        "sampling priorities on the exact grid k/2^20; metric values are call counts (integers)",
        "real-maximum reservoirs (10000 / 20000 / 100000) are judged by the monitors only (the list-based heap model is "
        "run up to capacity 200)",
    ]

    # ---- stage 2 (lead): the negotiated limits on the REAL processor over several harvest periods --
    # per-type and combined harvests with more offers than the limit; the capacity monitor
    # (ProcMonitor.V_CAPACITY) judges every event payload the processor sends
    if replay is None or "histories" in (json.load(open(replay)) if replay else {}):
        import proccheck
        proccheck.run_stage(chk, {"capacity": 6, "all_ok": 1, "mixed": 1}, 70 if chk.tier == "quick" else 1500, [601],
                            name="c05proc")
    # the 2000-metric limit with scoped keys (machinery of C07: real MetricTable against Metrics.exec and the capacity monitor)
    from props import c07
    import random as _random
    c07.run_table_cases(chk, c07.capacity_cases(_random.Random(chk.seed + 5), 60 if chk.tier == "quick" else 600), "c05tab",
                        "a metric table at capacity holds more unforced entries than its limit, or its counters disagree with what "
                        "was offered / refused (scoped and unscoped keys from several transactions)")
