"""Status-class correspondence (coq/Status.v <-> collector/client.go), a stage of the C02 and C03 checks.

The real client is run against a local TLS server answering with every status 200..599, and newRPMResponse
is called on every code -5..1100 (harness/go/collector/zz_verif_c02_test.go).  The observed class of each
reply is compared, inside Coq, with Status.classify; the domain swept is the whole range of codes an HTTP
reply can carry, the theorems of Status.v speak about every N."""
import json
import os

import vlib


def run_stage(chk, owner=None):
    pid = owner or chk.pid
    ok, out = vlib.coq_make(["Status.vo"])
    if not ok:
        chk.fail("status_build.txt", "coq/Status.v does not build:\n" + out[-3000:], no_input=True)
        return
    binary, blog = vlib.go_test_binary("collector", only=["c02"])
    if binary is None:
        chk.fail("status_harness_build.txt", "status harness (package collector, TestVerifC02Status) does not build "
                 "against the current tree:\n" + blog, no_input=True)
        return
    outp = os.path.join(vlib.BUILD, "status_obs_%s.json" % pid.lower())
    if os.path.exists(outp):
        os.remove(outp)
    rc, log = vlib.run_go_test(binary, "TestVerifC02Status", {"VERIF_OUT": outp}, timeout=240)
    if rc != 0 or not os.path.exists(outp):
        chk.fail("status_harness_run.txt", "TestVerifC02Status failed:\n" + log[-3000:], no_input=True)
        return
    obs = json.load(open(outp))
    # the model's input is the status the reply carries; for the http rows that must be the status served
    rows = []
    bad_rows = []
    for o in obs:
        code = o["code"]
        if o["via"] == "http":
            if o["status"] != code:
                bad_rows.append(("status-not-propagated", o))
                continue
            if o["body"] != "value" and code == 200:
                # a 200 reply whose body cannot be parsed (or carries an exception) is a failure of class "other"
                if o["ok"] or o["disc"] or o["restart"] or o["save"]:
                    bad_rows.append(("unparsable-200-not-a-plain-failure", o))
                continue
            if code == 200 and not o["has_body"]:
                bad_rows.append(("return_value-lost", o))
        if o["via"] == "truncated":
            # the body was cut short: the status line still decides (a 200 whose body is missing is a plain failure)
            if code in (200, 202):
                if code == 200 and (o["ok"] or o["disc"] or o["restart"] or o["save"]):
                    bad_rows.append(("truncated-200-not-a-plain-failure", o))
                continue
            if o["status"] != code:
                bad_rows.append(("truncated-body-hides-the-status", o))
                continue
        if o["via"] == "timeout":
            # the client's own time-out: a transport failure (never "keep the data": the request may have been processed),
            # except that a 503/5xx status line that did arrive may be honoured
            if o["ok"] or o["disc"] or o["restart"] or (o["save"] and code not in (408, 429, 500, 503)):
                bad_rows.append(("client-timeout-class", o))
            continue
        if o["via"] == "error":
            if o["ok"] or o["status"] != 0 or o["disc"] or o["restart"] or o["save"]:
                bad_rows.append(("transport-error-class", o))
            continue
        if code < 0:
            # not an N: the model has no such code; the implementation must treat it as a plain failure
            if o["ok"] or o["disc"] or o["restart"] or o["save"]:
                bad_rows.append(("negative-code-class", o))
            continue
        rows.append(o)
        chk.count_case(["status", o["via"], code, o["ok"], o["disc"], o["restart"], o["invalid"], o["save"]])
    b = vlib.cbool
    items = ";\n ".join("(%d%%N, mk_class %s %s %s %s %s)" % (o["code"], b(o["ok"]), b(o["disc"]), b(o["restart"]),
                                                             b(o["invalid"]), b(o["save"])) for o in rows)
    v = ("From Coq Require Import NArith List Bool.\nFrom Verif Require Import Processor Status.\nImport ListNotations.\n"
         "Definition obs : list (N * resp_class) := [\n " + items + "].\n"
         "Definition status_mm := Eval vm_compute in status_mismatches obs.\nPrint status_mm.\n")
    rc, out = vlib.coq_eval("cases_status_%s" % pid.lower(), v, timeout=300)
    mm = vlib.parse_nat_list(vlib.parse_printed(out, "status_mm")) if rc == 0 else None
    if mm is None:
        chk.fail("status_eval.txt", "in-Coq evaluation of the status cases failed:\n" + out[-3000:], no_input=True)
        return
    chk.sample("status classes: %d replies (%d through the real HTTP client) compared with Status.classify: %d mismatches"
               % (len(rows), sum(1 for o in rows if o["via"] == "http"), len(mm) + len(bad_rows)))
    chk.cov.setdefault("stages", {})["status"] = {"rows": len(rows), "http_rows": sum(1 for o in rows if o["via"] == "http"),
                                                    "mismatches": len(mm), "other": len(bad_rows)}
    for code in sorted(set(mm))[:4]:
        bad = [o for o in rows if o["code"] == code]
        chk.fail("status_%d.json" % code, {"what": "the reply class of status %d differs from the model (Status.classify); "
                 "C02: data is kept if and only if the status is 408, 429, 500 or 503; C03: 410 disconnects, 401/409 restart" % code,
                 "observed": bad, "replay": "./check %s quick  (stage status: every code is swept)" % pid},
                 sig="status-%d" % code)
    for why, o in bad_rows[:4]:
        chk.fail("status_%s_%d.json" % (why, o["code"]), {"what": why, "observed": o}, sig="status-%s" % why)
