"""Common driver of the processor-level checks (C01 C02 C03 C04 C11)."""
import json
import os
import random

import procgen
import vlib

CODE_PROPS = {101: ["C01", "C02"], 102: ["C01", "C04"], 103: ["C01"], 201: ["C02"], 202: ["C02"], 203: ["C02"],
              301: ["C03"], 302: ["C03"], 303: ["C03"], 304: ["C03"], 305: ["C03"], 306: ["C03"],
              401: ["C04"], 501: ["C11"], 502: ["C11"], 503: ["C11"], 601: ["C05"]}


def shrink(binary, hist, pred, budget=40, seconds=75):
    """Greedy delta-debugging on the operation list: drop chunks while pred(history) still fails
    (at most [budget] attempts and [seconds] of wall time)."""
    import time as _t
    t0 = _t.time()
    ops = list(hist["ops"])
    n = 2
    tries = 0
    while len(ops) >= 2 and tries < budget and _t.time() - t0 < seconds:
        chunk = max(1, len(ops) // n)
        reduced = False
        for i in range(0, len(ops), chunk):
            cand = ops[:i] + ops[i + chunk:]
            if not cand:
                continue
            tries += 1
            if _t.time() - t0 >= seconds:
                break
            h2 = dict(hist)
            h2["ops"] = cand
            if pred(h2):
                ops = cand
                n = max(n - 1, 2)
                reduced = True
                break
            if tries >= budget:
                break
        if not reduced:
            if chunk == 1:
                break
            n = min(n * 2, len(ops))
    h = dict(hist)
    h["ops"] = ops
    return h


def run(chk, prop, profiles, n_quick, n_thorough, codes, replay=None, extra_histories=None):
    pid = chk.pid
    st = vlib.std_coq_stage(chk, prop, gen=True, extra_targets=["ProcMonitor", "Status"])
    rng = random.Random(chk.seed)
    n = n_quick if chk.tier == "quick" else n_thorough
    if replay:
        hists = json.load(open(replay))["histories"]
    else:
        hists = []
        cdir = os.path.join(vlib.ROOT, "corpus", pid)
        if os.path.isdir(cdir):
            for fn in sorted(os.listdir(cdir)):
                if fn.endswith(".json"):
                    hists += json.load(open(os.path.join(cdir, fn)))["histories"]
        hists += (extra_histories(rng) if extra_histories else [])
        hists += procgen.gen_histories(rng, n, profiles)

    binary, blog = vlib.go_test_binary("newrelic", only=["proc"])
    if binary is None:
        chk.notes.append("harness build failed: " + blog[-2000:])
        chk.fail("harness_build.txt", "correspondence harness (package newrelic, TestVerifProc) does not build against "
                 "the current tree:\n" + blog, no_input=True)
        return
    obs, res, log = procgen.run_and_evaluate(binary, hists, name=pid.lower())
    if obs is None and res and "crash" in res:
        i = res["crash"]
        chk.fail("crash_h%d.json" % i, {"what": "the daemon code died (panic / fatal error in one of its goroutines) while this "
                 "history ran against the real processor; the model runs it to the end", "histories": [hists[i]],
                 "log": log[-3000:], "replay": "./check %s quick --replay <this file>" % pid}, sig="proc-crash")
        return
    if obs is None:
        chk.fail("harness_run.txt", "harness TestVerifProc failed:\n" + log[-4000:], no_input=True)
        return
    if "error" in res:
        chk.fail("coq_eval.txt", "in-Coq evaluation of the processor cases failed:\n" + res["error"], no_input=True)
        return

    # ---- coverage
    dist, opmix = {}, {}
    for h in hists:
        dist[h.get("profile", "corpus")] = dist.get(h.get("profile", "corpus"), 0) + 1
        for o in h["ops"]:
            opmix[o["op"]] = opmix.get(o["op"], 0) + 1
        nreq = 0
        chk.count_case(h["ops"], nontrivial=len(h["ops"]) >= 3)
    chk.cov["rule"] = ("random histories of processor operations (profiles %s) run against the real Processor with a "
                       "blocking mock collector; a history is non-trivial when it has >= 3 operations; distinct by its "
                       "operation list" % sorted(dist))
    chk.cov["input_distribution"] = {"profiles": dist, "operations": opmix,
                                     "steps": sum(len(h["ops"]) for h in hists),
                                     "requests_observed": sum(len(s["reqs"]) for o in obs for s in o["steps"])}
    chk.cov["rerun_after_quiescence_doubt"] = res.get("rerun", 0)
    chk.sample({"history": hists[-1]["ops"][:12], "observed_requests": [
        [(q["kind"], q["cat"], q["run"], q["tags"]) for q in s["reqs"]] for s in obs[-1]["steps"][:12]]})

    # ---- decide
    mine = [v for v in res["viols"] if pid in CODE_PROPS.get(v[1], [])]
    mine = [v for v in mine if v[1] in codes]
    if pid == "C01":
        # with a collector that accepts everything, data a live run holds at the exit and that is in none of the final
        # requests (V_NOT_FLUSHED) can be in no acknowledged request either: C01's loss, seen one step earlier than V_LOST
        def accepting(h):
            for o in h["ops"]:
                out = o.get("out")
                if isinstance(out, dict) and out.get("kind") not in (None, "ok"):
                    return False
                if o["op"] == "exit" and any(x != "ok" for x in o.get("outs", {}).values()):
                    return False
            return True
        mine += [v for v in res["viols"] if v[1] == 503 and v not in mine and accepting(hists[v[0]])]
        mine.sort()
    others = [v for v in res["viols"] if v not in mine]
    chk.cov["monitor_violations"] = len(mine)
    chk.cov["monitor_violations_of_other_properties"] = len(others)
    seen_h = set()
    for (hi, code, step) in mine:
        if hi in seen_h:
            continue
        seen_h.add(hi)
        name = procgen.V_NAMES.get(code, str(code))

        def still_fails(h2, code=code):
            o2, r2, _ = procgen.run_and_evaluate(binary, [h2], name=pid.lower() + "_shrink", shards=1)
            return o2 is not None and "error" not in r2 and any(v[1] == code for v in r2["viols"])
        small = hists[hi]
        heavy = any(o["op"] == "bulk" for o in hists[hi]["ops"])    # minutes per attempt: reported as found
        if len(seen_h) <= 2 and chk.tier == "quick" and not heavy:
            try:
                small = shrink(binary, hists[hi], still_fails)
            except Exception:
                small = hists[hi]
        chk.fail("%s_h%d.json" % (name, hi),
                 {"what": "%s at step %d: monitor of %s false on the implementation's outputs" % (name, step, pid),
                  "histories": [small], "original_length": len(hists[hi]["ops"]),
                  "observed": obs[hi]["steps"] if len(obs[hi]["steps"]) < 80 else "(long)"},
                 sig="%s-%s" % (pid.lower(), name))
    broken = []
    if not st["build_ok"]:
        broken.append("theorems of %s.v no longer check:\n%s" % (prop, st["log"][-3000:]))
    bad = [i for i, c in enumerate(res["corr"]) if c]
    chk.cov["correspondence_mismatches"] = len(bad)
    if bad:
        i = bad[0]
        stp = res["corr"][i] - 1
        broken.append("correspondence Processor.step vs the real processor differs on %d histories; first: history %d "
                      "step %d op %s\nobserved: %s" % (len(bad), i, stp, json.dumps(hists[i]["ops"][stp] if stp < len(hists[i]["ops"]) else None)[:400],
                                                      json.dumps(obs[i]["steps"][stp] if stp < len(obs[i]["steps"]) else None)[:1500]))
    if res["mviols"]:
        broken.append("the monitor rejects the model's own outputs (model and monitor disagree): %s" % res["mviols"][:5])
    if broken and not chk.violations:
        p = chk.replay_file("broken_histories.json", {"histories": [hists[i] for i in bad[:5]]})
        chk.fail("broken.txt", "\n\n".join(broken) + "\nreplay histories: " + p, no_input=True)
    chk.assumptions += [
        "collector answers are delivered by a mock client; harvest ticks are injected on the processor's harvest channel",
        "virtual time = shifting the applications' stored time stamps",
        "a step is over when no collector call and no processor event happened for a quiescence interval; doubtful histories are re-run with a long interval",
        "metric table capacity, ties between equal priorities, trace observer and LASP are outside this model (C05/C06/C07, C16, C13)",
    ]


def run_stage(chk, profiles, n, codes, name="procstage"):
    """A processor-level stage for a property whose main check lives elsewhere (e.g. C05's capacity monitor
    on the real processor).  The Coq stage has been done by the caller.  Returns False if the stage could not run."""
    import random as _r
    rng = _r.Random(chk.seed + 7)
    ok, out = vlib.coq_make(["ProcMonitor.vo", "Status.vo"])
    if not ok:
        chk.fail("procmonitor_build.txt", "coq/ProcMonitor.v does not build:\n" + out[-3000:], no_input=True)
        return False
    hists = procgen.gen_histories(rng, n, profiles)
    binary, blog = vlib.go_test_binary("newrelic", only=["proc"])
    if binary is None:
        chk.fail("harness_build.txt", "processor harness (TestVerifProc) does not build against the current tree:\n" + blog, no_input=True)
        return False
    obs, res, log = procgen.run_and_evaluate(binary, hists, name=name)
    if obs is None and res and "crash" in res:
        chk.fail("procstage_crash_h%d.json" % res["crash"], {"what": "the daemon code died while this history ran against the "
                 "real processor", "histories": [hists[res["crash"]]], "log": log[-3000:]}, sig="proc-crash")
        return False
    if obs is None or "error" in (res or {}):
        chk.fail("procstage_run.txt", "processor stage failed:\n" + (log or "")[-3000:] + str((res or {}).get("error", ""))[-2000:], no_input=True)
        return False
    for h in hists:
        chk.count_case(h["ops"], nontrivial=len(h["ops"]) >= 3)
    mine = [v for v in res["viols"] if v[1] in codes]
    chk.cov["processor_stage"] = {"histories": len(hists), "monitor_violations": len(mine),
                                  "correspondence_mismatches": len([c for c in res["corr"] if c])}
    seen = set()
    for (hi, code, step) in mine:
        if hi in seen:
            continue
        seen.add(hi)
        nm = procgen.V_NAMES.get(code, str(code))
        chk.fail("%s_h%d.json" % (nm, hi), {"what": "%s at step %d on the real processor" % (nm, step),
                                            "histories": [hists[hi]], "observed": obs[hi]["steps"]},
                 sig="%s-%s" % (chk.pid.lower(), nm))
    return True
