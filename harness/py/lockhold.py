"""C20, process level: the pid-file lock is held for the WHOLE life of a daemon in the watcher role.

The real daemon binary is started with --watchdog-foreground and a pid file; its worker is made to terminate
abnormally (SIGKILL / SIGSEGV / SIGABRT, once or several times) so that the watcher respawns it; after every
step the kernel is asked (F_GETLK from this process) who holds the write lock on the pid file, and a second
daemon is started against the same pid file.  Expected by the property: the holder is the first watcher
throughout, every later starter gives up, the pid in the file does not change, the worker is respawned.
(The ptrace-scheduled scenarios of the pid-file stage run --foreground daemons, i.e. without a watcher.)"""
import fcntl
import os
import shutil
import signal
import struct
import subprocess
import time

import vlib


def lock_holder(path):
    """pid holding a lock that conflicts with a write lock on the whole file; 0 = nobody; -1 = no file"""
    try:
        fd = os.open(path, os.O_RDWR)
    except OSError:
        return -1
    try:
        fl = struct.pack("hhqqi", fcntl.F_WRLCK, 0, 0, 0, 0)
        out = fcntl.fcntl(fd, fcntl.F_GETLK, fl)
        typ, _, _, _, pid = struct.unpack("hhqqi", out)
        return 0 if typ == fcntl.F_UNLCK else pid
    finally:
        os.close(fd)


def children(pid):
    try:
        out = subprocess.run(["pgrep", "-P", str(pid)], stdout=subprocess.PIPE).stdout.decode().split()
        return [int(x) for x in out]
    except Exception:
        return []


def wait_for(cond, timeout):
    t0 = time.time()
    while time.time() - t0 < timeout:
        v = cond()
        if v:
            return v
        time.sleep(0.02)
    return cond()


def read_pid(path):
    try:
        return int(open(path).read().strip() or "0")
    except Exception:
        return -1


def stop_scenario(daemon, base, idx, sig, delay):
    """the stop request arrives right after the worker died abnormally (no worker is running, or the new one has just been
    spawned): the watcher must still end supervision -- it exits, and no worker of its is left"""
    d = os.path.join(base, "t%d" % idx)
    shutil.rmtree(d, ignore_errors=True)
    os.makedirs(d)
    pidfile = os.path.join(d, "daemon.pid")
    env = {k: v for k, v in os.environ.items() if not k.startswith(("NEW_RELIC_DAEMON_ROLE", "VERIF_"))}
    w = subprocess.Popen([daemon, "--watchdog-foreground", "--pidfile", pidfile, "--address", "@verifst%d-%d" % (os.getpid(), idx),
                          "--loglevel", "debug", "--logfile", os.path.join(d, "w.log")],
                         cwd=d, env=env, stdin=subprocess.DEVNULL, stdout=subprocess.DEVNULL, stderr=subprocess.DEVNULL)
    obs = {"signal": int(sig), "delay_ms": int(delay * 1000)}
    try:
        if not wait_for(lambda: read_pid(pidfile) == w.pid and children(w.pid), 10):
            obs["note"] = "the daemon did not come up"
            return obs
        time.sleep(0.3)
        kids = children(w.pid)
        for c in kids:
            try:
                os.kill(c, sig)
            except OSError:
                pass
        wait_for(lambda: not any(os.path.exists("/proc/%d" % c) and open("/proc/%d/stat" % c).read().split()[2] != "Z" for c in kids), 5)
        time.sleep(delay)
        os.kill(w.pid, signal.SIGTERM)
        try:
            w.wait(timeout=8)
            obs["watcher_exited"] = True
        except subprocess.TimeoutExpired:
            obs["watcher_exited"] = False
        obs["workers_left"] = len(children(w.pid)) if w.poll() is None else 0
        return obs
    finally:
        if w.poll() is None:
            for c in children(w.pid):
                try:
                    os.kill(c, signal.SIGKILL)
                except OSError:
                    pass
            w.kill()
        try:
            w.wait(timeout=5)
        except Exception:
            pass
        shutil.rmtree(d, ignore_errors=True)


def one_scenario(daemon, base, idx, crashes):
    d = os.path.join(base, "s%d" % idx)
    shutil.rmtree(d, ignore_errors=True)
    os.makedirs(d)
    pidfile = os.path.join(d, "daemon.pid")
    env = {k: v for k, v in os.environ.items() if not k.startswith(("NEW_RELIC_DAEMON_ROLE", "VERIF_"))}

    def start(tag):
        return subprocess.Popen([daemon, "--watchdog-foreground", "--pidfile", pidfile, "--address", "@veriflh%d-%d-%s" % (os.getpid(), idx, tag),
                                 "--loglevel", "debug", "--logfile", os.path.join(d, tag + ".log")],
                                cwd=d, env=env, stdin=subprocess.DEVNULL, stdout=subprocess.DEVNULL, stderr=subprocess.DEVNULL)
    obs = {"crashes": crashes, "steps": []}
    first = start("a")
    procs = [first]
    try:
        ok = wait_for(lambda: read_pid(pidfile) == first.pid and lock_holder(pidfile) == first.pid and children(first.pid), 10)
        if not ok:
            obs["note"] = "the first daemon did not come up (pid file %s, holder %s)" % (read_pid(pidfile), lock_holder(pidfile))
            return obs
        for k, sig in enumerate(crashes):
            kids = children(first.pid)
            for c in kids:
                try:
                    os.kill(c, sig)
                except OSError:
                    pass
            respawned = wait_for(lambda: [c for c in children(first.pid) if c not in kids], 10)
            time.sleep(0.05)
            holder = lock_holder(pidfile)
            second = start("b%d" % k)
            procs.append(second)
            try:
                rc = second.wait(timeout=5)
            except subprocess.TimeoutExpired:
                rc = None               # still running: it considers itself the daemon
            obs["steps"].append({"signal": int(sig), "respawned": bool(respawned), "holder_is_first": holder == first.pid,
                                 "holder": "first" if holder == first.pid else ("nobody" if holder == 0 else "other"),
                                 "second_gave_up": rc is not None, "pidfile_names_first": read_pid(pidfile) == first.pid,
                                 "first_alive": first.poll() is None})
        return obs
    finally:
        for p in procs:
            if p.poll() is None:
                for c in children(p.pid):
                    try:
                        os.kill(c, signal.SIGKILL)
                    except OSError:
                        pass
                p.kill()
            try:
                p.wait(timeout=5)
            except Exception:
                pass
        shutil.rmtree(d, ignore_errors=True)


def run_stage(chk):
    daemon, dlog = vlib.go_build_daemon()
    if daemon is None:
        chk.fail("lockhold_build.txt", "the daemon does not build:\n" + (dlog or "")[-3000:], no_input=True)
        return
    base = os.path.join(vlib.BUILD, "c20_lockhold")
    os.makedirs(base, exist_ok=True)
    K, S, A = signal.SIGKILL, signal.SIGSEGV, signal.SIGABRT
    plans = [[K], [S, K], [A]] if chk.tier == "quick" else [[K], [S], [A], [K, K, K], [S, A, K], [signal.SIGBUS, K]]
    from concurrent.futures import ThreadPoolExecutor
    with ThreadPoolExecutor(max_workers=3) as ex:
        res = list(ex.map(lambda ip: one_scenario(daemon, base, ip[0], ip[1]), enumerate(plans)))
    shutil.rmtree(base, ignore_errors=True)
    bad = 0
    for i, o in enumerate(res):
        chk.count_case(["lockhold", [int(s) for s in o["crashes"]], o["steps"]])
        if o.get("note"):
            chk.fail("lockhold_%d.txt" % i, "lock-lifetime scenario could not run: " + o["note"], no_input=True)
            continue
        for st in o["steps"]:
            if not (st["holder_is_first"] and st["second_gave_up"] and st["pidfile_names_first"] and st["respawned"] and st["first_alive"]):
                bad += 1
                what = []
                if not st["respawned"]:
                    what.append("the worker killed by signal %d was not respawned" % st["signal"])
                if not st["holder_is_first"]:
                    what.append("after the respawn the pid-file lock is held by %s, not by the watcher" % st["holder"])
                if not st["second_gave_up"]:
                    what.append("a second daemon started on the same pid file keeps running")
                if not st["pidfile_names_first"]:
                    what.append("the pid file no longer names the first daemon")
                chk.fail("lockhold_%d.json" % i, {"what": "; ".join(what), "crash_signals": [int(s) for s in o["crashes"]],
                                                  "observed": o["steps"],
                                                  "replay": "start the daemon with --watchdog-foreground --pidfile P, kill its worker with the "
                                                            "listed signals, then start a second daemon with the same --pidfile"},
                         sig="c20-lock-lifetime")
                break
    # a stop request right after a crash
    stops = [(K, 0.0), (S, 0.15), (K, 0.5)] if chk.tier == "quick" else [(K, 0.0), (K, 0.05), (S, 0.15), (A, 0.3), (K, 0.5), (K, 0.9), (S, 1.5)]
    with ThreadPoolExecutor(max_workers=3) as ex:
        sres = list(ex.map(lambda ip: stop_scenario(daemon, base, ip[0], ip[1][0], ip[1][1]), enumerate(stops)))
    shutil.rmtree(base, ignore_errors=True)
    sbad = 0
    for i, o in enumerate(sres):
        chk.count_case(["stop-after-crash", o])
        if o.get("note"):
            chk.fail("stopcrash_%d.txt" % i, "stop-after-crash scenario could not run: " + o["note"], no_input=True)
        elif not o["watcher_exited"]:
            sbad += 1
            chk.fail("stopcrash_%d.json" % i, {"what": "a SIGTERM sent to the watcher %d ms after its worker was killed by signal %d did not end "
                                                       "supervision: the watcher is still running after 8 s (%d worker(s) alive)"
                                                       % (o["delay_ms"], o["signal"], o.get("workers_left", 0)), "observed": o,
                                               "replay": "daemon --watchdog-foreground; kill the worker; SIGTERM the watcher after the given delay"},
                     sig="c20-stop-after-crash")
    chk.cov.setdefault("stages", {})["stop_after_crash"] = {"scenarios": len(stops), "violating": sbad}
    chk.cov.setdefault("stages", {})["lock_lifetime"] = {"scenarios": len(plans), "violating": bad}
    chk.sample("lock lifetime: %d watcher-role daemons whose worker was crashed %s: %d lost the pid-file lock / admitted a second daemon"
               % (len(plans), [[int(s) for s in p] for p in plans], bad))
