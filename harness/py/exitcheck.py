"""C11 with live harvest timers: the real CleanExit of a processor whose applications were connected with short
report periods (the tickers keep firing during the exit), against a collector that answers with a delay and any
status.  Judged by coq/ExitMonitor.v on the observations only (returned within the bound; with an accepting
collector nothing lost, nothing twice, nothing foreign)."""
import json
import os
import random

import vlib

X_NAMES = {1: "X_HUNG", 3: "X_LOST", 4: "X_DUP", 5: "X_FOREIGN"}


def gen_scenarios(rng, n):
    scs = [  # fixed shapes first: slow final requests with fast timers (seeded/C11c), everything instant, failing collector
        {"apps": 2, "period_ms": 25, "delay_ms": 0, "exit_delay": 120, "status": 202, "txns": 5, "wait_ms": 200},
        {"apps": 3, "period_ms": 20, "delay_ms": 0, "exit_delay": 60, "status": 202, "txns": 4, "wait_ms": 150},
        {"apps": 1, "period_ms": 30, "delay_ms": 0, "exit_delay": 0, "status": 202, "txns": 4, "wait_ms": 100},
        {"apps": 2, "period_ms": 20, "delay_ms": 10, "exit_delay": 80, "status": 503, "txns": 5, "wait_ms": 200},
        {"apps": 2, "period_ms": 40, "delay_ms": 60, "exit_delay": 60, "status": 202, "txns": 4, "wait_ms": 200},
    ]
    while len(scs) < n:
        scs.append({"apps": rng.randint(1, 3), "period_ms": rng.choice([15, 20, 30, 50, 80]),
                    "delay_ms": rng.choice([0, 0, 5, 30, 90]), "exit_delay": rng.choice([0, 20, 60, 150, 250]),
                    "status": rng.choice([202, 202, 202, 503, 429, 410, 409, 401, 413]),
                    "txns": rng.randint(2, 7), "wait_ms": rng.choice([60, 150, 300])})
    scs = scs[:n]
    # the REAL collector client (TLS, its own time-out) against a local server that, once the exit has begun, answers,
    # stays silent, stalls after the headers, drops the connection or reads the request a few bytes at a time
    modes = ["stall_body", "silent", "close", "slow_read", "ok"]
    for j, t in enumerate(modes if n <= 10 else modes * 3):
        scs.append({"apps": 1 + (j % 2), "period_ms": 60000, "delay_ms": 0, "exit_delay": 0, "status": 202, "txns": 3, "wait_ms": 60,
                    "transport": t, "timeout_ms": rng.choice([200, 300])})
    for i, s in enumerate(scs):
        s["seed"] = i + 1
    return scs


def run_stage(chk):
    pid = chk.pid
    ok, out = vlib.coq_make(["ExitMonitor.vo"])
    if not ok:
        chk.fail("exit_build.txt", "coq/ExitMonitor.v does not build:\n" + out[-3000:], no_input=True)
        return
    rng = random.Random(chk.seed + 11)
    scs = gen_scenarios(rng, 10 if chk.tier == "quick" else 60)
    binary, blog = vlib.go_test_binary("newrelic", only=["proc", "c11"])
    if binary is None:
        chk.fail("exit_harness_build.txt", "live-timer exit harness (TestVerifC11Exit) does not build against the current tree:\n" + blog,
                 no_input=True)
        return
    inp, outp = os.path.join(vlib.BUILD, "c11exit_in.json"), os.path.join(vlib.BUILD, "c11exit_out.json")
    json.dump(scs, open(inp, "w"))
    if os.path.exists(outp):
        os.remove(outp)
    rc, log = vlib.run_go_test(binary, "TestVerifC11Exit", {"VERIF_IN": inp, "VERIF_OUT": outp}, timeout=600)
    if rc != 0 or not os.path.exists(outp):
        chk.fail("exit_harness_run.txt", "TestVerifC11Exit failed:\n" + log[-3000:], no_input=True)
        return
    obs = json.load(open(outp))
    items = []
    usable = []
    for i, (sc, o) in enumerate(zip(scs, obs)):
        chk.count_case([sc, o.get("exited")])
        if o.get("connected") != sc["apps"]:
            chk.notes.append("exit scenario %d: %s" % (i, o.get("note")))
            continue
        n = sc["txns"] * sc["apps"]
        offered = [t for t in range(1, n + 1)] + [t + 100000 for t in range(1, n + 1)] + [t + 200000 for t in range(1, n + 1)]
        delivered = [t for q in (o.get("periodics") or []) + (o.get("finals") or []) for t in q["tags"]]
        if sc.get("transport"):
            offered, delivered = [], []        # the server does not decode payloads: only termination is judged
        items.append("{| eo_offered := %s; eo_delivered := %s; eo_accepting := %s; eo_exited := %s; eo_after := %d |}" % (
            vlib.clist([vlib.cZ(t) for t in offered]), vlib.clist([vlib.cZ(t) for t in delivered]),
            vlib.cbool(sc["status"] in (200, 202) and not sc.get("transport")), vlib.cbool(bool(o.get("exited"))),
            o.get("requests_after_return", 0)))
        usable.append(i)
    v = ("From Coq Require Import ZArith List Bool.\nFrom Verif Require Import ExitMonitor.\nImport ListNotations.\nOpen Scope Z_scope.\n"
         "Definition cases : list exit_obs := [\n " + ";\n ".join(items) + "].\n"
         "Definition exit_viol := Eval vm_compute in map exit_monitor cases.\nPrint exit_viol.\n")
    rc, out = vlib.coq_eval("cases_exit_%s" % pid.lower(), v, timeout=300)
    txt = vlib.parse_printed(out, "exit_viol") if rc == 0 else None
    if txt is None:
        chk.fail("exit_eval.txt", "in-Coq evaluation of the exit cases failed:\n" + out[-3000:], no_input=True)
        return
    import re
    rows = re.findall(r"\[([^\[\]]*)\]", txt.strip()[1:-1]) if txt.strip() != "[]" else []
    if len(rows) != len(usable):
        chk.fail("exit_eval.txt", "could not read the monitor verdicts:\n" + txt[:2000], no_input=True)
        return
    nbad = 0
    for i, row in zip(usable, rows):
        codes = [int(x) for x in re.findall(r"-?\d+", row)]
        if codes:
            nbad += 1
            names = [X_NAMES.get(c, str(c)) for c in codes]
            o = dict(obs[i])
            if not o.get("exited"):
                o["goroutines"] = (o.get("goroutines") or "")[:6000]
            chk.fail("exit_%d.json" % i, {"what": "real CleanExit with live harvest timers: %s" % ", ".join(names), "scenario": scs[i],
                                          "observed": o, "replay": "./check %s quick  (stage exit, scenario %d)" % (pid, i)},
                     sig="c11-exit-" + "-".join(names))
    chk.cov.setdefault("stages", {})["exit"] = {"scenarios": len(scs), "judged": len(usable), "violating": nbad,
                                                  "exit_ms_max": max([o.get("exit_ms", 0) for o in obs] or [0]),
                                                  "requests_after_return": sum(o.get("requests_after_return", 0) for o in obs)}
    chk.sample("live-timer exit: %d scenarios (1-3 applications, report periods 15-80 ms, collector latency up to 250 ms, every status "
               "class; %d of them through the real HTTP client against a server that stalls, stays silent, drops or reads slowly): "
               "%d violate the exit monitor" % (len(scs), sum(1 for x in scs if x.get("transport")), nbad))


def worker_stage(chk):
    """The real daemon binary in the worker role, applications connected over the agent socket to a local TLS collector,
    then the termination request -- once, or twice (a duplicate arriving while the final flush is under way)."""
    pid = chk.pid
    daemon, dlog = vlib.go_build_daemon()
    binary, blog = vlib.go_test_binary("newrelic", only=["c17", "c11w"])
    if daemon is None or binary is None:
        chk.fail("worker_stage_build.txt", "daemon binary or worker harness (TestVerifC11Worker) does not build against the current tree:\n"
                 + (dlog or "")[-2500:] + (blog or "")[-2500:], no_input=True)
        return
    if chk.tier == "quick":
        scs = [{"apps": 2, "delay_ms": 300, "second": "", "second_ms": 0}, {"apps": 2, "delay_ms": 300, "second": "TERM", "second_ms": 50},
               {"apps": 3, "delay_ms": 200, "second": "TERM", "second_ms": 0}]
    else:
        scs = [{"apps": a, "delay_ms": d, "second": s, "second_ms": m} for a in (1, 2, 3) for d in (100, 400)
               for (s, m) in (("", 0), ("TERM", 0), ("TERM", 150))]
    inp, outp = os.path.join(vlib.BUILD, "c11w_in.json"), os.path.join(vlib.BUILD, "c11w_out.json")
    json.dump({"daemon": daemon, "scenarios": scs}, open(inp, "w"))
    if os.path.exists(outp):
        os.remove(outp)
    rc, log = vlib.run_go_test(binary, "TestVerifC11Worker", {"VERIF_IN": inp, "VERIF_OUT": outp}, timeout=600)
    if rc != 0 or not os.path.exists(outp):
        chk.fail("worker_stage_run.txt", "TestVerifC11Worker failed:\n" + log[-3000:], no_input=True)
        return
    obs = json.load(open(outp))
    bad = 0
    for i, (sc, o) in enumerate(zip(scs, obs)):
        chk.count_case(["worker", sc, o.get("exited"), o.get("exit_status")])
        if o.get("note"):
            chk.notes.append("worker scenario %d could not run: %s" % (i, o["note"]))
            continue
        why = []
        if not o["exited"]:
            why.append("the worker did not exit within the bound")
        elif o["exit_status"] != 0:
            why.append("the worker ended with %s instead of exiting with status 0"
                       % (("signal " + o.get("killed_by", "?")) if o["exit_status"] == -1 else ("status %d" % o["exit_status"])))
        missing = sorted(r for r, n in o["final_metric_requests"].items() if n == 0)
        if missing:
            why.append("no final delivery was attempted for run(s) %s" % missing)
        many = sorted(r for r, n in o["final_metric_requests"].items() if n > 2)
        if many:
            why.append("more than one final metric payload (plus its data-usage payload) for run(s) %s" % many)
        if why:
            bad += 1
            chk.fail("worker_%d.json" % i, {"what": "real worker process, termination request%s: %s"
                                            % (" followed by a second " + sc["second"] if sc["second"] else "", "; ".join(why)),
                                            "scenario": sc, "observed": o,
                                            "replay": "daemon -f --no-pidfile --address <sock> --cafile <ca>; connect %d applications; SIGTERM%s"
                                            % (sc["apps"], "; a second SIG%s when the first final request has arrived" % sc["second"] if sc["second"] else "")},
                     sig="c11-worker-" + ("second-signal" if sc["second"] else "exit"))
    chk.cov.setdefault("stages", {})["worker"] = {"scenarios": len(scs), "violating": bad}
    chk.sample("real worker process: %d scenarios (1-3 applications, slow final requests, a duplicate termination request in %d of them): "
               "%d violate" % (len(scs), sum(1 for s in scs if s["second"]), bad))
