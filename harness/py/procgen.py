"""Processor-level histories (C01 C02 C03 C04 C11): generator, Coq printing, evaluation.

A history is a list of operations on the daemon's processor.  Collector answers refer to the n-th connect
attempt in progress / the n-th outstanding harvest request (canonical order), so the generator needs no model:
an index beyond the end is a no-op on both sides.
"""
import json
import os
import re
import subprocess
import time
from concurrent.futures import ThreadPoolExecutor

import vlib

CATS = ["metrics", "custom", "errev", "errors", "slow", "traces", "txnev", "span", "log", "pkgs"]
COQCAT = dict(zip(CATS, ["CMetrics", "CCustom", "CErrEv", "CErrors", "CSlow", "CTraces", "CTxnEv", "CSpan", "CLog", "CPkgs"]))
EVENT_CATS = ["custom", "errev", "txnev", "span", "log"]
BITS = {"metrics": 1, "errors": 2, "slow": 4, "traces": 8, "txnev": 16, "custom": 32, "errev": 64, "span": 128,
        "log": 256, "pkgs": 512}
DEFAULT = 527
ALL = 1023
FAILS = ["retry", "409", "401", "410", "other", "transport"]
COQFAIL = {"retry": "FRetry", "409": "F409", "401": "F401", "410": "F410", "other": "FOther", "transport": "FTransport"}

# status codes by class (the model maps them back with Status.fail_of_code; Status.v proves which codes are retryable)
STATUS_CODES = {"retry": [408, 429, 500, 503], "409": [409], "401": [401], "410": [410],
                "other": [400, 402, 403, 404, 405, 406, 407, 411, 412, 413, 414, 415, 416, 417, 418, 422, 426, 428, 431, 451,
                          501, 502, 504, 505, 507, 511, 599, 300, 301, 302, 304, 307, 308, 201, 203, 204, 206, 100, 199, 600, 999]}

V_NAMES = {101: "V_DUP_ACK", 102: "V_FOREIGN", 103: "V_LOST", 201: "V_DEAD_RESENT", 202: "V_ATTEMPTS", 203: "V_NOT_RETRIED",
           301: "V_VALID", 302: "V_TERMINAL_REPLY", 303: "V_TERMINAL_CONNECT", 304: "V_CONNECTED_UNSOUND",
           305: "V_NO_RETRY", 306: "V_NO_RESTART", 401: "V_PARAMS", 501: "V_HUNG", 502: "V_FINAL_DUP", 503: "V_NOT_FLUSHED",
           601: "V_CAPACITY"}


class HistGen:
    """Random walk producing one history; every random choice comes from rng."""

    def __init__(self, rng, profile):
        self.rng, self.profile = rng, profile
        self.ops = []
        self.tag = 0
        self.prios = set()
        self.mslot = 0
        self.sslot = 0
        self.runs = []          # run ids issued by ConnOk operations (believed live)
        self.all_runs = []
        self.next_run = 1
        self.next_hdr = 1
        self.nah = 0            # app harvests believed to exist
        self.caps = {}          # run -> caps
        self.offered = {}       # (run, cat or pool) -> count
        self.over = set()       # categories in which some container may have overflowed
        self.clock = 0

    # -- helpers
    def newtag(self):
        self.tag += 1
        return self.tag

    def newprio(self, lo=1, hi=(1 << 20) - 1):
        while True:
            p = self.rng.randint(lo, hi)
            if p not in self.prios:
                self.prios.add(p)
                return p

    def count(self, run, cat, cap):
        k = (run, cat)
        self.offered[k] = self.offered.get(k, 0) + 1
        if self.offered[k] > cap:
            self.over.add(cat.split("/")[0])

    def connect(self, key, dt=False, caps=None, pre="ok", conn="ok"):
        """appinfo -> preconnect answer -> connect answer, on the most recent attempt"""
        self.ops.append({"op": "appinfo", "key": key, "dt": dt, "id": None})
        return self.answer_connect(pre, conn, caps)

    def answer_connect(self, pre="ok", conn="ok", caps=None, n=0):
        host = self.rng.randint(1, 5)
        if pre == "ok":
            self.ops.append({"op": "pre", "n": n, "out": {"kind": "ok", "host": host}})
            if conn == "ok":
                run = self.next_run
                self.next_run += 1
                hdr = self.next_hdr
                self.next_hdr += 1
                if caps is None:
                    caps = {c: self.rng.choice([100, 100, 100, 3, 2, 1, 0]) for c in EVENT_CATS}
                self.ops.append({"op": "conn", "n": n, "out": {"kind": "ok", "run": run, "hdr": hdr, "caps": caps}})
                self.runs.append(run)
                self.all_runs.append(run)
                self.caps[run] = caps
                self.nah += 1
                return run
            elif conn in ("malformed", "norunid"):
                self.ops.append({"op": "conn", "n": n, "out": {"kind": conn}})
            else:
                self.ops.append({"op": "conn", "n": n, "out": {"kind": "fail", "f": conn}})
        elif pre == "malformed":
            self.ops.append({"op": "pre", "n": n, "out": {"kind": "malformed"}})
        else:
            self.ops.append({"op": "pre", "n": n, "out": {"kind": "fail", "f": pre}})
        return None

    def txn(self, run, rich=None):
        rng = self.rng
        if rich is None:
            rich = rng.random()
        synth = rng.random() < 0.15
        prio = self.newprio()
        items = []
        caps = self.caps.get(run, {c: 100 for c in EVENT_CATS})
        if rng.random() < 0.7:
            items.append({"cat": "txnev", "tag": self.newtag(), "prio": prio + ((1 << 21) if synth else 0), "key": 0})
            self.count(run, "txnev", caps["txnev"])
        nm = rng.choice([0, 1, 1, 2, 3]) if self.mslot < 140 else 0
        for _ in range(nm):
            items.append({"cat": "metrics", "tag": self.newtag(), "prio": 0, "key": rng.randint(1, 6), "slot": self.mslot})
            self.mslot += 1
        if rich > 0.5:
            for c in ("custom", "errev", "span", "log"):
                if rng.random() < 0.4:
                    items.append({"cat": c, "tag": self.newtag(), "prio": prio, "key": 0})
                    self.count(run, c, caps[c])
            for _ in range(rng.choice([0, 0, 1, 2])):
                items.append({"cat": "errors", "tag": self.newtag(), "prio": self.newprio(1, 10 ** 6), "key": 0})
                self.count(run, "errors", 20)
            if self.sslot < 28 and rng.random() < 0.4:
                k = rng.randint(1, 12)
                items.append({"cat": "slow", "tag": self.newtag(), "prio": self.newprio(1, 10 ** 6), "key": k, "slot": self.sslot})
                self.sslot += 1
                self.count(run, "slow/%d" % k, 10 ** 9)
                ids = len([1 for (r, c) in self.offered if r == run and c.startswith("slow/")])
                if ids > 10:
                    self.over.add("slow")
            if rng.random() < 0.35:
                pool = 2 if synth else rng.choice([0, 0, 1])
                items.append({"cat": "traces", "tag": self.newtag(), "prio": self.newprio(1, 10 ** 6), "key": pool})
                self.count(run, "traces/%d" % pool, [1, 10, 20][pool])
        pkgs = None
        if rng.random() < 0.12:
            pkgs = [{"cat": "pkgs", "tag": self.newtag(), "prio": 0, "key": k} for k in
                    sorted(rng.sample(range(1, 8), rng.randint(0, 3)))]
        if pkgs is not None:
            self.count(run, "pkgs", 1)
        self.ops.append({"op": "txn", "run": run, "prio": prio, "synth": synth, "items": items, "pkgs": pkgs})

    def tick(self, ah=None, ty=None):
        rng = self.rng
        if ah is None:
            ah = rng.randrange(max(1, self.nah)) if rng.random() < 0.95 else self.nah + 1
        if ty is None:
            r = rng.random()
            if r < 0.35:
                ty = ALL
            elif r < 0.6:
                ty = DEFAULT
            elif r < 0.85:
                ty = BITS[rng.choice(EVENT_CATS)]
            elif r < 0.93:
                ty = DEFAULT | BITS[rng.choice(EVENT_CATS)] | BITS[rng.choice(EVENT_CATS)]
            else:
                ty = rng.randint(0, 1023)
        self.ops.append({"op": "tick", "ah": ah, "ty": ty})

    def drain(self, n, weights):
        """answer the oldest outstanding request n times"""
        names = list(weights.keys())
        ws = [weights[k] for k in names]
        for _ in range(n):
            o = self.rng.choices(names, ws)[0]
            idx = 0 if self.rng.random() < 0.8 else self.rng.randint(0, 3)
            if o == "ok":
                self.ops.append({"op": "reply", "n": idx, "out": {"kind": "ok"}})
            else:
                self.ops.append({"op": "reply", "n": idx, "out": {"kind": "fail", "f": o}})
                if o in ("409", "401", "410"):
                    pass

    def advance(self, dts):
        # virtual time is exact in the model, the implementation adds the real milliseconds of the run on top: a gap of exactly
        # the inactivity threshold (600 s) between two points of the history would be "not yet" in one and "just over" in the
        # other (e.g. 300 + 300): such gaps are moved off the boundary
        marks = getattr(self, "marks", None)
        if marks is None:
            marks = self.marks = set()
        marks.add(self.clock)
        while any(self.clock + dts - m == 600 for m in marks):
            dts += 1
        self.clock += dts
        self.ops.append({"op": "advance", "dts": dts})

    def exit(self, default="ok", outs=None):
        d = {"default": default}
        d.update(outs or {})
        self.ops.append({"op": "exit", "outs": d})

    # -- profiles
    def build(self):
        getattr(self, "p_" + self.profile)()
        complete = [c for c in CATS if c not in self.over]     # pkgs: at most one package list per run
        for o in self.ops:                                     # concrete status codes for the failure classes
            out = o.get("out")
            if isinstance(out, dict) and out.get("kind") == "fail" and "code" not in out and out["f"] in STATUS_CODES:
                out["code"] = self.rng.choice(STATUS_CODES[out["f"]])
        for i, o in enumerate(self.ops[:-1]):                  # some transactions arrive right behind a harvest request
            if o["op"] == "tick" and self.ops[i + 1]["op"] == "txn" and not self.ops[i + 1].get("hold") and self.rng.random() < 0.6:
                o["fuse"] = True
        i = 0                                                  # runs of transactions arriving back to back on one connection
        while i < len(self.ops):
            j = i
            while j < len(self.ops) and self.ops[j]["op"] == "txn" and not (j > 0 and self.ops[j - 1].get("fuse")) \
                    and not self.ops[j].get("hold"):
                j += 1
            if j - i >= 2 and self.rng.random() < 0.5:
                for o in self.ops[i:j]:
                    o["wire"] = True
            i = max(j, i + 1)
        return {"ops": self.ops, "profile": self.profile, "complete": complete}

    def p_all_ok(self):
        """accepting collector, 1-3 applications, every harvest type, final flush"""
        rng = self.rng
        napps = rng.randint(1, 3)
        runs = [self.connect(k, dt=rng.random() < 0.3) for k in range(1, napps + 1)]
        for _ in range(rng.randint(4, 14)):
            r = rng.random()
            if r < 0.55:
                self.txn(rng.choice(runs))
            elif r < 0.8:
                self.tick(ah=rng.randrange(napps))
            else:
                self.drain(rng.randint(1, 6), {"ok": 1})
        self.drain(rng.randint(0, 8), {"ok": 1})
        self.exit("ok")

    def p_leftover(self):
        """C01: what one kind of harvest leaves behind is delivered by the next one.  A transaction carries metrics and data of
        ONE other category; the default data are harvested; nothing else arrives; then an all-at-once harvest or the final
        flush must deliver the rest (seeded/C01i1: a harvest holding only log events passed for empty)."""
        rng = self.rng
        caps = {c: 100 for c in EVENT_CATS}
        run = self.connect(1, dt=rng.random() < 0.3, caps=caps)
        for _ in range(rng.randint(1, 3)):
            cat = rng.choice(["log", "log", "custom", "errev", "span", "txnev"])
            prio = self.newprio()
            items = [{"cat": "metrics", "tag": self.newtag(), "prio": 0, "key": rng.randint(1, 6), "slot": self.mslot}]
            self.mslot += 1
            for _ in range(1 if cat == "txnev" else rng.randint(1, 2)):     # (a transaction has one transaction event)
                items.append({"cat": cat, "tag": self.newtag(), "prio": prio, "key": 0})
                self.count(run, cat, 100)
            self.ops.append({"op": "txn", "run": run, "prio": prio, "synth": False, "items": items, "pkgs": None})
            self.tick(ah=0, ty=DEFAULT)
            self.drain(4, {"ok": 1})
            k = rng.random()
            if k < 0.4:
                self.tick(ah=0, ty=ALL)
                self.drain(6, {"ok": 1})
            elif k < 0.6:
                self.tick(ah=0, ty=BITS[cat] if cat in BITS else ALL)
                self.drain(4, {"ok": 1})
            elif k < 0.8:
                break
        self.exit("ok")

    def p_mixed(self):
        rng = self.rng
        napps = rng.randint(1, 3)
        runs = [self.connect(k, dt=rng.random() < 0.3) for k in range(1, napps + 1)]
        w = {"ok": 60, "retry": 20, "other": 5, "transport": 8, "409": 3, "401": 2, "410": 2}
        for _ in range(rng.randint(6, 22)):
            r = rng.random()
            if r < 0.45:
                run = rng.choice(self.all_runs) if rng.random() < 0.93 else rng.choice([999, 0, self.next_run])
                self.txn(run)
            elif r < 0.68:
                self.tick()
            elif r < 0.88:
                self.drain(rng.randint(1, 5), w)
            elif r < 0.94:
                k = rng.randint(1, napps)
                idv = rng.choice([None, None, rng.choice(self.all_runs), 999])
                self.ops.append({"op": "appinfo", "key": k, "dt": False, "id": idv})
                if rng.random() < 0.5:
                    self.answer_connect()
            else:
                self.advance(rng.choice([1, 10, 29, 31, 60]))
        if rng.random() < 0.85:
            self.drain(rng.randint(0, 6), w)
            self.exit(rng.choice(["ok", "ok", "retry", "other", "transport"]))

    def p_failures(self):
        """C02: long runs of failing deliveries of one category, new data arriving between attempts"""
        rng = self.rng
        caps = {c: 100 for c in EVENT_CATS}
        run = self.connect(1, caps=caps)
        focus = rng.choice(["metrics", "metrics", "txnev", "custom", "errev", "span", "log", "errors", "pkgs"])
        ty = ALL if rng.random() < 0.5 else (DEFAULT if focus in ("metrics", "errors", "pkgs") else BITS[focus])
        # half of the histories go past the attempt bound; "quiet" ones deliver nothing between the attempts (the
        # carried-over payload then meets an EMPTY next harvest every time -- seeded/C02d3), the others keep feeding
        n = rng.randint(11, 14) if rng.random() < 0.5 else rng.randint(3, 14)
        quiet = rng.random() < 0.45
        usage_fail = rng.random() < 0.5
        self.txn(run, rich=1.0)
        self.txn(run, rich=1.0)
        for k in range(n):
            self.tick(ah=0, ty=ty)
            # answer everything outstanding: the focus category fails with a retryable status
            status = rng.choice(["retry", "other", "transport"]) if rng.random() < (0.0 if quiet else 0.1) else "retry"
            for c in CATS + ["txnev", "usage"]:
                bad = (c == focus) or (c == "usage" and usage_fail)
                self.ops.append({"op": "replycat", "cat": c,
                                 "out": {"kind": "fail", "f": status} if bad else {"kind": "ok"}})
            if not quiet and rng.random() < 0.6:
                self.txn(run, rich=rng.random())
        for _ in range(2):
            self.tick(ah=0, ty=ty)
            self.drain(12, {"ok": 1})
        if rng.random() < 0.5:
            self.exit("ok")

    def p_lifecycle(self):
        """C03: connect outcomes at both stages, back-off, stale ids, restart/disconnect at harvest, inactivity"""
        rng = self.rng
        napps = rng.randint(1, 2)
        stage_out = ["ok", "ok", "ok", "retry", "409", "401", "410", "other", "transport", "malformed"]
        for _ in range(rng.randint(6, 18)):
            r = rng.random()
            k = rng.randint(1, napps)
            if r < 0.4:
                idv = rng.choice([None, None] + ([rng.choice(self.all_runs)] if self.all_runs else []) + [999])
                self.ops.append({"op": "appinfo", "key": k, "dt": False, "id": idv})
            elif r < 0.65:
                pre = rng.choice(stage_out)
                conn = rng.choice(stage_out + ["norunid"])
                self.answer_connect(pre, conn, n=rng.choice([0, 0, 1]))
            elif r < 0.8:
                self.advance(rng.choice([1, 29, 30, 31, 45, 300]))
            elif r < 0.88 and self.all_runs:
                self.txn(rng.choice(self.all_runs), rich=0.2)
            elif r < 0.94:
                self.tick(ty=rng.choice([ALL, DEFAULT, 16]))
            else:
                self.drain(rng.randint(1, 4), {"ok": 3, "retry": 1, "409": 2, "401": 2, "410": 2, "transport": 1})
        if rng.random() < 0.3:
            self.exit("ok")

    def p_silence(self):
        """C03: an application gets a verdict (terminal 410 / 401 at either stage or at harvest, or a plain failure),
        then its agents stay silent for longer than the inactivity timeout, then they ask again: a terminal
        verdict is permanent however long the silence (seeded/C03d1)"""
        rng = self.rng
        how = rng.choice(["pre410", "pre401", "conn410", "conn401", "harvest410", "harvest401", "pre503", "connmalformed", "connected"])
        self.ops.append({"op": "appinfo", "key": 1, "dt": False, "id": None})
        if how.startswith("pre"):
            self.answer_connect({"pre410": "410", "pre401": "401", "pre503": "retry"}[how], "ok")
        elif how.startswith("conn") and how != "connected":
            self.answer_connect("ok", {"conn410": "410", "conn401": "401", "connmalformed": "malformed"}[how])
        else:
            run = self.answer_connect("ok", "ok")
            if how.startswith("harvest"):
                self.txn(run, rich=0.3)
                self.tick(ah=0, ty=ALL)
                self.ops.append({"op": "reply", "n": 0, "out": {"kind": "fail", "f": how[-3:]}})
                self.drain(8, {"ok": 1})
        self.ops.append({"op": "appinfo", "key": 1, "dt": False, "id": None})
        for _ in range(rng.randint(1, 3)):
            self.advance(rng.choice([601, 700, 1200, 3600, 100000]))
            if rng.random() < 0.3:
                self.tick(ah=0, ty=rng.choice([ALL, DEFAULT]))
        for _ in range(rng.randint(1, 3)):
            self.ops.append({"op": "appinfo", "key": 1, "dt": False, "id": rng.choice([None] + self.all_runs)})
            if rng.random() < 0.4:
                self.advance(rng.choice([31, 700]))
        if rng.random() < 0.5:
            self.answer_connect()
            self.ops.append({"op": "appinfo", "key": 1, "dt": False, "id": None})
        self.drain(4, {"ok": 1})

    def p_staletick(self):
        """C04/C03: a run is restarted (409 / 401 at harvest) while its harvest still holds data of other categories; the
        application reconnects under a new run id; then a harvest event of the OLD app harvest arrives (its timers are
        only cancelled asynchronously): whatever is sent for it must not travel under the new run id (seeded/C04d1)"""
        rng = self.rng
        caps = {c: 100 for c in EVENT_CATS}
        run1 = self.connect(1, dt=rng.random() < 0.3, caps=caps)
        for _ in range(rng.randint(1, 3)):
            self.txn(run1, rich=1.0)
        first = rng.choice(["txnev", "custom", "span", "errev", "log"])
        self.tick(ah=0, ty=BITS[first] if rng.random() < 0.8 else DEFAULT)
        self.ops.append({"op": "reply", "n": 0, "out": {"kind": "fail", "f": rng.choice(["409", "409", "401"])}})
        self.drain(6, {"ok": 1})
        self.advance(rng.choice([0, 31, 45]))
        self.ops.append({"op": "appinfo", "key": 1, "dt": False, "id": None})
        run2 = self.answer_connect("ok", "ok", caps=caps)
        self.ops.append({"op": "appinfo", "key": 1, "dt": False, "id": rng.choice([run1, run2])})
        if run2 is not None and rng.random() < 0.7:
            self.txn(run2, rich=1.0)
        if rng.random() < 0.5:
            self.txn(run1, rich=1.0)                # data under the stale id: must be ignored
        for _ in range(rng.randint(1, 3)):
            self.tick(ah=0, ty=rng.choice([ALL, ALL, DEFAULT] + [BITS[c] for c in EVENT_CATS]))   # the OLD app harvest
            if rng.random() < 0.5:
                self.tick(ah=1, ty=rng.choice([ALL, DEFAULT]))
            self.drain(rng.randint(2, 12), {"ok": 6, "retry": 1, "409": 1})
        self.drain(12, {"ok": 1})
        if rng.random() < 0.5:
            self.exit("ok")

    def p_overlap(self):
        """C03: overlapping connect attempts (a new one starts when the back-off has expired while the previous
        one is still unanswered); their answers arrive in every order with every outcome"""
        rng = self.rng
        k = 1
        natt = rng.choice([2, 2, 3])
        self.ops.append({"op": "appinfo", "key": k, "dt": False, "id": None})
        for _ in range(natt - 1):
            self.advance(rng.choice([30, 31, 45]))
            self.ops.append({"op": "appinfo", "key": k, "dt": False, "id": None})
        outs = ["ok", "ok", "ok", "retry", "409", "401", "410", "transport", "malformed"]
        # answer the attempts in a random order; each answer is (pre outcome, conn outcome)
        pending = natt
        for _ in range(natt + 1):
            if pending <= 0:
                break
            n = rng.randrange(pending)
            pre = rng.choice(outs)
            conn = rng.choice(outs + ["norunid"])
            before = len(self.ops)
            self.answer_connect(pre, conn, n=n)
            pending -= 1
            if rng.random() < 0.5:
                self.ops.append({"op": "appinfo", "key": k, "dt": False, "id": rng.choice([None] + self.all_runs)})
        for r_ in list(self.all_runs):
            self.ops.append({"op": "appinfo", "key": k, "dt": False, "id": r_})
        self.ops.append({"op": "appinfo", "key": k, "dt": False, "id": None})
        if self.all_runs and rng.random() < 0.7:
            self.txn(rng.choice(self.all_runs), rich=0.3)
            self.tick(ah=0, ty=ALL)
            self.drain(4, {"ok": 3, "409": 1, "410": 1})
            self.ops.append({"op": "appinfo", "key": k, "dt": False, "id": None})
        if rng.random() < 0.4:
            self.exit("ok")

    def p_inactivity(self):
        """C03/C12: an application is removed after 10 minutes without activity (tick on a live run)"""
        rng = self.rng
        run = self.connect(1)
        self.txn(run, rich=0.3)
        self.advance(rng.choice([590, 599, 601, 700]))
        if rng.random() < 0.5:
            self.ops.append({"op": "appinfo", "key": 1, "dt": False, "id": rng.choice([None, run])})
        self.tick(ah=0, ty=rng.choice([ALL, DEFAULT]))
        self.ops.append({"op": "appinfo", "key": 1, "dt": False, "id": run})
        self.ops.append({"op": "appinfo", "key": 1, "dt": False, "id": None})
        self.drain(6, {"ok": 1})
        if rng.random() < 0.5:
            self.answer_connect()
            self.ops.append({"op": "appinfo", "key": 1, "dt": False, "id": None})
        self.exit("ok")

    def p_multi(self):
        """C04: several tenants, restarts issuing new ids, data under stale and foreign ids"""
        rng = self.rng
        napps = 3
        runs = [self.connect(k) for k in range(1, napps + 1)]
        w = {"ok": 70, "retry": 15, "409": 8, "401": 4, "transport": 3}
        for _ in range(rng.randint(8, 22)):
            r = rng.random()
            if r < 0.5:
                self.txn(rng.choice(self.all_runs + [999]), rich=rng.random())
            elif r < 0.7:
                self.tick()
            elif r < 0.9:
                self.drain(rng.randint(1, 5), w)
            else:
                self.advance(31)
                self.ops.append({"op": "appinfo", "key": rng.randint(1, napps), "dt": False, "id": None})
                self.answer_connect()
        self.drain(8, w)
        self.exit("ok")

    def p_exit(self):
        """C11: final flush with every kind of outcome for the final requests and requests still in flight"""
        rng = self.rng
        napps = rng.randint(1, 3)
        runs = [self.connect(k, dt=rng.random() < 0.2) for k in range(1, napps + 1)]
        for _ in range(rng.randint(3, 10)):
            self.txn(rng.choice(runs), rich=rng.random())
        if rng.random() < 0.6:
            self.tick(ah=rng.randrange(napps))          # leave requests in flight
            self.drain(rng.randint(0, 3), {"ok": 2, "retry": 1})
            for _ in range(rng.randint(0, 3)):
                self.txn(rng.choice(runs), rich=rng.random())
        if rng.random() < 0.2:
            # a long silence before the termination request: the applications are past the inactivity threshold, what they
            # hold is flushed all the same (fix de635d6: the final harvest removed them and dropped their data)
            self.advance(rng.choice([599, 601, 700, 5000]))
        outs = {}
        for r_ in runs:
            for c in CATS:
                if rng.random() < 0.4:
                    outs["%d:%s" % (r_, c)] = rng.choice(["ok", "retry", "other", "transport", "410", "409", "401"])
        self.exit(rng.choice(["ok", "retry", "transport", "410"]), outs)
        # operations after the exit must have no effect
        self.ops.append({"op": "appinfo", "key": 1, "dt": False, "id": None})

    def bulk(self, run, n):
        """n plain transactions (one transaction event each) delivered in one harness step"""
        tag0 = self.tag + 1
        self.tag += n
        prio0 = max(self.prios | {0}) + 1
        for i in range(n):
            self.prios.add(prio0 + i)
        self.ops.append({"op": "bulk", "run": run, "n": n, "tag0": tag0, "prio0": prio0})
        self.offered[(run, "txnev")] = self.offered.get((run, "txnev"), 0) + n
        if self.offered[(run, "txnev")] > self.caps.get(run, {}).get("txnev", 100):
            self.over.add("txnev")

    def p_bulk(self):
        """C02/C01: a transaction-event reservoir large enough to be split into two payloads (distributed
        tracing on, at least MaxTxnEvents/2 events); the halves fail, are carried over and split again"""
        rng = self.rng
        caps = {c: 100 for c in EVENT_CATS}
        caps["txnev"] = 10000
        decisive = self.profile == "bulkfail"     # every delivery of the split payload fails, past the attempt bound
        dt = decisive or rng.random() < 0.85
        run = self.connect(1, dt=dt, caps=caps)
        n0 = rng.choice([5000, 5001, 5200] if decisive else [4999, 5000, 5001, 5200, 6000])
        self.bulk(run, n0)
        ty = ALL if rng.random() < 0.5 else BITS["txnev"]
        nfail = rng.choice([11, 12] if decisive else [2, 10, 11, 11, 12, 13])
        for k in range(nfail):
            self.tick(ah=0, ty=ty)
            bad = decisive or rng.random() < 0.93
            for c in CATS + ["txnev", "usage"]:
                self.ops.append({"op": "replycat", "cat": c,
                                 "out": {"kind": "fail", "f": "retry"} if (bad and c == "txnev") else {"kind": "ok"}})
            if rng.random() < 0.3:
                self.txn(run, rich=0.0)
        for _ in range(2):
            self.tick(ah=0, ty=ty)
            self.drain(6, {"ok": 1})
        if rng.random() < 0.5:
            self.exit("ok")

    def p_bulkfail(self):
        self.p_bulk()

    def p_capacity(self):
        """C05: small negotiated limits, several periods per category with more offers than the limit,
        per-type and combined harvests, accepting collector"""
        rng = self.rng
        caps = {c: rng.choice([1, 2, 3, 5]) for c in EVENT_CATS}
        if rng.random() < 0.3:
            caps[rng.choice(EVENT_CATS)] = 0
        run = self.connect(1, dt=False, caps=caps)
        for _round in range(rng.randint(2, 4)):
            for _ in range(rng.randint(3, 8)):
                self.txn(run, rich=1.0)
            r = rng.random()
            if r < 0.5:
                for c in rng.sample(EVENT_CATS, rng.randint(1, 5)):
                    self.tick(ah=0, ty=BITS[c])
            elif r < 0.8:
                self.tick(ah=0, ty=DEFAULT | BITS[rng.choice(EVENT_CATS)])
            else:
                self.tick(ah=0, ty=ALL)
            self.drain(14, {"ok": 1})
        self.exit("ok")

    def p_applimit(self):
        """C05: the 251st application is refused"""
        rng = self.rng
        rejected = rng.choice([0, 0, 3, 12])
        # some applications get a terminal verdict first (401 / 410 at preconnect): they still count (seeded/C05d1)
        for k in range(1, rejected + 1):
            self.ops.append({"op": "appinfo", "key": k, "dt": False, "id": None})
            self.answer_connect(rng.choice(["401", "410"]), "ok")
        for k in range(rejected + 1, 253):
            self.ops.append({"op": "appinfo", "key": k, "dt": False, "id": None})
        self.ops.append({"op": "appinfo", "key": 7, "dt": False, "id": None})
        self.ops.append({"op": "appinfo", "key": 1, "dt": False, "id": None})
        self.ops.append({"op": "appinfo", "key": 260, "dt": False, "id": None})


    def full_txn(self, run):
        """one transaction with data of nine categories (caps 100 assumed): a harvest of everything then makes nine requests"""
        prio = self.newprio()
        items = [{"cat": "txnev", "tag": self.newtag(), "prio": prio, "key": 0},
                 {"cat": "metrics", "tag": self.newtag(), "prio": 0, "key": self.rng.randint(1, 6), "slot": self.mslot}]
        self.mslot += 1
        self.count(run, "txnev", 100)
        for c in ("custom", "errev", "span", "log"):
            items.append({"cat": c, "tag": self.newtag(), "prio": prio, "key": 0})
            self.count(run, c, 100)
        items.append({"cat": "errors", "tag": self.newtag(), "prio": self.newprio(1, 10 ** 6), "key": 0})
        self.count(run, "errors", 20)
        k = self.rng.randint(1, 12)
        items.append({"cat": "slow", "tag": self.newtag(), "prio": self.newprio(1, 10 ** 6), "key": k, "slot": self.sslot})
        self.sslot += 1
        self.count(run, "slow/%d" % k, 10 ** 9)
        items.append({"cat": "traces", "tag": self.newtag(), "prio": self.newprio(1, 10 ** 6), "key": 0})
        self.count(run, "traces/0", 1)
        self.ops.append({"op": "txn", "run": run, "prio": prio, "synth": False, "items": items, "pkgs": None})

    def p_outage(self):
        """C02: a collector outage answers many outstanding requests of several applications with a retryable status AT ONCE,
        while the processor is busy with a transaction (seeded/C02h1: failure reports beyond a buffer were dropped, their data
        never carried over).  Two applications x nine requests; sixteen of them fail together, none of them the last of its
        harvest (the data usage request of a harvest follows its last answer: kept out of the burst)."""
        rng = self.rng
        caps = {c: 100 for c in EVENT_CATS}
        ra = self.connect(1, dt=True, caps=caps)
        rb = self.connect(2, dt=True, caps=caps)
        self.full_txn(ra)
        self.full_txn(rb)
        self.tick(ah=0, ty=ALL)
        self.tick(ah=1, ty=ALL)
        self.txn(rng.choice([ra, rb]), rich=0.0)
        self.ops[-1]["hold"] = True
        f = rng.choice(["retry", "retry", "retry", "other"])
        for n in [0] * 8 + [1] * 8:
            self.ops.append({"op": "reply", "n": n, "out": {"kind": "fail", "f": f}, "atonce": True})
        self.drain(6, {"ok": 1})
        if rng.random() < 0.5:
            self.full_txn(ra)
        self.tick(ah=0, ty=ALL)
        self.tick(ah=1, ty=ALL)
        self.drain(24, {"ok": 1})
        self.exit("ok")

    def p_tablefull(self):
        """C03: verdicts are remembered when the application table is full and everybody has been silent for long
        (seeded/C03g1: a sweep of idle applications that hold no run forgot the terminal ones)"""
        rng = self.rng
        verdicts = [rng.choice(["410", "401"]) for _ in range(rng.choice([1, 2, 3]))]
        for k, v in enumerate(verdicts, start=1):
            self.ops.append({"op": "appinfo", "key": k, "dt": False, "id": None})
            if rng.random() < 0.5:
                self.answer_connect(v, "ok")
            else:
                self.answer_connect("ok", v)
        nterm = len(verdicts)
        run = self.connect(nterm + 1)
        self.txn(run, rich=0.2)
        fill = rng.choice([248, 249, 250, 251])            # around the limit of 250
        for k in range(nterm + 2, fill + 1):
            self.ops.append({"op": "appinfo", "key": k, "dt": False, "id": None})
        self.advance(rng.choice([601, 700, 5000]))
        for k in (300, 301):
            self.ops.append({"op": "appinfo", "key": k, "dt": False, "id": None})
        for k in range(1, nterm + 2):
            self.ops.append({"op": "appinfo", "key": k, "dt": False, "id": None})
        self.ops.append({"op": "appinfo", "key": 302, "dt": False, "id": None})
        self.ops.append({"op": "appinfo", "key": 1, "dt": False, "id": None})


def gen_histories(rng, n, profiles):
    names = list(profiles.keys())
    ws = [profiles[k] for k in names]
    hs = []
    for _ in range(n):
        p = rng.choices(names, ws)[0]
        hs.append(HistGen(rng, p).build())
    return hs


# ---------------------------------------------------------------------------- Coq printing

def c_item(it):
    return "(mk_item %d %d %d)" % (it["tag"], it["prio"], it["key"])


def c_outcome(o):
    if isinstance(o, str):
        return "OOk" if o == "ok" else "(OFail %s)" % COQFAIL[o]
    return "OOk" if o["kind"] == "ok" else "(OFail %s)" % c_fail(o)


def c_fail(out):
    if out.get("code"):
        return "(fail_of_code %d%%N)" % out["code"]
    return COQFAIL[out["f"]]


def c_op(o):
    k = o["op"]
    if k == "appinfo":
        return "OAppInfo %d%%N %s %s" % (o["key"], vlib.cbool(o["dt"]),
                                        "None" if o["id"] is None else "(Some %d%%N)" % o["id"])
    if k == "txn":
        items = "[" + "; ".join("(%s, %s)" % (COQCAT[i["cat"]], c_item(i)) for i in o["items"]) + "]"
        pk = "None" if o["pkgs"] is None else "(Some [" + "; ".join(c_item(i) for i in o["pkgs"]) + "])"
        return "OTxn %d%%N (mk_txn %s %s)" % (o["run"], items, pk)
    if k == "pre":
        out = o["out"]
        if out["kind"] == "ok":
            return "OPreReply %d (PreOk %d%%N)" % (o["n"], out["host"])
        if out["kind"] == "malformed":
            return "OPreReply %d PreMalformed" % o["n"]
        return "OPreReply %d (PreFail %s)" % (o["n"], c_fail(out))
    if k == "conn":
        out = o["out"]
        if out["kind"] == "ok":
            c = out["caps"]
            return "OConnReply %d (ConnOk (mk_creply %d (mkcaps %d %d %d %d %d) %d))" % (
                o["n"], out["run"], c["txnev"], c["custom"], c["errev"], c["span"], c["log"], out["hdr"])
        if out["kind"] == "malformed":
            return "OConnReply %d ConnMalformed" % o["n"]
        if out["kind"] == "norunid":
            return "OConnReply %d ConnNoRunId" % o["n"]
        return "OConnReply %d (ConnFail %s)" % (o["n"], c_fail(out))
    if k == "tick":
        return "OTick %d %d%%N" % (o["ah"], o["ty"])
    if k == "reply":
        return "OReply %d %s" % (o["n"], c_outcome(o["out"]))
    if k == "replycat":
        return "OReplyCat %s %s" % ("None" if o["cat"] == "usage" else "(Some %s)" % COQCAT[o["cat"]], c_outcome(o["out"]))
    if k == "advance":
        return "OAdvance %d%%Z" % o["dts"]
    if k == "exit":
        d = o["outs"]
        ex = "; ".join("(%s%%N, %s, %s)" % (kk.split(":")[0], COQCAT[kk.split(":")[1]], c_outcome(v))
                       for kk, v in sorted(d.items()) if kk != "default")
        return "OCleanExit (mkouts %s [%s])" % (c_outcome(d.get("default", "ok")), ex)
    raise ValueError(k)


STATE_CODE = {"unknown": 0, "connected": 1, "disconnected": 2, "restart": 3, "invalid_license": 4}
KIND_CODE = {"preconnect": 0, "connect": 1, "harvest": 2, "usage": 3}


def c_req(q):
    cat = CATS.index(q["cat"]) if q.get("cat") in CATS else 0
    tags = "[" + "; ".join("(%d)" % t for t in q["tags"]) + "]"
    return "(mk_oreq %d %d (%d) (%d) (%d) (%d) %s (%d) (%d))" % (
        KIND_CODE[q["kind"]], cat, q["owner"], q["host"], q["hdr"], q["run"], tags, q["cap"], q["seen"])


def c_step(s):
    rep = "None"
    if s.get("appreply"):
        rep = "(Some (%s, %d%%N))" % (vlib.cbool(s["appreply"]["valid"]), STATE_CODE.get(s["appreply"]["state"], 9))
    rrun = (s.get("appreply") or {}).get("run", 0)
    return "(mk_ostep [%s] %s (%d) %s %s)" % ("; ".join(c_req(q) for q in s["reqs"]), rep, rrun,
                                              vlib.cbool(s["exited"]), vlib.cbool(s["hung"]))


PRELUDE = """From Coq Require Import NArith ZArith List Bool.
From Verif Require Import Processor ProcMonitor Status.
Import ListNotations.
Open Scope Z_scope.
Definition mk_item (t : N) (p : Z) (k : N) : item := {| i_tag := t; i_prio := p; i_key := k |}.
Definition mk_txn (l : list (cat * item)) (p : option (list item)) : txn := {| t_items := l; t_pkgs := p |}.
Definition mkcaps (txn custom errev span log : N) : cat -> N :=
  fun c => match c with CTxnEv => txn | CCustom => custom | CErrEv => errev | CSpan => span | CLog => log | _ => 0%N end.
Definition mk_creply (r : N) (caps : cat -> N) (h : N) : creply := {| cr_run := r; cr_caps := caps; cr_hdr := h |}.
Definition mkouts (d : outcome) (l : list (N * cat * outcome)) : N -> cat -> outcome :=
  fun r c => match find (fun x => let '(r', c', _) := x in (r' =? r)%N && cat_eqb c' c) l with
             | Some (_, _, o) => o | None => d end.
Definition mk_oreq (k c : N) (owner host hdr run : Z) (tags : list Z) (cap seen : Z) : oreq :=
  {| o_kind := k; o_cat := c; o_owner := owner; o_host := host; o_hdr := hdr; o_run := run;
     o_tags := sortZ tags; o_cap := cap; o_seen := seen |}.
Definition mk_ostep (r : list oreq) (rep : option (bool * N)) (rrun : Z) (e h : bool) : ostep :=
  {| os_reqs := r; os_reply := rep; os_reply_run := rrun; os_exited := e; os_hung := h |}.
Definition bulk_ops (run : N) (n : nat) (tag0 : N) (prio0 : Z) : list op :=
  map (fun i => OTxn run (mk_txn [(CTxnEv, mk_item (tag0 + N.of_nat i) (prio0 + Z.of_nat i) 0)] None)) (seq 0 n).
Definition bulk_steps (n : nat) (s : ostep) : list ostep := repeat (mk_ostep [] None 0 false false) (pred n) ++ [s].
Definition case := (list op * list ostep * list N)%type.
"""

EPILOGUE = """
Definition diff_of (c : case) : nat :=
  let '(ops, obs, _) := c in match first_diff (model_steps ops) obs 0 with None => 0 | Some i => S i end.
Definition viol_of (c : case) : list (N * nat) := let '(ops, obs, cc) := c in monitor ops obs cc.
(* the monitor on the MODEL's own outputs: must be empty (sanity of model vs monitor) *)
Definition mviol_of (c : case) : list (N * nat) := let '(ops, _, cc) := c in monitor ops (model_steps ops) cc.
Fixpoint number {A} (l : list A) (i : nat) : list (nat * A) := match l with [] => [] | x :: r => (i, x) :: number r (S i) end.
"""

EPI_PART = {"corr": """Definition corr := Eval vm_compute in map diff_of cases.
Print corr.
""", "viols": """Definition viols := Eval vm_compute in
  concat (map (fun ic => map (fun v => (fst ic, fst v, snd v)) (viol_of (snd ic))) (number cases 0)).
Print viols.
""", "mviols": """Definition mviols := Eval vm_compute in
  concat (map (fun ic => map (fun v => (fst ic, fst v, snd v)) (mviol_of (snd ic))) (number cases 0)).
Print mviols.
"""}


def seg_lists(ops, steps):
    """the operation and step lists of one case; a bulk operation (N plain transactions delivered in one
    harness step) is expanded inside Coq: N OTxn operations, N-1 empty steps and the observed one"""
    osegs, ssegs, cur_o, cur_s = [], [], [], []
    for o, st in zip(ops, steps):
        if o["op"] == "bulk":
            if cur_o:
                osegs.append("[" + ";\n   ".join(cur_o) + "]")
                ssegs.append("[" + ";\n   ".join(cur_s) + "]")
                cur_o, cur_s = [], []
            osegs.append("bulk_ops %d%%N %d %d%%N (%d)%%Z" % (o["run"], o["n"], o["tag0"], o["prio0"]))
            ssegs.append("bulk_steps %d %s" % (o["n"], c_step(st)))
        else:
            cur_o.append(c_op(o))
            cur_s.append(c_step(st))
    if cur_o or not osegs:
        osegs.append("[" + ";\n   ".join(cur_o) + "]")
        ssegs.append("[" + ";\n   ".join(cur_s) + "]")
    if len(osegs) == 1:
        return osegs[0], ssegs[0]
    return "(" + " ++\n   ".join("(" + x + ")" for x in osegs) + ")", "(" + " ++\n   ".join("(" + x + ")" for x in ssegs) + ")"


def cases_v(hists, obs, which=("corr", "viols", "mviols")):
    lines = [PRELUDE, "Definition cases : list case := ["]
    parts = []
    for h, o in zip(hists, obs):
        ops, steps = seg_lists(h["ops"], o["steps"])
        cc = "[" + "; ".join("%d%%N" % CATS.index(c) for c in h["complete"]) + "]"
        parts.append("  (%s,\n   %s,\n   %s)" % (ops, steps, cc))
    lines.append(";\n".join(parts))
    lines.append("].")
    lines.append(EPILOGUE)
    for w in which:
        lines.append(EPI_PART[w])
    return "\n".join(lines)


def parse_triples(txt):
    if txt is None:
        return None
    return [(int(a), int(b), int(c)) for a, b, c in re.findall(r"\(\s*(\d+)(?:%nat)?\s*,\s*(\d+)(?:%N)?\s*,\s*(\d+)(?:%nat)?\s*\)", txt)]


def evaluate(name, hists, obs, shards=4, timeout=900):
    """Evaluate model + monitor in Coq on (history, observation) pairs.  Returns dict with
    corr (list: 0 = agree, i+1 = first differing step), viols, mviols (lists of (history, code, step)).
    A history with a bulk operation (thousands of events) gets coqc runs of its own, one per result."""
    n = len(hists)
    heavy = [i for i, h in enumerate(hists) if any(o["op"] == "bulk" for o in h["ops"])]
    light = [i for i in range(n) if i not in set(heavy)]
    shards = max(1, min(shards, (len(light) + 19) // 20))
    jobs = []          # (indices, which)
    for k in range(shards):
        idx = light[k * len(light) // shards:(k + 1) * len(light) // shards]
        if idx:
            jobs.append((idx, ("corr", "viols", "mviols")))
    for i in heavy:
        for w in ("corr", "viols", "mviols"):
            jobs.append(([i], (w,)))

    def one(k):
        idx, which = jobs[k]
        rc, out = vlib.coq_eval("%s_%d" % (name, k), cases_v([hists[i] for i in idx], [obs[i] for i in idx], which), timeout=timeout)
        r = {}
        if "corr" in which:
            r["corr"] = vlib.parse_nat_list(vlib.parse_printed(out, "corr"))
        for w in ("viols", "mviols"):
            if w in which:
                r[w] = parse_triples(vlib.parse_printed(out, w))
        if rc != 0 or any(v is None for v in r.values()):
            return {"error": out[-4000:]}
        return r

    with ThreadPoolExecutor(max_workers=12) as ex:
        rs = list(ex.map(one, range(len(jobs))))
    res = {"corr": [0] * n, "viols": [], "mviols": []}
    for (idx, which), r in zip(jobs, rs):
        if "error" in r:
            return r
        for a, c in enumerate(r.get("corr", [])):
            res["corr"][idx[a]] = c
        for w in ("viols", "mviols"):
            res[w] += [(idx[a], b, c) for a, b, c in r.get(w, [])]
    res["viols"].sort()
    res["mviols"].sort()
    return res


def go_ops(ops):
    """The operation list as the Go harness executes it: a harvest request marked "fuse" and the transaction behind
    it are handed to the processor back to back (the transaction's own step becomes empty); the model and the
    monitors see the two operations in the same order, one after the other."""
    out = []
    skip = False
    for i, o in enumerate(ops):
        if skip:
            out.append({"op": "nop"})
            skip = False
            continue
        if o["op"] == "tick" and o.get("fuse") and i + 1 < len(ops) and ops[i + 1]["op"] == "txn":
            t = dict(o)
            t["then"] = ops[i + 1]
            out.append(t)
            skip = True
        else:
            out.append(o)
    # a transaction marked "hold" followed by replies marked "atonce": the answers are given all at once while the processor
    # is still busy with that transaction
    i = 0
    while i < len(out):
        o = out[i]
        if o.get("op") == "txn" and o.get("hold"):
            j = i + 1
            while j < len(out) and out[j].get("op") == "reply" and out[j].get("atonce"):
                j += 1
            if j - i >= 2:
                t = dict(o)
                t.pop("wire", None)
                t["replies"] = out[i + 1:j]
                out[i] = t
                for k in range(i + 1, j):
                    out[k] = {"op": "nop"}
            i = j
        else:
            i += 1
    # transactions marked "wire" that follow each other: the first carries the others ("burst"), their own steps are empty
    i = 0
    while i < len(out):
        o = out[i]
        if o.get("op") == "txn" and o.get("wire"):
            j = i + 1
            while j < len(out) and out[j].get("op") == "txn" and out[j].get("wire"):
                j += 1
            if j - i >= 2:
                t = dict(o)
                t["burst"] = out[i + 1:j]
                out[i] = t
                for k in range(i + 1, j):
                    out[k] = {"op": "nop"}
            i = j
        else:
            i += 1
    return out


def run_harness(binary, hists, settle_us=2500, parallel=8, name="proc", timeout=900):
    inp = os.path.join(vlib.BUILD, name + "_in.json")
    outp = os.path.join(vlib.BUILD, name + "_out.json")
    json.dump({"histories": [{"ops": go_ops(h["ops"])} for h in hists], "settle_us": settle_us, "parallel": parallel}, open(inp, "w"))
    for f in (outp, outp + ".cur"):
        if os.path.exists(f):
            os.remove(f)
    rc, out = vlib.run_go_test(binary, "TestVerifProc", {"VERIF_IN": inp, "VERIF_OUT": outp}, timeout=timeout)
    if rc != 0 or not os.path.exists(outp):
        return None, out
    return json.load(open(outp))["histories"], out


def run_and_evaluate(binary, hists, name="proc", settle_us=2500, parallel=8, shards=4):
    """Harness + Coq evaluation, with one slower re-run of the histories whose observation differs from the
    model or trips a monitor (the harness decides that a step is over by quiescence; under machine load a
    late goroutine can be attributed to the next step).  Returns (obs, res, log)."""
    obs, log = run_harness(binary, hists, settle_us=settle_us, parallel=parallel, name=name)
    if obs is None and parallel > 1:
        # the test binary died (e.g. a fatal runtime error in code shared by the histories running in
        # parallel): run the histories one at a time so that a failing history can still be pinned down
        obs, log2 = run_harness(binary, hists, settle_us=settle_us, parallel=1, name=name)
        log = log + "\n--- sequential re-run ---\n" + log2
        cur = os.path.join(vlib.BUILD, name + "_out.json.cur")
        if obs is None and os.path.exists(cur):
            try:
                return None, {"crash": int(open(cur).read().strip())}, log
            except ValueError:
                pass
    if obs is None:
        return None, None, log
    res = evaluate("cases_" + name, hists, obs, shards=shards)
    if "error" in res:
        return obs, res, log
    suspects = sorted(set([i for i, c in enumerate(res["corr"]) if c] + [v[0] for v in res["viols"]]))
    res["rerun"] = len(suspects)
    suspects = suspects[:25]       # enough to pin a failure down; the rest keep their first verdict
    if suspects:
        sub = [hists[i] for i in suspects]
        obs2, log2 = run_harness(binary, sub, settle_us=60000, parallel=4, name=name + "_retry")
        if obs2 is not None:
            res2 = evaluate("cases_" + name + "_retry", sub, obs2, shards=shards)
            if "error" not in res2:
                for j, i in enumerate(suspects):
                    obs[i] = obs2[j]
                    res["corr"][i] = res2["corr"][j]
                res["viols"] = [v for v in res["viols"] if v[0] not in suspects] + \
                               [(suspects[a], b, c) for a, b, c in res2["viols"]]
                res["mviols"] = [v for v in res["mviols"] if v[0] not in suspects] + \
                                [(suspects[a], b, c) for a, b, c in res2["mviols"]]
    return obs, res, log
