"""Application identity (C04, second sentence): coq/AppKey.v <-> AppInfo.Key() / processAppInfo.

Cases are lists of application descriptions that agree on everything or differ in exactly one field (every
identity field, every other field of the APP message), plus policy sets in every shape.  Each description is
delivered as a real flatbuffers APP message to a real Processor (harness/go/newrelic/zz_verif_c04_test.go);
which descriptions end up as one application object is compared inside Coq with AppKey.code_same (model of
the code) and with AppKey.spec_same (the property: identity fields and the SET of supported policies)."""
import json
import os
import random

import vlib

IDENTITY = ["license", "appname", "redirect", "high_security", "language", "policies", "host", "to_host", "to_port"]
OTHER = ["version", "display_host", "token", "queue", "env", "labels", "metadata", "settings", "docker_id", "span", "log", "custom",
         "policies_enabled", "policies_order", "policies_unsupported"]

WORDS = ["a", "b", "ab", "bc", "c", "abc", "record_sql", "allow_raw_exception_messages", "custom_events", "x", "xy", "y", "p1", "p2", "p", "1p2"]


def rstr(rng, lo=1, hi=8):
    return "".join(rng.choice("abcXYZ019-_.") for _ in range(rng.randint(lo, hi)))


def gen_policies(rng):
    names = rng.sample(WORDS, rng.randint(0, 4))
    return [[n, rng.random() < 0.6, rng.random() < 0.75] for n in names]     # name, enabled, supported


def base_desc(rng):
    return {"license": rstr(rng, 40, 40), "appname": rstr(rng), "language": rng.choice(["php", "c", "sdk", ""]),
            "version": rstr(rng), "redirect": rng.choice(["", "collector.example", "staging-collector.example"]),
            "host": rstr(rng), "display_host": rng.choice(["", rstr(rng)]), "high_security": rng.random() < 0.3,
            "policies": gen_policies(rng), "token": rng.choice(["", "", rstr(rng)]),
            "to_host": rng.choice(["", "", "to.example", rstr(rng)]), "to_port": rng.choice([0, 443, 8443, 65535]),
            "queue": rng.choice([0, 1000, 100000]), "env": "[]", "labels": rng.choice(["[]", '[{"label_type":"a","label_value":"b"}]']),
            "metadata": rng.choice(["", "{}", '{"NEW_RELIC_METADATA_X":"1"}']), "settings": rng.choice(["", '{"k":1}']),
            "docker_id": rng.choice(["", rstr(rng, 12, 12)]), "span": rng.choice([0, 1000]), "log": rng.choice([0, 10000]),
            "custom": rng.choice([0, 30000])}


def vary(rng, d, field):
    v = json.loads(json.dumps(d))
    if field in ("license", "appname", "host", "version"):
        v[field] = d[field] + rng.choice(["x", "0", "-"]) if rng.random() < 0.5 else rstr(rng, len(d[field]), len(d[field]) + 1)
        if v[field] == d[field]:
            v[field] += "z"
    elif field in ("redirect", "display_host", "token", "to_host", "docker_id", "language"):
        v[field] = (d[field] + "2") if (d[field] and rng.random() < 0.6) else ("" if d[field] else rstr(rng))
    elif field == "high_security":
        v[field] = not d[field]
    elif field in ("to_port", "queue", "span", "log", "custom"):
        v[field] = d[field] + rng.choice([1, 7, 256])
        if field == "to_port":
            v[field] %= 65536
            if v[field] == d[field]:
                v[field] = (d[field] + 1) % 65536
    elif field in ("env", "labels", "metadata", "settings"):
        v[field] = {"env": '[["k","v"]]', "labels": '[{"label_type":"x","label_value":"y"}]', "metadata": '{"NEW_RELIC_METADATA_Y":"2"}',
                    "settings": '{"k":2,"newrelic.appname":"z"}'}[field]
        if v[field] == d[field]:
            v[field] = d[field][:-1] + " " + d[field][-1]
    elif field == "policies":
        # a different SET of supported policies
        pol = [list(p) for p in d["policies"]]
        sup = [p for p in pol if p[2]]
        k = rng.random()
        if sup and k < 0.35:
            sup[0][2] = False                               # one supported policy becomes unsupported
        elif sup and k < 0.5:
            pol.remove(sup[0])                              # ... or disappears
        else:
            fresh = [w for w in WORDS if w not in [p[0] for p in pol]]
            pol.append([rng.choice(fresh), rng.random() < 0.5, True])
        v["policies"] = pol
    elif field == "policies_enabled":
        v["policies"] = [[n, not e, s] for n, e, s in d["policies"]]
    elif field == "policies_order":
        v["policies"] = list(reversed(d["policies"]))
    elif field == "policies_unsupported":
        fresh = [w for w in WORDS if w not in [p[0] for p in d["policies"]]]
        v["policies"] = d["policies"] + [[rng.choice(fresh), True, False]]
    return v


def concat_pair(rng):
    """two different sets of supported policies whose sorted names concatenate to the same text"""
    a, b = rng.choice([(["ab", "c"], ["a", "bc"]), (["p1", "p2"], ["p", "1p2"]), (["x", "xy"], ["xxy"]), (["abc"], ["a", "bc"])])
    return [[n, True, True] for n in a], [[n, True, True] for n in b]


def gen_case(rng, k):
    base = base_desc(rng)
    ds, why = [base], ["base"]
    if k % 7 == 3:
        pa, pb = concat_pair(rng)
        x, y = dict(base, policies=pa), dict(base, policies=pb)
        return {"descs": [x, y, json.loads(json.dumps(x))], "why": ["concat-a", "concat-b", "copy"]}
    for _ in range(rng.randint(1, 3)):
        f = rng.choice(IDENTITY + OTHER)
        src = rng.choice(ds)
        ds.append(vary(rng, src, f))
        why.append(f)
    if rng.random() < 0.6:
        ds.append(json.loads(json.dumps(rng.choice(ds))))
        why.append("copy")
    return {"descs": ds, "why": why}


def to_go(d):
    g = dict(d)
    g["policies"] = json.dumps({n: {"enabled": e, "supported": s} for n, e, s in d["policies"]}) if d["policies"] else ""
    return g


def c_info(d):
    pol = "[" + "; ".join("(%s, mkA %s %s)" % (vlib.cbytes(n.encode()), vlib.cbool(e), vlib.cbool(s)) for n, e, s in d["policies"]) + "]"
    return ("{| ai_license := %s; ai_appname := %s; ai_redirect := %s; ai_high_security := %s; ai_language := %s; "
            "ai_policies := %s; ai_hostname := %s; ai_to_host := %s; ai_to_port := %d%%N |}" % (
                vlib.cbytes(d["license"].encode()), vlib.cbytes(d["appname"].encode()), vlib.cbytes(d["redirect"].encode()),
                vlib.cbool(d["high_security"]), vlib.cbytes(d["language"].encode()), pol, vlib.cbytes(d["host"].encode()),
                vlib.cbytes(d["to_host"].encode()), d["to_port"]))


def run_stage(chk):
    pid = chk.pid
    ok, out = vlib.coq_make(["AppKey.vo"])
    if not ok:
        chk.fail("appkey_build.txt", "coq/AppKey.v does not build:\n" + out[-3000:], no_input=True)
        return
    rng = random.Random(chk.seed + 404)
    n = 120 if chk.tier == "quick" else 1500
    cases = [gen_case(rng, k) for k in range(n)]
    binary, blog = vlib.go_test_binary("newrelic", only=["c04"])
    if binary is None:
        chk.fail("appkey_harness_build.txt", "identity harness (TestVerifC04Key) does not build against the current tree:\n" + blog,
                 no_input=True)
        return
    inp, outp = os.path.join(vlib.BUILD, "c04key_in.json"), os.path.join(vlib.BUILD, "c04key_out.json")
    json.dump([[to_go(d) for d in c["descs"]] for c in cases], open(inp, "w"))
    if os.path.exists(outp):
        os.remove(outp)
    rc, log = vlib.run_go_test(binary, "TestVerifC04Key", {"VERIF_IN": inp, "VERIF_OUT": outp}, timeout=400)
    if rc != 0 or not os.path.exists(outp):
        chk.fail("appkey_harness_run.txt", "TestVerifC04Key failed:\n" + log[-3000:], no_input=True)
        return
    obs = json.load(open(outp))
    fields = {}
    for c, o in zip(cases, obs):
        for w in c["why"]:
            fields[w] = fields.get(w, 0) + 1
        chk.count_case([c["descs"], o["class"]])
    # the processor must map by key: class equality == key equality, one application object per class
    for i, (c, o) in enumerate(zip(cases, obs)):
        m = len(c["descs"])
        bad = o.get("note") or len(o["class"]) != m or -1 in o["class"] or o["apps"] != len(set(o["class"])) or \
            any((o["class"][a] == o["class"][b]) != o["key_eq"][a][b] for a in range(m) for b in range(m))
        if bad:
            chk.fail("appkey_table_%d.json" % i, {"what": "the processor's application table is not indexed by AppInfo.Key() "
                     "(classes, key equality and table size disagree)", "case": c, "observed": o}, sig="c04-key-table")
    items = ";\n ".join("[" + "; ".join("(%s, %d%%nat)" % (c_info(d), cl) for d, cl in zip(c["descs"], o["class"])) + "]"
                        for c, o in zip(cases, obs) if len(o["class"]) == len(c["descs"]))
    v = ("From Coq Require Import NArith List Bool.\nFrom Verif Require Import Lasp AppKey.\nImport ListNotations.\n"
         "Definition cases : list (list (app_info * nat)) := [\n " + items + "].\n"
         "Definition mm_code := Eval vm_compute in map (pair_mismatches code_same) cases.\n"
         "Definition mm_spec := Eval vm_compute in map (pair_mismatches spec_same) cases.\nPrint mm_code. Print mm_spec.\n")
    rc, out = vlib.coq_eval("cases_appkey_%s" % pid.lower(), v, timeout=600)

    def parse(name):
        t = vlib.parse_printed(out, name)
        if t is None:
            return None
        import re
        t = re.sub(r"%[A-Za-z]+", "", t)
        res, depth, cur = [], 0, ""
        inner = t.strip()[1:-1]
        for ch in inner:
            if ch == "[":
                depth += 1
                cur = "" if depth == 1 else cur + ch
            elif ch == "]":
                depth -= 1
                if depth == 0:
                    res.append([tuple(int(x) for x in p.strip("() ").split(",")) for p in cur.split(";") if p.strip()])
                else:
                    cur += ch
            elif depth >= 1:
                cur += ch
        return res
    mm_code, mm_spec = (parse("mm_code"), parse("mm_spec")) if rc == 0 else (None, None)
    if mm_code is None or mm_spec is None or len(mm_code) != len(cases):
        chk.fail("appkey_eval.txt", "in-Coq evaluation of the identity cases failed:\n" + out[-3000:], no_input=True)
        return
    ncode = sum(1 for x in mm_code if x)
    nspec = sum(1 for x in mm_spec if x)
    chk.cov.setdefault("stages", {})["appkey"] = {"cases": len(cases), "descriptions": sum(len(c["descs"]) for c in cases),
                                                    "varied_fields": fields, "differs_from_model_of_code": ncode,
                                                    "differs_from_property": nspec}
    chk.sample("application identity: %d cases / %d descriptions through real APP messages; %d differ from AppKey.code_same, "
               "%d from the property (spec_same)" % (len(cases), sum(len(c["descs"]) for c in cases), ncode, nspec))
    reported = 0
    for i, (pc, ps) in enumerate(zip(mm_code, mm_spec)):
        for (a, b) in ps:
            same_obs = obs[i]["class"][a] == obs[i]["class"][b]
            info = {"what": "descriptions %d and %d %s, but the daemon %s" % (
                a, b, "denote different applications (C04: identity fields / supported policies differ)" if same_obs
                else "agree on every identity field", "treats them as one application" if same_obs else "keeps two applications"),
                "case": cases[i], "observed": obs[i], "replay": "./check C04 quick  (stage appkey)"}
            if (a, b) not in pc:
                # the model of the code agrees with the code: the encoding of the supported policies itself
                da, db = cases[i]["descs"][a], cases[i]["descs"][b]
                rest_equal = all(da[f] == db[f] for f in IDENTITY if f != "policies")
                chk.fail("appkey_%d_%d_%d.json" % (i, a, b), info, sig="c04-policy-hash-concat" if rest_equal and same_obs else "c04-key-model")
            elif reported < 4:
                reported += 1
                chk.fail("appkey_%d_%d_%d.json" % (i, a, b), info, sig="c04-key-%s" % "-".join(sorted(set(cases[i]["why"]))))
        if pc and not ps and reported < 4:
            reported += 1
            chk.fail("appkey_corr_%d.json" % i, {"what": "AppKey.code_same no longer describes the daemon's decision on pairs %s "
                     "(the property holds on this case)" % pc, "case": cases[i], "observed": obs[i]}, no_input=True)
