#!/usr/bin/env python3
import importlib
import os
import sys
import traceback

sys.path.insert(0, os.path.dirname(os.path.abspath(__file__)))
import vlib  # noqa: E402


def main():
    if len(sys.argv) < 3:
        print("usage: check <ID> quick|thorough [--replay file]")
        return 2
    pid, tier = sys.argv[1].upper(), sys.argv[2]
    tier = os.environ.get("VERIF_TIER", tier)
    if tier not in ("quick", "thorough"):
        tier = "quick"
    seed = int(os.environ.get("VERIF_SEED", "20260930"))
    replay = None
    if "--replay" in sys.argv:
        replay = sys.argv[sys.argv.index("--replay") + 1]
    mod = importlib.import_module("props." + pid.lower())
    chk = vlib.Check(pid, tier, seed, level=getattr(mod, "LEVEL", "proof"))
    try:
        mod.run(chk, replay=replay)
    except SystemExit:
        raise
    except Exception:
        tb = traceback.format_exc()
        sys.stderr.write(tb)
        chk.notes.append("check crashed: " + tb[-1500:])
        chk.fail("check_crashed.txt", "the check itself failed:\n" + tb, no_input=True)
    return chk.finish()


if __name__ == "__main__":
    sys.exit(main())
