"""Shared plumbing for the /verif checks.

Every check goes through the same stages:
  1. regenerate coq/Gen/*.v from /repo's current working tree (translators)
  2. build the Coq development up to the property's theorem file (full .vo build)
  3. grep gate (no Admitted/admit/Axiom/... anywhere in the development)
  4. build the overlay-injected Go harness from /repo's current tree and run it
  5. evaluate model + monitors inside Coq (vm_compute) on the observed histories
  6. decide: exit 0 / KNOWN-FINDING / VIOLATION, write evidence/<id>.json
"""
import fcntl
import hashlib
import json
import os
import re
import subprocess
import sys
import time

ROOT = "/verif"
# The checks always verify /repo.  For mutation testing ONLY, VERIF_REPO may point at a private git
# worktree of /repo (git -C /repo worktree add /tmp/wt-x HEAD): build output and evidence of such a
# run go to a private directory so that nothing registered in MANIFEST.json is disturbed.
REPO = os.environ.get("VERIF_REPO", "/repo").rstrip("/")
DAEMON = REPO + "/daemon"
COQ = ROOT + "/coq"
if REPO == "/repo":
    BUILD = ROOT + "/build"
    EVID = ROOT + "/evidence"
else:
    BUILD = ROOT + "/build/alt_" + hashlib.sha1(REPO.encode()).hexdigest()[:10]
    EVID = BUILD + "/evidence"
    # private copy of the Coq tree (sources and compiled files): the generated Gen/*.v of a mutated
    # repository must not disturb the shared development
    os.makedirs(BUILD, exist_ok=True)
    subprocess.run(["rsync", "-a", "--delete", "--exclude", "Gen/*.v", "--exclude", "Gen/*.vo", "--exclude", "Gen/*.glob",
                    "--exclude", "Gen/.*.aux", "--exclude", "Gen/*.vok", "--exclude", "Gen/*.vos",
                    ROOT + "/coq/", BUILD + "/coq/"], check=False)
    if not os.path.isdir(BUILD + "/coq/Gen") or not os.listdir(BUILD + "/coq/Gen"):
        subprocess.run(["rsync", "-a", ROOT + "/coq/Gen/", BUILD + "/coq/Gen/"], check=False)
    COQ = BUILD + "/coq"
HARNESS_GO = ROOT + "/harness/go"
KNOWN = ROOT + "/KNOWN_FINDINGS.txt"

GOENV = dict(os.environ)
GOENV.update({
    "GOFLAGS": "-mod=mod", "GOPROXY": "off", "GOSUMDB": "off",
    "GOTOOLCHAIN": "local", "CGO_ENABLED": os.environ.get("CGO_ENABLED", "1"),
})

TRUSTED_BASE = [
    "Coq 8.16.1 kernel + vm_compute (no native_compute)",
    "translators under /verif/tools (Go constants/tables, fbs/h parsers)",
    "overlay-injected Go harness (/verif/harness/go, build tag verif) and the Python case writer",
    "hand-written Gallina models tied to the code by differential execution only",
]


def log(msg):
    sys.stderr.write(msg + "\n")
    sys.stderr.flush()


def sh(cmd, timeout=600, env=None, cwd=None, stdin=None):
    """Run a command; returns (rc, combined output). rc=124 on timeout."""
    try:
        p = subprocess.run(cmd, shell=isinstance(cmd, str), cwd=cwd, env=env,
                           stdout=subprocess.PIPE, stderr=subprocess.STDOUT,
                           timeout=timeout, input=stdin)
        return p.returncode, p.stdout.decode("utf-8", "replace")
    except subprocess.TimeoutExpired as e:
        out = (e.stdout or b"").decode("utf-8", "replace")
        return 124, out + "\n[timeout after %ss]" % timeout


class Lock:
    def __init__(self, name):
        os.makedirs(BUILD, exist_ok=True)
        self.path = os.path.join(BUILD, name + ".lock")

    def __enter__(self):
        self.f = open(self.path, "w")
        fcntl.flock(self.f, fcntl.LOCK_EX)
        return self

    def __exit__(self, *a):
        fcntl.flock(self.f, fcntl.LOCK_UN)
        self.f.close()


def write_if_changed(path, text):
    try:
        with open(path) as f:
            if f.read() == text:
                return False
    except FileNotFoundError:
        pass
    os.makedirs(os.path.dirname(path), exist_ok=True)
    tmp = path + ".tmp%d" % os.getpid()
    with open(tmp, "w") as f:
        f.write(text)
    os.replace(tmp, path)
    return True


# ---------------------------------------------------------------- translators

def gen_facts():
    """Regenerate coq/Gen/*.v from the current tree. Returns (ok, log)."""
    with Lock("gen"):
        os.makedirs(BUILD, exist_ok=True)
        rc, out = sh([sys.executable, ROOT + "/tools/gen_all.py"], timeout=300, env=GOENV)
    return rc == 0, out


# ------------------------------------------------------------------ Coq build

FORBIDDEN = re.compile(
    r"\b(Admitted|admit|Axiom|Axioms|Parameter|Parameters|Conjecture|Conjectures|"
    r"Admit\s+Obligations|bypass_check|Unset\s+Guard\s+Checking|Unset\s+Positivity\s+Checking|"
    r"Unset\s+Universe\s+Checking|type-in-type|impredicative-set)\b")


def strip_coq_comments(text):
    out, depth, i, n = [], 0, 0, len(text)
    in_str = False
    while i < n:
        c = text[i]
        if depth == 0 and c == '"':
            in_str = not in_str
            out.append(c)
            i += 1
            continue
        if not in_str and text.startswith("(*", i):
            depth += 1
            i += 2
            continue
        if not in_str and depth > 0 and text.startswith("*)", i):
            depth -= 1
            i += 2
            continue
        if depth == 0:
            out.append(c)
        elif c == "\n":
            out.append(c)
        i += 1
    return "".join(out)


def grep_gate():
    """No axioms / admits / disabled checks anywhere in the development."""
    bad = []
    for dp, _, fs in os.walk(COQ):
        for fn in fs:
            if not fn.endswith(".v"):
                continue
            p = os.path.join(dp, fn)
            txt = strip_coq_comments(open(p).read())
            # Variable/Hypothesis outside a Section
            depth = 0
            for ln, line in enumerate(txt.split("\n"), 1):
                s = line.strip()
                if re.match(r"^Section\b", s):
                    depth += 1
                elif re.match(r"^End\b", s) and depth > 0:
                    depth -= 1
                if FORBIDDEN.search(line):
                    bad.append("%s:%d: %s" % (p, ln, s))
                if depth == 0 and re.match(r"^(Variable|Variables|Hypothesis|Hypotheses|Context)\b", s):
                    bad.append("%s:%d: %s (outside a section)" % (p, ln, s))
    for fn in ("_CoqProject",):
        t = open(os.path.join(COQ, fn)).read()
        if "-type-in-type" in t or "-impredicative-set" in t or "-vos" in t:
            bad.append("_CoqProject: forbidden flag")
    return bad


def coq_project():
    """_CoqProject lists every .v file under coq/ (generated: nobody edits it by hand)."""
    files = []
    for dp, dn, fs in os.walk(COQ):
        dn.sort()
        for fn in sorted(fs):
            if fn.endswith(".v") and not fn.startswith("."):
                files.append(os.path.relpath(os.path.join(dp, fn), COQ))
    files.sort()
    write_if_changed(os.path.join(COQ, "_CoqProject"), "-Q . Verif\n" + "\n".join(files) + "\n")


def coq_makefile():
    coq_project()
    mk = os.path.join(COQ, "Makefile")
    proj = os.path.join(COQ, "_CoqProject")
    if (not os.path.exists(mk)) or os.path.getmtime(mk) < os.path.getmtime(proj):
        rc, out = sh("coq_makefile -f _CoqProject -o Makefile", cwd=COQ, timeout=60)
        if rc != 0:
            raise RuntimeError("coq_makefile failed: " + out)


def coq_make(targets, timeout=1500, jobs=16):
    """Full .vo build of the given targets (and what they depend on)."""
    with Lock("coq"):
        coq_makefile()
        cmd = ["timeout", str(timeout), "make", "-j%d" % jobs] + list(targets)
        rc, out = sh(cmd, cwd=COQ, timeout=timeout + 30)
    return rc == 0, out


def coqc_file(path, timeout=600, cwd=None):
    # generated case files hold very large list literals: give coqc's parser an unlimited stack
    import shlex
    cmd = ["bash", "-c", "ulimit -s unlimited 2>/dev/null || ulimit -s 4000000 2>/dev/null; exec timeout %d coqc -Q %s Verif %s"
           % (timeout, shlex.quote(COQ), shlex.quote(path))]
    return sh(cmd, cwd=cwd or os.path.dirname(path), timeout=timeout + 30)


def prop_theorems(prop_file):
    """Theorem names and Print Assumptions output of coq/PropCxx.v (recompiled here)."""
    txt = strip_coq_comments(open(prop_file).read())
    names = re.findall(r"^\s*Theorem\s+([A-Za-z0-9_']+)", txt, re.M)
    with Lock("coq"):
        rc, out = coqc_file(prop_file, cwd=COQ)
    closed = out.count("Closed under the global context")
    axioms = []
    if "Axioms:" in out:
        for blk in out.split("Axioms:")[1:]:
            for line in blk.split("\n")[1:]:
                m = re.match(r"^([A-Za-z0-9_.']+)\s*:", line)
                if m:
                    axioms.append(m.group(1))
                elif line.strip() == "" or not line.startswith(" "):
                    if not m and line.strip() and not line.startswith(" "):
                        break
    return {"ok": rc == 0, "theorems": names, "closed": closed,
            "axioms": sorted(set(axioms)), "log": out}


# ------------------------------------------------------------------ Go harness

PKGS = {
    "newrelic": "internal/newrelic",
    "collector": "internal/newrelic/collector",
    "infinite_tracing": "internal/newrelic/infinite_tracing",
    "config": "internal/newrelic/config",
    "main": "cmd/daemon",
    "protocol": "internal/newrelic/protocol",
    "jsonx": "internal/newrelic/jsonx",
}


def overlay_json(extra_replace=None, only=None, name="overlay"):
    """Overlay that ADDS the harness files (tag verif) next to the real sources.
    only: list of property ids; then only zz_verif_<id>_*.go / zz_verif_<id>_test.go and
    zz_verif_common*.go files are injected (so one property's harness cannot break another's)."""
    repl = {}
    for pkg, rel in PKGS.items():
        d = os.path.join(HARNESS_GO, pkg)
        if not os.path.isdir(d):
            continue
        for fn in sorted(os.listdir(d)):
            if not fn.endswith(".go"):
                continue
            if only is not None:
                m = re.match(r"^zz_verif_([a-z0-9]+)[_.]", fn)
                tag = m.group(1) if m else ""
                if tag != "common" and tag not in [o.lower() for o in only]:
                    continue
            repl[os.path.join(DAEMON, rel, fn)] = os.path.join(d, fn)
    # extra injected packages (e.g. veriftime)
    xd = os.path.join(HARNESS_GO, "_pkgs")
    if os.path.isdir(xd):
        for dp, _, fs in os.walk(xd):
            for fn in fs:
                if fn.endswith(".go"):
                    rel = os.path.relpath(os.path.join(dp, fn), xd)
                    repl[os.path.join(DAEMON, "internal/newrelic", rel)] = os.path.join(dp, fn)
    if extra_replace:
        repl.update(extra_replace)
    path = os.path.join(BUILD, name + ".json")
    write_if_changed(path, json.dumps({"Replace": repl}, indent=1, sort_keys=True))
    return path


def go_test_binary(pkg, race=False, extra_replace=None, tagname=None, only=None):
    """Build the test binary of one daemon package from /repo's current tree
    with the harness files overlaid.  Returns (path|None, log).
    only=[ids]: inject only those properties' harness files (plus zz_verif_common*)."""
    os.makedirs(BUILD, exist_ok=True)
    if only is not None and tagname is None:
        tagname = "_".join(o.lower() for o in only)
    with Lock("go"):
        ov = overlay_json(extra_replace, only=only, name="overlay" + ("_" + tagname if tagname else ""))
        out_bin = os.path.join(BUILD, "%s%s%s.test" % (pkg, ".race" if race else "", "." + tagname if tagname else ""))
        cmd = ["go", "test", "-c", "-vet=off", "-tags", "verif", "-overlay", ov, "-o", out_bin]
        if race:
            cmd.append("-race")
        cmd.append("./" + PKGS[pkg])
        rc, out = sh(cmd, cwd=DAEMON, env=GOENV, timeout=600)
    if rc != 0:
        return None, out
    return out_bin, out


def go_build_daemon():
    """Build the real daemon binary from the current tree."""
    out_bin = os.path.join(BUILD, "nrdaemon")
    with Lock("go"):
        rc, out = sh(["go", "build", "-o", out_bin, "./cmd/daemon"], cwd=DAEMON, env=GOENV, timeout=600)
    return (out_bin if rc == 0 else None), out


def run_go_test(binary, test, env_extra=None, timeout=300, cwd=None):
    env = dict(GOENV)
    env.update(env_extra or {})
    cmd = ["timeout", "-s", "KILL", str(timeout), binary, "-test.run", "^" + test + "$", "-test.count=1",
           "-test.timeout", "%ds" % timeout, "-test.v"]
    return sh(cmd, env=env, timeout=timeout + 20, cwd=cwd or BUILD)


# --------------------------------------------------------- Coq term printing

def cN(n):
    return "%d%%N" % n


def cZ(n):
    return "(%d)%%Z" % n


def cnat(n):
    return "%d%%nat" % n


def cbool(b):
    return "true" if b else "false"


def clist(items):
    return "[" + "; ".join(items) + "]"


def cbytes(bs):
    """bytes -> list N"""
    if len(bs) == 0:
        return "(@nil N)"
    return "[" + ";".join(str(b) for b in bs) + "]%N"


def coption(x):
    return "None" if x is None else "(Some %s)" % x


def cpair(a, b):
    return "(%s, %s)" % (a, b)


def coq_eval(name, vtext, timeout=900):
    """Compile build/<name>.v; returns (rc, output)."""
    os.makedirs(BUILD, exist_ok=True)
    p = os.path.join(BUILD, name + ".v")
    with open(p, "w") as f:
        f.write(vtext)
    rc, out = coqc_file(p, timeout=timeout, cwd=BUILD)
    for ext in (".vo", ".vok", ".vos", ".glob"):
        try:
            os.remove(os.path.join(BUILD, name + ext))
        except FileNotFoundError:
            pass
    try:
        os.remove(os.path.join(BUILD, "." + name + ".aux"))
    except FileNotFoundError:
        pass
    return rc, out


def parse_printed(out, ident):
    """Value printed by `Print ident.` for a definition computed with Eval vm_compute:
    returns the text between '<ident> = ' and the following '\n     : '."""
    m = re.search(r"(?:^|\n)" + re.escape(ident) + r" =\s*(.*?)\n\s+: ", out, re.S)
    if not m:
        return None
    # Coq's printer may break a line right behind an opening parenthesis: "(\n 14%nat, 103%N, 21%nat)"
    t = re.sub(r"\s+", " ", m.group(1)).strip()
    return t.replace("( ", "(").replace(" )", ")")


def parse_nat_list(txt):
    """'[1; 2; 3]' or '[]' (with optional %N/%nat/%Z suffixes) -> [1,2,3]"""
    if txt is None:
        return None
    t = txt.strip()
    t = re.sub(r"%[A-Za-z]+", "", t)
    if t in ("[]", "nil"):
        return []
    t = t.strip("[]")
    return [int(x.strip().strip("()")) for x in t.split(";") if x.strip()]


# ------------------------------------------------------------ known findings

def load_known(pid):
    """Returns (findings, fixed): lists of dicts for this property."""
    findings, fixed = [], []
    if not os.path.exists(KNOWN):
        return findings, fixed
    for line in open(KNOWN):
        line = line.strip()
        if not line or line.startswith("#"):
            continue
        m = re.match(r"^finding:\s+property=(\S+)\s+sig=(\S+)\s+(.*)$", line)
        if m and m.group(1) == pid:
            findings.append({"sig": m.group(2), "what": m.group(3)})
            continue
        m = re.match(r"^fixed:\s+property=(\S+)\s+(\S+)\s+(.*)$", line)
        if m and m.group(1) == pid:
            fixed.append({"commit": m.group(2), "what": m.group(3)})
    return findings, fixed


# ------------------------------------------------------------------- results

class Check:
    """Collects what one run of one property's check established."""

    def __init__(self, pid, tier, seed, level="proof"):
        self.pid, self.tier, self.seed, self.level = pid, tier, seed, level
        self.t0 = time.time()
        self.violations = []      # (replay_path, suffix)
        self.known_hits = []      # (sig, what)
        self.cov = {"evaluations": 0, "distinct_nontrivial": 0, "rule": "", "samples": [],
                    "obligations": 0, "discharged": 0, "checker_cmd": "", "trusted_base": list(TRUSTED_BASE)}
        self.assumptions = []
        self.notes = []
        self._hashes = set()
        self.findings, self.fixed = load_known(pid)

    # coverage helpers
    def count_case(self, projected, nontrivial=True):
        self.cov["evaluations"] += 1
        if nontrivial:
            h = hashlib.sha1(json.dumps(projected, sort_keys=True, default=str).encode()).hexdigest()
            if h not in self._hashes:
                self._hashes.add(h)
                self.cov["distinct_nontrivial"] = len(self._hashes)

    def sample(self, s, maxn=4):
        if len(self.cov["samples"]) < maxn:
            self.cov["samples"].append(s)

    def replay_file(self, name, content):
        d = os.path.join(BUILD, "replay")
        os.makedirs(d, exist_ok=True)
        p = os.path.join(d, "%s_%s" % (self.pid, name))
        with open(p, "w") as f:
            if isinstance(content, str):
                f.write(content)
            else:
                json.dump(content, f, indent=1, default=str)
        return p

    def fail(self, replay_name, content, sig=None, no_input=False):
        """Record a failing case.  If its signature is a listed known finding it is
        reported as KNOWN-FINDING, otherwise as a VIOLATION."""
        if sig is not None:
            for k in self.findings:
                if k["sig"] == sig:
                    if sig not in [s for s, _ in self.known_hits]:
                        self.known_hits.append((sig, k["what"]))
                    return
        p = self.replay_file(replay_name, content)
        self.violations.append((p, " no-failing-input-found" if no_input else ""))

    def theorems(self, prop_file, build_ok, build_log):
        """Record proof obligations = theorems of PropCxx.v; discharged = accepted by coqc."""
        info = {"ok": False, "theorems": [], "closed": 0, "axioms": [], "log": build_log}
        if build_ok:
            info = prop_theorems(prop_file)
        else:
            txt = strip_coq_comments(open(prop_file).read())
            info["theorems"] = re.findall(r"^\s*Theorem\s+([A-Za-z0-9_']+)", txt, re.M)
        self.cov["obligations"] = len(info["theorems"])
        self.cov["discharged"] = len(info["theorems"]) if info["ok"] else 0
        self.cov["theorems"] = info["theorems"]
        self.cov["print_assumptions_closed"] = info["closed"]
        self.cov["axioms"] = info["axioms"]
        self.cov["checker_cmd"] = "make -C /verif/coq %s.vo && coqc -Q /verif/coq Verif %s" % (
            os.path.basename(prop_file)[:-2], prop_file)
        return info

    def finish(self):
        os.makedirs(EVID, exist_ok=True)
        ev = {
            "property_id": self.pid, "tier": self.tier, "seed": self.seed, "level": self.level,
            "coverage": self.cov, "assumptions": self.assumptions,
            "wall_s": round(time.time() - self.t0, 2),
            "violations": len(self.violations),
        }
        if self.known_hits:
            ev["known_findings_hit"] = [s for s, _ in self.known_hits]
        if self.notes:
            ev["notes"] = self.notes
        if not self.cov["samples"]:
            self.cov["samples"] = ["(no case was run)"]
        with open(os.path.join(EVID, self.pid + ".json"), "w") as f:
            json.dump(ev, f, indent=1, default=str)
        for sig, what in self.known_hits:
            print("KNOWN-FINDING: property=%s %s (%s)" % (self.pid, what, sig))
        for p, suffix in self.violations[:5]:
            print("VIOLATION property=%s replay=%s%s" % (self.pid, p, suffix))
        sys.stdout.flush()
        return 1 if self.violations else 0


def std_coq_stage(chk, prop_target, gen=True, extra_targets=()):
    """Stages 1-3 shared by every property.  Returns dict(build_ok, log)."""
    if gen:
        ok, out = gen_facts()
        if not ok:
            chk.notes.append("translator failed: " + out[-2000:])
            chk.fail("translator_failed.txt", "translator (tools/gen_all.py) failed on the current tree:\n" + out,
                     no_input=True)
    bad = grep_gate()
    if bad:
        print("GATE: forbidden construct in the Coq development:\n" + "\n".join(bad))
        sys.exit(2)
    ok, out = coq_make([prop_target + ".vo"] + [t + ".vo" for t in extra_targets])
    info = chk.theorems(os.path.join(COQ, prop_target + ".v"), ok, out)
    if not ok:
        chk.notes.append("coq build failed: " + out[-3000:])
    return {"build_ok": ok and info["ok"], "log": out if not ok else info["log"], "info": info}
