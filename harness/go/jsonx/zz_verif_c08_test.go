//go:build verif

package jsonx

// C08 harness (package jsonx): AppendString on given byte strings (and on every two-byte string when
// asked), utf8.DecodeRuneInString on the same strings, AppendFloatArray on given float64 bit patterns.

import (
	"bytes"
	enchex "encoding/hex"
	"encoding/json"
	"io/ioutil"
	"math"
	"os"
	"strconv"
	"testing"
	"unicode/utf8"
)

type c08StrObs struct {
	Out   string `json:"out"`  // hex of what AppendString wrote
	Rune  int    `json:"rune"` // utf8.DecodeRuneInString
	Size  int    `json:"size"`
	Valid bool   `json:"valid"` // encoding/json's opinion of the output
}

type c08FloatObs struct {
	Out   *string  `json:"out"`   // hex, nil when AppendFloatArray returned an error
	Frags []string `json:"frags"` // strconv rendering per element (hex), "BAD" for NaN/Inf
	Valid bool     `json:"valid"`
}

func c08Str(s string) c08StrObs {
	buf := &bytes.Buffer{}
	AppendString(buf, s)
	r, n := utf8.DecodeRuneInString(s)
	return c08StrObs{Out: enchex.EncodeToString(buf.Bytes()), Rune: int(r), Size: n, Valid: json.Valid(buf.Bytes())}
}

func TestVerifC08(t *testing.T) {
	inPath, outPath := os.Getenv("VERIF_IN"), os.Getenv("VERIF_OUT")
	if inPath == "" {
		t.Skip("harness only")
	}
	var in struct {
		Strings []string   `json:"strings"` // hex
		All2    bool       `json:"all2"`
		Floats  [][]string `json:"floats"` // float64 bit patterns, decimal uint64
	}
	raw, err := ioutil.ReadFile(inPath)
	if err != nil {
		t.Fatal(err)
	}
	if err := json.Unmarshal(raw, &in); err != nil {
		t.Fatal(err)
	}
	out := struct {
		Strings []c08StrObs   `json:"strings"`
		All2    []string      `json:"all2"` // hex outputs for (a,b) = (i>>8, i&255), i = 0..65535
		All2OK  bool          `json:"all2_valid"`
		Floats  []c08FloatObs `json:"floats"`
	}{All2OK: true}
	for _, h := range in.Strings {
		b, err := enchex.DecodeString(h)
		if err != nil {
			t.Fatal(err)
		}
		out.Strings = append(out.Strings, c08Str(string(b)))
	}
	if in.All2 {
		for i := 0; i < 65536; i++ {
			buf := &bytes.Buffer{}
			AppendString(buf, string([]byte{byte(i >> 8), byte(i & 255)}))
			out.All2 = append(out.All2, enchex.EncodeToString(buf.Bytes()))
			if !json.Valid(buf.Bytes()) {
				out.All2OK = false
			}
		}
	}
	for _, fa := range in.Floats {
		var xs []float64
		o := c08FloatObs{}
		for _, bits := range fa {
			u, err := strconv.ParseUint(bits, 10, 64)
			if err != nil {
				t.Fatal(err)
			}
			x := math.Float64frombits(u)
			xs = append(xs, x)
			if math.IsNaN(x) || math.IsInf(x, 0) {
				o.Frags = append(o.Frags, "BAD")
			} else {
				o.Frags = append(o.Frags, enchex.EncodeToString(strconv.AppendFloat(nil, x, 'g', -1, 64)))
			}
		}
		buf := &bytes.Buffer{}
		if err := AppendFloatArray(buf, xs...); err == nil {
			s := enchex.EncodeToString(buf.Bytes())
			o.Out = &s
			o.Valid = json.Valid(buf.Bytes())
		}
		out.Floats = append(out.Floats, o)
	}
	ob, _ := json.Marshal(out)
	if err := ioutil.WriteFile(outPath, ob, 0644); err != nil {
		t.Fatal(err)
	}
}
