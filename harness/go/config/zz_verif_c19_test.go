//go:build verif

package config

// C19 harness (package config): ParseString on arbitrary byte strings into a struct with one field of
// every kind main.Config uses, keywords with dots, digits, underscores and a non-ASCII letter, an
// untagged field and an ignored one.  Watchdog for loops, recover for panics.

import (
	"encoding/hex"
	"encoding/json"
	"fmt"
	"io/ioutil"
	"os"
	"reflect"
	"testing"
	"time"

	"github.com/newrelic/newrelic-php-agent/daemon/internal/newrelic/log"
)

type verifC19Mirror struct {
	S     string        `config:"s"`
	Dot   string        `config:"a.b.c"`
	Uni   string        `config:"clé.ß2"`
	B     bool          `config:"b"`
	I     int           `config:"i"`
	N     uint64        `config:"n_1"`
	T     Timeout       `config:"t"`
	D     time.Duration `config:"d"`
	L     log.Level     `config:"l"`
	NoTag string
	Skip  string `config:"-"`
}

type verifC19Obs struct {
	Outcome string                 `json:"outcome"` // ok | err | panic | hang
	Cfg     map[string]interface{} `json:"cfg,omitempty"`
	Detail  string                 `json:"detail,omitempty"`
}

func verifC19Dump(m *verifC19Mirror) map[string]interface{} {
	out := map[string]interface{}{}
	v := reflect.ValueOf(m).Elem()
	t := v.Type()
	for i := 0; i < t.NumField(); i++ {
		f := v.Field(i)
		name := t.Field(i).Name
		switch f.Kind() {
		case reflect.String:
			out[name] = map[string]string{"s": hex.EncodeToString([]byte(f.String()))}
		case reflect.Bool:
			out[name] = map[string]bool{"b": f.Bool()}
		case reflect.Int, reflect.Int32, reflect.Int64:
			out[name] = map[string]string{"i": fmt.Sprintf("%d", f.Int())}
		case reflect.Uint64:
			out[name] = map[string]string{"i": fmt.Sprintf("%d", f.Uint())}
		}
	}
	return out
}

func verifC19Decode(text string) verifC19Obs {
	ch := make(chan verifC19Obs, 1)
	go func() {
		var o verifC19Obs
		defer func() {
			if r := recover(); r != nil {
				o = verifC19Obs{Outcome: "panic", Detail: fmt.Sprint(r)}
			}
			ch <- o
		}()
		m := verifC19Mirror{S: "s0", B: true, I: 7, N: 8, T: Timeout(9), D: 10, L: log.LogInfo, NoTag: "nt", Skip: "sk"}
		err := ParseString(text, &m)
		if err == nil {
			o.Outcome = "ok"
		} else {
			o.Outcome = "err"
			o.Detail = err.Error()
		}
		o.Cfg = verifC19Dump(&m)
	}()
	select {
	case o := <-ch:
		return o
	case <-time.After(10 * time.Second):
		return verifC19Obs{Outcome: "hang"}
	}
}

func TestVerifC19(t *testing.T) {
	inPath, outPath := os.Getenv("VERIF_IN"), os.Getenv("VERIF_OUT")
	if inPath == "" {
		t.Skip("harness only")
	}
	raw, err := ioutil.ReadFile(inPath)
	if err != nil {
		t.Fatal(err)
	}
	var in struct {
		Texts []string `json:"texts"` // hex
	}
	if err := json.Unmarshal(raw, &in); err != nil {
		t.Fatal(err)
	}
	obs := make([]verifC19Obs, len(in.Texts))
	for i, h := range in.Texts {
		b, _ := hex.DecodeString(h)
		obs[i] = verifC19Decode(string(b))
	}
	ob, _ := json.Marshal(map[string]interface{}{"obs": obs})
	if err := ioutil.WriteFile(outPath, ob, 0644); err != nil {
		t.Fatal(err)
	}
}
