//go:build verif

package infinite_tracing

// C16 harness: the real TraceObserver (newTraceObserverWithWorker) driven by scripted scenarios with a
// gated spanBatchSender, so that the worker goroutine is always parked at a known point (connect gate,
// send gate, back-off sleep gate, idle select, a blocked channel send, gone) when the producer acts.
// Every producer call (QueueBatch / Shutdown) runs under a watchdog; a call that does not return is
// logged as "blocked", a panic of the worker or of the producer is recovered and logged as a crash.
// The event log (one mutex) with a probe after every applied op is written to $VERIF_OUT; the Python
// driver turns it into Coq terms (TraceObs.accepts / TraceObs.c16_monitor).
//
// The 15 s back-off sleep goes through verifSleep: the driver overlays a copy of the CURRENT
// trace_observer.go in which `time.Sleep(` is replaced by `verifSleep(` (nothing else is changed).

import (
	"encoding/binary"
	"encoding/json"
	"errors"
	"fmt"
	"io/ioutil"
	"math/big"
	"os"
	stdlog "log"
	"runtime"
	"strings"
	"sync"
	"testing"
	"time"
)

// ---- sleep hook (used by the woven trace_observer.go only) ----

var c16SleepMu sync.Mutex
var c16SleepRuns = map[int]*c16Run{} // worker goroutine id -> run

func verifSleep(d time.Duration) {
	c16SleepMu.Lock()
	r := c16SleepRuns[c16Gid()]
	c16SleepMu.Unlock()
	if r == nil {
		time.Sleep(d)
		return
	}
	r.setPark("sleep")
	select {
	case <-r.sleepGate:
	case <-r.abandon:
	}
	r.setPark("")
}

// Fallback hooks, woven in only when the current trace_observer.go has no time.Sleep( call any more (a back-off
// rewritten as a wait on a timer): a timer of a second or more started by the worker goroutine is the back-off, it
// fires when the scenario wakes the worker.  Timers of other goroutines and short ones are the real thing.
func verifNewTimer(d time.Duration) *time.Timer {
	c16SleepMu.Lock()
	r := c16SleepRuns[c16Gid()]
	c16SleepMu.Unlock()
	if r == nil || d < time.Second {
		return time.NewTimer(d)
	}
	t := time.NewTimer(24 * time.Hour)
	c := make(chan time.Time, 1)
	t.C = c
	r.setPark("sleep")
	go func() {
		select {
		case <-r.sleepGate:
		case <-r.abandon:
		}
		r.setPark("")
		c <- time.Now()
	}()
	return t
}

func verifAfter(d time.Duration) <-chan time.Time { return verifNewTimer(d).C }

func c16Gid() int {
	buf := make([]byte, 64)
	n := runtime.Stack(buf, false)
	var id int
	fmt.Sscanf(string(buf[:n]), "goroutine %d ", &id)
	return id
}

// state of one goroutine as shown in a full stack dump ("select", "chan send", ...); "" if not found
func c16GoState(gid int) string {
	buf := make([]byte, 1<<22)
	n := runtime.Stack(buf, true)
	s := "\n" + string(buf[:n])
	key := fmt.Sprintf("\ngoroutine %d [", gid)
	i := strings.Index(s, key)
	if i < 0 {
		return ""
	}
	rest := s[i+len(key):]
	j := strings.IndexAny(rest, "],")
	if j < 0 {
		return ""
	}
	return rest[:j]
}

func c16Waiting(st string) bool {
	switch st {
	case "select", "chan receive", "chan send", "sleep", "select (no cases)":
		return true
	}
	return false
}

// ---- input / output ----

type c16Op struct {
	Op     string `json:"op"` // call shutdown connect sendret wake resperr setclone
	C      uint64 `json:"c"`
	Ms     int    `json:"ms"`
	R      string `json:"r"` // ok shutdown restart reconnect immediate okerr
	Metric bool   `json:"metric"`
	Ok     bool   `json:"ok"`
}

type c16Scenario struct {
	Name string  `json:"name"`
	Q    uint64  `json:"q"`
	Ops  []c16Op `json:"ops"`
}

type c16Probe struct {
	Rem      uint64   `json:"rem"`
	NMsgs    int      `json:"nmsgs"`
	Peeked   bool     `json:"peeked"`
	Queued   []uint64 `json:"queued"`
	Closed   bool     `json:"closed"`
	NSent    int      `json:"nsent"`
	Init     bool     `json:"init"`
	Complete bool     `json:"complete"`
	WPos     string   `json:"wpos"`
	GoState  string   `json:"gostate"`
	Dumped   string   `json:"dumped"` // cumulative AgentQueueDumped (exact decimal of the float64 values' sum)
	SentM    string   `json:"sentm"`  // cumulative Span/Sent
}

type c16Event struct {
	K      string    `json:"k"`
	N      uint64    `json:"n,omitempty"`
	Id     uint64    `json:"id,omitempty"`
	R      string    `json:"r,omitempty"`
	Metric bool      `json:"metric,omitempty"`
	B      bool      `json:"b,omitempty"`
	Msg    string    `json:"msg,omitempty"`
	Probe  *c16Probe `json:"probe,omitempty"`
}

type c16Offer struct {
	Id       uint64 `json:"id"`
	C        uint64 `json:"c"`
	Returned bool   `json:"returned"`
	Refused  bool   `json:"refused"` // shutdown had been initiated when the call was made
}

type c16Out struct {
	Name         string     `json:"name"`
	Events       []c16Event `json:"events"`
	Applied      []bool     `json:"applied"`
	Offered      []c16Offer `json:"offered"`
	Received     [][2]uint64 `json:"received"` // (id, count) handed to sender.send
	ShutdownLate bool       `json:"shutdown_late"`
	Ended        string     `json:"ended"` // "" | "blocked" | "prodcrash"
	Unsettled    int        `json:"unsettled"`
}

// ---- one run ----

type c16Gate struct {
	err    bool
	status spanBatchSenderStatus
}

type c16Run struct {
	mu          sync.Mutex
	events      []c16Event
	to          *TraceObserver
	park        string
	workerGid   int
	workerGone  bool
	connectGate chan c16Gate
	sendGate    chan c16Gate
	sleepGate   chan struct{}
	abandon     chan struct{}
	respCh      chan spanBatchSenderStatus
	cloneOk     bool
	counts      map[uint64]uint64
	received    [][2]uint64
	dumped      *big.Int
	sentM       *big.Int
	unsettled   int
}

func (r *c16Run) log(e c16Event) {
	r.mu.Lock()
	r.events = append(r.events, e)
	r.mu.Unlock()
}

func (r *c16Run) setPark(p string) {
	r.mu.Lock()
	r.park = p
	r.mu.Unlock()
}

func (r *c16Run) snapshot() (string, int, bool) {
	r.mu.Lock()
	defer r.mu.Unlock()
	return r.park, len(r.events), r.workerGone
}

type c16Sender struct{ r *c16Run }

func (s *c16Sender) wait(gate chan c16Gate, park string) (error, spanBatchSenderStatus) {
	s.r.setPark(park)
	var g c16Gate
	select {
	case g = <-gate:
	case <-s.r.abandon:
		g = c16Gate{err: true, status: spanBatchSenderStatus{code: statusShutdown}}
	}
	s.r.setPark("")
	if g.err {
		return errors.New("scripted"), g.status
	}
	return nil, g.status
}

func (s *c16Sender) connect() (error, spanBatchSenderStatus) {
	return s.wait(s.r.connectGate, "connect")
}

func (s *c16Sender) send(batch encodedSpanBatch) (error, spanBatchSenderStatus) {
	var id uint64
	if len(batch) >= 8 {
		id = binary.LittleEndian.Uint64(batch[:8])
	}
	s.r.mu.Lock()
	n := s.r.counts[id]
	s.r.received = append(s.r.received, [2]uint64{id, n})
	s.r.events = append(s.r.events, c16Event{K: "sendcall", N: n, Id: id})
	s.r.mu.Unlock()
	return s.wait(s.r.sendGate, "send")
}

func (s *c16Sender) response() chan spanBatchSenderStatus { return s.r.respCh }
func (s *c16Sender) shutdown()                            {}
func (s *c16Sender) clone() (spanBatchSender, error) {
	s.r.mu.Lock()
	ok := s.r.cloneOk
	s.r.events = append(s.r.events, c16Event{K: "clone", B: ok})
	s.r.mu.Unlock()
	if !ok {
		return nil, errors.New("scripted clone failure")
	}
	return s, nil
}

func c16Status(rs string, metric bool) c16Gate {
	m := ""
	if metric {
		m = "Supportability/InfiniteTracing/Span/gRPC/VERIF"
	}
	switch rs {
	case "ok":
		return c16Gate{err: false, status: spanBatchSenderStatus{code: statusOk}}
	case "okerr":
		return c16Gate{err: true, status: spanBatchSenderStatus{code: statusOk, metric: m}}
	case "shutdown":
		return c16Gate{err: true, status: spanBatchSenderStatus{code: statusShutdown, metric: m}}
	case "restart":
		return c16Gate{err: true, status: spanBatchSenderStatus{code: statusRestart, metric: m}}
	case "reconnect":
		return c16Gate{err: true, status: spanBatchSenderStatus{code: statusReconnect, metric: m}}
	case "immediate":
		return c16Gate{err: true, status: spanBatchSenderStatus{code: statusImmediateRestart, metric: m}}
	}
	panic("bad status " + rs)
}

// wait until the worker goroutine is parked (or gone) and nothing moves any more
func (r *c16Run) settle(prodGid int) {
	deadline := time.Now().Add(2 * time.Second)
	stable := 0
	lastPark, lastN, lastState := "?", -1, "?"
	for time.Now().Before(deadline) {
		park, n, gone := r.snapshot()
		st := "gone"
		ok := true
		if !gone {
			st = c16GoState(r.workerGid)
			ok = c16Waiting(st)
		}
		if ok && prodGid != 0 {
			ps := c16GoState(prodGid)
			ok = ps == "" || c16Waiting(ps)
		}
		if ok && park == lastPark && n == lastN && st == lastState {
			stable++
			if stable >= 2 {
				return
			}
		} else {
			stable = 0
		}
		lastPark, lastN, lastState = park, n, st
		time.Sleep(60 * time.Microsecond)
	}
	r.unsettled++
}

func (r *c16Run) wpos() (string, string) {
	park, _, gone := r.snapshot()
	if gone {
		return "gone", "gone"
	}
	st := c16GoState(r.workerGid)
	switch park {
	case "connect", "send", "sleep":
		return park, st
	}
	switch st {
	case "chan send":
		return "chansend", st
	case "select":
		return "select", st
	}
	return "other", st
}

func (r *c16Run) probe(peek bool) {
	to := r.to
	p := &c16Probe{}
	p.WPos, p.GoState = r.wpos()
	p.Rem = to.messagesRemainingCapacity
	p.Init = to.isShutdownInitiated()
	p.Complete = to.isShutdownComplete()
	if peek {
		var got []*spanBatch
	loop:
		for {
			select {
			case b, ok := <-to.messages:
				if !ok {
					p.Closed = true
					break loop
				}
				got = append(got, b)
			default:
				break loop
			}
		}
		p.Peeked = true
		p.Queued = []uint64{}
		for _, b := range got {
			p.Queued = append(p.Queued, b.count)
			if !p.Closed {
				to.messages <- b
			}
		}
	}
	p.NMsgs = len(to.messages)
	p.NSent = len(to.messagesSent)
	if !to.isAppShutdownInitiated() {
		for name, v := range to.DumpSupportabilityMetrics() {
			bi, _ := new(big.Float).SetFloat64(v[0]).Int(nil)
			switch name {
			case supportabilityQueueDumped:
				r.dumped.Add(r.dumped, bi)
			case supportabilitySent:
				r.sentM.Add(r.sentM, bi)
			}
		}
	}
	p.Dumped, p.SentM = r.dumped.String(), r.sentM.String()
	r.log(c16Event{K: "probe", Probe: p})
}

const c16Watchdog = 300 * time.Millisecond

func c16RunScenario(sc c16Scenario) c16Out {
	out := c16Out{Name: sc.Name, Applied: make([]bool, len(sc.Ops)), Offered: []c16Offer{}, Received: [][2]uint64{}}
	to, worker := newTraceObserverWithWorker(&Config{QueueSize: sc.Q})
	r := &c16Run{to: to, connectGate: make(chan c16Gate), sendGate: make(chan c16Gate),
		sleepGate: make(chan struct{}), abandon: make(chan struct{}),
		respCh: make(chan spanBatchSenderStatus, 10), cloneOk: true, counts: map[uint64]uint64{},
		dumped: new(big.Int), sentM: new(big.Int)}
	to.sender = &c16Sender{r: r}
	started := make(chan struct{})
	go func() {
		gid := c16Gid()
		c16SleepMu.Lock()
		c16SleepRuns[gid] = r
		c16SleepMu.Unlock()
		r.mu.Lock()
		r.workerGid = gid
		r.mu.Unlock()
		close(started)
		defer func() {
			e := recover()
			r.mu.Lock()
			if e != nil {
				r.events = append(r.events, c16Event{K: "workercrash", Msg: fmt.Sprint(e)})
			} else {
				r.events = append(r.events, c16Event{K: "workerend"})
			}
			r.workerGone = true
			r.mu.Unlock()
			c16SleepMu.Lock()
			delete(c16SleepRuns, gid)
			c16SleepMu.Unlock()
		}()
		worker()
	}()
	<-started
	r.settle(0)
	r.probe(true)

	var nextId uint64 = 1
	var prodGid int
	prodBusy := false

	// a producer call under the watchdog; returns "ret" | "blocked" | "crash"
	call := func(f func(), limit time.Duration) (string, string) {
		done := make(chan interface{}, 1)
		gidc := make(chan int, 1)
		go func() {
			gidc <- c16Gid()
			defer func() { done <- recover() }()
			f()
		}()
		prodGid = <-gidc
		select {
		case p := <-done:
			prodGid = 0
			if p != nil {
				return "crash", fmt.Sprint(p)
			}
			return "ret", ""
		case <-time.After(limit):
			return "blocked", ""
		}
	}

	for i, op := range sc.Ops {
		if prodBusy {
			break
		}
		park, _, gone := r.snapshot()
		applied := false
		switch op.Op {
		case "call":
			applied = true
			id := nextId
			nextId++
			payload := make([]byte, 8)
			binary.LittleEndian.PutUint64(payload, id)
			r.mu.Lock()
			r.counts[id] = op.C
			r.mu.Unlock()
			off := c16Offer{Id: id, C: op.C, Refused: to.isShutdownInitiated()}
			r.log(c16Event{K: "call", N: op.C, Id: id})
			res, msg := call(func() { to.QueueBatch(op.C, payload) }, c16Watchdog)
			switch res {
			case "ret":
				off.Returned = true
				r.log(c16Event{K: "ret"})
			case "blocked":
				r.log(c16Event{K: "blocked"})
				out.Ended = "blocked"
				prodBusy = true
			case "crash":
				r.log(c16Event{K: "prodcrash", Msg: msg})
				out.Ended = "prodcrash"
				prodBusy = true
			}
			out.Offered = append(out.Offered, off)
		case "shutdown":
			applied = true
			d := time.Duration(op.Ms) * time.Millisecond
			var err error
			r.log(c16Event{K: "shutdown"})
			res, msg := call(func() { err = to.Shutdown(d) }, d+c16Watchdog)
			switch res {
			case "ret":
				r.log(c16Event{K: "shutdownret", B: err != nil})
			case "blocked":
				r.log(c16Event{K: "blocked"})
				out.ShutdownLate = true
				out.Ended = "blocked"
				prodBusy = true
			case "crash":
				r.log(c16Event{K: "prodcrash", Msg: msg})
				out.Ended = "prodcrash"
				prodBusy = true
			}
		case "shutdown_if_idle":
			// Shutdown, but only when the worker is idle in its select or gone (it then completes at once)
			if pos, _ := r.wpos(); pos == "select" || pos == "gone" {
				applied = true
				d := time.Duration(op.Ms) * time.Millisecond
				var err error
				r.log(c16Event{K: "shutdown"})
				res, msg := call(func() { err = to.Shutdown(d) }, d+c16Watchdog)
				switch res {
				case "ret":
					r.log(c16Event{K: "shutdownret", B: err != nil})
				case "blocked":
					r.log(c16Event{K: "blocked"})
					out.ShutdownLate = true
					out.Ended = "blocked"
					prodBusy = true
				case "crash":
					r.log(c16Event{K: "prodcrash", Msg: msg})
					out.Ended = "prodcrash"
					prodBusy = true
				}
			}
		case "connect":
			if !gone && park == "connect" {
				applied = true
				r.log(c16Event{K: "connect", R: op.R, Metric: op.Metric})
				r.connectGate <- c16Status(op.R, op.Metric)
			}
		case "sendret":
			if !gone && park == "send" {
				applied = true
				r.log(c16Event{K: "sendret", R: op.R, Metric: op.Metric})
				r.sendGate <- c16Status(op.R, op.Metric)
			}
		case "wake":
			if !gone && park == "sleep" {
				applied = true
				r.log(c16Event{K: "wake"})
				r.sleepGate <- struct{}{}
			}
		case "resperr":
			if pos, _ := r.wpos(); !gone && pos == "select" && op.R != "ok" {
				applied = true
				r.log(c16Event{K: "resperr", R: op.R, Metric: op.Metric})
				r.respCh <- c16Status(op.R, op.Metric).status
			}
		case "setclone":
			r.mu.Lock()
			r.cloneOk = op.Ok
			r.mu.Unlock()
		}
		out.Applied[i] = applied
		if applied {
			r.settle(prodGid)
			r.probe(!prodBusy)
		}
	}

	// ---- clean up: let every goroutine of this run finish (best effort; nothing is logged any more)
	r.mu.Lock()
	out.Events = append([]c16Event{}, r.events...)
	out.Received = append(out.Received, r.received...)
	out.Unsettled = r.unsettled
	r.mu.Unlock()
	close(r.abandon)
	stop := time.Now().Add(30 * time.Millisecond)
	for time.Now().Before(stop) {
		func() {
			defer func() { recover() }()
			for k := 0; k < 64; k++ {
				select {
				case <-to.messages:
				case <-to.messagesSent:
				default:
					return
				}
			}
		}()
		_, _, gone := r.snapshot()
		if gone && (prodGid == 0 || c16GoState(prodGid) == "") {
			break
		}
		time.Sleep(200 * time.Microsecond)
	}
	to.closeInitiateAppShutdown()
	return out
}

func TestVerifC16(t *testing.T) {
	inPath, outPath := os.Getenv("VERIF_IN"), os.Getenv("VERIF_OUT")
	if inPath == "" || outPath == "" {
		t.Skip("VERIF_IN / VERIF_OUT not set")
	}
	raw, err := ioutil.ReadFile(inPath)
	if err != nil {
		t.Fatal(err)
	}
	stdlog.SetOutput(ioutil.Discard)
	var in struct {
		Scenarios []c16Scenario `json:"scenarios"`
	}
	if err := json.Unmarshal(raw, &in); err != nil {
		t.Fatal(err)
	}
	res := struct {
		Scenarios []c16Out `json:"scenarios"`
	}{}
	for _, sc := range in.Scenarios {
		res.Scenarios = append(res.Scenarios, c16RunScenario(sc))
	}
	b, _ := json.Marshal(res)
	if err := ioutil.WriteFile(outPath, b, 0644); err != nil {
		t.Fatal(err)
	}
}
