//go:build verif

package collector

// C14 harness, package collector part: the REAL LicenseKey.String, RpmCmd.url(true/false) and
// removeURLFromError on generated keys, commands and error chains.

import (
	"encoding/json"
	"errors"
	"fmt"
	"io/ioutil"
	"net/url"
	"os"
	"testing"
)

type c14Key struct {
	Key   string `json:"key"`
	Host  string `json:"host"`
	Name  string `json:"name"`
	RunID string `json:"run_id"`
}

// error chain, outermost first: {"k":"plain","msg":..} | {"k":"wrap","pre":..,"post":..} | {"k":"url","op":..,"url":..}
type c14ErrNode struct {
	K    string `json:"k"`
	Msg  string `json:"msg"`
	Pre  string `json:"pre"`
	Post string `json:"post"`
	Op   string `json:"op"`
	URL  string `json:"url"`
}

type c14ColIn struct {
	Keys []c14Key       `json:"keys"`
	Errs [][]c14ErrNode `json:"errs"`
}

type c14KeyObs struct {
	Str    string `json:"str"`
	URLObf string `json:"url_obf"`
	URLRaw string `json:"url_raw"`
}

type c14ColOut struct {
	Keys []c14KeyObs `json:"keys"`
	Errs []string    `json:"errs"` // Error() after removeURLFromError
}

type c14Wrap struct {
	pre, post string
	inner     error
}

func (w *c14Wrap) Error() string { return w.pre + w.inner.Error() + w.post }
func (w *c14Wrap) Unwrap() error { return w.inner }

func c14Build(chain []c14ErrNode) error {
	if len(chain) == 0 {
		return errors.New("")
	}
	n := chain[0]
	switch n.K {
	case "plain":
		return errors.New(n.Msg)
	case "wrap":
		inner := c14Build(chain[1:])
		if n.Post == "" {
			return fmt.Errorf("%s%w", n.Pre, inner) // the usual way of wrapping
		}
		return &c14Wrap{n.Pre, n.Post, inner}
	case "url":
		return &url.Error{Op: n.Op, URL: n.URL, Err: c14Build(chain[1:])}
	}
	return errors.New("?")
}

func TestVerifC14(t *testing.T) {
	inp, outp := os.Getenv("VERIF_IN"), os.Getenv("VERIF_OUT")
	if inp == "" || outp == "" {
		t.Skip("VERIF_IN / VERIF_OUT not set")
	}
	raw, err := ioutil.ReadFile(inp)
	if err != nil {
		t.Fatal(err)
	}
	var in c14ColIn
	if err := json.Unmarshal(raw, &in); err != nil {
		t.Fatal(err)
	}
	out := c14ColOut{Keys: []c14KeyObs{}, Errs: []string{}}
	for _, k := range in.Keys {
		cmd := RpmCmd{Name: k.Name, Collector: k.Host, RunID: k.RunID, License: LicenseKey(k.Key)}
		out.Keys = append(out.Keys, c14KeyObs{Str: LicenseKey(k.Key).String(), URLObf: cmd.url(true), URLRaw: cmd.url(false)})
	}
	for _, chain := range in.Errs {
		e := removeURLFromError(c14Build(chain))
		out.Errs = append(out.Errs, e.Error())
	}
	js, err := json.Marshal(out)
	if err != nil {
		t.Fatal(err)
	}
	if err := ioutil.WriteFile(outp, js, 0644); err != nil {
		t.Fatal(err)
	}
}
