//go:build verif

package collector

// C05 harness (package collector): the limit-negotiation functions of event_data.go called directly:
// getEventConfig, EventHarvestConfig.UnmarshalJSON, SpanEventHarvestConfig.UnmarshalJSON,
// NewHarvestLimits / NewEventHarvestConfig + MarshalJSON.  Reads $VERIF_IN, writes $VERIF_OUT.

import (
	"encoding/json"
	"io/ioutil"
	"os"
	"strconv"
	"testing"
	"time"
)

type c05Gec struct {
	Raw    *string `json:"raw"` // decimal int64, null = nil pointer
	Rate   string  `json:"rate"`
	DLimit string  `json:"dlimit"`
	DRate  string  `json:"drate"`
}
type c05GecOut struct {
	Err    bool  `json:"err"`
	Limit  int64 `json:"limit"`
	Period int64 `json:"period"`
}
type c05EhcOut struct {
	Err     bool    `json:"err"`
	Report  int64   `json:"report"`
	Limits  []int64 `json:"limits"` // error, txn, custom, span, log
	Periods []int64 `json:"periods"`
}
type c05NhlOut struct {
	Limits  []int64 `json:"limits"`
	Periods []int64 `json:"periods"`
	Report  int64   `json:"report"`
	JSONMs  int64   `json:"json_ms"`
	JSON    []int64 `json:"json"` // harvest_limits of the marshalled NewEventHarvestConfig
	JSONOK  bool    `json:"json_ok"`
}

func c05I(s string) int64 {
	v, err := strconv.ParseInt(s, 10, 64)
	if err != nil {
		panic(err)
	}
	return v
}

func c05Events(c EventConfigs) ([]int64, []int64) {
	es := []Event{c.ErrorEventConfig, c.AnalyticEventConfig, c.CustomEventConfig, c.SpanEventConfig, c.LogEventConfig}
	l, p := []int64{}, []int64{}
	for _, e := range es {
		l = append(l, int64(e.Limit))
		p = append(p, int64(e.ReportPeriod))
	}
	return l, p
}

func TestVerifC05(t *testing.T) {
	inPath, outPath := os.Getenv("VERIF_IN"), os.Getenv("VERIF_OUT")
	if inPath == "" {
		t.Skip("harness only")
	}
	var in struct {
		Gec  []c05Gec     `json:"gec"`
		Ehc  []string     `json:"ehc"`
		Sehc []string     `json:"sehc"`
		Nhl  []*[3]string `json:"nhl"` // span, log, custom agent limits as decimal int64; null = nil pointer
	}
	raw, err := ioutil.ReadFile(inPath)
	if err != nil {
		t.Fatal(err)
	}
	if err := json.Unmarshal(raw, &in); err != nil {
		t.Fatal(err)
	}
	var out struct {
		Gec  []c05GecOut `json:"gec"`
		Ehc  []c05EhcOut `json:"ehc"`
		Sehc []c05GecOut `json:"sehc"`
		Nhl  []c05NhlOut `json:"nhl"`
	}
	out.Gec, out.Ehc, out.Sehc, out.Nhl = []c05GecOut{}, []c05EhcOut{}, []c05GecOut{}, []c05NhlOut{}
	for _, c := range in.Gec {
		var rawp *int
		if c.Raw != nil {
			v := int(c05I(*c.Raw))
			rawp = &v
		}
		l, p, err := getEventConfig(rawp, time.Duration(c05I(c.Rate)), int(c05I(c.DLimit)), time.Duration(c05I(c.DRate)))
		out.Gec = append(out.Gec, c05GecOut{Err: err != nil, Limit: int64(l), Period: int64(p)})
	}
	for _, s := range in.Ehc {
		var cfg EventHarvestConfig
		err := json.Unmarshal([]byte(s), &cfg)
		o := c05EhcOut{Err: err != nil, Report: int64(cfg.ReportPeriod)}
		o.Limits, o.Periods = c05Events(cfg.EventConfigs)
		out.Ehc = append(out.Ehc, o)
	}
	for _, s := range in.Sehc {
		var cfg SpanEventHarvestConfig
		err := json.Unmarshal([]byte(s), &cfg)
		out.Sehc = append(out.Sehc, c05GecOut{Err: err != nil, Limit: int64(cfg.SpanEventConfig.Limit), Period: int64(cfg.SpanEventConfig.ReportPeriod)})
	}
	for _, a := range in.Nhl {
		var ap *EventConfigs
		if a != nil {
			ap = &EventConfigs{}
			ap.SpanEventConfig.Limit = int(c05I(a[0]))
			ap.LogEventConfig.Limit = int(c05I(a[1]))
			ap.CustomEventConfig.Limit = int(c05I(a[2]))
		}
		o := c05NhlOut{}
		o.Limits, o.Periods = c05Events(NewHarvestLimits(ap))
		ehc := NewEventHarvestConfig(ap)
		o.Report = int64(ehc.ReportPeriod)
		if js, err := json.Marshal(ehc); err == nil {
			var w struct {
				Ms uint64 `json:"report_period_ms"`
				HL struct {
					E *int64 `json:"error_event_data"`
					A *int64 `json:"analytic_event_data"`
					C *int64 `json:"custom_event_data"`
					S *int64 `json:"span_event_data"`
					L *int64 `json:"log_event_data"`
				} `json:"harvest_limits"`
			}
			if json.Unmarshal(js, &w) == nil && w.HL.E != nil && w.HL.A != nil && w.HL.C != nil && w.HL.S != nil && w.HL.L != nil {
				o.JSONMs, o.JSON, o.JSONOK = int64(w.Ms), []int64{*w.HL.E, *w.HL.A, *w.HL.C, *w.HL.S, *w.HL.L}, true
			}
		}
		out.Nhl = append(out.Nhl, o)
	}
	ob, err := json.Marshal(out)
	if err != nil {
		t.Fatal(err)
	}
	if err := ioutil.WriteFile(outPath, ob, 0644); err != nil {
		t.Fatal(err)
	}
}
