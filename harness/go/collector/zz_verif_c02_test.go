//go:build verif

package collector

// C02 / C03 status-class correspondence (model: coq/Status.v).
//
// 1. "direct": newRPMResponse(code) for every code in -5..1100 and NewRPMResponseError.
// 2. "http": the REAL client (NewClient: clientImpl behind the limiter, TLS) executes a command against a
//    local server that answers with every status code 200..599; a 200 answer carries each body shape
//    (return_value, exception, malformed, empty).
// For each, the observable class is (Err == nil, IsDisconnect, IsRestartException, IsInvalidLicense,
// ShouldSaveHarvestData) plus the StatusCode the response reports.

import (
	"encoding/json"
	"encoding/pem"
	"fmt"
	"io/ioutil"
	"net/http"
	"net/http/httptest"
	"os"
	"path/filepath"
	"strings"
	"sync/atomic"
	"testing"
	"time"
)

type c02Obs struct {
	Via    string `json:"via"`
	Code   int    `json:"code"`   // the code given / served
	Body   string `json:"body"`   // body kind served (http only)
	Status int    `json:"status"` // RPMResponse.StatusCode
	Ok     bool   `json:"ok"`     // Err == nil
	Disc   bool   `json:"disc"`
	Restart bool  `json:"restart"`
	Invalid bool  `json:"invalid"`
	Save   bool   `json:"save"`
	HasBody bool  `json:"has_body"`
}

func c02Class(via string, code int, body string, r RPMResponse) c02Obs {
	return c02Obs{Via: via, Code: code, Body: body, Status: r.StatusCode, Ok: r.Err == nil, Disc: r.IsDisconnect(),
		Restart: r.IsRestartException(), Invalid: r.IsInvalidLicense(), Save: r.ShouldSaveHarvestData(),
		HasBody: len(r.Body) > 0}
}

func TestVerifC02Status(t *testing.T) {
	outPath := os.Getenv("VERIF_OUT")
	if outPath == "" {
		t.Skip("VERIF_OUT not set")
	}
	var obs []c02Obs
	for code := -5; code <= 1100; code++ {
		obs = append(obs, c02Class("direct", code, "", newRPMResponse(code)))
	}
	obs = append(obs, c02Class("error", 0, "", NewRPMResponseError(fmt.Errorf("verif: transport"))))

	var cur atomic.Value
	type served struct {
		code int
		body string
	}
	cur.Store(served{200, ""})
	srv := httptest.NewTLSServer(http.HandlerFunc(func(w http.ResponseWriter, r *http.Request) {
		ioutil.ReadAll(r.Body)
		s := cur.Load().(served)
		w.WriteHeader(s.code)
		if s.code != 204 && s.code != 304 {
			fmt.Fprint(w, s.body)
		}
	}))
	defer srv.Close()
	dir, _ := ioutil.TempDir("", "verifc02")
	defer os.RemoveAll(dir)
	ca := filepath.Join(dir, "ca.pem")
	ioutil.WriteFile(ca, pem.EncodeToMemory(&pem.Block{Type: "CERTIFICATE", Bytes: srv.Certificate().Raw}), 0600)
	client, err := NewClient(&ClientConfig{CAFile: ca, MaxParallel: 2, Timeout: 5 * time.Second})
	if err != nil {
		t.Fatal(err)
	}
	host := strings.TrimPrefix(srv.URL, "https://")
	bodies := map[string]string{
		"value":     `{"return_value":{"x":1}}`,
		"exception": `{"exception":{"message":"m","error_type":"NewRelic::Agent::ForceRestartException"}}`,
		"malformed": `{"return_value":`,
		"empty":     ``,
	}
	exec := func(code int, kind string) {
		cur.Store(served{code, bodies[kind]})
		cmd := RpmCmd{Name: CommandMetrics, Collector: host, RunID: "12345", License: "0123456789012345678901234567890123456789",
			MaxPayloadSize: 1000000}
		cs := RpmControls{AgentLanguage: "php", AgentVersion: "1.2.3",
			Collectible: CollectibleFunc(func(auditVersion bool) ([]byte, error) { return []byte(`["run",1,2,[]]`), nil })}
		obs = append(obs, c02Class("http", code, kind, client.Execute(&cmd, cs)))
	}
	for code := 200; code <= 599; code++ {
		if code >= 300 && code <= 308 {
			// without a Location header the client hands a 3xx reply back as it is
		}
		exec(code, "value")
	}
	for _, kind := range []string{"exception", "malformed", "empty"} {
		exec(200, kind)
		exec(202, kind)
		exec(503, kind)
	}
	// the daemon's own time-out (no complete answer in time) is a transport failure, whatever had arrived by then:
	// the request has normally reached the collector, carrying the data over would deliver it twice (seeded/C02f2)
	stop := make(chan struct{})
	slow := httptest.NewTLSServer(http.HandlerFunc(func(w http.ResponseWriter, r *http.Request) {
		ioutil.ReadAll(r.Body)
		s := cur.Load().(served)
		if s.body == "headers-then-stall" {
			w.Header().Set("Content-Length", "100000")
			w.WriteHeader(s.code)
			if f, ok := w.(http.Flusher); ok {
				f.Flush()
			}
		}
		<-stop
	}))
	ca2 := filepath.Join(dir, "ca2.pem")
	ioutil.WriteFile(ca2, pem.EncodeToMemory(&pem.Block{Type: "CERTIFICATE", Bytes: slow.Certificate().Raw}), 0600)
	quick, err := NewClient(&ClientConfig{CAFile: ca2, MaxParallel: 2, Timeout: 250 * time.Millisecond})
	if err != nil {
		t.Fatal(err)
	}
	shost := strings.TrimPrefix(slow.URL, "https://")
	for _, sc := range []served{{0, "silent"}, {200, "headers-then-stall"}, {202, "headers-then-stall"}, {503, "headers-then-stall"}} {
		cur.Store(sc)
		cmd := RpmCmd{Name: CommandMetrics, Collector: shost, RunID: "12345", License: "0123456789012345678901234567890123456789",
			MaxPayloadSize: 1000000}
		cs := RpmControls{AgentLanguage: "php", AgentVersion: "1.2.3",
			Collectible: CollectibleFunc(func(auditVersion bool) ([]byte, error) { return []byte(`["run",1,2,[]]`), nil })}
		o := c02Class("timeout", sc.code, sc.body, quick.Execute(&cmd, cs))
		obs = append(obs, o)
	}
	close(stop)
	slow.Close()
	// an answer cut short: status line and headers arrive, the body does not (connection closed early).  The verdict is
	// in the status line: 410 / 401 / 409 / 503 mean what they mean whether or not the body could be read (seeded/C03h1)
	cut := httptest.NewTLSServer(http.HandlerFunc(func(w http.ResponseWriter, r *http.Request) {
		ioutil.ReadAll(r.Body)
		s := cur.Load().(served)
		hj, ok := w.(http.Hijacker)
		if !ok {
			w.WriteHeader(s.code)
			return
		}
		c, bw, err := hj.Hijack()
		if err != nil {
			return
		}
		fmt.Fprintf(bw, "HTTP/1.1 %d Verdict\r\nContent-Type: application/json\r\nContent-Length: 64\r\n\r\n{\"exception\":{\"mess", s.code)
		bw.Flush()
		c.Close()
	}))
	ca3 := filepath.Join(dir, "ca3.pem")
	ioutil.WriteFile(ca3, pem.EncodeToMemory(&pem.Block{Type: "CERTIFICATE", Bytes: cut.Certificate().Raw}), 0600)
	cutClient, err := NewClient(&ClientConfig{CAFile: ca3, MaxParallel: 2, Timeout: 5 * time.Second})
	if err != nil {
		t.Fatal(err)
	}
	chost := strings.TrimPrefix(cut.URL, "https://")
	for _, code := range []int{200, 202, 400, 401, 403, 408, 409, 410, 413, 429, 500, 503} {
		cur.Store(served{code, "truncated"})
		cmd := RpmCmd{Name: CommandMetrics, Collector: chost, RunID: "12345", License: "0123456789012345678901234567890123456789",
			MaxPayloadSize: 1000000}
		cs := RpmControls{AgentLanguage: "php", AgentVersion: "1.2.3",
			Collectible: CollectibleFunc(func(auditVersion bool) ([]byte, error) { return []byte(`["run",1,2,[]]`), nil })}
		obs = append(obs, c02Class("truncated", code, "truncated", cutClient.Execute(&cmd, cs)))
	}
	cut.Close()
	b, _ := json.Marshal(obs)
	if err := ioutil.WriteFile(outPath, b, 0644); err != nil {
		t.Fatal(err)
	}
}
