//go:build verif

package collector

// C18 harness: the real NewLimitClient around an inner Client that the harness controls (blocks on a
// gate, then returns or panics).  Scenarios are scripts of arrive / settle / complete / sleep / expire
// operations; everything observable is logged under one mutex so that the log is a linearisation the
// limiter LTS must accept (Limiter.accepts), whatever the goroutine schedule was.

import (
	"reflect"
	"encoding/json"
	"fmt"
	"io/ioutil"
	"os"
	"runtime"
	"strconv"
	"sync"
	"testing"
	"time"
)

type c18Op struct {
	Op  string `json:"op"`
	Arg int    `json:"arg"`
}

type c18Scenario struct {
	Max       int     `json:"max"`
	TimeoutMs int     `json:"timeout_ms"`
	N         int     `json:"n"`
	Panics    []bool  `json:"panics"`
	Ops       []c18Op `json:"ops"`
}

type c18Obs struct {
	Log        [][2]interface{} `json:"log"` // [kind, i]: A arrive, S inner start, E inner end, T error without inner
	Outcomes   []string         `json:"outcomes"`
	MaxRunning int              `json:"max_running"`
	SemLen     int              `json:"sem_len"`
	SemCap     int              `json:"sem_cap"`
	Eroded     bool             `json:"eroded"`
	Overdue    bool             `json:"overdue"`
	Skipped    bool             `json:"skipped"`
	Note       string           `json:"note,omitempty"`
}

type c18Panic struct{ i int }

var c18Commands = []string{CommandConnect, CommandMetrics, CommandPreconnect, CommandTxnEvents, CommandErrors, CommandConnect,
	CommandCustomEvents, CommandSpanEvents, CommandLogEvents, CommandTraces, CommandSlowSQLs, CommandErrorEvents, CommandPhpPackages}

type c18Run struct {
	mu          sync.Mutex
	sc          c18Scenario
	log         [][2]interface{}
	gates       []chan struct{}
	gateClosed  []bool
	started     []int
	startOrder  []int
	exited      []bool
	outcome     []string
	arrived     int
	startedTot  int
	innerExited int
	finished    int
	finNoInner  int
	cur, maxcur int
}

func (r *c18Run) inner(cmd *RpmCmd, cs RpmControls) RPMResponse {
	i, _ := strconv.Atoi(cmd.RunID) // the request's index travels in the run id; the command name is a real one
	r.mu.Lock()
	r.started[i]++
	r.startedTot++
	r.startOrder = append(r.startOrder, i)
	r.cur++
	if r.cur > r.maxcur {
		r.maxcur = r.cur
	}
	r.log = append(r.log, [2]interface{}{"S", i})
	g := r.gates[i]
	r.mu.Unlock()
	<-g
	r.mu.Lock()
	r.cur--
	r.innerExited++
	r.exited[i] = true
	r.log = append(r.log, [2]interface{}{"E", i})
	r.mu.Unlock()
	if r.sc.Panics[i] {
		panic(c18Panic{i})
	}
	return RPMResponse{StatusCode: 200, Body: []byte("ok-" + cmd.RunID)}
}

func (r *c18Run) caller(c Client, i int) {
	r.mu.Lock()
	r.arrived++
	r.log = append(r.log, [2]interface{}{"A", i})
	r.mu.Unlock()
	var resp RPMResponse
	var pv interface{}
	returned := false
	func() {
		defer func() { pv = recover() }()
		// every collector command goes through the limiter: cycle through all of them (a limiter that lets one kind
		// of command bypass it -- seeded/C18f1 -- shows as more than max running)
		resp = c.Execute(&RpmCmd{Name: c18Commands[i%len(c18Commands)], RunID: strconv.Itoa(i)}, RpmControls{})
		returned = true
	}()
	r.mu.Lock()
	defer r.mu.Unlock()
	st := r.started[i]
	switch {
	case !returned:
		if p, ok := pv.(c18Panic); ok && p.i == i && st == 1 {
			r.outcome[i] = "inner_panic"
		} else {
			r.outcome[i] = "bad"
		}
	case st == 1 && resp.Err == nil && resp.StatusCode == 200 && string(resp.Body) == "ok-"+strconv.Itoa(i):
		r.outcome[i] = "inner_ret"
	case st == 0 && resp.Err != nil:
		r.outcome[i] = "err_no_inner"
		r.finNoInner++
		r.log = append(r.log, [2]interface{}{"T", i})
	default:
		r.outcome[i] = "bad"
	}
	r.finished++
}

// counts, under the lock
func (r *c18Run) counts() (running, releasing, waiting int) {
	running = r.startedTot - r.innerExited
	releasing = r.innerExited - (r.finished - r.finNoInner)
	waiting = r.arrived - r.startedTot - r.finNoInner
	return
}

// settle waits until nothing but a completion or a time-out can change the picture:
// no release in progress and (nobody waiting or max inner calls running).
// Returns false when the deadline passes first.
func (r *c18Run) settle(deadline time.Duration) (ok bool, running, releasing, waiting int) {
	end := time.Now().Add(deadline)
	for {
		r.mu.Lock()
		running, releasing, waiting = r.counts()
		r.mu.Unlock()
		if releasing == 0 && (waiting == 0 || running >= r.sc.Max) {
			return true, running, releasing, waiting
		}
		if time.Now().After(end) {
			return false, running, releasing, waiting
		}
		time.Sleep(100 * time.Microsecond)
	}
}

// complete lets the j-th oldest still-blocked inner call go on and waits until it has left the inner client.
func (r *c18Run) complete(j int) bool {
	r.mu.Lock()
	var open []int
	for _, i := range r.startOrder {
		if !r.gateClosed[i] {
			open = append(open, i)
		}
	}
	if len(open) == 0 {
		r.mu.Unlock()
		return false
	}
	i := open[j%len(open)]
	r.gateClosed[i] = true
	close(r.gates[i])
	r.mu.Unlock()
	for k := 0; k < 50000; k++ {
		r.mu.Lock()
		done := r.exited[i]
		r.mu.Unlock()
		if done {
			return true
		}
		time.Sleep(50 * time.Microsecond)
	}
	return true
}

func c18RunScenario(sc c18Scenario, settleDeadline time.Duration) c18Obs {
	r := &c18Run{sc: sc}
	r.gates = make([]chan struct{}, sc.N)
	r.gateClosed = make([]bool, sc.N)
	r.started = make([]int, sc.N)
	r.exited = make([]bool, sc.N)
	r.outcome = make([]string, sc.N)
	for i := range r.gates {
		r.gates[i] = make(chan struct{})
		r.outcome[i] = "stuck"
	}
	timeout := time.Duration(sc.TimeoutMs) * time.Millisecond
	client := NewLimitClient(ClientFn(r.inner), sc.Max, timeout)
	obs := c18Obs{}
	next := 0
	abort := false

	doSettle := func() {
		ok, running, releasing, waiting := r.settle(settleDeadline)
		if !ok {
			if releasing == 0 && waiting > 0 && running < sc.Max {
				obs.Eroded = true
				obs.Note += fmt.Sprintf("eroded: waiting=%d running=%d max=%d; ", waiting, running, sc.Max)
			} else {
				obs.Note += fmt.Sprintf("settle failed: waiting=%d running=%d releasing=%d; ", waiting, running, releasing)
			}
			abort = true
		}
	}

	for _, op := range sc.Ops {
		if abort {
			break
		}
		switch op.Op {
		case "arrive":
			want := 0
			for k := 0; k < op.Arg && next < sc.N; k++ {
				go r.caller(client, next)
				next++
			}
			want = next
			for k := 0; k < 100000; k++ {
				r.mu.Lock()
				a := r.arrived
				r.mu.Unlock()
				if a >= want {
					break
				}
				time.Sleep(20 * time.Microsecond)
			}
		case "settle":
			doSettle()
			time.Sleep(time.Millisecond)
		case "complete":
			r.complete(op.Arg)
		case "sleep":
			time.Sleep(time.Duration(op.Arg) * time.Millisecond)
		case "expire":
			// every request that is waiting now must come back with an error once its timer has fired
			if sc.TimeoutMs == 0 {
				break
			}
			end := time.Now().Add(time.Duration(100*sc.TimeoutMs) * time.Millisecond)
			for {
				r.mu.Lock()
				_, _, waiting := r.counts()
				r.mu.Unlock()
				if waiting == 0 {
					break
				}
				if time.Now().After(end) {
					obs.Overdue = true
					obs.Note += fmt.Sprintf("overdue: %d requests still waiting %d ms after a %d ms time-out; ", waiting, 100*sc.TimeoutMs, sc.TimeoutMs)
					break
				}
				time.Sleep(500 * time.Microsecond)
			}
		}
	}
	// arrive the rest, then drain
	if !abort {
		for next < sc.N {
			go r.caller(client, next)
			next++
		}
		end := time.Now().Add(20 * time.Second)
		for !abort && time.Now().Before(end) {
			doSettle()
			if abort {
				break
			}
			r.mu.Lock()
			running, _, waiting := r.counts()
			arrived := r.arrived
			r.mu.Unlock()
			if arrived < sc.N {
				time.Sleep(50 * time.Microsecond)
				continue
			}
			if running == 0 && waiting == 0 {
				break
			}
			if !r.complete(0) {
				time.Sleep(50 * time.Microsecond)
			}
		}
	}
	// release whatever is still blocked so that goroutines of a broken limiter do not pile up
	r.mu.Lock()
	for i := range r.gates {
		if !r.gateClosed[i] {
			r.gateClosed[i] = true
			close(r.gates[i])
		}
	}
	r.mu.Unlock()
	wait := 300 * time.Millisecond
	if abort {
		wait = 100 * time.Millisecond
	}
	end := time.Now().Add(wait + 3*timeout)
	for time.Now().Before(end) {
		r.mu.Lock()
		f := r.finished
		r.mu.Unlock()
		if f >= next {
			break
		}
		time.Sleep(200 * time.Microsecond)
	}
	time.Sleep(time.Millisecond)
	r.mu.Lock()
	defer r.mu.Unlock()
	obs.Log = append([][2]interface{}{}, r.log...)
	obs.Outcomes = append([]string{}, r.outcome...)
	obs.MaxRunning = r.maxcur
	if lc, ok := client.(*limitClient); ok {
		obs.SemLen, obs.SemCap, _ = c18Probe(lc)
	} else {
		obs.SemLen, obs.SemCap = -1, -1
		obs.Note += "NewLimitClient did not return a *limitClient; "
	}
	return obs
}

type c18NewClientObs struct {
	MaxParallel int   `json:"max_parallel"`
	TimeoutNs   int64 `json:"timeout_ns"`
	Err         bool  `json:"err"`
	Limited     bool  `json:"limited"`
	SemCap      int   `json:"sem_cap"`
	SemLen      int   `json:"sem_len"`
	TimeoutOut  int64 `json:"timeout_out_ns"`
}

// c18Probe reads the limiter's token channel (length, capacity) and its time-out without naming the fields: the first
// channel-typed field and the first time.Duration field of the struct (a rename of unexported fields is harmless)
func c18Probe(lc *limitClient) (length, capacity int, timeout int64) {
	length, capacity, timeout = -1, -1, -1
	v := reflect.ValueOf(lc).Elem()
	durT := reflect.TypeOf(time.Duration(0))
	for i := 0; i < v.NumField(); i++ {
		f := v.Field(i)
		if f.Kind() == reflect.Chan && length < 0 {
			length, capacity = f.Len(), f.Cap()
		}
		if f.Type() == durT && timeout < 0 {
			timeout = f.Int()
		}
	}
	return
}

func TestVerifC18(t *testing.T) {
	inPath, outPath := os.Getenv("VERIF_IN"), os.Getenv("VERIF_OUT")
	if inPath == "" {
		t.Skip("harness only")
	}
	var in struct {
		Scenarios []c18Scenario `json:"scenarios"`
		NewClient [][2]int64    `json:"newclient"`
	}
	raw, err := ioutil.ReadFile(inPath)
	if err != nil {
		t.Fatal(err)
	}
	if err := json.Unmarshal(raw, &in); err != nil {
		t.Fatal(err)
	}
	var out struct {
		Scenarios []c18Obs          `json:"scenarios"`
		NewClient []c18NewClientObs `json:"newclient"`
	}
	failures := 0
	for _, sc := range in.Scenarios {
		if failures >= 4 {
			out.Scenarios = append(out.Scenarios, c18Obs{Skipped: true})
			continue
		}
		o := c18RunScenario(sc, 1500*time.Millisecond)
		if o.Eroded || o.Overdue || o.Note != "" {
			failures++
		}
		out.Scenarios = append(out.Scenarios, o)
	}
	for _, nc := range in.NewClient {
		o := c18NewClientObs{MaxParallel: int(nc[0]), TimeoutNs: nc[1]}
		c, err := NewClient(&ClientConfig{MaxParallel: int(nc[0]), Timeout: time.Duration(nc[1])})
		if err != nil {
			o.Err = true
		} else if lc, ok := c.(*limitClient); ok {
			o.Limited = true
			o.SemLen, o.SemCap, o.TimeoutOut = c18Probe(lc)
		}
		out.NewClient = append(out.NewClient, o)
	}
	ob, _ := json.Marshal(out)
	if err := ioutil.WriteFile(outPath, ob, 0644); err != nil {
		t.Fatal(err)
	}
}

// ------------------------------------------------------------------ coincidence of a time-out and a freed slot
//
// One slot, a holder whose inner call ends 0.15 - 1.5 ms before a waiter's deadline and whose goroutine
// then keeps the only processor busy for 3 ms (GOMAXPROCS 1): when the waiter runs again both its cases are
// ready -- the slot and the time-out.  Whichever it takes, afterwards the limiter must be whole: a probe
// request to the idle limiter has to be admitted (Limiter.v: permits + running = max in every reachable state).

type c18CoinOut struct {
	Trials      int      `json:"trials"`
	ProbeDenied int      `json:"probe_denied"` // trials after which the idle limiter refused the probe
	WaiterGot   int      `json:"waiter_got_slot"`
	WaiterTimed int      `json:"waiter_timed_out"`
	Notes       []string `json:"notes,omitempty"`
}

func TestVerifC18Coincide(t *testing.T) {
	outPath := os.Getenv("VERIF_OUT")
	if outPath == "" {
		t.Skip("VERIF_OUT not set")
	}
	trials, _ := strconv.Atoi(os.Getenv("VERIF_TRIALS"))
	if trials <= 0 {
		trials = 30
	}
	old := runtime.GOMAXPROCS(1)
	defer runtime.GOMAXPROCS(old)
	var out c18CoinOut
	out.Trials = trials
	timeout := 25 * time.Millisecond
	for k := 0; k < trials; k++ {
		dl := make(chan time.Time, 1)
		inside := make(chan struct{})
		inner := ClientFn(func(cmd *RpmCmd, cs RpmControls) RPMResponse {
			if cmd.Name == "holder" {
				close(inside)
				d := <-dl // the waiter's deadline
				lead := time.Duration(150*(1+k%10)) * time.Microsecond // 150 us .. 1.5 ms before the deadline
				if w := time.Until(d) - lead; w > 0 {
					time.Sleep(w)
				}
			}
			return RPMResponse{StatusCode: 200}
		})
		c := NewLimitClient(inner, 1, timeout)
		var wg sync.WaitGroup
		wg.Add(1)
		go func() {
			defer wg.Done()
			c.Execute(&RpmCmd{Name: "holder"}, RpmControls{})
			// stay on the only processor while the waiter's timer expires
			for end := time.Now().Add(3 * time.Millisecond); time.Now().Before(end); {
			}
		}()
		<-inside
		dl <- time.Now().Add(timeout)
		var wresp RPMResponse
		wg.Add(1)
		go func() {
			defer wg.Done()
			wresp = c.Execute(&RpmCmd{Name: "waiter"}, RpmControls{})
		}()
		wg.Wait()
		if wresp.Err == nil {
			out.WaiterGot++
		} else {
			out.WaiterTimed++
		}
		probe := c.Execute(&RpmCmd{Name: "probe"}, RpmControls{})
		if probe.Err != nil {
			out.ProbeDenied++
			if len(out.Notes) < 3 {
				out.Notes = append(out.Notes, fmt.Sprintf("trial %d: waiter: %v; probe to the idle limiter: %v", k, wresp.Err, probe.Err))
			}
		}
	}
	b, _ := json.Marshal(out)
	if err := ioutil.WriteFile(outPath, b, 0644); err != nil {
		t.Fatal(err)
	}
}
