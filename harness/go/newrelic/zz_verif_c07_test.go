//go:build verif

package newrelic

// C07 harness: real MetricTable operations (AddRaw/AddCount/AddValue, aggregateMetrics on a real
// flatbuffers Transaction, Merge, MergeFailed, ApplyRules with rules built by
// NewMetricRulesFromJSON from JSON text) evaluated over a tree of operations, and real
// MetricRules.Apply on names.  Reads $VERIF_IN, writes $VERIF_OUT.

import (
	"encoding/json"
	"fmt"
	"io/ioutil"
	"math"
	"os"
	"sort"
	"strings"
	"sync"
	"testing"
	"time"

	"github.com/newrelic/newrelic-php-agent/daemon/internal/newrelic/collector"

	flatbuffers "github.com/google/flatbuffers/go"

	"github.com/newrelic/newrelic-php-agent/daemon/internal/newrelic/limits"
	"github.com/newrelic/newrelic-php-agent/daemon/internal/newrelic/protocol"
)

type c07Op struct {
	How    string     `json:"how"` // raw | rawslice | count | value
	Name   string     `json:"name"`
	Scope  string     `json:"scope"`
	Forced bool       `json:"forced"`
	D      [6]float64 `json:"d"`
	V      float64    `json:"v"`
}

type c07TM struct {
	Name   string     `json:"name"`
	Scoped bool       `json:"scoped"`
	Forced bool       `json:"forced"`
	D      [6]float64 `json:"d"`
}

type c07Node struct {
	K     string   `json:"k"` // new | adds | txn | merge | mfail | rules
	Max   int      `json:"max"`
	Real  bool     `json:"real"` // new: use limits.MaxMetrics
	B     *c07Node `json:"b"`
	F     *c07Node `json:"f"`
	Ops   []c07Op  `json:"ops"`
	Txn   string   `json:"txn"`
	Ms    []c07TM  `json:"ms"`
	Rules *string  `json:"rules"` // null: nil rule list
	Via   string   `json:"via"`   // root "rules" node only: all | default | exit: the harvest path of a REAL processor
}

type c07Entry struct {
	Name   string   `json:"name"`
	Scope  string   `json:"scope"`
	Forced bool     `json:"forced"`
	D      [6]int64 `json:"d"`
}

type c07Table struct {
	Max     int        `json:"max"`
	Count   int        `json:"count"`
	Dropped int        `json:"dropped"`
	Failed  int        `json:"failed"`
	Inexact bool       `json:"inexact"` // a value left the exact integer domain
	Entries []c07Entry `json:"entries"`
}

type c07RuleCase struct {
	JSON  string   `json:"json"`
	Names []string `json:"names"`
}

type c07RuleObs struct {
	Nil    bool     `json:"nil"`
	Orders []int    `json:"orders"` // eval_order of the rules as stored after NewMetricRulesFromJSON
	Stored []int    `json:"stored"` // for each stored rule the index of the JSON object it came from
	Res    []int    `json:"res"`    // 0 matched, 1 unmatched, 2 ignore
	Out    []string `json:"out"`
}

func c07Force(b bool) MetricForce {
	if b {
		return Forced
	}
	return Unforced
}

func c07Eval(n *c07Node, now time.Time) *MetricTable {
	switch n.K {
	case "new":
		if n.Real {
			return NewMetricTable(limits.MaxMetrics, now)
		}
		return NewMetricTable(n.Max, now)
	case "adds":
		mt := c07Eval(n.B, now)
		for _, op := range n.Ops {
			switch op.How {
			case "raw":
				mt.AddRaw(nil, op.Name, op.Scope, op.D, c07Force(op.Forced))
			case "rawslice":
				mt.AddRaw([]byte(op.Name), "", op.Scope, op.D, c07Force(op.Forced))
			case "count":
				mt.AddCount(op.Name, op.Scope, op.V, c07Force(op.Forced))
			case "value":
				mt.AddValue(op.Name, op.Scope, op.V, c07Force(op.Forced))
			default:
				panic("bad op " + op.How)
			}
		}
		return mt
	case "txn":
		mt := c07Eval(n.B, now)
		b := flatbuffers.NewBuilder(0)
		var vec flatbuffers.UOffsetT
		if k := len(n.Ms); k > 0 {
			offs := make([]flatbuffers.UOffsetT, k)
			for i := k - 1; i >= 0; i-- {
				offs[i] = protocol.EncodeMetric(b, n.Ms[i].Name, n.Ms[i].D, n.Ms[i].Scoped, n.Ms[i].Forced)
			}
			protocol.TransactionStartMetricsVector(b, k)
			for i := k - 1; i >= 0; i-- {
				b.PrependUOffsetT(offs[i])
			}
			vec = b.EndVector(k)
		}
		nameOff := b.CreateString(n.Txn)
		protocol.TransactionStart(b)
		protocol.TransactionAddName(b, nameOff)
		if vec != 0 {
			protocol.TransactionAddMetrics(b, vec)
		}
		b.Finish(protocol.TransactionEnd(b))
		buf := b.FinishedBytes()
		txn := protocol.GetRootAsTransaction(buf, 0)
		h := &Harvest{Metrics: mt}
		aggregateMetrics(*txn, h, string(txn.Name()))
		return mt
	case "merge":
		mt := c07Eval(n.B, now)
		from := c07Eval(n.F, now)
		mt.Merge(from)
		return mt
	case "mfail":
		mt := c07Eval(n.B, now)
		from := c07Eval(n.F, now)
		mt.MergeFailed(from)
		return mt
	case "rules":
		mt := c07Eval(n.B, now)
		var rules MetricRules
		if n.Rules != nil {
			rules = NewMetricRulesFromJSON([]byte(*n.Rules))
		}
		return mt.ApplyRules(rules)
	}
	panic("bad node " + n.K)
}

func c07Dump(mt *MetricTable) c07Table {
	out := c07Table{Max: mt.maxTableSize, Count: verifTableCount(mt), Dropped: mt.numDropped, Failed: mt.failedHarvests,
		Entries: []c07Entry{}}
	for name, s := range mt.metrics {
		for scope, m := range s {
			e := c07Entry{Name: name, Scope: scope, Forced: m.forced == Forced}
			d := m.data.collectorData()
			for i, x := range d {
				if x != math.Trunc(x) || math.Abs(x) > 9.0e15 {
					out.Inexact = true
				}
				e.D[i] = int64(x)
			}
			out.Entries = append(out.Entries, e)
		}
	}
	sort.Slice(out.Entries, func(i, j int) bool {
		a, b := out.Entries[i], out.Entries[j]
		if a.Name != b.Name {
			return a.Name < b.Name
		}
		return a.Scope < b.Scope
	})
	return out
}

// c07Via: the same contributions and rules through a REAL processor.  The collector's connect reply carries the rule
// list, every "txn" node of the chain below the root arrives as a real TXN message, and the metric_data payload of the
// harvest path named by via (all-at-once tick, default-data tick, final flush) is read back.  Only names under "Vf/"
// (and the empty name) are kept (the daemon adds metrics of its own; the rules of these cases are anchored to "^Vf/").
func c07Via(n *c07Node) (out c07Table, note string) {
	out = c07Table{Max: limits.MaxMetrics, Entries: []c07Entry{}}
	var chain []*c07Node
	for b := n.B; b != nil && b.K == "txn"; b = b.B {
		chain = append([]*c07Node{b}, chain...)
	}
	rules := "null"
	if n.Rules != nil {
		rules = *n.Rules
	}
	period := 60000
	if n.Via == "default" {
		period = 5000
	}
	var mu sync.Mutex
	var payloads [][]byte
	client := collector.ClientFn(func(cmd *collector.RpmCmd, cs collector.RpmControls) collector.RPMResponse {
		data, _ := cs.Collectible.CollectorJSON(false)
		switch cmd.Name {
		case collector.CommandPreconnect:
			return collector.RPMResponse{StatusCode: 200, Body: []byte(`{"redirect_host":"coll.example"}`)}
		case collector.CommandConnect:
			return collector.RPMResponse{StatusCode: 200, Body: []byte(fmt.Sprintf(`{"agent_run_id":"c07run","metric_name_rules":%s,`+
				`"event_harvest_config":{"report_period_ms":%d,"harvest_limits":{"analytic_event_data":100,"custom_event_data":100,`+
				`"error_event_data":100,"log_event_data":100}},"span_event_harvest_config":{"report_period_ms":%d,"harvest_limit":100}}`,
				rules, period, period))}
		case collector.CommandMetrics:
			mu.Lock()
			payloads = append(payloads, append([]byte(nil), data...))
			mu.Unlock()
		}
		return collector.RPMResponse{StatusCode: 202}
	})
	p := NewProcessor(ProcessorConfig{Client: client})
	p.trackProgress = make(chan struct{})
	stop := make(chan struct{})
	events := make(chan struct{}, 1024)
	go func() {
		for {
			select {
			case <-p.trackProgress:
				select {
				case events <- struct{}{}:
				default:
				}
			case <-stop:
				return
			}
		}
	}()
	defer close(stop)
	go p.Run()
	info := &AppInfo{License: "0123456789012345678901234567890123456789", Appname: "c07-via", AgentLanguage: "php",
		AgentVersion: "1", Hostname: "h", Environment: JSONString(`[]`), Labels: JSONString(`[]`),
		Settings: map[string]interface{}{"newrelic.distributed_tracing_enabled": false}}
	info.AgentEventLimits.LogEventConfig.Limit = 20000
	info.AgentEventLimits.SpanEventConfig.Limit = 10000
	info.AgentEventLimits.CustomEventConfig.Limit = 100000
	connected := false
	for t0 := time.Now(); time.Since(t0) < 4*time.Second && !connected; time.Sleep(time.Millisecond) {
		connected = p.IncomingAppInfo(nil, info).State == AppStateConnected
	}
	exit := func() {
		done := make(chan struct{})
		go func() { p.CleanExit(); close(done) }()
		select {
		case <-done:
		case <-time.After(4 * time.Second):
			note += "CleanExit did not return; "
		}
	}
	if !connected {
		exit()
		return out, "the application did not connect (rule list refused?)"
	}
	waitEvent := func() {
		select {
		case <-events:
		case <-time.After(2 * time.Second):
			note += "no progress; "
		}
	}
	for len(events) > 0 {
		<-events
	}
	for _, tn := range chain {
		b := flatbuffers.NewBuilder(0)
		var vec flatbuffers.UOffsetT
		if k := len(tn.Ms); k > 0 {
			offs := make([]flatbuffers.UOffsetT, k)
			for i := k - 1; i >= 0; i-- {
				offs[i] = protocol.EncodeMetric(b, tn.Ms[i].Name, tn.Ms[i].D, tn.Ms[i].Scoped, tn.Ms[i].Forced)
			}
			protocol.TransactionStartMetricsVector(b, k)
			for i := k - 1; i >= 0; i-- {
				b.PrependUOffsetT(offs[i])
			}
			vec = b.EndVector(k)
		}
		nameOff := b.CreateString(tn.Txn)
		protocol.TransactionStart(b)
		protocol.TransactionAddName(b, nameOff)
		protocol.TransactionAddPid(b, 4242)
		if vec != 0 {
			protocol.TransactionAddMetrics(b, vec)
		}
		data := protocol.TransactionEnd(b)
		id := b.CreateString("c07run")
		protocol.MessageStart(b)
		protocol.MessageAddAgentRunId(b, id)
		protocol.MessageAddDataType(b, protocol.MessageBodyTransaction)
		protocol.MessageAddData(b, data)
		b.Finish(protocol.MessageEnd(b))
		if _, err := (CommandsHandler{Processor: p}).HandleMessage(RawMessage{Type: MessageTypeBinary, Bytes: b.FinishedBytes()}); err != nil {
			note += "txn: " + err.Error() + "; "
		}
		waitEvent()
	}
	switch n.Via {
	case "all", "default":
		ty := HarvestAll
		if n.Via == "default" {
			ty = HarvestDefaultData
		}
		for id, ah := range p.harvests {
			p.processorHarvestChan <- ProcessorHarvest{AppHarvest: ah, ID: id, Type: ty}
		}
		waitEvent()
		for t0 := time.Now(); time.Since(t0) < 3*time.Second; time.Sleep(time.Millisecond) {
			mu.Lock()
			k := len(payloads)
			mu.Unlock()
			if k > 0 {
				break
			}
		}
		time.Sleep(5 * time.Millisecond)
		mu.Lock()
		first := len(payloads)
		mu.Unlock()
		exit()
		mu.Lock()
		payloads = payloads[:first] // the final flush only carries the daemon's own metrics
		mu.Unlock()
	default:
		exit()
	}
	mu.Lock()
	defer mu.Unlock()
	for _, pl := range payloads {
		var top []json.RawMessage
		if json.Unmarshal(pl, &top) != nil || len(top) < 4 {
			note += "unreadable metric payload; "
			continue
		}
		var entries [][]json.RawMessage
		json.Unmarshal(top[3], &entries)
		for _, e := range entries {
			if len(e) < 2 {
				continue
			}
			var id struct {
				Name  string `json:"name"`
				Scope string `json:"scope"`
			}
			json.Unmarshal(e[0], &id)
			if id.Name != "" && !strings.HasPrefix(id.Name, "Vf/") {
				continue // (a name an "ignore" rule matched is reported under the empty name, as ApplyRules leaves it)
			}
			var d [6]float64
			json.Unmarshal(e[1], &d)
			en := c07Entry{Name: id.Name, Scope: id.Scope}
			for i, x := range d {
				if x != math.Trunc(x) || math.Abs(x) > 9.0e15 {
					out.Inexact = true
				}
				en.D[i] = int64(x)
			}
			out.Entries = append(out.Entries, en)
		}
	}
	sort.Slice(out.Entries, func(i, j int) bool {
		a, b := out.Entries[i], out.Entries[j]
		if a.Name != b.Name {
			return a.Name < b.Name
		}
		return a.Scope < b.Scope
	})
	out.Count = len(out.Entries)
	return out, note
}

func TestVerifC07(t *testing.T) {
	inPath, outPath := os.Getenv("VERIF_IN"), os.Getenv("VERIF_OUT")
	if inPath == "" {
		t.Skip("harness only")
	}
	var in struct {
		Tables []*c07Node    `json:"tables"`
		Rules  []c07RuleCase `json:"rules"`
	}
	raw, err := ioutil.ReadFile(inPath)
	if err != nil {
		t.Fatal(err)
	}
	if err := json.Unmarshal(raw, &in); err != nil {
		t.Fatal(err)
	}
	now := time.Unix(1700000000, 0)

	tables := []c07Table{}
	pres := []*c07Table{}
	notes := map[string]string{}
	for i, n := range in.Tables {
		if n.K == "rules" && n.Via != "" {
			tb, note := c07Via(n)
			if note != "" {
				notes[fmt.Sprint(i)] = note
			}
			pres = append(pres, nil)
			tables = append(tables, tb)
			continue
		}
		if n.K == "rules" {
			// root is ApplyRules: also dump the table it is applied to
			mt := c07Eval(n.B, now)
			pre := c07Dump(mt)
			pres = append(pres, &pre)
			var rules MetricRules
			if n.Rules != nil {
				rules = NewMetricRulesFromJSON([]byte(*n.Rules))
			}
			tables = append(tables, c07Dump(mt.ApplyRules(rules)))
			continue
		}
		pres = append(pres, nil)
		tables = append(tables, c07Dump(c07Eval(n, now)))
	}
	rules := []c07RuleObs{}
	for _, rc := range in.Rules {
		rs := NewMetricRulesFromJSON([]byte(rc.JSON))
		o := c07RuleObs{Nil: rs == nil, Orders: []int{}, Res: []int{}, Out: []string{}}
		var rawRules []MetricRule
		json.Unmarshal([]byte(rc.JSON), &rawRules)
		used := make([]bool, len(rawRules))
		o.Stored = []int{}
		for _, r := range rs {
			o.Orders = append(o.Orders, r.Order)
			idx := -1
			for i, w := range rawRules {
				if !used[i] && w.RawExpr == r.RawExpr && w.OriginalReplacement == r.OriginalReplacement &&
					w.Order == r.Order && w.Ignore == r.Ignore && w.EachSegment == r.EachSegment &&
					w.ReplaceAll == r.ReplaceAll && w.Terminate == r.Terminate {
					idx = i
					used[i] = true
					break
				}
			}
			o.Stored = append(o.Stored, idx)
		}
		for _, nm := range rc.Names {
			res, out := rs.Apply(nm)
			o.Res = append(o.Res, int(res))
			o.Out = append(o.Out, out)
		}
		rules = append(rules, o)
	}
	ob, _ := json.Marshal(map[string]interface{}{"tables": tables, "pres": pres, "rules": rules, "max_metrics": limits.MaxMetrics, "notes": notes})
	if err := ioutil.WriteFile(outPath, ob, 0644); err != nil {
		t.Fatal(err)
	}
}
