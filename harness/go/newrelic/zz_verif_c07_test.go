//go:build verif

package newrelic

// C07 harness: real MetricTable operations (AddRaw/AddCount/AddValue, aggregateMetrics on a real
// flatbuffers Transaction, Merge, MergeFailed, ApplyRules with rules built by
// NewMetricRulesFromJSON from JSON text) evaluated over a tree of operations, and real
// MetricRules.Apply on names.  Reads $VERIF_IN, writes $VERIF_OUT.

import (
	"encoding/json"
	"io/ioutil"
	"math"
	"os"
	"sort"
	"testing"
	"time"

	flatbuffers "github.com/google/flatbuffers/go"

	"github.com/newrelic/newrelic-php-agent/daemon/internal/newrelic/limits"
	"github.com/newrelic/newrelic-php-agent/daemon/internal/newrelic/protocol"
)

type c07Op struct {
	How    string     `json:"how"` // raw | rawslice | count | value
	Name   string     `json:"name"`
	Scope  string     `json:"scope"`
	Forced bool       `json:"forced"`
	D      [6]float64 `json:"d"`
	V      float64    `json:"v"`
}

type c07TM struct {
	Name   string     `json:"name"`
	Scoped bool       `json:"scoped"`
	Forced bool       `json:"forced"`
	D      [6]float64 `json:"d"`
}

type c07Node struct {
	K     string   `json:"k"` // new | adds | txn | merge | mfail | rules
	Max   int      `json:"max"`
	Real  bool     `json:"real"` // new: use limits.MaxMetrics
	B     *c07Node `json:"b"`
	F     *c07Node `json:"f"`
	Ops   []c07Op  `json:"ops"`
	Txn   string   `json:"txn"`
	Ms    []c07TM  `json:"ms"`
	Rules *string  `json:"rules"` // null: nil rule list
}

type c07Entry struct {
	Name   string   `json:"name"`
	Scope  string   `json:"scope"`
	Forced bool     `json:"forced"`
	D      [6]int64 `json:"d"`
}

type c07Table struct {
	Max     int        `json:"max"`
	Count   int        `json:"count"`
	Dropped int        `json:"dropped"`
	Failed  int        `json:"failed"`
	Inexact bool       `json:"inexact"` // a value left the exact integer domain
	Entries []c07Entry `json:"entries"`
}

type c07RuleCase struct {
	JSON  string   `json:"json"`
	Names []string `json:"names"`
}

type c07RuleObs struct {
	Nil    bool     `json:"nil"`
	Orders []int    `json:"orders"` // eval_order of the rules as stored after NewMetricRulesFromJSON
	Stored []int    `json:"stored"` // for each stored rule the index of the JSON object it came from
	Res    []int    `json:"res"`    // 0 matched, 1 unmatched, 2 ignore
	Out    []string `json:"out"`
}

func c07Force(b bool) MetricForce {
	if b {
		return Forced
	}
	return Unforced
}

func c07Eval(n *c07Node, now time.Time) *MetricTable {
	switch n.K {
	case "new":
		if n.Real {
			return NewMetricTable(limits.MaxMetrics, now)
		}
		return NewMetricTable(n.Max, now)
	case "adds":
		mt := c07Eval(n.B, now)
		for _, op := range n.Ops {
			switch op.How {
			case "raw":
				mt.AddRaw(nil, op.Name, op.Scope, op.D, c07Force(op.Forced))
			case "rawslice":
				mt.AddRaw([]byte(op.Name), "", op.Scope, op.D, c07Force(op.Forced))
			case "count":
				mt.AddCount(op.Name, op.Scope, op.V, c07Force(op.Forced))
			case "value":
				mt.AddValue(op.Name, op.Scope, op.V, c07Force(op.Forced))
			default:
				panic("bad op " + op.How)
			}
		}
		return mt
	case "txn":
		mt := c07Eval(n.B, now)
		b := flatbuffers.NewBuilder(0)
		var vec flatbuffers.UOffsetT
		if k := len(n.Ms); k > 0 {
			offs := make([]flatbuffers.UOffsetT, k)
			for i := k - 1; i >= 0; i-- {
				offs[i] = protocol.EncodeMetric(b, n.Ms[i].Name, n.Ms[i].D, n.Ms[i].Scoped, n.Ms[i].Forced)
			}
			protocol.TransactionStartMetricsVector(b, k)
			for i := k - 1; i >= 0; i-- {
				b.PrependUOffsetT(offs[i])
			}
			vec = b.EndVector(k)
		}
		nameOff := b.CreateString(n.Txn)
		protocol.TransactionStart(b)
		protocol.TransactionAddName(b, nameOff)
		if vec != 0 {
			protocol.TransactionAddMetrics(b, vec)
		}
		b.Finish(protocol.TransactionEnd(b))
		buf := b.FinishedBytes()
		txn := protocol.GetRootAsTransaction(buf, 0)
		h := &Harvest{Metrics: mt}
		aggregateMetrics(*txn, h, string(txn.Name()))
		return mt
	case "merge":
		mt := c07Eval(n.B, now)
		from := c07Eval(n.F, now)
		mt.Merge(from)
		return mt
	case "mfail":
		mt := c07Eval(n.B, now)
		from := c07Eval(n.F, now)
		mt.MergeFailed(from)
		return mt
	case "rules":
		mt := c07Eval(n.B, now)
		var rules MetricRules
		if n.Rules != nil {
			rules = NewMetricRulesFromJSON([]byte(*n.Rules))
		}
		return mt.ApplyRules(rules)
	}
	panic("bad node " + n.K)
}

func c07Dump(mt *MetricTable) c07Table {
	out := c07Table{Max: mt.maxTableSize, Count: mt.count, Dropped: mt.numDropped, Failed: mt.failedHarvests,
		Entries: []c07Entry{}}
	for name, s := range mt.metrics {
		for scope, m := range s {
			e := c07Entry{Name: name, Scope: scope, Forced: m.forced == Forced}
			d := m.data.collectorData()
			for i, x := range d {
				if x != math.Trunc(x) || math.Abs(x) > 9.0e15 {
					out.Inexact = true
				}
				e.D[i] = int64(x)
			}
			out.Entries = append(out.Entries, e)
		}
	}
	sort.Slice(out.Entries, func(i, j int) bool {
		a, b := out.Entries[i], out.Entries[j]
		if a.Name != b.Name {
			return a.Name < b.Name
		}
		return a.Scope < b.Scope
	})
	return out
}

func TestVerifC07(t *testing.T) {
	inPath, outPath := os.Getenv("VERIF_IN"), os.Getenv("VERIF_OUT")
	if inPath == "" {
		t.Skip("harness only")
	}
	var in struct {
		Tables []*c07Node    `json:"tables"`
		Rules  []c07RuleCase `json:"rules"`
	}
	raw, err := ioutil.ReadFile(inPath)
	if err != nil {
		t.Fatal(err)
	}
	if err := json.Unmarshal(raw, &in); err != nil {
		t.Fatal(err)
	}
	now := time.Unix(1700000000, 0)

	tables := []c07Table{}
	pres := []*c07Table{}
	for _, n := range in.Tables {
		if n.K == "rules" {
			// root is ApplyRules: also dump the table it is applied to
			mt := c07Eval(n.B, now)
			pre := c07Dump(mt)
			pres = append(pres, &pre)
			var rules MetricRules
			if n.Rules != nil {
				rules = NewMetricRulesFromJSON([]byte(*n.Rules))
			}
			tables = append(tables, c07Dump(mt.ApplyRules(rules)))
			continue
		}
		pres = append(pres, nil)
		tables = append(tables, c07Dump(c07Eval(n, now)))
	}
	rules := []c07RuleObs{}
	for _, rc := range in.Rules {
		rs := NewMetricRulesFromJSON([]byte(rc.JSON))
		o := c07RuleObs{Nil: rs == nil, Orders: []int{}, Res: []int{}, Out: []string{}}
		var rawRules []MetricRule
		json.Unmarshal([]byte(rc.JSON), &rawRules)
		used := make([]bool, len(rawRules))
		o.Stored = []int{}
		for _, r := range rs {
			o.Orders = append(o.Orders, r.Order)
			idx := -1
			for i, w := range rawRules {
				if !used[i] && w.RawExpr == r.RawExpr && w.OriginalReplacement == r.OriginalReplacement &&
					w.Order == r.Order && w.Ignore == r.Ignore && w.EachSegment == r.EachSegment &&
					w.ReplaceAll == r.ReplaceAll && w.Terminate == r.Terminate {
					idx = i
					used[i] = true
					break
				}
			}
			o.Stored = append(o.Stored, idx)
		}
		for _, nm := range rc.Names {
			res, out := rs.Apply(nm)
			o.Res = append(o.Res, int(res))
			o.Out = append(o.Out, out)
		}
		rules = append(rules, o)
	}
	ob, _ := json.Marshal(map[string]interface{}{"tables": tables, "pres": pres, "rules": rules, "max_metrics": limits.MaxMetrics})
	if err := ioutil.WriteFile(outPath, ob, 0644); err != nil {
		t.Fatal(err)
	}
}
