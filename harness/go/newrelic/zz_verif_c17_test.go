//go:build verif

package newrelic

// C17 -- race search harness.  Meant to be built with -race and run with
// GORACE="halt_on_error=0 log_path=<file>": every data race the detector sees while the REAL
// listener, processor, limit client, harvest triggers and trace observers run under load is a
// report file; the driver (harness/py/props/c17.py) parses them.
//
// One round =
//   * NewProcessor with collector.NewLimitClient(mock collector) as client, go p.Run()
//   * Listen("unix", sock) + Serve(CommandsHandler{p}): real per-connection goroutines
//   * N agent connections (plain net.Conn clients) sending AppInfo queries, Transaction and
//     SpanBatch flatbuffers messages; applications come and go (new names, dead ones)
//   * the mock collector answers preconnect / connect / harvest commands with mixed outcomes
//     (200/202, 503, 429, 413, 401, 409, 410); connect replies use short per-type report periods so
//     that the real trigger goroutines fire; an interposer on processorHarvestChan turns some ticks
//     into HarvestAll / HarvestDefaultData ticks and replays stale ones
//   * some applications have a trace observer host: a closed local port (worker in connect /
//     back-off) or a live local TLS gRPC endpoint (worker streaming; endpoint misbehaves on purpose)
//   * CleanExit while the connections are still sending
// The harness itself never touches processor state: it only uses the exported entry points, the
// unix socket and channel operations.
//
// $VERIF_IN  {"rounds":[{"seed":..,"conns":..,"apps":..,"ms":..,"procs":..,"jitter":..,"timeout_ms":..}], "cert_dir": ".."}
// $VERIF_OUT {"rounds":[{...counters...}]}
// $VERIF_C17_GENCERT=<dir>: only write ca.pem / cert.pem / key.pem for the local gRPC endpoint.

import (
	"context"
	"crypto/ecdsa"
	"crypto/elliptic"
	crand "crypto/rand"
	"crypto/tls"
	"crypto/x509"
	"crypto/x509/pkix"
	"encoding/binary"
	"encoding/json"
	"encoding/pem"
	"errors"
	"fmt"
	"io"
	"io/ioutil"
	"net/http"
	"net/http/httptest"
	"math/big"
	"math/rand"
	"net"
	"os"
	"path/filepath"
	"runtime"
	"strings"
	"sync"
	"sync/atomic"
	"testing"
	"time"

	flatbuffers "github.com/google/flatbuffers/go"
	"google.golang.org/grpc"
	"google.golang.org/grpc/codes"
	"google.golang.org/grpc/credentials"
	"google.golang.org/grpc/status"

	"github.com/newrelic/newrelic-php-agent/daemon/internal/newrelic/collector"
	"github.com/newrelic/newrelic-php-agent/daemon/internal/newrelic/utilization"
	v1 "github.com/newrelic/newrelic-php-agent/daemon/internal/newrelic/infinite_tracing/com_newrelic_trace_v1"
	"github.com/newrelic/newrelic-php-agent/daemon/internal/newrelic/log"
	"github.com/newrelic/newrelic-php-agent/daemon/internal/newrelic/protocol"
)

type c17Round struct {
	Seed      int64 `json:"seed"`
	Conns     int   `json:"conns"`
	Apps      int   `json:"apps"`
	Ms        int   `json:"ms"`
	Procs     int   `json:"procs"`
	Jitter    int   `json:"jitter"`     // per mille of agent steps that yield / sleep
	TimeoutMs int   `json:"timeout_ms"` // ProcessorConfig.AppTimeout (0 = off)
	LogLevel  bool  `json:"log_level"`  // toggle log.SetLevel concurrently
	Grpc      bool  `json:"grpc"`       // some applications stream to the live local trace observer endpoint
	Real      bool  `json:"real"`       // the REAL collector client (collector.NewClient: TLS, limiter, perform) against a local server
}

type c17Stats struct {
	AppInfo      int64            `json:"appinfo"`
	AppInfoReply map[string]int64 `json:"appinfo_replies"`
	Txns         int64            `json:"txns"`
	Spans        int64            `json:"span_batches"`
	Collector    map[string]int64 `json:"collector"`
	Ticks        int64            `json:"ticks_seen"`
	TicksMutated int64            `json:"ticks_mutated"`
	TicksStale   int64            `json:"ticks_stale"`
	GrpcStreams  int64            `json:"grpc_streams"`
	GrpcBatches  int64            `json:"grpc_batches"`
	Exited       bool             `json:"exited"`
	ExitMs       int64            `json:"exit_ms"`
	SentAfter    int64            `json:"msgs_sent_during_exit"`
	Goroutines   int              `json:"goroutines_peak"`
	mu           sync.Mutex
}

func (s *c17Stats) bump(m map[string]int64, k string) {
	s.mu.Lock()
	m[k]++
	s.mu.Unlock()
}

// snapshot copies the counters under the lock: goroutines of the daemon that outlive the round
// (blocked senders, connect attempts in flight) may still call the mock collector
func (s *c17Stats) snapshot() *c17Stats {
	s.mu.Lock()
	defer s.mu.Unlock()
	c := &c17Stats{AppInfoReply: map[string]int64{}, Collector: map[string]int64{}}
	for k, v := range s.AppInfoReply {
		c.AppInfoReply[k] = v
	}
	for k, v := range s.Collector {
		c.Collector[k] = v
	}
	c.AppInfo, c.Txns, c.Spans = atomic.LoadInt64(&s.AppInfo), atomic.LoadInt64(&s.Txns), atomic.LoadInt64(&s.Spans)
	c.Ticks, c.TicksMutated, c.TicksStale = atomic.LoadInt64(&s.Ticks), atomic.LoadInt64(&s.TicksMutated), atomic.LoadInt64(&s.TicksStale)
	c.SentAfter = atomic.LoadInt64(&s.SentAfter)
	c.GrpcStreams, c.GrpcBatches = s.GrpcStreams, s.GrpcBatches
	c.Exited, c.ExitMs, c.Goroutines = s.Exited, s.ExitMs, s.Goroutines
	return c
}

// ------------------------------------------------------------------ certificates

func c17GenCert(dir string) error {
	caKey, err := ecdsa.GenerateKey(elliptic.P256(), crand.Reader)
	if err != nil {
		return err
	}
	caTmpl := &x509.Certificate{SerialNumber: big.NewInt(1), Subject: pkix.Name{CommonName: "verif-c17-ca"},
		NotBefore: time.Now().Add(-time.Hour), NotAfter: time.Now().Add(48 * time.Hour), IsCA: true,
		KeyUsage: x509.KeyUsageCertSign | x509.KeyUsageDigitalSignature, BasicConstraintsValid: true}
	caDER, err := x509.CreateCertificate(crand.Reader, caTmpl, caTmpl, &caKey.PublicKey, caKey)
	if err != nil {
		return err
	}
	key, err := ecdsa.GenerateKey(elliptic.P256(), crand.Reader)
	if err != nil {
		return err
	}
	tmpl := &x509.Certificate{SerialNumber: big.NewInt(2), Subject: pkix.Name{CommonName: "localhost"},
		NotBefore: time.Now().Add(-time.Hour), NotAfter: time.Now().Add(48 * time.Hour),
		KeyUsage: x509.KeyUsageDigitalSignature, ExtKeyUsage: []x509.ExtKeyUsage{x509.ExtKeyUsageServerAuth},
		DNSNames: []string{"localhost"}, IPAddresses: []net.IP{net.ParseIP("127.0.0.1")}}
	caCert, _ := x509.ParseCertificate(caDER)
	der, err := x509.CreateCertificate(crand.Reader, tmpl, caCert, &key.PublicKey, caKey)
	if err != nil {
		return err
	}
	keyDER, err := x509.MarshalECPrivateKey(key)
	if err != nil {
		return err
	}
	w := func(name, typ string, b []byte) error {
		return ioutil.WriteFile(filepath.Join(dir, name), pem.EncodeToMemory(&pem.Block{Type: typ, Bytes: b}), 0600)
	}
	if err := w("ca.pem", "CERTIFICATE", caDER); err != nil {
		return err
	}
	if err := w("cert.pem", "CERTIFICATE", der); err != nil {
		return err
	}
	return w("key.pem", "EC PRIVATE KEY", keyDER)
}

// ------------------------------------------------------------------ local trace observer endpoint

type c17Ingest struct {
	v1.UnimplementedIngestServiceServer
	streams int64
	batches int64
}

func (s *c17Ingest) RecordSpanBatch(stream v1.IngestService_RecordSpanBatchServer) error {
	n := atomic.AddInt64(&s.streams, 1)
	seen := uint64(0)
	for {
		_, err := stream.Recv()
		if err == io.EOF {
			return nil
		}
		if err != nil {
			return err
		}
		atomic.AddInt64(&s.batches, 1)
		seen++
		stream.Send(&v1.RecordStatus{MessagesSeen: seen})
		// the endpoint misbehaves on purpose, differently per stream
		switch n % 5 {
		case 1:
			if seen >= 2 {
				return status.Error(codes.Internal, "verif: internal") // -> restart path
			}
		case 2:
			if seen >= 3 {
				return status.Error(codes.FailedPrecondition, "verif: moved") // -> reconnect (clone)
			}
		case 3:
			if seen >= 4 {
				return nil // OK status: immediate restart
			}
		}
	}
}

func c17StartGrpc(certDir string) (port int, srv *c17Ingest, stop func(), err error) {
	cert, err := tls.LoadX509KeyPair(filepath.Join(certDir, "cert.pem"), filepath.Join(certDir, "key.pem"))
	if err != nil {
		return 0, nil, nil, err
	}
	lis, err := net.Listen("tcp", "127.0.0.1:0")
	if err != nil {
		return 0, nil, nil, err
	}
	gs := grpc.NewServer(grpc.Creds(credentials.NewTLS(&tls.Config{Certificates: []tls.Certificate{cert}})))
	srv = &c17Ingest{}
	v1.RegisterIngestServiceServer(gs, srv)
	go gs.Serve(lis)
	return lis.Addr().(*net.TCPAddr).Port, srv, gs.Stop, nil
}

func c17ClosedPort() int {
	l, err := net.Listen("tcp", "127.0.0.1:0")
	if err != nil {
		return 1
	}
	p := l.Addr().(*net.TCPAddr).Port
	l.Close()
	return p
}

// ------------------------------------------------------------------ mock collector

type c17Collector struct {
	seed  int64
	n     int64
	runs  int64
	stats *c17Stats
}

func c17Mix(a, b int64) uint64 {
	x := uint64(a)*0x9E3779B97F4A7C15 ^ uint64(b)*0xC2B2AE3D27D4EB4F
	x ^= x >> 29
	x *= 0xBF58476D1CE4E5B9
	x ^= x >> 32
	return x
}

func c17Resp(code int, body string) collector.RPMResponse {
	r := collector.RPMResponse{StatusCode: code}
	if code != 200 && code != 202 {
		r.Err = fmt.Errorf("response code: %d: %s", code, collector.GetStatusCodeMessage(code))
	} else {
		r.Body = []byte(body)
	}
	return r
}

func (c *c17Collector) Execute(cmd *collector.RpmCmd, cs collector.RpmControls) collector.RPMResponse {
	// as the real client: render the payload on the calling goroutine
	data, err := cs.Collectible.CollectorJSON(false)
	if err != nil {
		return collector.RPMResponse{Err: err}
	}
	cmd.Data = data
	// ... and read the request parameters the way clientImpl.perform does (URL, headers)
	hdrs := 0
	for hk, hv := range cmd.RequestHeadersMap {
		hdrs += len(hk) + len(hv)
	}
	_ = hdrs + len(cmd.License) + len(cmd.RunID) + len(cmd.Collector) + cmd.MaxPayloadSize + len(cs.AgentLanguage) + len(cs.AgentVersion)
	k := atomic.AddInt64(&c.n, 1)
	h := c17Mix(c.seed, k)
	if h&7 == 0 {
		cs.Collectible.CollectorJSON(true)
	}
	code, body := c.decide(cmd.Name, k, h, "")
	resp := c17Resp(code, body)
	c.stats.bump(c.stats.Collector, fmt.Sprintf("%s:%d", cmd.Name, resp.StatusCode))
	return resp
}

// decide: the collector's answer to the k-th request (status and JSON body of the return value)
func (c *c17Collector) decide(name string, k int64, h uint64, self string) (int, string) {
	if d := (h >> 8) % 4; d > 0 {
		time.Sleep(time.Duration(d) * 300 * time.Microsecond)
	}
	p := int((h >> 16) % 1000)
	pick := func(tbl []int, codes []int) int {
		acc := 0
		for i, w := range tbl {
			acc += w
			if p < acc {
				return codes[i]
			}
		}
		return codes[0]
	}
	switch name {
	case collector.CommandPreconnect:
		code := pick([]int{900, 60, 40}, []int{200, 503, 409})
		if self != "" {
			return code, fmt.Sprintf(`{"redirect_host":"%s"}`, self)
		}
		return code, fmt.Sprintf(`{"redirect_host":"coll%d.example"}`, k%3)
	case collector.CommandConnect:
		code := pick([]int{860, 50, 40, 25, 25}, []int{200, 503, 409, 401, 410})
		run := atomic.AddInt64(&c.runs, 1)
		pa, pc, pe, pl, ps := 20+(h>>20)%40, 20+(h>>26)%40, 20+(h>>32)%40, 20+(h>>38)%40, 20+(h>>44)%40
		body := fmt.Sprintf(`{"agent_run_id":"r%d","event_harvest_config":{"report_period_ms":%d,"harvest_limits":{`+
			`"analytic_event_data":200,"custom_event_data":100,"error_event_data":50,"log_event_data":100}},`+
			`"span_event_harvest_config":{"report_period_ms":%d,"harvest_limit":100},`+
			`"request_headers_map":{"X-Verif":"%d"},"sampling_target":10,"sampling_target_period_in_seconds":60,`+
			`"metric_name_rules":[{"match_expression":"^Custom/a(.*)","replacement":"Custom/renamed\\1","eval_order":1},`+
			`{"match_expression":"drop","replacement":"kept","each_segment":true,"eval_order":2}],`+
			`"messages":[{"message":"hello","level":"debug"}]}`, run, pa, ps, run)
		_, _, _ = pc, pe, pl
		return code, body
	default:
		return pick([]int{700, 100, 30, 50, 50, 30, 40}, []int{202, 503, 429, 413, 409, 401, 410}), ""
	}
}

// ServeHTTP: the same collector behind a real TLS server, for the rounds that use the real client
func (c *c17Collector) ServeHTTP(w http.ResponseWriter, r *http.Request) {
	ioutil.ReadAll(r.Body)
	name := r.URL.Query().Get("method")
	k := atomic.AddInt64(&c.n, 1)
	code, body := c.decide(name, k, c17Mix(c.seed, k), r.Host)
	c.stats.bump(c.stats.Collector, fmt.Sprintf("%s:%d", name, code))
	w.WriteHeader(code)
	if code == 200 {
		fmt.Fprintf(w, `{"return_value":%s}`, body)
	}
}

// ------------------------------------------------------------------ agent side: messages

type c17App struct {
	redirect, version   string
	name, license, host string
	toHost              string
	toPort              uint16
	docker              string
	dt                  bool
}

func c17AppInfoMsg(a *c17App, runID string) []byte {
	b := flatbuffers.NewBuilder(0)
	license := b.CreateString(a.license)
	appname := b.CreateString(a.name)
	lang := b.CreateString("php")
	ver := a.version
	if ver == "" {
		ver = "11.0.0.1"
	}
	version := b.CreateString(ver)
	coll := b.CreateString(a.redirect)
	settings := b.CreateString(fmt.Sprintf(`{"newrelic.distributed_tracing_enabled":%v,"newrelic.appname":"%s"}`, a.dt, a.name))
	env := b.CreateString(`[["k","v"]]`)
	labels := b.CreateString(`[{"label_type":"a","label_value":"b"}]`)
	metadata := b.CreateString(`{"NEW_RELIC_METADATA_ONE":"one"}`)
	host := b.CreateString(a.host)
	toHost := b.CreateString(a.toHost)
	docker := b.CreateString(a.docker)
	protocol.AppStart(b)
	protocol.AppAddAgentLanguage(b, lang)
	protocol.AppAddAgentVersion(b, version)
	protocol.AppAddAppName(b, appname)
	protocol.AppAddLicense(b, license)
	protocol.AppAddRedirectCollector(b, coll)
	protocol.AppAddEnvironment(b, env)
	protocol.AppAddLabels(b, labels)
	protocol.AppAddMetadata(b, metadata)
	protocol.AppAddSettings(b, settings)
	protocol.AppAddHost(b, host)
	protocol.AppAddTraceObserverHost(b, toHost)
	protocol.AppAddTraceObserverPort(b, a.toPort)
	protocol.AppAddSpanQueueSize(b, 8)
	protocol.AppAddSpanEventsMaxSamplesStored(b, 100)
	// the daemon scales the agent's per-minute log limit to the report period (tens of ms here):
	// a small limit would scale to nothing and no log payload would ever be built
	protocol.AppAddLogEventsMaxSamplesStored(b, 600000)
	protocol.AppAddCustomEventsMaxSamplesStored(b, 100)
	protocol.AppAddDockerId(b, docker)
	app := protocol.AppEnd(b)
	var id flatbuffers.UOffsetT
	if runID != "" {
		id = b.CreateString(runID)
	}
	protocol.MessageStart(b)
	if runID != "" {
		protocol.MessageAddAgentRunId(b, id)
	}
	protocol.MessageAddDataType(b, protocol.MessageBodyApp)
	protocol.MessageAddData(b, app)
	b.Finish(protocol.MessageEnd(b))
	return append([]byte(nil), b.Bytes[b.Head():]...)
}

func c17Vec(b *flatbuffers.Builder, start func(*flatbuffers.Builder, int) flatbuffers.UOffsetT, offs []flatbuffers.UOffsetT) flatbuffers.UOffsetT {
	if len(offs) == 0 {
		return 0
	}
	start(b, len(offs))
	for i := len(offs) - 1; i >= 0; i-- {
		b.PrependUOffsetT(offs[i])
	}
	return b.EndVector(len(offs))
}

func c17TxnMsg(runID string, rng *rand.Rand) []byte {
	b := flatbuffers.NewBuilder(0)
	ev := func(t string) flatbuffers.UOffsetT {
		return protocol.EncodeEvent(b, []byte(fmt.Sprintf(`[{"type":"%s","n":%d},{},{}]`, t, rng.Intn(1000))))
	}
	var metrics, errs, slows, customs, spans, logs, errevs []flatbuffers.UOffsetT
	for i, n := 0, 1+rng.Intn(4); i < n; i++ {
		names := []string{"Custom/a1", "Custom/a2", "Custom/drop/x", "WebTransaction/x", "Datastore/all"}
		metrics = append(metrics, protocol.EncodeMetric(b, names[rng.Intn(len(names))],
			[6]float64{1, float64(rng.Intn(9)), 1, 1, 2, 4}, rng.Intn(2) == 0, rng.Intn(4) == 0))
	}
	if rng.Intn(3) == 0 {
		errs = append(errs, protocol.EncodeError(b, int32(rng.Intn(5)), []byte(`[1,"x","m","c",{}]`)))
		errevs = append(errevs, ev("TransactionError"))
	}
	if rng.Intn(3) == 0 {
		slows = append(slows, protocol.EncodeSlowSQL(b, uint32(rng.Intn(4)), 1, uint64(10+rng.Intn(90)), 5, 100,
			"Datastore/statement/x", "select 1", []byte(`{}`)))
	}
	for i, n := 0, rng.Intn(3); i < n; i++ {
		customs = append(customs, ev("Custom"))
	}
	for i, n := 0, rng.Intn(3); i < n; i++ {
		spans = append(spans, ev("Span"))
	}
	for i, n := 0, rng.Intn(3); i < n; i++ {
		logs = append(logs, protocol.EncodeEvent(b, []byte(fmt.Sprintf(`{"message":"m%d","level":"INFO","timestamp":1}`, rng.Intn(100)))))
	}
	txnEvent := ev("Transaction")
	mv := c17Vec(b, protocol.TransactionStartMetricsVector, metrics)
	erv := c17Vec(b, protocol.TransactionStartErrorsVector, errs)
	sv := c17Vec(b, protocol.TransactionStartSlowSqlsVector, slows)
	cv := c17Vec(b, protocol.TransactionStartCustomEventsVector, customs)
	pv := c17Vec(b, protocol.TransactionStartSpanEventsVector, spans)
	lv := c17Vec(b, protocol.TransactionStartLogEventsVector, logs)
	xv := c17Vec(b, protocol.TransactionStartErrorEventsVector, errevs)
	var trace, pkgs, labels flatbuffers.UOffsetT
	if rng.Intn(3) == 0 {
		trace = protocol.EncodeTrace(b, 1000, float64(50+rng.Intn(500)), fmt.Sprintf("g%d", rng.Intn(1000)), rng.Intn(8) == 0, []byte(`[[0,{},{},[0,1,"ROOT",{},[]],{}],[]]`))
	}
	if rng.Intn(2) == 0 {
		pkgs = protocol.EncodeEvent(b, []byte(fmt.Sprintf(`[["pkg%d","1.%d",{}],["pkgx","2.0",{}]]`, rng.Intn(6), rng.Intn(3))))
	}
	if rng.Intn(4) == 0 {
		labels = protocol.EncodeEvent(b, []byte(`[{"label_type":"x","label_value":"y"}]`))
	}
	name := b.CreateString("WebTransaction/Action/verif")
	uri := b.CreateString("/verif")
	protocol.TransactionStart(b)
	protocol.TransactionAddName(b, name)
	protocol.TransactionAddUri(b, uri)
	protocol.TransactionAddPid(b, int32(1000+rng.Intn(4)))
	protocol.TransactionAddSamplingPriority(b, rng.Float64())
	protocol.TransactionAddTxnEvent(b, txnEvent)
	if mv != 0 {
		protocol.TransactionAddMetrics(b, mv)
	}
	if erv != 0 {
		protocol.TransactionAddErrors(b, erv)
	}
	if sv != 0 {
		protocol.TransactionAddSlowSqls(b, sv)
	}
	if cv != 0 {
		protocol.TransactionAddCustomEvents(b, cv)
	}
	if pv != 0 {
		protocol.TransactionAddSpanEvents(b, pv)
	}
	if lv != 0 {
		protocol.TransactionAddLogEvents(b, lv)
	}
	if xv != 0 {
		protocol.TransactionAddErrorEvents(b, xv)
	}
	if trace != 0 {
		protocol.TransactionAddTrace(b, trace)
	}
	if pkgs != 0 {
		protocol.TransactionAddPhpPackages(b, pkgs)
	}
	if labels != 0 {
		protocol.TransactionAddLogForwardingLabels(b, labels)
	}
	data := protocol.TransactionEnd(b)
	id := b.CreateString(runID)
	protocol.MessageStart(b)
	protocol.MessageAddAgentRunId(b, id)
	protocol.MessageAddDataType(b, protocol.MessageBodyTransaction)
	protocol.MessageAddData(b, data)
	b.Finish(protocol.MessageEnd(b))
	return append([]byte(nil), b.Bytes[b.Head():]...)
}

func c17SpanBatchMsg(runID string, count int) []byte {
	b := flatbuffers.NewBuilder(0)
	off := b.CreateByteVector([]byte{}) // an empty protobuf SpanBatch
	protocol.SpanBatchStart(b)
	protocol.SpanBatchAddCount(b, uint64(count))
	protocol.SpanBatchAddEncoded(b, off)
	data := protocol.SpanBatchEnd(b)
	id := b.CreateString(runID)
	protocol.MessageStart(b)
	protocol.MessageAddAgentRunId(b, id)
	protocol.MessageAddDataType(b, protocol.MessageBodySpanBatch)
	protocol.MessageAddData(b, data)
	b.Finish(protocol.MessageEnd(b))
	return append([]byte(nil), b.Bytes[b.Head():]...)
}

func c17Write(c net.Conn, msg []byte) error {
	var hdr [8]byte
	binary.LittleEndian.PutUint32(hdr[0:4], uint32(len(msg)))
	binary.LittleEndian.PutUint32(hdr[4:8], uint32(MessageTypeBinary))
	c.SetWriteDeadline(time.Now().Add(2 * time.Second))
	if _, err := c.Write(hdr[:]); err != nil {
		return err
	}
	_, err := c.Write(msg)
	return err
}

// reads one reply; returns status and the run id of a connected reply
func c17ReadReply(c net.Conn) (st string, runID string, err error) {
	var hdr [8]byte
	c.SetReadDeadline(time.Now().Add(1500 * time.Millisecond))
	if _, err = io.ReadFull(c, hdr[:]); err != nil {
		return "", "", err
	}
	n := binary.LittleEndian.Uint32(hdr[0:4])
	if n > 1<<22 {
		return "", "", errors.New("reply too large")
	}
	buf := make([]byte, n)
	if _, err = io.ReadFull(c, buf); err != nil {
		return "", "", err
	}
	if n == 0 {
		return "empty", "", nil
	}
	msg := protocol.GetRootAsMessage(buf, 0)
	var tbl flatbuffers.Table
	if msg.DataType() != protocol.MessageBodyAppReply || !msg.Data(&tbl) {
		return "other", "", nil
	}
	var ar protocol.AppReply
	ar.Init(tbl.Bytes, tbl.Pos)
	switch ar.Status() {
	case protocol.AppStatusConnected:
		var cr struct {
			ID string `json:"agent_run_id"`
		}
		json.Unmarshal(ar.ConnectReply(), &cr)
		return "connected", cr.ID, nil
	case protocol.AppStatusStillValid:
		return "still_valid", "", nil
	case protocol.AppStatusDisconnected:
		return "disconnected", "", nil
	case protocol.AppStatusInvalidLicense:
		return "invalid_license", "", nil
	case protocol.AppStatusUnknown:
		return "unknown", "", nil
	}
	return "other", "", nil
}

// ------------------------------------------------------------------ one round

// c17ConnectPayloads: the goroutine structure of a connect, on utilization data that HAS a container id of the
// daemon's own (this host is not a container, so the gathered data of the rounds never has one): the processor's
// goroutine builds the connect payload of one application after the other from the shared gathered data
// (considerConnect -> ConnectPayload, which overrides the container id with the agent's), each payload is handed to
// a connect goroutine that encodes it later (ConnectApplication -> EncodePayload, after the preconnect round trip).
func c17ConnectPayloads(seed int64) {
	util := &utilization.Data{}
	if err := json.Unmarshal([]byte(`{"metadata_version":5,"logical_processors":4,"total_ram_mib":1024,"hostname":"h",`+
		`"vendors":{"docker":{"id":"0123456789abcdef0123456789abcdef0123456789abcdef0123456789abcdef"}}}`), util); err != nil {
		return
	}
	rng := rand.New(rand.NewSource(seed))
	var wg sync.WaitGroup
	for k := 0; k < 24; k++ {
		info := &AppInfo{License: collector.LicenseKey(fmt.Sprintf("%040d", 5000+k)), Appname: fmt.Sprintf("payload%d", k),
			AgentLanguage: "php", AgentVersion: "1", Hostname: "h", Environment: JSONString(`[]`), Labels: JSONString(`[]`),
			Settings: map[string]interface{}{}}
		if k%3 != 2 {
			info.DockerId = fmt.Sprintf("%064x", k+1)
		}
		payload := info.ConnectPayload(util) // processor goroutine
		wg.Add(1)
		go func(d time.Duration) { // connect goroutine
			defer wg.Done()
			time.Sleep(d)
			EncodePayload(payload)
		}(time.Duration(rng.Intn(300)) * time.Microsecond)
		if rng.Intn(3) == 0 {
			time.Sleep(time.Duration(rng.Intn(200)) * time.Microsecond)
		}
	}
	wg.Wait()
}

func c17RunRound(r c17Round, idx int, tmp string, grpcPort int, closedPort int) *c17Stats {
	st := &c17Stats{AppInfoReply: map[string]int64{}, Collector: map[string]int64{}}
	if r.Procs > 0 {
		runtime.GOMAXPROCS(r.Procs)
	}
	c17ConnectPayloads(r.Seed)
	inner := &c17Collector{seed: r.Seed, stats: st}
	var client collector.Client = collector.NewLimitClient(inner, 3, 2*time.Second)
	realHost := ""
	if r.Real {
		srv := httptest.NewTLSServer(inner)
		defer srv.Close()
		ca := filepath.Join(tmp, fmt.Sprintf("c17-ca-%d.pem", idx))
		ioutil.WriteFile(ca, pem.EncodeToMemory(&pem.Block{Type: "CERTIFICATE", Bytes: srv.Certificate().Raw}), 0600)
		rc, err := collector.NewClient(&collector.ClientConfig{CAFile: ca, MaxParallel: 3, Timeout: 2 * time.Second})
		if err != nil {
			panic(err)
		}
		client = rc
		realHost = strings.TrimPrefix(srv.URL, "https://")
	}
	p := NewProcessor(ProcessorConfig{Client: client, AppTimeout: time.Duration(r.TimeoutMs) * time.Millisecond})
	p.appConnectBackoff = 15 * time.Millisecond
	runDone := make(chan struct{})
	go func() { p.Run(); close(runDone) }()

	sock := filepath.Join(tmp, fmt.Sprintf("c17-%d.sock", idx))
	os.Remove(sock)
	l, err := Listen("unix", sock)
	if err != nil {
		panic(err)
	}
	go l.Serve(CommandsHandler{Processor: p})

	var stopping int32 // 1: CleanExit in progress, 2: agents must leave
	var wg sync.WaitGroup

	// application generations: a new name whenever the old one died
	appOf := func(k, gen int) *c17App {
		a := &c17App{name: fmt.Sprintf("app%d-%d-g%d", idx, k, gen), license: fmt.Sprintf("%040d", 1000+k),
			host: fmt.Sprintf("host%d", k%3), dt: k%2 == 0, redirect: realHost, version: fmt.Sprintf("11.%d.%d.1", k%4, gen%3)}
		switch k % 4 {
		case 1:
			a.toHost, a.toPort = "127.0.0.1", uint16(closedPort)
		case 2:
			if grpcPort != 0 && r.Grpc {
				a.toHost, a.toPort = "localhost", uint16(grpcPort)
			} else {
				a.toHost, a.toPort = "127.0.0.1", uint16(closedPort)
			}
		}
		if k%3 == 0 {
			a.docker = fmt.Sprintf("%064x", k+gen)
		}
		return a
	}

	// interposer on the processor's harvest channel
	stopTicks := make(chan struct{})
	wg.Add(1)
	go func() {
		defer wg.Done()
		rng := rand.New(rand.NewSource(r.Seed ^ 0x7ea))
		var old []ProcessorHarvest
		for {
			select {
			case <-stopTicks:
				return
			case ph := <-p.processorHarvestChan:
				atomic.AddInt64(&st.Ticks, 1)
				switch rng.Intn(4) {
				case 0:
					ph.Type = HarvestAll
					atomic.AddInt64(&st.TicksMutated, 1)
				case 1:
					ph.Type = HarvestDefaultData | ph.Type
					atomic.AddInt64(&st.TicksMutated, 1)
				}
				if len(old) < 16 {
					old = append(old, ph)
				} else {
					old[rng.Intn(len(old))] = ph
				}
				out := []ProcessorHarvest{ph}
				if rng.Intn(6) == 0 {
					out = append(out, old[rng.Intn(len(old))]) // possibly of a closed app harvest
					atomic.AddInt64(&st.TicksStale, 1)
				}
				for _, o := range out {
					select {
					case p.processorHarvestChan <- o:
					case <-stopTicks:
						return
					case <-time.After(200 * time.Millisecond):
					}
				}
			}
		}
	}()

	if r.LogLevel {
		wg.Add(1)
		go func() {
			defer wg.Done()
			for atomic.LoadInt32(&stopping) < 2 {
				log.SetLevel(log.LogInfo)
				time.Sleep(time.Millisecond)
				log.SetLevel(log.LogWarning)
				time.Sleep(time.Millisecond)
			}
		}()
	}

	agent := func(i int) {
		defer wg.Done()
		rng := rand.New(rand.NewSource(r.Seed*1000 + int64(i)))
		c, err := net.Dial("unix", sock)
		if err != nil {
			return
		}
		defer c.Close()
		k := i % r.Apps
		gen := 0
		runID := ""
		jitter := func() {
			if rng.Intn(1000) < r.Jitter {
				if rng.Intn(2) == 0 {
					runtime.Gosched()
				} else {
					time.Sleep(time.Duration(rng.Intn(400)) * time.Microsecond)
				}
			}
		}
		for atomic.LoadInt32(&stopping) < 2 {
			a := appOf(k, gen)
			// AppInfo query (with the run id we believe in, sometimes a stale / bogus one)
			q := runID
			if rng.Intn(10) == 0 {
				q = "r999999"
			}
			if err := c17Write(c, c17AppInfoMsg(a, q)); err != nil {
				return
			}
			atomic.AddInt64(&st.AppInfo, 1)
			s, id, err := c17ReadReply(c)
			if err != nil {
				if atomic.LoadInt32(&stopping) >= 1 {
					return // the processor no longer answers
				}
				return
			}
			st.bump(st.AppInfoReply, s)
			switch s {
			case "connected":
				runID = id
			case "disconnected", "invalid_license":
				gen++
				runID = ""
				if rng.Intn(3) == 0 {
					k = rng.Intn(r.Apps)
				}
				continue
			case "unknown":
				runID = ""
				jitter()
				time.Sleep(time.Duration(200+rng.Intn(800)) * time.Microsecond)
				continue
			}
			if runID == "" {
				continue
			}
			for j, n := 0, 1+rng.Intn(6); j < n && atomic.LoadInt32(&stopping) < 2; j++ {
				id := runID
				if rng.Intn(25) == 0 {
					id = "r424242" // no such run
				}
				if a.toHost != "" && rng.Intn(3) == 0 {
					if err := c17Write(c, c17SpanBatchMsg(id, 1+rng.Intn(3))); err != nil {
						return
					}
					atomic.AddInt64(&st.Spans, 1)
				} else {
					if err := c17Write(c, c17TxnMsg(id, rng)); err != nil {
						return
					}
					atomic.AddInt64(&st.Txns, 1)
				}
				if atomic.LoadInt32(&stopping) == 1 {
					atomic.AddInt64(&st.SentAfter, 1)
				}
				jitter()
			}
			if rng.Intn(40) == 0 {
				k = rng.Intn(r.Apps) // serve another application from this connection
				gen = rng.Intn(2)
				runID = ""
			}
		}
	}
	for i := 0; i < r.Conns; i++ {
		wg.Add(1)
		go agent(i)
	}

	deadline := time.After(time.Duration(r.Ms) * time.Millisecond)
	peak := 0
loop:
	for {
		select {
		case <-deadline:
			break loop
		case <-time.After(20 * time.Millisecond):
			if n := runtime.NumGoroutine(); n > peak {
				peak = n
			}
		}
	}
	st.Goroutines = peak

	// shutdown while the connections are still sending
	atomic.StoreInt32(&stopping, 1)
	t0 := time.Now()
	exitDone := make(chan struct{})
	go func() { p.CleanExit(); close(exitDone) }()
	select {
	case <-exitDone:
		st.Exited = true
	case <-time.After(15 * time.Second):
	}
	st.ExitMs = int64(time.Since(t0) / time.Millisecond)
	time.Sleep(5 * time.Millisecond)
	atomic.StoreInt32(&stopping, 2)
	close(stopTicks)
	l.Close()
	wg.Wait()
	select {
	case <-runDone:
	case <-time.After(time.Second):
	}
	return st
}

func TestVerifC17(t *testing.T) {
	if dir := os.Getenv("VERIF_C17_GENCERT"); dir != "" {
		if err := c17GenCert(dir); err != nil {
			t.Fatal(err)
		}
		return
	}
	inPath, outPath := os.Getenv("VERIF_IN"), os.Getenv("VERIF_OUT")
	if inPath == "" {
		t.Skip("harness only")
	}
	var in struct {
		Rounds  []c17Round `json:"rounds"`
		CertDir string     `json:"cert_dir"`
	}
	raw, err := ioutil.ReadFile(inPath)
	if err != nil {
		t.Fatal(err)
	}
	if err := json.Unmarshal(raw, &in); err != nil {
		t.Fatal(err)
	}
	log.Init(log.LogDebug, os.DevNull) // every Debugf argument is evaluated and formatted
	tmp, err := ioutil.TempDir("", "c17")
	if err != nil {
		t.Fatal(err)
	}
	defer os.RemoveAll(tmp)
	grpcPort := 0
	var ingest *c17Ingest
	if in.CertDir != "" {
		port, srv, stop, err := c17StartGrpc(in.CertDir)
		if err == nil {
			grpcPort, ingest = port, srv
			defer stop()
		} else {
			t.Logf("no local trace observer endpoint: %v", err)
		}
	}
	closed := c17ClosedPort()
	var out []*c17Stats
	for i, r := range in.Rounds {
		st := c17RunRound(r, i, tmp, grpcPort, closed)
		if ingest != nil {
			st.GrpcStreams = atomic.LoadInt64(&ingest.streams)
			st.GrpcBatches = atomic.LoadInt64(&ingest.batches)
		}
		out = append(out, st.snapshot())
	}
	_ = context.Background
	ob, _ := json.Marshal(map[string]interface{}{"rounds": out, "grpc_port": grpcPort})
	if err := ioutil.WriteFile(outPath, ob, 0644); err != nil {
		t.Fatal(err)
	}
}
