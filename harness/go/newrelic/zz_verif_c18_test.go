//go:build verif

package newrelic

// C18 harness, wiring part: what limiter does the real newrelic.NewClient install?
// The limiter type is private to package collector, so it is inspected through reflection by field
// type (a channel = the semaphore, a time.Duration = the time-out), not by field name.

import (
	"encoding/json"
	"io/ioutil"
	"os"
	"reflect"
	"testing"
	"time"
)

func TestVerifC18(t *testing.T) {
	outPath := os.Getenv("VERIF_OUT")
	if os.Getenv("VERIF_IN") == "" {
		t.Skip("harness only")
	}
	out := map[string]interface{}{"ok": false, "limited": false, "sem_cap": -1, "sem_len": -1, "timeout_ns": -1, "type": ""}
	c, err := NewClient(&ClientConfig{})
	if err == nil && c != nil {
		out["ok"] = true
		v := reflect.ValueOf(c)
		for v.Kind() == reflect.Ptr || v.Kind() == reflect.Interface {
			v = v.Elem()
		}
		out["type"] = v.Type().String()
		if v.Kind() == reflect.Struct {
			durT := reflect.TypeOf(time.Duration(0))
			for i := 0; i < v.NumField(); i++ {
				f := v.Field(i)
				switch {
				case f.Kind() == reflect.Chan:
					out["limited"] = true
					out["sem_cap"] = f.Cap()
					out["sem_len"] = f.Len()
				case f.Type() == durT:
					out["timeout_ns"] = f.Int()
				}
			}
		}
	}
	ob, _ := json.Marshal(out)
	if err := ioutil.WriteFile(outPath, ob, 0644); err != nil {
		t.Fatal(err)
	}
}
