//go:build verif

package newrelic

import "reflect"

// verifTableCount is the number of (name, scope) entries a MetricTable says it holds: its own counter when it
// keeps one (an int field called count), otherwise the entries counted from the nested map.  The harnesses
// compare it with the entries they enumerate themselves, so neither source is trusted alone.
func verifTableCount(mt *MetricTable) int {
	f := reflect.ValueOf(mt).Elem().FieldByName("count")
	if f.IsValid() && f.CanInt() {
		return int(f.Int())
	}
	n := 0
	for _, s := range mt.metrics {
		n += len(s)
	}
	return n
}
