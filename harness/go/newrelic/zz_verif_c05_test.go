//go:build verif

package newrelic

// C05 harness: limit negotiation and exact counting on the REAL code.
//   nego:     connect reply JSON text -> parseConnectReply; an App flatbuffers message built with the
//             protocol builders -> processBinary/UnmarshalAppInfo; processLogEventLimits; NewHarvest
//             (capacity of every reservoir); the limits advertised in the connect payload
//             (ConnectPayloadInternal -> JSON).  Selected cases additionally go through a real
//             Processor (IncomingAppInfo, mock collector client answering preconnect/connect).
//   res:      event reservoirs of the five kinds: counters, payload header, Split
//   tables:   MetricTable: count / numDropped after stages of adds and merges
//   harvests: NewHarvest + offers to every container + createFinalMetrics: supportability counters
//   apps:     application cap on a real Processor
// Reads $VERIF_IN, writes $VERIF_OUT.

import (
	"encoding/json"
	"fmt"
	"io/ioutil"
	"os"
	"sort"
	"strconv"
	"strings"
	"sync"
	"sync/atomic"
	"testing"
	"time"

	flatbuffers "github.com/google/flatbuffers/go"

	"github.com/newrelic/newrelic-php-agent/daemon/internal/newrelic/collector"
	"github.com/newrelic/newrelic-php-agent/daemon/internal/newrelic/protocol"
)

const c05Grid = 1048576.0

// ------------------------------------------------------------------ negotiation

type c05Nego struct {
	Reply string     `json:"reply"`
	Agent [3]*string `json:"agent"` // span, log, custom as decimal uint64; null = not written
	E2E   bool       `json:"e2e"`
	Again bool       `json:"again"` // repeat the negotiation on the same application object (a reconnect)
}

type c05NegoOut struct {
	ParseOK  bool     `json:"parse_ok"`
	Limits   []int64  `json:"limits"`  // error, txn, custom, span, log after parseConnectReply
	Periods  []int64  `json:"periods"` // ns
	Report   int64    `json:"report"`
	Agent    [3]int64 `json:"agent"` // span, log, custom as the daemon's ints
	Caps     []int64  `json:"caps"`  // cap() of the reservoirs made by NewHarvest
	Panic    string   `json:"panic,omitempty"`
	Unsafe   bool     `json:"unsafe,omitempty"` // a limit outside [0, 10^6]: NewHarvest was not called
	AdvMs    int64    `json:"adv_ms"`
	Adv      []int64  `json:"adv"`
	E2ECaps  []int64  `json:"e2e_caps,omitempty"`
	E2EAdv   []int64  `json:"e2e_adv,omitempty"`
	E2EAdvMs int64    `json:"e2e_adv_ms,omitempty"`
	E2EState string   `json:"e2e_state,omitempty"`
	// the same application connects a second time (restart, reconnect): the negotiation must come out as the first time
	AgainRun  bool   `json:"again_run"`
	AgainSame bool   `json:"again_same"`
	AgainNote string `json:"again_note,omitempty"`
}

type c05Handler struct{ info *AppInfo }

func (h *c05Handler) IncomingTxnData(id AgentRunID, sample AggregaterInto) {}
func (h *c05Handler) IncomingSpanBatch(batch SpanBatch)                   {}
func (h *c05Handler) IncomingAppInfo(id *AgentRunID, info *AppInfo) AppInfoReply {
	h.info = info
	return AppInfoReply{}
}

func c05AppMessage(agent [3]*string, k int) []byte {
	b := flatbuffers.NewBuilder(0)
	lic := b.CreateString(fmt.Sprintf("c05lic%06d0123456789abcdef0123456789abcd", k))
	name := b.CreateString(fmt.Sprintf("c05app%d", k))
	lang := b.CreateString("php")
	ver := b.CreateString("1.0")
	env := b.CreateString("[]")
	host := b.CreateString("c05host")
	protocol.AppStart(b)
	protocol.AppAddLicense(b, lic)
	protocol.AppAddAppName(b, name)
	protocol.AppAddAgentLanguage(b, lang)
	protocol.AppAddAgentVersion(b, ver)
	protocol.AppAddEnvironment(b, env)
	protocol.AppAddHost(b, host)
	for i, s := range agent {
		if s == nil {
			continue
		}
		v, err := strconv.ParseUint(*s, 10, 64)
		if err != nil {
			panic(err)
		}
		switch i {
		case 0:
			protocol.AppAddSpanEventsMaxSamplesStored(b, v)
		case 1:
			protocol.AppAddLogEventsMaxSamplesStored(b, v)
		case 2:
			protocol.AppAddCustomEventsMaxSamplesStored(b, v)
		}
	}
	app := protocol.AppEnd(b)
	protocol.MessageStart(b)
	protocol.MessageAddDataType(b, protocol.MessageBodyApp)
	protocol.MessageAddData(b, app)
	b.Finish(protocol.MessageEnd(b))
	return b.FinishedBytes()
}

func c05Caps(h *Harvest) []int64 {
	return []int64{
		int64(cap(*h.ErrorEvents.analyticsEvents.events)), int64(cap(*h.TxnEvents.analyticsEvents.events)),
		int64(cap(*h.CustomEvents.analyticsEvents.events)), int64(cap(*h.SpanEvents.analyticsEvents.events)),
		int64(cap(*h.LogEvents.analyticsEvents.events)),
	}
}

func c05AdvOf(raw []byte) (int64, []int64, bool) {
	var p struct {
		EHC struct {
			Ms uint64 `json:"report_period_ms"`
			HL struct {
				E *int64 `json:"error_event_data"`
				A *int64 `json:"analytic_event_data"`
				C *int64 `json:"custom_event_data"`
				S *int64 `json:"span_event_data"`
				L *int64 `json:"log_event_data"`
			} `json:"harvest_limits"`
		} `json:"event_harvest_config"`
	}
	if err := json.Unmarshal(raw, &p); err != nil {
		return 0, nil, false
	}
	h := p.EHC.HL
	if h.E == nil || h.A == nil || h.C == nil || h.S == nil || h.L == nil {
		return 0, nil, false
	}
	return int64(p.EHC.Ms), []int64{*h.E, *h.A, *h.C, *h.S, *h.L}, true
}

func c05EventConfigs(c collector.EventConfigs) ([]int64, []int64) {
	es := []collector.Event{c.ErrorEventConfig, c.AnalyticEventConfig, c.CustomEventConfig, c.SpanEventConfig, c.LogEventConfig}
	l, p := []int64{}, []int64{}
	for _, e := range es {
		l = append(l, int64(e.Limit))
		p = append(p, int64(e.ReportPeriod))
	}
	return l, p
}

func c05RunNego(c c05Nego, k int) (out c05NegoOut) {
	out.Limits, out.Periods, out.Caps, out.Adv = []int64{}, []int64{}, []int64{}, []int64{}
	h := &c05Handler{}
	if _, err := processBinary(c05AppMessage(c.Agent, k), h); err != nil || h.info == nil {
		out.Panic = "app message not decoded"
		return
	}
	info := h.info
	out.Agent = [3]int64{int64(info.AgentEventLimits.SpanEventConfig.Limit), int64(info.AgentEventLimits.LogEventConfig.Limit),
		int64(info.AgentEventLimits.CustomEventConfig.Limit)}
	// advertised
	if raw, err := json.Marshal(info.ConnectPayloadInternal(1, nil)); err == nil {
		if ms, adv, ok := c05AdvOf(raw); ok {
			out.AdvMs, out.Adv = ms, adv
		}
	}
	reply, err := parseConnectReply([]byte(c.Reply))
	if err != nil {
		return
	}
	out.ParseOK = true
	out.Limits, out.Periods = c05EventConfigs(reply.EventHarvestConfig.EventConfigs)
	out.Report = int64(reply.EventHarvestConfig.ReportPeriod)
	app := &App{info: info, connectReply: reply}
	func() {
		defer func() {
			if r := recover(); r != nil {
				out.Panic = fmt.Sprint(r)
			}
		}()
		processLogEventLimits(app)
		final, _ := c05EventConfigs(app.connectReply.EventHarvestConfig.EventConfigs)
		for _, l := range final {
			if l < 0 || l > 1000000 {
				// NewHarvest would try to allocate that many slots (a fatal out-of-memory error or a
				// makeslice panic): report the sizes it would be given instead of calling it
				out.Caps, out.Unsafe = final, true
				return
			}
		}
		hv := NewHarvest(time.Now(), app.connectReply.EventHarvestConfig.EventConfigs)
		out.Caps = c05Caps(hv)
	}()
	if out.Panic != "" || out.Unsafe || !c.Again {
		return
	}
	// second connect of the same application (its description lives as long as the daemon does)
	func() {
		defer func() {
			if r := recover(); r != nil {
				out.AgainRun, out.AgainSame, out.AgainNote = true, false, "panic: "+fmt.Sprint(r)
			}
		}()
		out.AgainRun, out.AgainSame = true, true
		differ := func(what string, a, b interface{}) {
			if out.AgainSame && fmt.Sprint(a) != fmt.Sprint(b) {
				out.AgainSame = false
				out.AgainNote = fmt.Sprintf("%s: first connect %v, second connect %v", what, a, b)
			}
		}
		agent2 := [3]int64{int64(info.AgentEventLimits.SpanEventConfig.Limit), int64(info.AgentEventLimits.LogEventConfig.Limit),
			int64(info.AgentEventLimits.CustomEventConfig.Limit)}
		differ("agent limits held by the daemon", out.Agent, agent2)
		if raw, err := json.Marshal(info.ConnectPayloadInternal(1, nil)); err == nil {
			if ms, adv, ok := c05AdvOf(raw); ok {
				differ("advertised report period", out.AdvMs, ms)
				differ("advertised limits", out.Adv, adv)
			}
		}
		reply2, err := parseConnectReply([]byte(c.Reply))
		if err != nil {
			differ("connect reply parses", true, false)
			return
		}
		app2 := &App{info: info, connectReply: reply2}
		processLogEventLimits(app2)
		hv2 := NewHarvest(time.Now(), app2.connectReply.EventHarvestConfig.EventConfigs)
		differ("reservoir capacities", out.Caps, c05Caps(hv2))
	}()
	return
}

// a real Processor whose collector answers preconnect at once and connect with the case's reply
type c05E2E struct {
	mu      sync.Mutex
	replies map[string]string // license -> connect reply
	conn    map[string][]byte // license -> connect payload seen
	p       *Processor
}

func c05NewE2E() *c05E2E {
	e := &c05E2E{replies: map[string]string{}, conn: map[string][]byte{}}
	client := collector.ClientFn(func(cmd *collector.RpmCmd, cs collector.RpmControls) collector.RPMResponse {
		data, _ := cs.Collectible.CollectorJSON(false)
		switch cmd.Name {
		case collector.CommandPreconnect:
			return collector.RPMResponse{StatusCode: 200, Body: []byte(`{"redirect_host":"c05coll.example"}`)}
		case collector.CommandConnect:
			e.mu.Lock()
			defer e.mu.Unlock()
			e.conn[string(cmd.License)] = data
			return collector.RPMResponse{StatusCode: 200, Body: []byte(e.replies[string(cmd.License)])}
		}
		return collector.RPMResponse{StatusCode: 200, Body: []byte(`null`)}
	})
	e.p = NewProcessor(ProcessorConfig{Client: client})
	e.p.trackProgress = make(chan struct{})
	go e.p.Run()
	<-e.p.trackProgress // utilization
	return e
}

func (e *c05E2E) run(c c05Nego, k int, out *c05NegoOut) {
	h := &c05Handler{}
	processBinary(c05AppMessage(c.Agent, k), h)
	info := h.info
	e.mu.Lock()
	e.replies[string(info.License)] = c.Reply
	e.mu.Unlock()
	done := make(chan AppInfoReply, 1)
	go func() { done <- e.p.IncomingAppInfo(nil, info) }()
	tick := func() bool {
		select {
		case <-e.p.trackProgress:
			return true
		case <-time.After(5 * time.Second):
			return false
		}
	}
	if !tick() { // app info processed
		out.E2EState = "hung"
		return
	}
	<-done
	if !tick() { // connect attempt processed
		out.E2EState = "hung"
		return
	}
	// the processor goroutine is blocked on trackProgress or idle: its maps are quiescent
	app := e.p.apps[info.Key()]
	if app == nil {
		out.E2EState = "noapp"
		return
	}
	out.E2EState = map[AppState]string{AppStateUnknown: "unknown", AppStateConnected: "connected"}[app.state]
	if app.state == AppStateConnected && app.connectReply != nil && app.connectReply.ID != nil {
		if ah := e.p.harvests[*app.connectReply.ID]; ah != nil {
			out.E2ECaps = c05Caps(ah.Harvest)
		}
	}
	e.mu.Lock()
	raw := e.conn[string(info.License)]
	e.mu.Unlock()
	var arr []json.RawMessage
	if json.Unmarshal(raw, &arr) == nil && len(arr) == 1 {
		if ms, adv, ok := c05AdvOf(arr[0]); ok {
			out.E2EAdvMs, out.E2EAdv = ms, adv
		}
	}
}

// ------------------------------------------------------------------ event reservoirs

type c05ROp struct {
	Op string `json:"op"` // add | synth | addn | merge | mergefailed
	P  int64  `json:"p"`
	R  int    `json:"r"`
	N  int    `json:"n"` // addn: n events with priorities (7919*j mod 2^20)/2^20
}
type c05Res struct {
	Kind  string   `json:"kind"`
	K     int      `json:"k"`
	Ops   []c05ROp `json:"ops"`
	Split bool     `json:"split"`
}
type c05Hdr struct {
	Seen  int64 `json:"seen"` // events_seen
	Size  int64 `json:"size"` // reservoir_size
	N     int64 `json:"n"`    // events in the payload
	Valid bool  `json:"valid"`
}
type c05Half struct {
	Seen int64  `json:"seen"`
	Len  int64  `json:"len"`
	Cap  int64  `json:"cap"`
	Hdr  c05Hdr `json:"hdr"`
}
type c05ResOut struct {
	Seen   int64     `json:"seen"`
	Saved  int64     `json:"saved"`
	Len    int64     `json:"len"`
	Cap    int64     `json:"cap"`
	Failed int64     `json:"failed"`
	Hdr    c05Hdr    `json:"hdr"`
	Halves []c05Half `json:"halves"`
	Prios  []int64   `json:"prios"` // retained priorities * 2^20, array order
}

type c05Reservoir struct {
	ae     *analyticsEvents
	add    func(data []byte, p SamplingPriority)
	synth  func(data []byte, p SamplingPriority)
	failed func(into *c05Reservoir)
	put    func(h *Harvest)
}

func c05NewRes(kind string, k int) *c05Reservoir {
	r := &c05Reservoir{}
	switch kind {
	case "txn":
		e := NewTxnEvents(k)
		r.ae, r.add, r.synth = e.analyticsEvents, e.AddTxnEvent, e.AddSyntheticsEvent
		r.put = func(h *Harvest) { h.TxnEvents = e }
		r.failed = func(into *c05Reservoir) { h := &Harvest{}; into.put(h); e.FailedHarvest(h) }
	case "custom":
		e := NewCustomEvents(k)
		r.ae, r.add = e.analyticsEvents, e.AddEventFromData
		r.put = func(h *Harvest) { h.CustomEvents = e }
		r.failed = func(into *c05Reservoir) { h := &Harvest{}; into.put(h); e.FailedHarvest(h) }
	case "error":
		e := NewErrorEvents(k)
		r.ae, r.add = e.analyticsEvents, e.AddEventFromData
		r.put = func(h *Harvest) { h.ErrorEvents = e }
		r.failed = func(into *c05Reservoir) { h := &Harvest{}; into.put(h); e.FailedHarvest(h) }
	case "span":
		e := NewSpanEvents(k)
		r.ae, r.add = e.analyticsEvents, e.AddEventFromData
		r.put = func(h *Harvest) { h.SpanEvents = e }
		r.failed = func(into *c05Reservoir) { h := &Harvest{}; into.put(h); e.FailedHarvest(h) }
	case "log":
		e := NewLogEvents(k)
		r.ae, r.add = e.analyticsEvents, e.AddEventFromData
		r.put = func(h *Harvest) { h.LogEvents = e }
		r.failed = func(into *c05Reservoir) { h := &Harvest{}; into.put(h); e.FailedHarvest(h) }
	default:
		panic("kind " + kind)
	}
	if r.synth == nil {
		r.synth = r.add
	}
	return r
}

// the payload header of analyticsEvents.CollectorJSON: [run, {reservoir_size, events_seen}, [events]]
func c05Header(ae *analyticsEvents) (h c05Hdr) {
	raw, err := ae.CollectorJSON("run")
	if err != nil {
		return
	}
	var p []json.RawMessage
	if json.Unmarshal(raw, &p) != nil || len(p) != 3 {
		return
	}
	var meta struct {
		ReservoirSize *int64 `json:"reservoir_size"`
		EventsSeen    *int64 `json:"events_seen"`
	}
	var evs []json.RawMessage
	if json.Unmarshal(p[1], &meta) != nil || json.Unmarshal(p[2], &evs) != nil || meta.ReservoirSize == nil || meta.EventsSeen == nil {
		return
	}
	return c05Hdr{Seen: *meta.EventsSeen, Size: *meta.ReservoirSize, N: int64(len(evs)), Valid: true}
}

func c05RunRes(in []c05Res) []c05ResOut {
	built := make([]*c05Reservoir, len(in))
	outs := make([]c05ResOut, len(in))
	for i, rc := range in {
		r := c05NewRes(rc.Kind, rc.K)
		built[i] = r
		for j, op := range rc.Ops {
			data := []byte(fmt.Sprintf("[%d,%d]", i, j))
			switch op.Op {
			case "add":
				r.add(data, SamplingPriority(float64(op.P)/c05Grid))
			case "synth":
				r.synth(data, SamplingPriority(float64(op.P)/c05Grid))
			case "addn":
				for q := 0; q < op.N; q++ {
					r.add(data, SamplingPriority(float64((q*7919)%1048576)/c05Grid))
				}
			case "merge":
				r.ae.Merge(built[op.R].ae)
			case "mergefailed":
				built[op.R].failed(r)
			default:
				panic("op " + op.Op)
			}
		}
		o := c05ResOut{Seen: int64(r.ae.NumSeen()), Saved: int64(r.ae.NumSaved()), Len: int64(len(*r.ae.events)),
			Cap: int64(cap(*r.ae.events)), Failed: int64(r.ae.NumFailedAttempts()), Hdr: c05Header(r.ae), Halves: []c05Half{}}
		o.Prios = []int64{}
		for _, e := range *r.ae.events {
			o.Prios = append(o.Prios, int64(float64(e.priority)*c05Grid+0.5))
		}
		if rc.Split {
			e1, e2 := r.ae.Split()
			for _, e := range []*analyticsEvents{e1, e2} {
				o.Halves = append(o.Halves, c05Half{Seen: int64(e.NumSeen()), Len: int64(len(*e.events)),
					Cap: int64(cap(*e.events)), Hdr: c05Header(e)})
			}
		}
		outs[i] = o
	}
	return outs
}

// ------------------------------------------------------------------ metric tables

type c05Stage struct {
	Kind   string     `json:"kind"`   // adds | merge | mfail
	Offers [][2]int64 `json:"offers"` // key, forced
	From   int        `json:"from"`
}
type c05Table struct {
	Max    int        `json:"max"` // < 0: NewHarvest's table (limits.MaxMetrics)
	Stages []c05Stage `json:"stages"`
}
type c05TabObs struct {
	Count   int64      `json:"count"`
	Dropped int64      `json:"dropped"`
	Failed  int64      `json:"failed"`
	Entries [][3]int64 `json:"entries"` // key, forced, call count; ascending by key
	Bad     bool       `json:"bad"`
}

func c05MetricName(k int64) string { return "m" + strconv.FormatInt(k, 10) }

func c05DumpTable(mt *MetricTable) c05TabObs {
	o := c05TabObs{Count: int64(verifTableCount(mt)), Dropped: int64(mt.numDropped), Failed: int64(mt.failedHarvests), Entries: [][3]int64{}}
	for name, s := range mt.metrics {
		for scope, m := range s {
			k, err := strconv.ParseInt(strings.TrimPrefix(name, "m"), 10, 64)
			if err != nil || scope != "" || !strings.HasPrefix(name, "m") {
				o.Bad = true
				continue
			}
			f := int64(0)
			if m.forced == Forced {
				f = 1
			}
			o.Entries = append(o.Entries, [3]int64{k, f, int64(m.data.collectorData()[0])})
		}
	}
	sort.Slice(o.Entries, func(i, j int) bool { return o.Entries[i][0] < o.Entries[j][0] })
	return o
}

func c05RunTables(in []c05Table) [][]c05TabObs {
	built := make([]*MetricTable, len(in))
	outs := make([][]c05TabObs, len(in))
	now := time.Unix(1700000000, 0)
	for i, tc := range in {
		var mt *MetricTable
		if tc.Max < 0 {
			mt = NewHarvest(now, collector.NewHarvestLimits(nil)).Metrics
		} else {
			mt = NewMetricTable(tc.Max, now)
		}
		built[i] = mt
		outs[i] = []c05TabObs{}
		for _, st := range tc.Stages {
			switch st.Kind {
			case "adds":
				for _, of := range st.Offers {
					f := Unforced
					if of[1] != 0 {
						f = Forced
					}
					mt.AddCount(c05MetricName(of[0]), "", 1, f)
				}
			case "merge":
				mt.Merge(built[st.From])
			case "mfail":
				mt.MergeFailed(built[st.From])
			default:
				panic("stage " + st.Kind)
			}
			outs[i] = append(outs[i], c05DumpTable(mt))
		}
	}
	return outs
}

// ------------------------------------------------------------------ whole harvest: supportability counters

type c05Harvest struct {
	Caps    [5]int     `json:"caps"`    // error, txn, custom, span, log
	Events  [5]int     `json:"events"`  // offers per kind
	Metrics [][2]int64 `json:"metrics"` // key, forced
	Errors  int        `json:"errors"`
	Slows   int        `json:"slows"`
	Traces  [3]int     `json:"traces"` // regular, force-persisted, synthetics
}
type c05HarvestOut struct {
	Seen     [5]int64 `json:"seen"` // supportability .../Seen (call count field)
	Sent     [5]int64 `json:"sent"`
	Dropped  int64    `json:"dropped"` // Supportability/MetricsDropped, -1 when absent
	NumDrop  int64    `json:"num_dropped"`
	Limits   [5]int64 `json:"limits"` // Supportability/EventHarvest/*/HarvestLimit
	Unforced int64    `json:"unforced"`
	User     int64    `json:"user"` // metrics held before createFinalMetrics
	NErrors  int64    `json:"n_errors"`
	NSlows   int64    `json:"n_slows"`
	NTraces  [3]int64 `json:"n_traces"`
	Missing  []string `json:"missing"`
}

func c05RunHarvest(c c05Harvest) (out c05HarvestOut) {
	now := time.Unix(1700000000, 0)
	cfg := collector.EventHarvestConfig{ReportPeriod: 60 * time.Second}
	cfg.EventConfigs.ErrorEventConfig.Limit = c.Caps[0]
	cfg.EventConfigs.AnalyticEventConfig.Limit = c.Caps[1]
	cfg.EventConfigs.CustomEventConfig.Limit = c.Caps[2]
	cfg.EventConfigs.SpanEventConfig.Limit = c.Caps[3]
	cfg.EventConfigs.LogEventConfig.Limit = c.Caps[4]
	h := NewHarvest(now, cfg.EventConfigs)
	adders := []func(data []byte, p SamplingPriority){h.ErrorEvents.AddEventFromData, h.TxnEvents.AddTxnEvent,
		h.CustomEvents.AddEventFromData, h.SpanEvents.AddEventFromData, h.LogEvents.AddEventFromData}
	for kind, n := range c.Events {
		for j := 0; j < n; j++ {
			adders[kind]([]byte(`[{},{},{}]`), SamplingPriority(float64((j*7919)%1048576)/c05Grid))
		}
	}
	for _, of := range c.Metrics {
		f := Unforced
		if of[1] != 0 {
			f = Forced
		}
		h.Metrics.AddCount(c05MetricName(of[0]), "", 1, f)
	}
	for j := 0; j < c.Errors; j++ {
		h.Errors.AddError(j%7, []byte(`[]`))
	}
	for j := 0; j < c.Slows; j++ {
		h.SlowSQLs.Observe(&SlowSQL{ID: SQLId(j + 1), Count: 1, TotalMicros: uint64(10 + j), MinMicros: uint64(10 + j),
			MaxMicros: uint64(10 + j), MetricName: "m", Query: "q", TxnName: "t", TxnURL: "u", Params: JSONString("{}")})
	}
	for pool, n := range c.Traces {
		for j := 0; j < n; j++ {
			tt := &TxnTrace{DurationMillis: float64(100 + (j*37)%91), GUID: strconv.Itoa(j), Data: JSONString(`{}`)}
			if pool == 1 {
				tt.ForcePersist = true
			}
			if pool == 2 {
				tt.SyntheticsResourceID = "res"
			}
			if h.TxnTraces.IsKeeper(tt) {
				h.TxnTraces.AddTxnTrace(tt)
			}
		}
	}
	out.NumDrop = int64(h.Metrics.numDropped)
	out.User = int64(len(h.Metrics.metrics))
	for _, s := range h.Metrics.metrics {
		for _, m := range s {
			if m.forced == Unforced {
				out.Unforced++
			}
		}
	}
	out.NErrors = int64(len(*h.Errors))
	out.NSlows = int64(len(h.SlowSQLs.slowSQLs))
	out.NTraces = [3]int64{int64(len(*h.TxnTraces.regular)), int64(len(*h.TxnTraces.forcePersisted)), int64(len(*h.TxnTraces.synthetics))}
	h.pidSet[1] = struct{}{}
	h.createFinalMetrics(cfg, nil)
	get := func(name string) int64 {
		s, ok := h.Metrics.metrics[name]
		if !ok {
			return -1
		}
		m, ok := s[""]
		if !ok {
			return -1
		}
		return int64(m.data.collectorData()[0])
	}
	need := func(name string) int64 {
		v := get(name)
		if v < 0 {
			out.Missing = append(out.Missing, name)
		}
		return v
	}
	out.Missing = []string{}
	seen := []string{"Supportability/Events/TransactionError/Seen", "Supportability/AnalyticsEvents/TotalEventsSeen",
		"Supportability/Events/Customer/Seen", "Supportability/SpanEvent/TotalEventsSeen", "Supportability/Logging/Forwarding/Seen"}
	sent := []string{"Supportability/Events/TransactionError/Sent", "Supportability/AnalyticsEvents/TotalEventsSent",
		"Supportability/Events/Customer/Sent", "Supportability/SpanEvent/TotalEventsSent", "Supportability/Logging/Forwarding/Sent"}
	lim := []string{"ErrorEventData", "AnalyticEventData", "CustomEventData", "SpanEventData", "LogEventData"}
	for i := 0; i < 5; i++ {
		out.Seen[i] = need(seen[i])
		out.Sent[i] = need(sent[i])
		out.Limits[i] = need("Supportability/EventHarvest/" + lim[i] + "/HarvestLimit")
	}
	out.Dropped = get("Supportability/MetricsDropped")
	return out
}

// ------------------------------------------------------------------ application cap

type c05AppsOut struct {
	Counts     []int64 `json:"counts"` // len(p.apps) after each AppInfo
	Preconnect int64   `json:"preconnect"`
	Hung       bool    `json:"hung"`
}

// c05Rejected: applications the collector turns away at once (401 at preconnect: invalid license).  They keep
// their entry in the application table -- agents are still answered for them -- and so they count.
func c05Rejected(k int64) bool { return k%7 == 3 }

func c05RunApps(keys []int64) (out c05AppsOut) {
	out.Counts = []int64{}
	var mu sync.Mutex
	pre := map[string]bool{}
	block := make(chan struct{})
	client := collector.ClientFn(func(cmd *collector.RpmCmd, cs collector.RpmControls) collector.RPMResponse {
		if cmd.Name == collector.CommandPreconnect {
			mu.Lock()
			pre[string(cmd.License)] = true
			mu.Unlock()
			if strings.HasPrefix(string(cmd.License), "c05rej") {
				return collector.RPMResponse{StatusCode: 401, Err: fmt.Errorf("verif: invalid license")}
			}
		}
		<-block // never answered during the scenario
		return collector.RPMResponse{StatusCode: 503}
	})
	p := NewProcessor(ProcessorConfig{Client: client})
	p.trackProgress = make(chan struct{})
	go p.Run()
	<-p.trackProgress
	// the processor announces every event on the unbuffered progress channel: keep it drained
	var events int64
	stop := make(chan struct{})
	defer close(stop)
	go func() {
		for {
			select {
			case <-p.trackProgress:
				atomic.AddInt64(&events, 1)
			case <-stop:
				return
			}
		}
	}()
	for _, k := range keys {
		lic := fmt.Sprintf("c05cap%06d0123456789abcdef0123456789abcd", k)
		if c05Rejected(k) {
			lic = fmt.Sprintf("c05rej%06d0123456789abcdef0123456789abcd", k)
		}
		info := &AppInfo{
			License:       collector.LicenseKey(lic),
			Appname:       fmt.Sprintf("cap%d", k),
			AgentLanguage: "php", AgentVersion: "1.0", Environment: JSONString(`[]`), Labels: JSONString(`[]`),
			Hostname: "h",
		}
		done := make(chan struct{})
		go func() { p.IncomingAppInfo(nil, info); close(done) }()
		select {
		case <-done:
		case <-time.After(5 * time.Second):
			out.Hung = true
			return
		}
		if c05Rejected(k) {
			// let the verdict of the rejected application reach the processor before the next one registers
			before := atomic.LoadInt64(&events)
			dl := time.Now().Add(300 * time.Millisecond)
			for atomic.LoadInt64(&events) < before+1 && time.Now().Before(dl) {
				time.Sleep(200 * time.Microsecond)
			}
		}
		// quiesce: the processor is idle when no event has been announced for a moment
		last, quiet := atomic.LoadInt64(&events), time.Now()
		for time.Since(quiet) < 300*time.Microsecond {
			if e := atomic.LoadInt64(&events); e != last {
				last, quiet = e, time.Now()
			}
			time.Sleep(50 * time.Microsecond)
		}
		out.Counts = append(out.Counts, int64(len(p.apps)))
	}
	// give the connect goroutines a moment to reach the client
	deadline := time.Now().Add(2 * time.Second)
	for time.Now().Before(deadline) {
		mu.Lock()
		n := len(pre)
		mu.Unlock()
		max := int64(0)
		for _, c := range out.Counts {
			if c > max {
				max = c
			}
		}
		if int64(n) >= max {
			break
		}
		time.Sleep(10 * time.Millisecond)
	}
	mu.Lock()
	out.Preconnect = int64(len(pre))
	mu.Unlock()
	return out
}

// ------------------------------------------------------------------ entry point

func TestVerifC05(t *testing.T) {
	inPath, outPath := os.Getenv("VERIF_IN"), os.Getenv("VERIF_OUT")
	if inPath == "" {
		t.Skip("harness only")
	}
	var in struct {
		Nego     []c05Nego    `json:"nego"`
		Res      []c05Res     `json:"res"`
		Tables   []c05Table   `json:"tables"`
		Harvests []c05Harvest `json:"harvests"`
		Apps     [][]int64    `json:"apps"`
	}
	raw, err := ioutil.ReadFile(inPath)
	if err != nil {
		t.Fatal(err)
	}
	if err := json.Unmarshal(raw, &in); err != nil {
		t.Fatal(err)
	}
	var out struct {
		Nego     []c05NegoOut    `json:"nego"`
		Res      []c05ResOut     `json:"res"`
		Tables   [][]c05TabObs   `json:"tables"`
		Harvests []c05HarvestOut `json:"harvests"`
		Apps     []c05AppsOut    `json:"apps"`
	}
	var e2e *c05E2E
	out.Nego = []c05NegoOut{}
	for i, c := range in.Nego {
		o := c05RunNego(c, i)
		if c.E2E && !o.Unsafe && o.Panic == "" {
			if e2e == nil {
				e2e = c05NewE2E()
			}
			e2e.run(c, i, &o)
		}
		out.Nego = append(out.Nego, o)
	}
	out.Res = c05RunRes(in.Res)
	out.Tables = c05RunTables(in.Tables)
	out.Harvests = []c05HarvestOut{}
	for _, c := range in.Harvests {
		out.Harvests = append(out.Harvests, c05RunHarvest(c))
	}
	out.Apps = []c05AppsOut{}
	for _, keys := range in.Apps {
		out.Apps = append(out.Apps, c05RunApps(keys))
	}
	ob, err := json.Marshal(out)
	if err != nil {
		t.Fatal(err)
	}
	if err := ioutil.WriteFile(outPath, ob, 0644); err != nil {
		t.Fatal(err)
	}
}
