//go:build verif

package newrelic

// C11 with LIVE harvest timers (the histories of TestVerifProc inject their ticks by hand; the real
// tickers of an application connected with short report periods keep firing while CleanExit runs).
//
// A scenario connects 1-3 applications through the real processor with report periods of tens of
// milliseconds, delivers data, lets some periodic harvests happen, optionally leaves requests in flight,
// and calls CleanExit while the collector answers every request after a delay (and with a given status).
// Observed: whether CleanExit returned (watchdog), how long it took, and every request the collector saw
// after the exit began.  Uses vpBuildTxn / vpDecode / vpAppInfo of the processor harness.

import (
	"encoding/json"
	"encoding/pem"
	"fmt"
	"io/ioutil"
	"net/http"
	"net/http/httptest"
	"os"
	"path/filepath"
	"strings"
	"runtime"
	"sync"
	"sync/atomic"
	"testing"
	"time"

	"github.com/newrelic/newrelic-php-agent/daemon/internal/newrelic/collector"
)

type c11Scenario struct {
	Apps      int   `json:"apps"`
	PeriodMs  int   `json:"period_ms"`  // event and span report periods handed out at connect
	DelayMs   int   `json:"delay_ms"`   // collector latency for every harvest request
	ExitDelay int   `json:"exit_delay"` // collector latency once the exit has begun (slow final requests)
	Status    int   `json:"status"`     // status of harvest requests (202, 503, 410, ...)
	Txns      int   `json:"txns"`       // transactions per application before the exit
	WaitMs    int   `json:"wait_ms"`    // time the timers run before the exit
	Seed      int64 `json:"seed"`
	// Transport != "": the REAL collector client (collector.NewClient, TLS, time-out TimeoutMs) against a local
	// server; once the exit has begun the server treats harvest requests as the mode says:
	//   "ok" answers 202; "silent" never answers; "stall_body" sends the status line and headers, then nothing;
	//   "close" drops the connection; "slow_read" reads the request body a few bytes at a time
	Transport string `json:"transport"`
	TimeoutMs int    `json:"timeout_ms"`
}

type c11Final struct {
	Run  int64   `json:"run"`
	Cat  string  `json:"cat"`
	Tags []int64 `json:"tags"`
}

type c11Obs struct {
	Connected  int        `json:"connected"`
	Exited     bool       `json:"exited"`
	ExitMs     int64      `json:"exit_ms"`
	BoundMs    int64      `json:"bound_ms"`
	Periodic   int        `json:"periodic_requests"`
	Finals     []c11Final `json:"finals"` // requests that reached the collector after the exit began
	Periodics  []c11Final `json:"periodics"` // ... and before
	AfterExit  int        `json:"requests_after_return"`
	Goroutines string     `json:"goroutines,omitempty"`
	Note       string     `json:"note,omitempty"`
}

type c11Client struct {
	sc       *c11Scenario
	mu       sync.Mutex
	runs     int64
	exiting  int32
	returned int32
	periodic int
	after    int
	finals   []*vpCall
	before   []*vpCall
	sm       *vpSlotMap
}

func (c *c11Client) Execute(cmd *collector.RpmCmd, cs collector.RpmControls) collector.RPMResponse {
	data, err := cs.Collectible.CollectorJSON(false)
	if err != nil {
		return collector.RPMResponse{Err: err}
	}
	cmd.Data = data
	switch cmd.Name {
	case collector.CommandPreconnect:
		return collector.RPMResponse{StatusCode: 200, Body: []byte(`{"redirect_host":"coll1.example"}`)}
	case collector.CommandConnect:
		run := atomic.AddInt64(&c.runs, 1)
		p := c.sc.PeriodMs
		body := fmt.Sprintf(`{"agent_run_id":"r%d","event_harvest_config":{"report_period_ms":%d,`+
			`"harvest_limits":{"analytic_event_data":100,"custom_event_data":100,"error_event_data":100,"log_event_data":100}},`+
			`"span_event_harvest_config":{"report_period_ms":%d,"harvest_limit":100},"request_headers_map":{"X-Verif-Hdr":"%d"}}`,
			run, p, p, run)
		return collector.RPMResponse{StatusCode: 200, Body: []byte(body)}
	}
	exiting := atomic.LoadInt32(&c.exiting) == 1
	c.mu.Lock()
	if atomic.LoadInt32(&c.returned) == 1 {
		c.after++
	} else if exiting {
		c.finals = append(c.finals, &vpCall{cmd: *cmd, lang: cs.AgentLanguage, version: cs.AgentVersion, data: data})
	} else {
		c.periodic++
		c.before = append(c.before, &vpCall{cmd: *cmd, lang: cs.AgentLanguage, version: cs.AgentVersion, data: data})
	}
	c.mu.Unlock()
	d := c.sc.DelayMs
	if exiting {
		d = c.sc.ExitDelay
	}
	if d > 0 {
		time.Sleep(time.Duration(d) * time.Millisecond)
	}
	if c.sc.Status == 202 || c.sc.Status == 200 {
		return collector.RPMResponse{StatusCode: 202}
	}
	return collector.RPMResponse{StatusCode: c.sc.Status, Err: fmt.Errorf("verif: collector answered %d", c.sc.Status)}
}

// c11Server: a local collector for the real client
type c11Server struct {
	sc      *c11Scenario
	exiting int32
	runs    int64
	finals  int64
	stop    chan struct{}
}

func (sv *c11Server) ServeHTTP(w http.ResponseWriter, r *http.Request) {
	method := r.URL.Query().Get("method")
	exiting := atomic.LoadInt32(&sv.exiting) == 1
	harvest := method != collector.CommandPreconnect && method != collector.CommandConnect
	if harvest && exiting && sv.sc.Transport == "slow_read" {
		buf := make([]byte, 7)
		for {
			if _, err := r.Body.Read(buf); err != nil {
				break
			}
			select {
			case <-sv.stop:
				return
			case <-time.After(20 * time.Millisecond):
			}
		}
	} else {
		ioutil.ReadAll(r.Body)
	}
	switch {
	case method == collector.CommandPreconnect:
		fmt.Fprintf(w, `{"return_value":{"redirect_host":"%s"}}`, r.Host)
	case method == collector.CommandConnect:
		run := atomic.AddInt64(&sv.runs, 1)
		p := sv.sc.PeriodMs
		fmt.Fprintf(w, `{"return_value":{"agent_run_id":"r%d","event_harvest_config":{"report_period_ms":%d,`+
			`"harvest_limits":{"analytic_event_data":100,"custom_event_data":100,"error_event_data":100,"log_event_data":100}},`+
			`"span_event_harvest_config":{"report_period_ms":%d,"harvest_limit":100}}}`, run, p, p)
	case !exiting:
		w.WriteHeader(202)
	default:
		atomic.AddInt64(&sv.finals, 1)
		switch sv.sc.Transport {
		case "silent":
			<-sv.stop
		case "stall_body":
			w.Header().Set("Content-Length", "100000")
			w.WriteHeader(200)
			if f, ok := w.(http.Flusher); ok {
				f.Flush()
			}
			<-sv.stop
		case "close":
			if hj, ok := w.(http.Hijacker); ok {
				if c, _, err := hj.Hijack(); err == nil {
					c.Close()
				}
			}
		default:
			w.WriteHeader(202)
		}
	}
}

// c11RunReal: the exit against the real HTTP client
func c11RunReal(sc *c11Scenario) (obs c11Obs) {
	sv := &c11Server{sc: sc, stop: make(chan struct{})}
	srv := httptest.NewTLSServer(sv)
	defer srv.Close()
	defer close(sv.stop)
	dir, _ := ioutil.TempDir("", "verifc11")
	defer os.RemoveAll(dir)
	ca := filepath.Join(dir, "ca.pem")
	ioutil.WriteFile(ca, pem.EncodeToMemory(&pem.Block{Type: "CERTIFICATE", Bytes: srv.Certificate().Raw}), 0600)
	to := time.Duration(sc.TimeoutMs) * time.Millisecond
	client, err := collector.NewClient(&collector.ClientConfig{CAFile: ca, MaxParallel: 4, Timeout: to})
	if err != nil {
		obs.Note = "NewClient: " + err.Error()
		return
	}
	host := strings.TrimPrefix(srv.URL, "https://")
	p := NewProcessor(ProcessorConfig{Client: client, AppTimeout: 10 * time.Minute})
	go p.Run()
	h := CommandsHandler{Processor: p}
	runOf := map[int]string{}
	deadline := time.Now().Add(8 * time.Second)
	for k := 1; k <= sc.Apps; k++ {
		for time.Now().Before(deadline) {
			info := vpAppInfo(int64(k), false)
			info.RedirectCollector = host
			rep := p.IncomingAppInfo(nil, info)
			if rep.State == AppStateConnected {
				var cr struct {
					ID string `json:"agent_run_id"`
				}
				json.Unmarshal(rep.ConnectReply, &cr)
				runOf[k] = cr.ID
				break
			}
			time.Sleep(5 * time.Millisecond)
		}
	}
	obs.Connected = len(runOf)
	if obs.Connected != sc.Apps {
		obs.Note = "not every application connected (real client)"
		return
	}
	tag := int64(0)
	for i := 0; i < sc.Txns; i++ {
		for k := 1; k <= sc.Apps; k++ {
			tag++
			op := vpOp{Run: vpRunNum(runOf[k]), Prio: int64(1000 + tag), Items: []vpItem{
				{Cat: "txnev", Tag: tag, Prio: int64(1000 + tag)}, {Cat: "custom", Tag: tag + 100000, Prio: int64(1000 + tag)},
				{Cat: "metrics", Tag: tag + 200000, Key: 1, Slot: int(tag) % 140}}}
			h.HandleMessage(RawMessage{Type: MessageTypeBinary, Bytes: vpBuildTxn(runOf[k], &op)})
		}
		time.Sleep(time.Duration(sc.WaitMs/sc.Txns) * time.Millisecond)
	}
	// every final request ends at the client's time-out at the latest; they are made one after another
	// (at most 13 per application); in-flight periodic requests end by the same time-out
	obs.BoundMs = int64(sc.Apps*13*sc.TimeoutMs) + int64(sc.TimeoutMs) + 3000
	atomic.StoreInt32(&sv.exiting, 1)
	t0 := time.Now()
	done := make(chan struct{})
	go func() { p.CleanExit(); close(done) }()
	select {
	case <-done:
		obs.Exited = true
	case <-time.After(time.Duration(obs.BoundMs) * time.Millisecond):
		buf := make([]byte, 1<<16)
		obs.Goroutines = string(buf[:stackAll(buf)])
	}
	obs.ExitMs = time.Since(t0).Milliseconds()
	obs.Periodic = int(atomic.LoadInt64(&sv.finals)) // (final requests that reached the server)
	return
}

func c11Run(sc *c11Scenario) (obs c11Obs) {
	if sc.Transport != "" {
		return c11RunReal(sc)
	}
	client := &c11Client{sc: sc, sm: &vpSlotMap{metric: map[int]int64{}, slow: map[int]int64{}}}
	p := NewProcessor(ProcessorConfig{Client: client, AppTimeout: 10 * time.Minute})
	go p.Run()
	h := CommandsHandler{Processor: p}
	// connect: ask until every application is connected
	runOf := map[int]string{}
	deadline := time.Now().Add(5 * time.Second)
	for k := 1; k <= sc.Apps; k++ {
		for time.Now().Before(deadline) {
			rep := p.IncomingAppInfo(nil, vpAppInfo(int64(k), k%2 == 0))
			if rep.State == AppStateConnected {
				var cr struct {
					ID string `json:"agent_run_id"`
				}
				json.Unmarshal(rep.ConnectReply, &cr)
				runOf[k] = cr.ID
				break
			}
			time.Sleep(2 * time.Millisecond)
		}
	}
	obs.Connected = len(runOf)
	if obs.Connected != sc.Apps {
		obs.Note = "not every application connected"
		return
	}
	// data, spread over the waiting time so that periodic harvests carry some of it
	tag := int64(0)
	slot := 0
	for i := 0; i < sc.Txns; i++ {
		for k := 1; k <= sc.Apps; k++ {
			tag++
			op := vpOp{Run: vpRunNum(runOf[k]), Prio: int64(1000 + tag), Items: []vpItem{
				{Cat: "txnev", Tag: tag, Prio: int64(1000 + tag)}, {Cat: "custom", Tag: tag + 100000, Prio: int64(1000 + tag)},
				{Cat: "metrics", Tag: tag + 200000, Key: 1, Slot: slot % 140}}}
			client.sm.metric[slot%140] = tag + 200000
			slot++
			h.HandleMessage(RawMessage{Type: MessageTypeBinary, Bytes: vpBuildTxn(runOf[k], &op)})
		}
		if sc.Txns > 0 {
			time.Sleep(time.Duration(sc.WaitMs/sc.Txns) * time.Millisecond)
		}
	}
	// the bound: every final request is answered after ExitDelay; they are sent one after another
	// (at most 11 payload kinds and the usage payload per application), plus what was in flight
	obs.BoundMs = int64(sc.Apps*13*sc.ExitDelay+sc.DelayMs) + 3000
	atomic.StoreInt32(&client.exiting, 1)
	t0 := time.Now()
	done := make(chan struct{})
	go func() { p.CleanExit(); close(done) }()
	select {
	case <-done:
		obs.Exited = true
	case <-time.After(time.Duration(obs.BoundMs) * time.Millisecond):
		buf := make([]byte, 1<<16)
		obs.Goroutines = string(buf[:stackAll(buf)])
	}
	obs.ExitMs = time.Since(t0).Milliseconds()
	atomic.StoreInt32(&client.returned, 1)
	time.Sleep(time.Duration(3*sc.PeriodMs+20) * time.Millisecond) // nothing may be sent once the daemon has "exited"
	client.mu.Lock()
	obs.Periodic, obs.AfterExit = client.periodic, client.after
	for _, c := range client.finals {
		q := vpDecode(c, client.sm)
		if q.Kind == "harvest" {
			obs.Finals = append(obs.Finals, c11Final{Run: q.Run, Cat: q.Cat, Tags: q.Tags})
		}
	}
	for _, c := range client.before {
		q := vpDecode(c, client.sm)
		if q.Kind == "harvest" {
			obs.Periodics = append(obs.Periodics, c11Final{Run: q.Run, Cat: q.Cat, Tags: q.Tags})
		}
	}
	client.mu.Unlock()
	return
}

func stackAll(buf []byte) int {
	return runtime.Stack(buf, true)
}

func TestVerifC11Exit(t *testing.T) {
	inPath, outPath := os.Getenv("VERIF_IN"), os.Getenv("VERIF_OUT")
	if inPath == "" {
		t.Skip("harness only")
	}
	var scs []c11Scenario
	raw, err := ioutil.ReadFile(inPath)
	if err != nil {
		t.Fatal(err)
	}
	if err := json.Unmarshal(raw, &scs); err != nil {
		t.Fatal(err)
	}
	out := make([]c11Obs, len(scs))
	sem := make(chan struct{}, 6)
	var wg sync.WaitGroup
	for i := range scs {
		wg.Add(1)
		sem <- struct{}{}
		go func(i int) {
			defer wg.Done()
			defer func() { <-sem }()
			out[i] = c11Run(&scs[i])
		}(i)
	}
	wg.Wait()
	ob, _ := json.Marshal(out)
	if err := ioutil.WriteFile(outPath, ob, 0644); err != nil {
		t.Fatal(err)
	}
}
