//go:build verif

package newrelic

// C04 application identity (model: coq/AppKey.v).
//
// A case is a list of application descriptions.  Each one is encoded as a real flatbuffers APP message
// (the repository's protocol builders), delivered through CommandsHandler.HandleMessage to a real
// Processor (UnmarshalAppInfo, IncomingAppInfo, processAppInfo), and the harness reports which
// application object each description was mapped to, plus the AppKey comparison of every pair.
// The collector is a stub that refuses every request at once (the applications stay unconnected).

import (
	"encoding/json"
	"errors"
	"io/ioutil"
	"os"
	"sync"
	"testing"
	"time"

	"github.com/google/flatbuffers/go"

	"github.com/newrelic/newrelic-php-agent/daemon/internal/newrelic/collector"
	"github.com/newrelic/newrelic-php-agent/daemon/internal/newrelic/protocol"
)

type c04Desc struct {
	License     string `json:"license"`
	Appname     string `json:"appname"`
	Language    string `json:"language"`
	Version     string `json:"version"`
	Redirect    string `json:"redirect"`
	Host        string `json:"host"`
	DisplayHost string `json:"display_host"`
	HighSec     bool   `json:"high_security"`
	Policies    string `json:"policies"` // JSON text of the supported_security_policies field
	Token       string `json:"token"`
	TOHost      string `json:"to_host"`
	TOPort      uint16 `json:"to_port"`
	Queue       uint64 `json:"queue"`
	Env         string `json:"env"`
	Labels      string `json:"labels"`
	Metadata    string `json:"metadata"`
	Settings    string `json:"settings"`
	DockerID    string `json:"docker_id"`
	Span        uint64 `json:"span"`
	Log         uint64 `json:"log"`
	Custom      uint64 `json:"custom"`
}

type c04Obs struct {
	Class     []int    `json:"class"`      // application object each description was mapped to (numbered by first use)
	KeyEq     [][]bool `json:"key_eq"`     // AppInfo.Key() of description i == that of description j
	Apps      int      `json:"apps"`       // len(p.apps) at the end
	Preconns  int      `json:"preconnects"`
	Note      string   `json:"note,omitempty"`
}

type c04Client struct {
	mu    sync.Mutex
	calls []string
}

func (c *c04Client) Execute(cmd *collector.RpmCmd, cs collector.RpmControls) collector.RPMResponse {
	c.mu.Lock()
	c.calls = append(c.calls, cmd.Name)
	c.mu.Unlock()
	return collector.RPMResponse{StatusCode: 503, Err: errors.New("verif: refused")}
}

func c04Build(d *c04Desc) []byte {
	b := flatbuffers.NewBuilder(0)
	str := func(s string) flatbuffers.UOffsetT {
		if s == "" {
			return 0
		}
		return b.CreateString(s)
	}
	lic, name, lang, ver := str(d.License), str(d.Appname), str(d.Language), str(d.Version)
	red, host, dh, pol, tok := str(d.Redirect), str(d.Host), str(d.DisplayHost), str(d.Policies), str(d.Token)
	toh, env, lab, md, set, dock := str(d.TOHost), str(d.Env), str(d.Labels), str(d.Metadata), str(d.Settings), str(d.DockerID)
	protocol.AppStart(b)
	add := func(f func(*flatbuffers.Builder, flatbuffers.UOffsetT), o flatbuffers.UOffsetT) {
		if o != 0 {
			f(b, o)
		}
	}
	add(protocol.AppAddLicense, lic)
	add(protocol.AppAddAppName, name)
	add(protocol.AppAddAgentLanguage, lang)
	add(protocol.AppAddAgentVersion, ver)
	add(protocol.AppAddRedirectCollector, red)
	add(protocol.AppAddHost, host)
	add(protocol.AppAddDisplayHost, dh)
	add(protocol.AppAddSupportedSecurityPolicies, pol)
	add(protocol.AppAddSecurityPolicyToken, tok)
	add(protocol.AppAddTraceObserverHost, toh)
	add(protocol.AppAddEnvironment, env)
	add(protocol.AppAddLabels, lab)
	add(protocol.AppAddMetadata, md)
	add(protocol.AppAddSettings, set)
	add(protocol.AppAddDockerId, dock)
	protocol.AppAddHighSecurity(b, d.HighSec)
	protocol.AppAddTraceObserverPort(b, d.TOPort)
	protocol.AppAddSpanQueueSize(b, d.Queue)
	protocol.AppAddSpanEventsMaxSamplesStored(b, d.Span)
	protocol.AppAddLogEventsMaxSamplesStored(b, d.Log)
	protocol.AppAddCustomEventsMaxSamplesStored(b, d.Custom)
	app := protocol.AppEnd(b)
	protocol.MessageStart(b)
	protocol.MessageAddDataType(b, protocol.MessageBodyApp)
	protocol.MessageAddData(b, app)
	b.Finish(protocol.MessageEnd(b))
	out := make([]byte, len(b.FinishedBytes()))
	copy(out, b.FinishedBytes())
	return out
}

// c04Drain keeps reading the processor's progress channel (the processor blocks on it after every event),
// so that a connect result arriving late can never wedge the processor loop
type c04Drain struct {
	mu     sync.Mutex
	events int
	last   time.Time
	stop   chan struct{}
}

func c04StartDrain(p *Processor) *c04Drain {
	d := &c04Drain{last: time.Now(), stop: make(chan struct{})}
	go func() {
		for {
			select {
			case <-p.trackProgress:
				d.mu.Lock()
				d.events++
				d.last = time.Now()
				d.mu.Unlock()
			case <-d.stop:
				return
			}
		}
	}()
	return d
}

// wait until at least one more event than [before] has been seen and nothing happened for 3 ms
func (d *c04Drain) quiesce(before int) {
	deadline := time.Now().Add(2 * time.Second)
	for time.Now().Before(deadline) {
		d.mu.Lock()
		ok := d.events > before && time.Since(d.last) >= 3*time.Millisecond
		d.mu.Unlock()
		if ok {
			return
		}
		time.Sleep(100 * time.Microsecond)
	}
}

func (d *c04Drain) count() int {
	d.mu.Lock()
	defer d.mu.Unlock()
	return d.events
}

func c04Run(descs []c04Desc) (obs c04Obs) {
	client := &c04Client{}
	p := NewProcessor(ProcessorConfig{Client: client, AppTimeout: 10 * time.Minute})
	p.trackProgress = make(chan struct{})
	go p.Run()
	select {
	case <-p.trackProgress:
	case <-time.After(10 * time.Second):
		obs.Note = "processor did not start"
		return
	}
	drain := c04StartDrain(p)
	defer close(drain.stop)
	h := CommandsHandler{Processor: p}
	var keys []AppKey
	seen := map[*App]int{}
	for i := range descs {
		msg := c04Build(&descs[i])
		// the key of what the daemon decodes from these bytes
		m := protocol.GetRootAsMessage(msg, 0)
		var tbl flatbuffers.Table
		m.Data(&tbl)
		keys = append(keys, UnmarshalAppInfo(tbl).Key())
		before := drain.count()
		if _, err := h.HandleMessage(RawMessage{Type: MessageTypeBinary, Bytes: msg}); err != nil {
			obs.Note += "handle: " + err.Error() + "; "
		}
		drain.quiesce(before)
		app := p.apps[keys[i]]
		if app == nil {
			obs.Class = append(obs.Class, -1)
			continue
		}
		if _, ok := seen[app]; !ok {
			seen[app] = len(seen)
		}
		obs.Class = append(obs.Class, seen[app])
	}
	for i := range keys {
		row := make([]bool, len(keys))
		for j := range keys {
			row[j] = keys[i] == keys[j]
		}
		obs.KeyEq = append(obs.KeyEq, row)
	}
	obs.Apps = len(p.apps)
	client.mu.Lock()
	for _, c := range client.calls {
		if c == collector.CommandPreconnect {
			obs.Preconns++
		}
	}
	client.mu.Unlock()
	// let the processor go: nothing is connected, the final flush has nothing to send
	done := make(chan struct{})
	go func() { p.CleanExit(); close(done) }()
	select {
	case <-done:
	case <-time.After(3 * time.Second):
		obs.Note += "CleanExit did not return; "
	}
	return
}

func TestVerifC04Key(t *testing.T) {
	inPath, outPath := os.Getenv("VERIF_IN"), os.Getenv("VERIF_OUT")
	if inPath == "" {
		t.Skip("harness only")
	}
	var cases [][]c04Desc
	raw, err := ioutil.ReadFile(inPath)
	if err != nil {
		t.Fatal(err)
	}
	if err := json.Unmarshal(raw, &cases); err != nil {
		t.Fatal(err)
	}
	out := make([]c04Obs, len(cases))
	sem := make(chan struct{}, 8)
	var wg sync.WaitGroup
	for i := range cases {
		wg.Add(1)
		sem <- struct{}{}
		go func(i int) {
			defer wg.Done()
			defer func() { <-sem }()
			out[i] = c04Run(cases[i])
		}(i)
	}
	wg.Wait()
	ob, _ := json.Marshal(out)
	if err := ioutil.WriteFile(outPath, ob, 0644); err != nil {
		t.Fatal(err)
	}
}
