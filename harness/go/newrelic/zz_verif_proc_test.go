//go:build verif

package newrelic

// Processor-level correspondence harness (properties C01, C02, C03, C04, C11).
//
// Runs histories of operations against the REAL Processor (NewProcessor, Run, IncomingAppInfo,
// CommandsHandler.HandleMessage with real flatbuffers transactions, CleanExit) with a mock
// collector.Client whose every Execute call blocks until the history releases it with a chosen
// outcome.  Harvest ticks are delivered on the processor's own harvest channel (stale ticks for
// closed app harvests included).  Virtual time is obtained by shifting the stored time stamps of
// the applications back, which is equivalent to advancing the clock because the code only uses
// differences to time.Now().
//
// Input  $VERIF_IN : {"histories":[{"ops":[...]}], "settle_us": n, "parallel": n}
// Output $VERIF_OUT: {"histories":[{"steps":[{"reqs":[...], "appreply":..., "exited":bool, "hung":bool}]}]}

import (
	"net"
	"bytes"
	"encoding/json"
	"errors"
	"fmt"
	"io/ioutil"
	"math"
	"os"
	"sort"
	"strconv"
	"strings"
	"sync"
	"testing"
	"time"

	flatbuffers "github.com/google/flatbuffers/go"

	"github.com/newrelic/newrelic-php-agent/daemon/internal/newrelic/collector"
	"github.com/newrelic/newrelic-php-agent/daemon/internal/newrelic/protocol"
)

// ------------------------------------------------------------------ input format

type vpItem struct {
	Cat  string `json:"cat"`
	Tag  int64  `json:"tag"`
	Prio int64  `json:"prio"`
	Key  int64  `json:"key"`
	Slot int    `json:"slot"` // metrics / slow SQLs: bit position that carries the tag in the payload
}

type vpOut struct {
	Kind string           `json:"kind"` // ok | fail | malformed | norunid
	F    string           `json:"f"`    // retry | 409 | 401 | 410 | other | transport
	Code int              `json:"code"` // the status the collector answers with (0: derived from F); model: Status.fail_of_code
	Host int64            `json:"host"`
	Run  int64            `json:"run"`
	Hdr  int64            `json:"hdr"`
	Caps map[string]int64 `json:"caps"`
}

type vpOp struct {
	Op    string            `json:"op"`
	Key   int64             `json:"key"`
	Dt    bool              `json:"dt"`
	ID    *int64            `json:"id"`
	Run   int64             `json:"run"`
	Prio  int64             `json:"prio"` // transaction sampling priority on the 2^20 grid
	Synth bool              `json:"synth"`
	Items []vpItem          `json:"items"`
	Pkgs  *[]vpItem         `json:"pkgs"`
	Cat   string            `json:"cat"`
	N     int               `json:"n"` // index into the outstanding attempts / requests
	Out   vpOut             `json:"out"`
	Ah    int               `json:"ah"`
	Ty    int               `json:"ty"`
	Dts   int64             `json:"dts"`  // advance, seconds
	Outs  map[string]string `json:"outs"` // clean exit: "<run>:<cat>" or "default" -> outcome name
	Tag0  int64             `json:"tag0"` // bulk: N transactions, each with one transaction event tag0+i, priority prio0+i
	Prio0 int64             `json:"prio0"`
	Then  *vpOp             `json:"then"` // tick: a transaction handed over right behind the harvest request, with no pause
	Burst []vpOp            `json:"burst"` // txn: this and the following transactions arrive back to back on ONE agent connection
	Replies []vpOp          `json:"replies"` // txn: answers given all at once while the processor is still busy with this transaction
}

type vpHistory struct {
	Ops []vpOp `json:"ops"`
}

// ------------------------------------------------------------------ observations

type vpReq struct {
	Kind   string  `json:"kind"` // preconnect | connect | harvest | usage
	Cat    string  `json:"cat"`
	Owner  int64   `json:"owner"`
	Host   int64   `json:"host"`
	Hdr    int64   `json:"hdr"`
	Run    int64   `json:"run"`
	Tags   []int64 `json:"tags"`
	Cap    int64   `json:"cap"`
	Seen   int64   `json:"seen"`
	Valid  bool    `json:"valid_json"`
	Cmd    string  `json:"cmd"`
	rank   int
	call   *vpCall
	attKey int64
	released bool // preconnect answered successfully, connect request not yet seen
}

type vpAppReply struct {
	Valid bool   `json:"valid"`
	State string `json:"state"`
	Run   int64  `json:"run"` // agent_run_id of the connect reply handed over with "connected" (0 otherwise)
}

type vpStep struct {
	Reqs     []*vpReq    `json:"reqs"`
	AppReply *vpAppReply `json:"appreply,omitempty"`
	Exited   bool        `json:"exited"`
	Hung     bool        `json:"hung"`
	Note     string      `json:"note,omitempty"`
}

type vpObs struct {
	Steps []vpStep `json:"steps"`
	Panic string   `json:"panic,omitempty"`
}

// ------------------------------------------------------------------ mock collector client

type vpCall struct {
	cmd     collector.RpmCmd
	lang    string
	version string
	data    []byte
	audit   []byte
	snap    []byte // copy of data taken when the request was made
	ret     chan collector.RPMResponse
}

// vpStable: a request is the application's own for as long as it is outstanding: a real client reads the payload
// when an outbound slot is free and again for the audit log, not at the instant Execute is entered.  If the
// bytes handed over have changed by the time the reply is given, the request no longer carries what its
// application submitted (owner -2: identification of another application).
func vpStable(q *vpReq) {
	if q != nil && q.call != nil && !bytes.Equal(q.call.data, q.call.snap) {
		q.Owner = -2
		q.Valid = false
	}
}

type vpClient struct {
	mu    sync.Mutex
	calls []*vpCall
	seen  int
	act   chan struct{}
}

func (c *vpClient) Execute(cmd *collector.RpmCmd, cs collector.RpmControls) collector.RPMResponse {
	data, err := cs.Collectible.CollectorJSON(false)
	if err != nil {
		return collector.RPMResponse{Err: err}
	}
	cmd.Data = data
	audit, _ := cs.Collectible.CollectorJSON(true)
	call := &vpCall{cmd: *cmd, lang: cs.AgentLanguage, version: cs.AgentVersion, data: data, audit: audit,
		snap: append([]byte(nil), data...),
		ret: make(chan collector.RPMResponse, 1)}
	c.mu.Lock()
	c.calls = append(c.calls, call)
	c.mu.Unlock()
	select {
	case c.act <- struct{}{}:
	default:
	}
	return <-call.ret
}

func (c *vpClient) take() []*vpCall {
	c.mu.Lock()
	defer c.mu.Unlock()
	out := c.calls[c.seen:]
	c.seen = len(c.calls)
	return out
}

// ------------------------------------------------------------------ naming conventions

var vpCatCmd = map[string]string{
	"metrics": collector.CommandMetrics, "custom": collector.CommandCustomEvents, "errev": collector.CommandErrorEvents,
	"errors": collector.CommandErrors, "slow": collector.CommandSlowSQLs, "traces": collector.CommandTraces,
	"txnev": collector.CommandTxnEvents, "span": collector.CommandSpanEvents, "log": collector.CommandLogEvents,
	"pkgs": collector.CommandPhpPackages,
}
var vpCatRank = map[string]int{"metrics": 0, "custom": 1, "errev": 2, "errors": 3, "slow": 4, "traces": 5,
	"txnev": 6, "span": 7, "log": 8, "pkgs": 9}

func vpCmdCat(cmd string) string {
	for c, n := range vpCatCmd {
		if n == cmd {
			return c
		}
	}
	return ""
}

func vpLicense(k int64) collector.LicenseKey {
	return collector.LicenseKey(fmt.Sprintf("lic%06d0123456789abcdef0123456789abcdef", k))
}

func vpAppInfo(k int64, dt bool) *AppInfo {
	info := &AppInfo{
		License:       vpLicense(k),
		Appname:       fmt.Sprintf("app%d", k),
		AgentLanguage: "php",
		AgentVersion:  fmt.Sprintf("1.%d", k),
		Settings:      map[string]interface{}{"newrelic.distributed_tracing_enabled": dt},
		Environment:   JSONString(`[]`),
		Labels:        JSONString(`[]`),
		Hostname:      fmt.Sprintf("host%d", k),
	}
	info.AgentEventLimits.LogEventConfig.Limit = 20000
	info.AgentEventLimits.SpanEventConfig.Limit = 10000
	info.AgentEventLimits.CustomEventConfig.Limit = 100000
	return info
}

func vpOwnerOf(lic collector.LicenseKey, lang, version string) int64 {
	s := string(lic)
	if len(s) < 9 || !strings.HasPrefix(s, "lic") {
		return -1
	}
	k, err := strconv.ParseInt(s[3:9], 10, 64)
	if err != nil || vpLicense(k) != lic {
		return -1
	}
	if lang != "php" || version != fmt.Sprintf("1.%d", k) {
		return -2 // agent identification of another application
	}
	return k
}

func vpHostOf(h string) int64 {
	if strings.HasPrefix(h, "coll") && strings.HasSuffix(h, ".example") {
		n, err := strconv.ParseInt(h[4:len(h)-8], 10, 64)
		if err == nil {
			return n
		}
	}
	return 0
}

// ------------------------------------------------------------------ building transactions

func vpEventJSON(tag int64) []byte { return []byte(fmt.Sprintf(`[{"t":%d},{},{}]`, tag)) }

func vpBuildTxn(run string, op *vpOp) []byte {
	b := flatbuffers.NewBuilder(0)
	prio := float64(op.Prio) / float64(1<<20)

	var txnEvent flatbuffers.UOffsetT
	var metrics, errs, slows, customs, spans, logs, errevs []flatbuffers.UOffsetT
	var trace flatbuffers.UOffsetT
	for _, it := range op.Items {
		switch it.Cat {
		case "txnev":
			txnEvent = protocol.EncodeEvent(b, vpEventJSON(it.Tag))
		case "metrics":
			var d [6]float64
			d[0] = 1
			f := 1 + it.Slot/50
			if f == 3 {
				f = 5
			}
			d[f] = math.Ldexp(1, it.Slot%50)
			metrics = append(metrics, protocol.EncodeMetric(b, fmt.Sprintf("m%d", it.Key), d, false, false))
		case "errors":
			errs = append(errs, protocol.EncodeError(b, int32(it.Prio), []byte(fmt.Sprintf(`{"t":%d}`, it.Tag))))
		case "slow":
			slows = append(slows, protocol.EncodeSlowSQL(b, uint32(it.Key), int32(1)<<uint(it.Slot), 1, uint64(it.Prio),
				uint64(it.Prio), "Datastore/x", fmt.Sprintf("select %d", it.Tag), []byte(`{}`)))
		case "custom":
			customs = append(customs, protocol.EncodeEvent(b, vpEventJSON(it.Tag)))
		case "span":
			spans = append(spans, protocol.EncodeEvent(b, vpEventJSON(it.Tag)))
		case "log":
			logs = append(logs, protocol.EncodeEvent(b, []byte(fmt.Sprintf(`{"message":"x","t":%d}`, it.Tag))))
		case "errev":
			errevs = append(errevs, protocol.EncodeEvent(b, vpEventJSON(it.Tag)))
		case "traces":
			trace = protocol.EncodeTrace(b, 1000, float64(it.Prio), fmt.Sprintf("%d", it.Tag), it.Key == 1,
				[]byte(fmt.Sprintf(`{"t":%d}`, it.Tag)))
		}
	}
	vec := func(start func(*flatbuffers.Builder, int) flatbuffers.UOffsetT, offs []flatbuffers.UOffsetT) flatbuffers.UOffsetT {
		if len(offs) == 0 {
			return 0
		}
		start(b, len(offs))
		for i := len(offs) - 1; i >= 0; i-- {
			b.PrependUOffsetT(offs[i])
		}
		return b.EndVector(len(offs))
	}
	mv := vec(protocol.TransactionStartMetricsVector, metrics)
	ev := vec(protocol.TransactionStartErrorsVector, errs)
	sv := vec(protocol.TransactionStartSlowSqlsVector, slows)
	cv := vec(protocol.TransactionStartCustomEventsVector, customs)
	pv := vec(protocol.TransactionStartSpanEventsVector, spans)
	lv := vec(protocol.TransactionStartLogEventsVector, logs)
	xv := vec(protocol.TransactionStartErrorEventsVector, errevs)

	var pkgs flatbuffers.UOffsetT
	if op.Pkgs != nil {
		var sb bytes.Buffer
		sb.WriteString("[")
		for i, p := range *op.Pkgs {
			if i > 0 {
				sb.WriteString(",")
			}
			fmt.Fprintf(&sb, `["p%d","1.0",{}]`, p.Key)
		}
		sb.WriteString("]")
		pkgs = protocol.EncodeEvent(b, sb.Bytes())
	}
	name := b.CreateString("WebTransaction/Action/verif")
	uri := b.CreateString("/verif")
	var synth flatbuffers.UOffsetT
	if op.Synth {
		synth = b.CreateString("synth-resource")
	}

	protocol.TransactionStart(b)
	protocol.TransactionAddName(b, name)
	protocol.TransactionAddUri(b, uri)
	if op.Synth {
		protocol.TransactionAddSyntheticsResourceId(b, synth)
	}
	protocol.TransactionAddPid(b, 4242)
	protocol.TransactionAddSamplingPriority(b, prio)
	if txnEvent != 0 {
		protocol.TransactionAddTxnEvent(b, txnEvent)
	}
	if mv != 0 {
		protocol.TransactionAddMetrics(b, mv)
	}
	if ev != 0 {
		protocol.TransactionAddErrors(b, ev)
	}
	if sv != 0 {
		protocol.TransactionAddSlowSqls(b, sv)
	}
	if cv != 0 {
		protocol.TransactionAddCustomEvents(b, cv)
	}
	if pv != 0 {
		protocol.TransactionAddSpanEvents(b, pv)
	}
	if lv != 0 {
		protocol.TransactionAddLogEvents(b, lv)
	}
	if xv != 0 {
		protocol.TransactionAddErrorEvents(b, xv)
	}
	if trace != 0 {
		protocol.TransactionAddTrace(b, trace)
	}
	if pkgs != 0 {
		protocol.TransactionAddPhpPackages(b, pkgs)
	}
	data := protocol.TransactionEnd(b)

	id := b.CreateString(run)
	protocol.MessageStart(b)
	protocol.MessageAddAgentRunId(b, id)
	protocol.MessageAddDataType(b, protocol.MessageBodyTransaction)
	protocol.MessageAddData(b, data)
	b.Finish(protocol.MessageEnd(b))
	out := b.Bytes[b.Head():]
	cpy := make([]byte, len(out))
	copy(cpy, out)
	return cpy
}

// ------------------------------------------------------------------ decoding payloads

type vpSlotMap struct {
	metric map[int]int64 // slot -> tag
	slow   map[int]int64
}

func vpBits(v float64, base int, m map[int]int64, out *[]int64, n *int) {
	if v < 0 || v != math.Floor(v) || v >= math.Ldexp(1, 53) {
		*out = append(*out, -777)
		return
	}
	u := uint64(v)
	for i := 0; i < 53; i++ {
		if u&(1<<uint(i)) != 0 {
			*n++
			if t, ok := m[base+i]; ok {
				*out = append(*out, t)
			} else {
				*out = append(*out, -778)
			}
		}
	}
}

func vpRunNum(s string) int64 {
	if strings.HasPrefix(s, "r") {
		n, err := strconv.ParseInt(s[1:], 10, 64)
		if err == nil {
			return n
		}
	}
	return -1
}

func vpTagOfEvent(raw json.RawMessage) int64 {
	var arr []map[string]interface{}
	if json.Unmarshal(raw, &arr) == nil && len(arr) > 0 {
		if t, ok := arr[0]["t"].(float64); ok {
			return int64(t)
		}
	}
	var obj map[string]interface{}
	if json.Unmarshal(raw, &obj) == nil {
		if t, ok := obj["t"].(float64); ok {
			return int64(t)
		}
	}
	return -779
}

func vpDecode(call *vpCall, sm *vpSlotMap) *vpReq {
	r := &vpReq{Cmd: call.cmd.Name, Tags: []int64{}}
	r.call = call
	r.Owner = vpOwnerOf(call.cmd.License, call.lang, call.version)
	r.Host = vpHostOf(call.cmd.Collector)
	if h, ok := call.cmd.RequestHeadersMap["X-Verif-Hdr"]; ok {
		r.Hdr, _ = strconv.ParseInt(h, 10, 64)
	}
	r.Valid = json.Valid(call.data)
	switch call.cmd.Name {
	case collector.CommandPreconnect:
		r.Kind, r.rank = "preconnect", 100
		return r
	case collector.CommandConnect:
		r.Kind, r.rank = "connect", 101
		return r
	}
	r.Run = vpRunNum(call.cmd.RunID)
	r.Kind = "harvest"
	r.Cat = vpCmdCat(call.cmd.Name)
	r.rank = vpCatRank[r.Cat]
	body := call.data
	switch r.Cat {
	case "metrics":
		var top []json.RawMessage
		if json.Unmarshal(body, &top) != nil || len(top) < 4 {
			r.Tags = append(r.Tags, -780)
			return r
		}
		var entries [][]json.RawMessage
		json.Unmarshal(top[3], &entries)
		agent := 0
		for _, e := range entries {
			if len(e) < 2 {
				continue
			}
			var id struct {
				Name  string `json:"name"`
				Scope string `json:"scope"`
			}
			json.Unmarshal(e[0], &id)
			if !strings.HasPrefix(id.Name, "m") || id.Scope != "" {
				continue
			}
			if _, err := strconv.Atoi(id.Name[1:]); err != nil {
				continue
			}
			var d [6]float64
			json.Unmarshal(e[1], &d)
			agent++
			n := 0
			vpBits(d[1], 0, sm.metric, &r.Tags, &n)
			vpBits(d[2], 50, sm.metric, &r.Tags, &n)
			vpBits(d[5], 100, sm.metric, &r.Tags, &n)
			if float64(n) != d[0] {
				r.Tags = append(r.Tags, -781) // call count disagrees with the contributions present
			}
		}
		if agent == 0 {
			// only daemon-made metrics: data usage payload or supportability-only payload
			isUsage := false
			for _, e := range entries {
				if len(e) >= 1 && bytes.Contains(e[0], []byte("/Collector/Output/Bytes")) {
					isUsage = true
				}
				if len(e) >= 1 && bytes.Contains(e[0], []byte("Instance/Reporting")) {
					isUsage = false
					break
				}
			}
			if isUsage {
				r.Kind, r.Cat, r.rank = "usage", "", 50
			}
		}
	case "custom", "errev", "txnev", "span":
		var top []json.RawMessage
		if json.Unmarshal(body, &top) != nil || len(top) < 3 {
			r.Tags = append(r.Tags, -780)
			return r
		}
		var meta struct {
			ReservoirSize int64 `json:"reservoir_size"`
			EventsSeen    int64 `json:"events_seen"`
		}
		json.Unmarshal(top[1], &meta)
		r.Cap, r.Seen = meta.ReservoirSize, meta.EventsSeen
		var evs []json.RawMessage
		json.Unmarshal(top[2], &evs)
		for _, e := range evs {
			r.Tags = append(r.Tags, vpTagOfEvent(e))
		}
	case "log":
		var top []struct {
			Logs []json.RawMessage `json:"logs"`
		}
		if json.Unmarshal(body, &top) != nil || len(top) < 1 {
			r.Tags = append(r.Tags, -780)
			return r
		}
		for _, e := range top[0].Logs {
			r.Tags = append(r.Tags, vpTagOfEvent(e))
		}
	case "errors":
		var top []json.RawMessage
		if json.Unmarshal(body, &top) != nil || len(top) < 2 {
			r.Tags = append(r.Tags, -780)
			return r
		}
		var es []json.RawMessage
		json.Unmarshal(top[1], &es)
		for _, e := range es {
			r.Tags = append(r.Tags, vpTagOfEvent(e))
		}
	case "traces":
		var top []json.RawMessage
		if json.Unmarshal(body, &top) != nil || len(top) < 2 {
			r.Tags = append(r.Tags, -780)
			return r
		}
		var ts [][]json.RawMessage
		json.Unmarshal(top[1], &ts)
		for _, t := range ts {
			var guid string
			if len(t) > 5 {
				json.Unmarshal(t[5], &guid)
			}
			n, err := strconv.ParseInt(guid, 10, 64)
			if err != nil {
				n = -779
			}
			r.Tags = append(r.Tags, n)
		}
	case "slow":
		var top [][][]json.RawMessage
		if json.Unmarshal(body, &top) != nil || len(top) < 1 {
			r.Tags = append(r.Tags, -780)
			return r
		}
		for _, s := range top[0] {
			var cnt float64
			if len(s) > 5 {
				json.Unmarshal(s[5], &cnt)
			}
			n := 0
			vpBits(cnt, 0, sm.slow, &r.Tags, &n)
		}
	case "pkgs":
		var top []json.RawMessage
		if json.Unmarshal(body, &top) != nil || len(top) < 2 {
			r.Tags = append(r.Tags, -780)
			return r
		}
		var ps [][]json.RawMessage
		json.Unmarshal(top[1], &ps)
		for _, p := range ps {
			var name string
			if len(p) > 0 {
				json.Unmarshal(p[0], &name)
			}
			n, err := strconv.ParseInt(strings.TrimPrefix(name, "p"), 10, 64)
			if err != nil {
				n = -779
			}
			r.Tags = append(r.Tags, n) // package ids
		}
	}
	sort.Slice(r.Tags, func(i, j int) bool { return r.Tags[i] < r.Tags[j] })
	return r
}

// ------------------------------------------------------------------ running one history

type vpRunner struct {
	p        *Processor
	client   *vpClient
	sm       *vpSlotMap
	quietFor time.Duration
	ahs      []*AppHarvest
	ahSeen   map[*AppHarvest]bool
	apps     map[*App]bool
	ahRun    map[*AppHarvest]AgentRunID
	attempts []*vpReq // connect attempts in progress, in creation order (stage tracked by the last request)
	reqs     []*vpReq // harvest / usage requests awaiting their reply, canonical order
	wireC    net.Conn // agent side of a connection served by the real listener code (serve), opened on first use
}

// wire: the transactions of a burst travel over one agent connection served by the daemon's own connection loop
// (serve -> conn.Serve -> CommandsHandler), written back to back while the processor is still busy with a message
// sent ahead of them (a transaction for a run nobody holds).  Every message is the agent's own for as long as the
// daemon keeps it: what is queued for the processor must not change when the next message is read.
func (r *vpRunner) wire(ops []*vpOp, step *vpStep) {
	if r.wireC == nil {
		a, b := net.Pipe()
		r.wireC = a
		go serve(b, CommandsHandler{Processor: r.p})
	}
	mw := MessageWriter{W: r.wireC, Type: MessageTypeBinary}
	lead := vpOp{Run: 999999, Prio: 1}
	r.wireC.SetWriteDeadline(time.Now().Add(3 * time.Second))
	if _, err := mw.Write(vpBuildTxn("verif-nobody", &lead)); err != nil {
		step.Note = "wire: " + err.Error()
	}
	for _, op := range ops {
		for _, it := range op.Items {
			if it.Cat == "metrics" {
				r.sm.metric[it.Slot] = it.Tag
			}
			if it.Cat == "slow" {
				r.sm.slow[it.Slot] = it.Tag
			}
		}
		if _, err := mw.Write(vpBuildTxn(fmt.Sprintf("r%d", op.Run), op)); err != nil {
			step.Note = "wire: " + err.Error()
		}
	}
	// the connection loop has read the last message once a further (empty, ignored) write is accepted
	time.Sleep(200 * time.Microsecond)
	r.settle(len(ops) + 1)
}

func vpErr(f string) collector.RPMResponse {
	code := map[string]int{"retry": 503, "409": 409, "401": 401, "410": 410, "other": 413, "transport": 0}[f]
	return collector.RPMResponse{StatusCode: code, Err: errors.New("verif: collector outcome " + f)}
}

// vpErrOut: a failed reply carrying the concrete status code chosen by the generator
func vpErrOut(o vpOut) collector.RPMResponse {
	if o.Code != 0 {
		return collector.RPMResponse{StatusCode: o.Code, Err: fmt.Errorf("verif: collector answered %d", o.Code)}
	}
	return vpErr(o.F)
}

func vpOutcome(name string) collector.RPMResponse {
	if name == "ok" {
		return collector.RPMResponse{StatusCode: 202}
	}
	return vpErr(name)
}

// settle waits until nothing has happened for the settle interval: no new collector call and no
// processor event (trackProgress); at least minEvents processor events are awaited (up to 3 s).
func (r *vpRunner) settle(minEvents int) (events int) {
	quiet := time.Now()
	deadline := time.Now().Add(3 * time.Second)
	for {
		select {
		case <-r.p.trackProgress:
			events++
			quiet = time.Now()
		case <-r.client.act:
			quiet = time.Now()
		default:
			if events >= minEvents && time.Since(quiet) >= r.quietFor {
				return
			}
			if time.Now().After(deadline) {
				return
			}
			time.Sleep(40 * time.Microsecond)
		}
	}
}

// collect registers the collector calls made since the last step and the new app harvests.
func (r *vpRunner) collect(step *vpStep) {
	var fresh []*vpReq
	for _, c := range r.client.take() {
		fresh = append(fresh, vpDecode(c, r.sm))
	}
	sort.SliceStable(fresh, func(i, j int) bool {
		if fresh[i].rank != fresh[j].rank {
			return fresh[i].rank < fresh[j].rank
		}
		return fresh[i].Run < fresh[j].Run
	})
	for _, q := range fresh {
		step.Reqs = append(step.Reqs, q)
		switch q.Kind {
		case "preconnect":
			r.attempts = append(r.attempts, q)
		case "connect":
			// replaces the preconnect request of the same attempt (same owner, oldest in preconnect stage released)
			placed := false
			for i, a := range r.attempts {
				if a.released && a.Owner == q.Owner {
					r.attempts[i] = q
					placed = true
					break
				}
			}
			if !placed {
				r.attempts = append(r.attempts, q)
			}
		default:
			r.reqs = append(r.reqs, q)
		}
	}
	// new app harvests, in creation order (at most one per step in practice)
	var newAhs []*AppHarvest
	for _, ah := range r.p.harvests {
		if !r.ahSeen[ah] {
			newAhs = append(newAhs, ah)
		}
	}
	for _, ah := range newAhs {
		r.ahSeen[ah] = true
		r.ahs = append(r.ahs, ah)
		r.apps[ah.App] = true
		for k, v := range r.p.harvests {
			if v == ah {
				r.ahRun[ah] = k
			}
		}
	}
	for _, a := range r.p.apps {
		r.apps[a] = true
	}
}

func (r *vpRunner) handleTxn(op *vpOp, step *vpStep) {
	msg := vpBuildTxn(fmt.Sprintf("r%d", op.Run), op)
	for _, it := range op.Items {
		if it.Cat == "metrics" {
			r.sm.metric[it.Slot] = it.Tag
		}
		if it.Cat == "slow" {
			r.sm.slow[it.Slot] = it.Tag
		}
	}
	_, err := CommandsHandler{Processor: r.p}.HandleMessage(RawMessage{Type: MessageTypeBinary, Bytes: msg})
	if err != nil {
		step.Note = "handle: " + err.Error()
	}
}

func (r *vpRunner) run(h *vpHistory) (obs vpObs) {
	defer func() {
		if e := recover(); e != nil {
			obs.Panic = fmt.Sprint(e)
		}
	}()
	exited := false
	for i := range h.Ops {
		op := &h.Ops[i]
		step := vpStep{Reqs: []*vpReq{}}
		if exited {
			obs.Steps = append(obs.Steps, step)
			continue
		}
		switch op.Op {
		case "appinfo":
			var id *AgentRunID
			if op.ID != nil {
				x := AgentRunID(fmt.Sprintf("r%d", *op.ID))
				id = &x
			}
			done := make(chan AppInfoReply, 1)
			go func() { done <- r.p.IncomingAppInfo(id, vpAppInfo(op.Key, op.Dt)) }()
			select {
			case rep := <-done:
				st := map[AppState]string{AppStateUnknown: "unknown", AppStateConnected: "connected",
					AppStateDisconnected: "disconnected", AppStateRestart: "restart",
					AppStateInvalidLicense: "invalid_license"}[rep.State]
				step.AppReply = &vpAppReply{Valid: rep.RunIDValid, State: st}
				if rep.State == AppStateConnected && !rep.RunIDValid {
					var cr struct {
						ID string `json:"agent_run_id"`
					}
					step.AppReply.Run = -1
					if json.Unmarshal(rep.ConnectReply, &cr) == nil {
						step.AppReply.Run = vpRunNum(cr.ID)
					}
				}
			case <-time.After(3 * time.Second):
				step.Hung = true
			}
			r.settle(1)
		case "nop":
			// the transaction of this step was handed over with the harvest request of the step before
		case "txn":
			if len(op.Replies) > 0 {
				// the processor handles the transaction and then waits for the harness to take note of it: until the
				// harness does (settle), the failure reports of the answers below find it busy
				r.handleTxn(op, &step)
				time.Sleep(300 * time.Microsecond)
				type rel struct {
					q    *vpReq
					resp collector.RPMResponse
				}
				var rels []rel
				for i := range op.Replies {
					ro := &op.Replies[i]
					if ro.N < len(r.reqs) {
						q := r.reqs[ro.N]
						r.reqs = append(r.reqs[:ro.N], r.reqs[ro.N+1:]...)
						resp := vpOutcome(ro.Out.Kind)
						if ro.Out.Kind == "fail" {
							resp = vpErrOut(ro.Out)
						}
						rels = append(rels, rel{q, resp})
					}
				}
				for _, x := range rels {
					vpStable(x.q)
					x.q.call.ret <- x.resp
				}
				time.Sleep(3 * time.Millisecond) // every sender goroutine has tried to report by now
				r.settle(1 + len(rels))
			} else if len(op.Burst) > 0 {
				ops := []*vpOp{op}
				for i := range op.Burst {
					ops = append(ops, &op.Burst[i])
				}
				r.wire(ops, &step)
			} else {
				r.handleTxn(op, &step)
				r.settle(1)
			}
		case "bulk":
			// N plain transactions in one step (large reservoirs: payload splitting, the daemon maximum)
			h := CommandsHandler{Processor: r.p}
			for i := 0; i < op.N; i++ {
				one := vpOp{Run: op.Run, Prio: op.Prio0 + int64(i),
					Items: []vpItem{{Cat: "txnev", Tag: op.Tag0 + int64(i), Prio: op.Prio0 + int64(i)}}}
				if _, err := h.HandleMessage(RawMessage{Type: MessageTypeBinary, Bytes: vpBuildTxn(fmt.Sprintf("r%d", op.Run), &one)}); err != nil {
					step.Note = "handle: " + err.Error()
				}
				select { // the processor announces every event on the unbuffered trackProgress
				case <-r.p.trackProgress:
				case <-time.After(3 * time.Second):
					step.Note = "bulk: no progress"
				}
			}
			r.settle(0)
		case "pre", "conn":
			// n-th connect attempt in progress; it must be in the matching stage
			if op.N < len(r.attempts) {
				a := r.attempts[op.N]
				want := map[string]string{"pre": "preconnect", "conn": "connect"}[op.Op]
				if a.Kind == want && !a.released {
					var resp collector.RPMResponse
					min := 1
					switch {
					case op.Op == "pre" && op.Out.Kind == "ok":
						resp = collector.RPMResponse{StatusCode: 200,
							Body: []byte(fmt.Sprintf(`{"redirect_host":"coll%d.example"}`, op.Out.Host))}
						min = 0
					case op.Out.Kind == "malformed":
						resp = collector.RPMResponse{StatusCode: 200, Body: []byte(`{`)}
					case op.Out.Kind == "norunid":
						resp = collector.RPMResponse{StatusCode: 200, Body: []byte(`{"zip":"zap"}`)}
					case op.Out.Kind == "fail":
						resp = vpErrOut(op.Out)
					default: // connect ok
						c := op.Out.Caps
						body := fmt.Sprintf(`{"agent_run_id":"r%d","event_harvest_config":{"report_period_ms":60000,`+
							`"harvest_limits":{"analytic_event_data":%d,"custom_event_data":%d,"error_event_data":%d,`+
							`"log_event_data":%d}},"span_event_harvest_config":{"report_period_ms":60000,"harvest_limit":%d},`+
							`"request_headers_map":{"X-Verif-Hdr":"%d"}}`,
							op.Out.Run, c["txnev"], c["custom"], c["errev"], c["log"], c["span"], op.Out.Hdr)
						resp = collector.RPMResponse{StatusCode: 200, Body: []byte(body)}
					}
					if op.Op == "pre" && op.Out.Kind == "ok" {
						a.released = true
					} else {
						r.attempts = append(r.attempts[:op.N], r.attempts[op.N+1:]...)
					}
					vpStable(a)
					a.call.ret <- resp
					r.settle(min)
				}
			}
		case "tick":
			if op.Ah < len(r.ahs) {
				ah := r.ahs[op.Ah]
				id := r.ahRun[ah]
				select {
				case r.p.processorHarvestChan <- ProcessorHarvest{AppHarvest: ah, ID: id, Type: HarvestType(op.Ty)}:
					if op.Then != nil {
						// the next transaction is already waiting: the processor handles it as soon as it has
						// started the harvest, while the sender goroutines of that harvest are only starting
						select {
						case <-r.p.trackProgress:
						case <-time.After(3 * time.Second):
						}
						r.handleTxn(op.Then, &step)
					}
					r.settle(1)
				case <-time.After(3 * time.Second):
					step.Hung = true
				}
			} else if op.Then != nil {
				r.handleTxn(op.Then, &step)
				r.settle(1)
			}
		case "reply", "replycat":
			idx := op.N
			if op.Op == "replycat" {
				idx = len(r.reqs)
				for j, q := range r.reqs {
					if (op.Cat == "usage" && q.Kind == "usage") || (q.Kind == "harvest" && q.Cat == op.Cat) {
						idx = j
						break
					}
				}
			}
			if idx < len(r.reqs) {
				q := r.reqs[idx]
				r.reqs = append(r.reqs[:idx], r.reqs[idx+1:]...)
				resp := vpOutcome(op.Out.Kind)
				if op.Out.Kind == "fail" {
					resp = vpErrOut(op.Out)
				}
				min := 0
				if resp.Err != nil {
					min = 1
				}
				vpStable(q)
				q.call.ret <- resp
				r.settle(min)
			}
		case "advance":
			d := time.Duration(op.Dts) * time.Second
			for a := range r.apps {
				a.lastConnectAttempt = a.lastConnectAttempt.Add(-d)
				a.LastActivity = a.LastActivity.Add(-d)
			}
		case "exit":
			done := make(chan struct{})
			go func() { r.p.CleanExit(); close(done) }()
			deadline := time.After(3 * time.Second)
		loop:
			for {
				select {
				case <-done:
					step.Exited = true
					break loop
				case <-r.client.act:
				case <-deadline:
					step.Hung = true
					break loop
				default:
					// answer the blocking final requests as they come
					for _, c := range r.client.take() {
						q := vpDecode(c, r.sm)
						if q.Kind == "usage" || q.Kind == "preconnect" || q.Kind == "connect" {
							if q.Kind == "usage" {
								c.ret <- collector.RPMResponse{StatusCode: 202}
							}
							continue
						}
						step.Reqs = append(step.Reqs, q)
						name, ok := op.Outs[fmt.Sprintf("%d:%s", q.Run, q.Cat)]
						if !ok {
							name = op.Outs["default"]
						}
						if name == "" {
							name = "ok"
						}
						c.ret <- vpOutcome(name)
					}
					time.Sleep(50 * time.Microsecond)
				}
			}
			sort.SliceStable(step.Reqs, func(i, j int) bool {
				if step.Reqs[i].Run != step.Reqs[j].Run {
					return step.Reqs[i].Run < step.Reqs[j].Run
				}
				return step.Reqs[i].rank < step.Reqs[j].rank
			})
			exited = true
			obs.Steps = append(obs.Steps, step)
			continue
		}
		r.collect(&step)
		obs.Steps = append(obs.Steps, step)
	}
	if !exited {
		// stop the processor loop; pending collector calls stay blocked in their goroutines
		stop := time.After(2 * time.Second)
	quit:
		for {
			select {
			case r.p.quitChan <- struct{}{}:
				break quit
			case <-r.p.trackProgress:
			case <-stop:
				break quit
			}
		}
	}
	return obs
}

func vpRunHistory(h *vpHistory, settle time.Duration) vpObs {
	for _, op := range h.Ops {
		// payloads of thousands of events take longer to build than the usual quiescence interval
		if op.Op == "bulk" && settle < 40*time.Millisecond {
			settle = 40 * time.Millisecond
		}
	}
	client := &vpClient{act: make(chan struct{}, 1)}
	p := NewProcessor(ProcessorConfig{Client: client, AppTimeout: 10 * time.Minute})
	p.trackProgress = make(chan struct{})
	go p.Run()
	select {
	case <-p.trackProgress: // utilization gathered
	case <-time.After(10 * time.Second):
		return vpObs{Panic: "processor did not start"}
	}
	r := &vpRunner{p: p, client: client, quietFor: settle, sm: &vpSlotMap{metric: map[int]int64{}, slow: map[int]int64{}},
		ahSeen: map[*AppHarvest]bool{}, apps: map[*App]bool{}, ahRun: map[*AppHarvest]AgentRunID{}}
	obs := r.run(h)
	if r.wireC != nil {
		r.wireC.Close()
	}
	return obs
}

func TestVerifProc(t *testing.T) {
	inPath, outPath := os.Getenv("VERIF_IN"), os.Getenv("VERIF_OUT")
	if inPath == "" {
		t.Skip("harness only")
	}
	var in struct {
		Histories []vpHistory `json:"histories"`
		SettleUs  int         `json:"settle_us"`
		Parallel  int         `json:"parallel"`
	}
	raw, err := ioutil.ReadFile(inPath)
	if err != nil {
		t.Fatal(err)
	}
	if err := json.Unmarshal(raw, &in); err != nil {
		t.Fatal(err)
	}
	if in.SettleUs == 0 {
		in.SettleUs = 3000
	}
	if in.Parallel == 0 {
		in.Parallel = 8
	}
	out := make([]vpObs, len(in.Histories))
	sem := make(chan struct{}, in.Parallel)
	var wg sync.WaitGroup
	for i := range in.Histories {
		wg.Add(1)
		sem <- struct{}{}
		go func(i int) {
			defer wg.Done()
			defer func() { <-sem }()
			if in.Parallel == 1 {
				// one history at a time: leave a marker, so that a history on which the daemon code dies
				// (panic in one of its goroutines, fatal runtime error) can be named
				ioutil.WriteFile(outPath+".cur", []byte(strconv.Itoa(i)), 0644)
			}
			out[i] = vpRunHistory(&in.Histories[i], time.Duration(in.SettleUs)*time.Microsecond)
		}(i)
	}
	wg.Wait()
	ob, _ := json.Marshal(map[string]interface{}{"histories": out})
	if err := ioutil.WriteFile(outPath, ob, 0644); err != nil {
		t.Fatal(err)
	}
}
