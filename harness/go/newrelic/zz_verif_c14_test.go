//go:build verif

package newrelic

// C14 dynamic search: the REAL collector client (collector.NewClient -> clientImpl behind the limiter) against
// local servers for every outcome class, at log level debug with the audit log on.  Everything written through
// the log and audit writers while a scenario runs is returned; the driver scans it for the full license key
// and the proxy password.
//
// via = "execute":  client.Execute(cmd, controls) for the given command, then the processor's own handling of
//                   the reply (processHarvestError: logs the reply) and the harvest warning line.
// via = "connect":  the REAL ConnectApplication (preconnect + connect payloads built by the code) with that
//                   client, then the REAL Processor.processConnectAttempt on the result.
// via = "newclient": only collector.NewClient with the given proxy string; a failure is logged the way
//                   cmd/daemon/worker.go does.

import (
	"bufio"
	"encoding/json"
	"encoding/pem"
	"fmt"
	"io/ioutil"
	"net"
	"net/http"
	"net/http/httptest"
	"os"
	"path/filepath"
	"strings"
	"testing"
	"time"

	"github.com/newrelic/newrelic-php-agent/daemon/internal/newrelic/collector"
	"github.com/newrelic/newrelic-php-agent/daemon/internal/newrelic/log"
	"github.com/newrelic/newrelic-php-agent/daemon/internal/newrelic/utilization"
)

type c14Scenario struct {
	Name      string `json:"name"`
	Server    string `json:"server"` // refused reset timeout tls_untrusted plain redirect_loop redirect_away status
	Status    int    `json:"status"`
	Body      string `json:"body"`
	Cmd       string `json:"cmd"`
	RunID     string `json:"run_id"`
	Key       string `json:"key"`
	Proxy     string `json:"proxy"`        // "" | literal | contains {PROXYADDR} for the fake proxy
	ProxyMode string `json:"proxy_mode"`   // "" | "407" | "close" | "garbage" | "502"
	TimeoutMs int    `json:"timeout_ms"`
	Via       string `json:"via"`
	Token     string `json:"token"`
	Host      string `json:"host"` // override of the collector host (bad host names)
}

type c14Result struct {
	Log       string `json:"log"`
	Audit     string `json:"audit"`
	ClientErr string `json:"client_err"` // NewClient error text (as logged)
	ReplyErr  string `json:"reply_err"`
	Status    int    `json:"status"`
	Note      string `json:"note,omitempty"`
}

func c14Size(path string) int64 {
	st, err := os.Stat(path)
	if err != nil {
		return 0
	}
	return st.Size()
}

func c14ReadFrom(path string, off int64) string {
	b, err := ioutil.ReadFile(path)
	if err != nil || int64(len(b)) < off {
		return ""
	}
	return string(b[off:])
}

// a TCP listener that plays a broken proxy / a resetting collector
func c14RawServer(mode string) (string, func()) {
	ln, err := net.Listen("tcp", "127.0.0.1:0")
	if err != nil {
		return "127.0.0.1:1", func() {}
	}
	go func() {
		for {
			c, err := ln.Accept()
			if err != nil {
				return
			}
			go func(c net.Conn) {
				defer c.Close()
				switch mode {
				case "reset", "close":
					return
				}
				c.SetDeadline(time.Now().Add(2 * time.Second))
				r := bufio.NewReader(c)
				for {
					line, err := r.ReadString('\n')
					if err != nil || line == "\r\n" || line == "\n" {
						break
					}
				}
				switch mode {
				case "407":
					fmt.Fprint(c, "HTTP/1.1 407 Proxy Authentication Required\r\nProxy-Authenticate: Basic realm=\"p\"\r\nContent-Length: 0\r\n\r\n")
				case "502":
					fmt.Fprint(c, "HTTP/1.1 502 Bad Gateway\r\nContent-Length: 0\r\n\r\n")
				case "garbage":
					fmt.Fprint(c, "\x16\x03garbage not http\r\n\r\n")
				}
			}(c)
		}
	}()
	return ln.Addr().String(), func() { ln.Close() }
}

func c14Run(sc *c14Scenario, dir string, util *utilization.Data, logPath, auditPath string) (res c14Result) {
	lo, ao := c14Size(logPath), c14Size(auditPath)
	defer func() {
		res.Log = c14ReadFrom(logPath, lo)
		res.Audit = c14ReadFrom(auditPath, ao)
	}()

	var closers []func()
	defer func() {
		for _, c := range closers {
			c()
		}
	}()

	cfg := &collector.ClientConfig{MaxParallel: 2, Timeout: time.Duration(sc.TimeoutMs) * time.Millisecond}
	host := "127.0.0.1:1"
	var self *httptest.Server
	handler := http.HandlerFunc(func(w http.ResponseWriter, r *http.Request) {
		ioutil.ReadAll(r.Body)
		switch sc.Server {
		case "timeout":
			time.Sleep(time.Duration(3*sc.TimeoutMs) * time.Millisecond)
			w.WriteHeader(200)
			fmt.Fprint(w, `{"return_value":{}}`)
		case "redirect_loop":
			// send the client round in circles, echoing the URL it used (it carries the license key)
			http.Redirect(w, r, "https://"+r.Host+r.URL.RequestURI()+"&again=1", 307)
		case "redirect_away":
			http.Redirect(w, r, "https://127.0.0.1:1/moved?from="+r.URL.RawQuery, 302)
		default:
			w.WriteHeader(sc.Status)
			fmt.Fprint(w, sc.Body)
		}
	})
	switch sc.Server {
	case "refused":
	case "reset":
		addr, cl := c14RawServer("reset")
		host = addr
		closers = append(closers, cl)
	case "plain":
		s := httptest.NewServer(handler)
		closers = append(closers, s.Close)
		host = strings.TrimPrefix(s.URL, "http://")
	default:
		self = httptest.NewTLSServer(handler)
		closers = append(closers, self.Close)
		host = strings.TrimPrefix(self.URL, "https://")
		if sc.Server != "tls_untrusted" {
			ca := filepath.Join(dir, "ca_"+sc.Name+".pem")
			pemBytes := pem.EncodeToMemory(&pem.Block{Type: "CERTIFICATE", Bytes: self.Certificate().Raw})
			ioutil.WriteFile(ca, pemBytes, 0600)
			cfg.CAFile = ca
		}
	}
	if sc.Host != "" {
		host = sc.Host
	}
	if sc.Proxy != "" {
		p := sc.Proxy
		if strings.Contains(p, "{PROXYADDR}") {
			addr, cl := c14RawServer(sc.ProxyMode)
			closers = append(closers, cl)
			p = strings.Replace(p, "{PROXYADDR}", addr, -1)
		}
		cfg.Proxy = p
	}

	client, err := collector.NewClient(cfg)
	if err != nil {
		// cmd/daemon/worker.go: log.Errorf("unable to create client: %v", err)
		log.Errorf("unable to create client: %v", err)
		res.ClientErr = fmt.Sprintf("%v", err)
		return res
	}
	if sc.Via == "newclient" {
		return res
	}

	key := collector.LicenseKey(sc.Key)
	info := &AppInfo{
		License:           key,
		Appname:           "verif-c14",
		AgentLanguage:     "php",
		AgentVersion:      "1.2.3",
		Hostname:          "agenthost",
		RedirectCollector: host,
		Settings:          map[string]interface{}{"newrelic.appname": "verif-c14"},
		Environment:       JSONString(`[]`),
		Labels:            JSONString(`[]`),
		Metadata:          JSONString(`{}`),
		SecurityPolicyToken: sc.Token,
	}
	p := NewProcessor(ProcessorConfig{Client: client})
	app := NewApp(info)
	p.apps[info.Key()] = app

	if sc.Via == "connect" {
		args := &ConnectArgs{
			RedirectCollector: info.RedirectCollector,
			PayloadRaw:        info.ConnectPayload(util),
			License:           info.License,
			SecurityPolicyToken: info.SecurityPolicyToken,
			Client:            client,
			AppKey:            info.Key(),
			AgentLanguage:     info.AgentLanguage,
			AgentVersion:      info.AgentVersion,
		}
		rep := ConnectApplication(args)
		if rep.Err != nil {
			res.ReplyErr = rep.Err.Error()
		}
		res.Status = rep.RawReply.StatusCode
		func() {
			defer func() {
				if r := recover(); r != nil {
					res.Note = fmt.Sprintf("processConnectAttempt panicked: %v", r)
				}
			}()
			if rep.Err != nil || rep.RawReply.IsDisconnect() || rep.RawReply.IsRestartException() {
				p.processConnectAttempt(rep)
			}
		}()
		return res
	}

	payload := []byte(`["run",1,2,[]]`)
	cmd := collector.RpmCmd{
		Name:              sc.Cmd,
		Collector:         host,
		RunID:             sc.RunID,
		License:           key,
		MaxPayloadSize:    1000000,
		RequestHeadersMap: map[string]string{"X-NR-Run-Token": "hdr"},
	}
	cs := collector.RpmControls{
		AgentLanguage: "php",
		AgentVersion:  "1.2.3",
		Collectible: collector.CollectibleFunc(func(auditVersion bool) ([]byte, error) {
			return payload, nil
		}),
	}
	reply := client.Execute(&cmd, cs)
	res.Status = reply.StatusCode
	if reply.Err != nil {
		res.ReplyErr = reply.Err.Error()
		// what the processor does with a failed harvest reply
		id := AgentRunID(sc.RunID)
		p.processHarvestError(HarvestError{Reply: reply, id: id}) // unknown id: logs the whole reply at debug
		log.Warnf("app %q with run id %q received %s", app, id, reply.Err)
		log.Warnf("app with run id %q received %s during the final harvest", id, reply.Err)
	}
	return res
}

func TestVerifC14(t *testing.T) {
	inp, outp := os.Getenv("VERIF_IN"), os.Getenv("VERIF_OUT")
	if inp == "" || outp == "" {
		t.Skip("VERIF_IN / VERIF_OUT not set")
	}
	raw, err := ioutil.ReadFile(inp)
	if err != nil {
		t.Fatal(err)
	}
	var in struct {
		Scenarios []c14Scenario `json:"scenarios"`
	}
	if err := json.Unmarshal(raw, &in); err != nil {
		t.Fatal(err)
	}
	dir, err := ioutil.TempDir("", "verifc14")
	if err != nil {
		t.Fatal(err)
	}
	defer os.RemoveAll(dir)
	logPath, auditPath := filepath.Join(dir, "daemon.log"), filepath.Join(dir, "audit.log")
	if err := log.Init(log.LogDebug, logPath); err != nil {
		t.Fatal(err)
	}
	if err := log.InitAudit(auditPath); err != nil {
		t.Fatal(err)
	}
	util := utilization.Gather(utilization.Config{})
	out := make([]c14Result, len(in.Scenarios))
	for i := range in.Scenarios {
		out[i] = c14Run(&in.Scenarios[i], dir, util, logPath, auditPath)
	}
	js, err := json.Marshal(map[string]interface{}{"results": out})
	if err != nil {
		t.Fatal(err)
	}
	if err := ioutil.WriteFile(outp, js, 0644); err != nil {
		t.Fatal(err)
	}
}
