//go:build verif

package newrelic

// C12 harness.  harvest_trigger.go is replaced (overlay) by a woven copy of the current file in which
// time.NewTicker goes through VerifNewTicker: the harness hands out hand-made tickers, records the duration
// each trigger asked for, and fires ticks by hand.
//   plans: real parseConnectReply + getHarvestTrigger + NewAppHarvest for generated connect replies; the
//          (duration, type) of every ticker is observed by firing it and receiving the ProcessorHarvest.
//   lts:   scripted interleavings of ticks, a processor that receives or stays busy, and Close; the event log
//          is checked against the goroutine LTS (TriggerLts.taccepts) in Coq.
//   zero:  real harvestByType (blocking) on harvests whose limits come from the reply; emitted commands.
//   proc:  the real Processor with an inactive application whose six triggers are all waiting to send when
//          the processor shuts the application down: watchdog on the processor's progress.

import (
	"encoding/json"
	"fmt"
	"io/ioutil"
	"os"
	"runtime"
	"strings"
	"sync"
	"testing"
	"time"

	"github.com/newrelic/newrelic-php-agent/daemon/internal/newrelic/collector"
)

type c12Ticker struct {
	d  time.Duration
	ch chan time.Time
}

var (
	c12Mu      sync.Mutex
	c12Tickers []*c12Ticker
)

func c12Hook(d time.Duration) *time.Ticker {
	ch := make(chan time.Time, 1)
	c12Mu.Lock()
	c12Tickers = append(c12Tickers, &c12Ticker{d: d, ch: ch})
	c12Mu.Unlock()
	return &time.Ticker{C: ch}
}

func c12Reset() {
	c12Mu.Lock()
	c12Tickers = nil
	c12Mu.Unlock()
}

func c12Count() int {
	c12Mu.Lock()
	defer c12Mu.Unlock()
	return len(c12Tickers)
}

// every goroutine started for the AppHarvest has reached its select: all tickers exist
func c12WaitTickers() []*c12Ticker {
	c12Quiesce(5 * time.Second)
	c12Mu.Lock()
	defer c12Mu.Unlock()
	return append([]*c12Ticker{}, c12Tickers...)
}

// c12AllBlocked reports whether every goroutine of the process except the caller is parked (select, channel
// operation, ...): nothing more will happen until the harness acts.  It reads the goroutine states from
// runtime.Stack, so it does not depend on timing.
func c12AllBlocked() bool {
	buf := make([]byte, 1<<20)
	buf = buf[:runtime.Stack(buf, true)]
	running := 0
	for _, line := range strings.Split(string(buf), "\n") {
		if !strings.HasPrefix(line, "goroutine ") {
			continue
		}
		i := strings.Index(line, "[")
		if i < 0 {
			continue
		}
		st := line[i+1:]
		if strings.HasPrefix(st, "running") {
			running++
		} else if strings.HasPrefix(st, "runnable") || strings.HasPrefix(st, "syscall") {
			return false
		}
	}
	return running == 1
}

// c12Quiesce waits until the process is quiet (three consecutive observations), at most d.
func c12Quiesce(d time.Duration) bool {
	end := time.Now().Add(d)
	ok := 0
	for {
		runtime.Gosched()
		if c12AllBlocked() {
			ok++
			if ok >= 3 {
				return true
			}
		} else {
			ok = 0
		}
		if time.Now().After(end) {
			return false
		}
		time.Sleep(50 * time.Microsecond)
	}
}

var c12Canonical = []HarvestType{HarvestAll, HarvestDefaultData, HarvestTxnEvents, HarvestCustomEvents,
	HarvestErrorEvents, HarvestSpanEvents, HarvestLogEvents}

const c12Wait = 5 * time.Second // upper bound only; waits end as soon as every goroutine is parked

type c12Run struct {
	ah       *AppHarvest
	ph       chan ProcessorHarvest
	tickers  []*c12Ticker // creation order
	types    []HarvestType
	byK      []*c12Ticker // model order
	baseline int
	reply    *ConnectReply
}

func c12Goroutines() int { return runtime.NumGoroutine() }

// c12Start builds the AppHarvest for a reply exactly as processConnectAttempt does and identifies every ticker
// by firing it once and receiving the harvest event it produces.
func c12Start(reply *ConnectReply, ph chan ProcessorHarvest) (*c12Run, string) {
	c12Reset()
	r := &c12Run{ph: ph, reply: reply}
	app := NewApp(&AppInfo{License: "0123456789012345678901234567890123456789", AgentLanguage: "php", AgentVersion: "1"})
	app.connectReply = reply
	r.baseline = c12Goroutines()
	app.HarvestTrigger = getHarvestTrigger(app.info.License, reply)
	id := AgentRunID("verif-c12")
	r.ah = NewAppHarvest(id, app, NewHarvest(time.Now(), reply.EventHarvestConfig.EventConfigs), ph)
	r.tickers = c12WaitTickers()
	for i, tk := range r.tickers {
		select {
		case tk.ch <- time.Now():
		default:
			return r, fmt.Sprintf("ticker %d: buffer full before the first tick", i)
		}
		c12Quiesce(c12Wait)
		select {
		case ev := <-ph:
			r.types = append(r.types, ev.Type)
		default:
			return r, fmt.Sprintf("ticker %d (%v): no harvest event after its tick", i, tk.d)
		}
	}
	for _, ct := range c12Canonical {
		for i, ty := range r.types {
			if ty == ct {
				r.byK = append(r.byK, r.tickers[i])
			}
		}
	}
	if len(r.byK) != len(r.tickers) {
		// unknown types: keep creation order behind the known ones
		for i, ty := range r.types {
			known := false
			for _, ct := range c12Canonical {
				if ty == ct {
					known = true
				}
			}
			if !known {
				r.byK = append(r.byK, r.tickers[i])
			}
		}
	}
	return r, ""
}

func (r *c12Run) kOfType(t HarvestType) int {
	k := 0
	for _, ct := range c12Canonical {
		for _, ty := range r.types {
			if ty == ct {
				if ty == t {
					return k
				}
				k++
			}
		}
	}
	return -1
}

func c12WaitGone(baseline int, d time.Duration) bool {
	end := time.Now().Add(d)
	for {
		c12Quiesce(d)
		if c12Goroutines() <= baseline {
			return true
		}
		if time.Now().After(end) || c12AllBlocked() {
			// parked for good: exited goroutines are gone from the count as soon as they have returned
			time.Sleep(200 * time.Microsecond)
			return c12Goroutines() <= baseline
		}
	}
}

func c12CloseWithTimeout(ah *AppHarvest, d time.Duration) bool {
	done := make(chan struct{})
	go func() { ah.Close(); close(done) }()
	c12Quiesce(d)
	select {
	case <-done:
		return true
	default:
		return false
	}
}

// ---------------------------------------------------------------- plans

type c12PlanObs struct {
	Err     bool       `json:"err"`
	Tickers [][2]int64 `json:"tickers"` // (duration ns, type)
	Limits  []int64    `json:"limits"`  // txn custom error span log
	CloseOK bool       `json:"close_ok"`
	Gone    bool       `json:"gone"`
	Note    string     `json:"note,omitempty"`
}

func c12Plan(js string) c12PlanObs {
	o := c12PlanObs{Tickers: [][2]int64{}, Limits: []int64{}}
	reply, err := parseConnectReply([]byte(js))
	if err != nil {
		o.Err = true
		return o
	}
	ec := reply.EventHarvestConfig.EventConfigs
	o.Limits = []int64{int64(ec.AnalyticEventConfig.Limit), int64(ec.CustomEventConfig.Limit),
		int64(ec.ErrorEventConfig.Limit), int64(ec.SpanEventConfig.Limit), int64(ec.LogEventConfig.Limit)}
	ph := make(chan ProcessorHarvest)
	r, note := c12Start(reply, ph)
	o.Note = note
	for i, tk := range r.tickers {
		ty := int64(-1)
		if i < len(r.types) {
			ty = int64(r.types[i])
		}
		o.Tickers = append(o.Tickers, [2]int64{int64(tk.d), ty})
	}
	o.CloseOK = c12CloseWithTimeout(r.ah, 2*time.Second)
	o.Gone = c12WaitGone(r.baseline, 2*time.Second)
	if !o.Gone {
		o.Note += fmt.Sprintf(" goroutines: %d > baseline %d", c12Goroutines(), r.baseline)
	}
	return o
}

// ---------------------------------------------------------------- lts

type c12Op struct {
	Op string `json:"op"`
	K  int    `json:"k"`
}

type c12LtsObs struct {
	N      int             `json:"n"`
	Types  []int64         `json:"types"` // model order
	Events [][]interface{} `json:"events"`
	Note   string          `json:"note,omitempty"`
}

func c12Lts(js string, ops []c12Op) c12LtsObs {
	o := c12LtsObs{Events: [][]interface{}{}, Types: []int64{}}
	reply, err := parseConnectReply([]byte(js))
	if err != nil {
		o.Note = "reply does not parse"
		return o
	}
	ph := make(chan ProcessorHarvest)
	r, note := c12Start(reply, ph)
	o.Note = note
	o.N = len(r.byK)
	for k := range r.byK {
		for i, tk := range r.tickers {
			if tk == r.byK[k] {
				o.Types = append(o.Types, int64(r.types[i]))
			}
		}
	}
	if note != "" {
		return o
	}
	ev := func(a ...interface{}) { o.Events = append(o.Events, a) }
	var closeDone chan struct{}
	closed := false
	for _, op := range ops {
		switch op.Op {
		case "tick":
			if op.K >= len(r.byK) {
				continue
			}
			select {
			case r.byK[op.K].ch <- time.Now():
				ev("tick", op.K, true)
			default:
				ev("tick", op.K, false)
			}
		case "recv":
			c12Quiesce(c12Wait)
			select {
			case e := <-ph:
				ev("recv", r.kOfType(e.Type))
			default:
				ev("recv_none")
			}
		case "close":
			if closed {
				continue
			}
			closed = true
			closeDone = make(chan struct{})
			go func() { r.ah.Close(); close(closeDone) }()
			ev("close")
		case "wait_close":
			if !closed {
				continue
			}
			c12Quiesce(c12Wait)
			select {
			case <-closeDone:
				ev("close_done", true)
			default:
				ev("close_done", false)
			}
		case "settle":
			c12Quiesce(c12Wait)
			ev("quiet")
		case "yield":
			// let the goroutines run without asserting anything
			time.Sleep(time.Duration(op.K) * 100 * time.Microsecond)
		}
	}
	// epilogue: make sure Close is called, drain what the forwarder still holds, then everything must be gone
	if !closed {
		closed = true
		closeDone = make(chan struct{})
		go func() { r.ah.Close(); close(closeDone) }()
		ev("close")
	}
	for i := 0; i < 16; i++ {
		c12Quiesce(c12Wait)
		select {
		case e := <-ph:
			ev("recv", r.kOfType(e.Type))
			continue
		default:
			ev("recv_none")
		}
		break
	}
	c12Quiesce(c12Wait)
	select {
	case <-closeDone:
		ev("close_done", true)
	default:
		ev("close_done", false)
	}
	gone := c12WaitGone(r.baseline, c12Wait)
	ev("gone", gone)
	if !gone {
		buf := make([]byte, 1<<16)
		buf = buf[:runtime.Stack(buf, true)]
		o.Note += fmt.Sprintf("goroutines %d > baseline %d", c12Goroutines(), r.baseline)
		_ = buf
	}
	return o
}

// ---------------------------------------------------------------- zero limits

type c12ZeroOp struct {
	Op  string `json:"op"` // add / add_default / harvest
	Cat string `json:"cat"`
	Ht  int    `json:"ht"`
}

type c12ZeroObs struct {
	Err     bool       `json:"err"`
	Limits  []int64    `json:"limits"`
	Emitted [][]string `json:"emitted"` // per harvest op: event commands sent, in order
}

func c12Zero(js string, ops []c12ZeroOp) c12ZeroObs {
	o := c12ZeroObs{Emitted: [][]string{}, Limits: []int64{}}
	reply, err := parseConnectReply([]byte(js))
	if err != nil {
		o.Err = true
		return o
	}
	ec := reply.EventHarvestConfig.EventConfigs
	o.Limits = []int64{int64(ec.AnalyticEventConfig.Limit), int64(ec.CustomEventConfig.Limit),
		int64(ec.ErrorEventConfig.Limit), int64(ec.SpanEventConfig.Limit), int64(ec.LogEventConfig.Limit)}
	app := NewApp(&AppInfo{License: "0123456789012345678901234567890123456789", AgentLanguage: "php", AgentVersion: "1"})
	app.connectReply = reply
	ah := &AppHarvest{App: app, Harvest: NewHarvest(time.Now(), ec)}
	var mu sync.Mutex
	var sent []string
	client := collector.ClientFn(func(cmd *collector.RpmCmd, cs collector.RpmControls) collector.RPMResponse {
		mu.Lock()
		sent = append(sent, cmd.Name)
		mu.Unlock()
		return collector.RPMResponse{StatusCode: 202}
	})
	isEvent := map[string]bool{collector.CommandTxnEvents: true, collector.CommandCustomEvents: true,
		collector.CommandErrorEvents: true, collector.CommandSpanEvents: true, collector.CommandLogEvents: true}
	prio := SamplingPriority(0.5)
	for _, op := range ops {
		switch op.Op {
		case "add":
			switch op.Cat {
			case "txn":
				ah.Harvest.TxnEvents.AddTxnEvent([]byte(`[{"type":"Transaction"},{},{}]`), prio)
			case "custom":
				ah.Harvest.CustomEvents.AddEventFromData([]byte(`[{"type":"c"},{},{}]`), prio)
			case "error":
				ah.Harvest.ErrorEvents.AddEventFromData([]byte(`[{"type":"TransactionError"},{},{}]`), prio)
			case "span":
				ah.Harvest.SpanEvents.AddEventFromData([]byte(`[{"type":"Span"},{},{}]`), prio)
			case "log":
				ah.Harvest.LogEvents.AddEventFromData([]byte(`{"message":"m","level":"INFO","timestamp":1}`), prio)
			}
		case "add_default":
			ah.Harvest.Metrics.AddCount("Custom/verif", "", 1, Forced)
		case "harvest":
			sent = nil
			args := harvestArgs{HarvestStart: time.Now(), id: AgentRunID("verif-c12"), license: app.info.License,
				agentLanguage: "php", agentVersion: "1", client: client, blocking: true,
				harvestErrorChannel: make(chan HarvestError, 64)}
			harvestByType(ah, &args, HarvestType(op.Ht), make(chan dataUsageInfo, 25))
			mu.Lock()
			names := []string{}
			for _, n := range sent {
				if isEvent[n] {
					names = append(names, n)
				}
			}
			mu.Unlock()
			o.Emitted = append(o.Emitted, names)
		}
	}
	return o
}

// ---------------------------------------------------------------- processor must not block in shutdown

type c12ProcObs struct {
	N         int    `json:"n"`
	Fired     int    `json:"fired"`
	Blocked   bool   `json:"blocked"`
	Steps     int    `json:"steps"`
	Gone      bool   `json:"gone"`
	Note      string `json:"note,omitempty"`
	Unsettled bool   `json:"unsettled"`
}

func c12Proc(js string) c12ProcObs {
	o := c12ProcObs{}
	reply, err := parseConnectReply([]byte(js))
	if err != nil {
		o.Note = "reply does not parse"
		return o
	}
	client := collector.ClientFn(func(cmd *collector.RpmCmd, cs collector.RpmControls) collector.RPMResponse {
		return collector.RPMResponse{StatusCode: 202}
	})
	p := NewProcessor(ProcessorConfig{Client: client, AppTimeout: time.Nanosecond})
	p.trackProgress = make(chan struct{})
	go p.Run()
	<-p.trackProgress // utilization
	// identify the tickers with a private channel first?  No: use the processor's own channel, but the
	// identification needs a receiver; so the application is started on a scratch channel and the forwarder
	// of the real one is what we are interested in.  Simpler: start directly on the processor's channel and
	// do not identify (types are not needed here).
	c12Reset()
	app := NewApp(&AppInfo{License: "0123456789012345678901234567890123456789", AgentLanguage: "php", AgentVersion: "1"})
	app.connectReply = reply
	app.LastActivity = time.Time{}
	baseline := c12Goroutines()
	app.HarvestTrigger = getHarvestTrigger(app.info.License, reply)
	id := AgentRunID("verif-c12-proc")
	ah := NewAppHarvest(id, app, NewHarvest(time.Now(), reply.EventHarvestConfig.EventConfigs), p.processorHarvestChan)
	p.harvests[id] = ah
	p.apps[app.Key()] = app
	tickers := c12WaitTickers()
	o.N = len(tickers)
	// keep the processor busy: it handles a message for an unknown run and then waits for trackProgress to be read
	p.txnDataChannel <- TxnData{ID: AgentRunID("verif-c12-unknown-run")}
	c12Quiesce(c12Wait)
	// every trigger gets a tick (and a second one into its buffer): one event reaches the processor, which
	// finds the application inactive and shuts it down while the other triggers are waiting to send
	for round := 0; round < 2; round++ {
		for _, tk := range tickers {
			select {
			case tk.ch <- time.Now():
				o.Fired++
			default:
			}
		}
		if round == 0 {
			c12Quiesce(c12Wait)
		}
	}
	// the processor must come back to its loop for every message it handles
	for {
		c12Quiesce(c12Wait)
		select {
		case <-p.trackProgress:
			o.Steps++
			continue
		default:
		}
		break
	}
	if _, still := p.harvests[id]; still && o.Steps == 0 {
		o.Note += "processor handled nothing; "
	}
	// blocked = the processor goroutine is not in its select: an app-info message is not picked up
	c12Quiesce(c12Wait)
	select {
	case p.quitChan <- struct{}{}:
	default:
		o.Blocked = true
	}
	o.Gone = c12WaitGone(baseline-1, time.Second) // the processor goroutine itself has returned too
	if o.Blocked {
		o.Note += "the processor goroutine did not return to its select after shutting the application down; "
	}
	return o
}

// ---------------------------------------------------------------- entry point

func TestVerifC12(t *testing.T) {
	inPath, outPath := os.Getenv("VERIF_IN"), os.Getenv("VERIF_OUT")
	if inPath == "" {
		t.Skip("harness only")
	}
	VerifNewTicker = c12Hook
	defer func() { VerifNewTicker = nil }()
	var in struct {
		Plans []struct {
			Json string `json:"json"`
		} `json:"plans"`
		Lts []struct {
			Json string  `json:"json"`
			Ops  []c12Op `json:"ops"`
		} `json:"lts"`
		Zero []struct {
			Json string      `json:"json"`
			Ops  []c12ZeroOp `json:"ops"`
		} `json:"zero"`
		Proc []struct {
			Json string `json:"json"`
		} `json:"proc"`
	}
	raw, err := ioutil.ReadFile(inPath)
	if err != nil {
		t.Fatal(err)
	}
	if err := json.Unmarshal(raw, &in); err != nil {
		t.Fatal(err)
	}
	var out struct {
		Plans []c12PlanObs `json:"plans"`
		Lts   []c12LtsObs  `json:"lts"`
		Zero  []c12ZeroObs `json:"zero"`
		Proc  []c12ProcObs `json:"proc"`
	}
	out.Plans, out.Lts, out.Zero, out.Proc = []c12PlanObs{}, []c12LtsObs{}, []c12ZeroObs{}, []c12ProcObs{}
	// a panic in one of the daemon's goroutines (e.g. send on a closed channel) kills the test binary:
	// the case being run is recorded first so that the driver can name it
	progress := func(group string, i int) {
		ioutil.WriteFile(outPath+".progress", []byte(fmt.Sprintf("%s %d", group, i)), 0644)
	}
	for i, c := range in.Plans {
		progress("plans", i)
		out.Plans = append(out.Plans, c12Plan(c.Json))
	}
	for i, c := range in.Zero {
		progress("zero", i)
		out.Zero = append(out.Zero, c12Zero(c.Json, c.Ops))
	}
	for i, c := range in.Lts {
		progress("lts", i)
		out.Lts = append(out.Lts, c12Lts(c.Json, c.Ops))
	}
	for i, c := range in.Proc {
		progress("proc", i)
		out.Proc = append(out.Proc, c12Proc(c.Json))
	}
	ob, _ := json.Marshal(out)
	if err := ioutil.WriteFile(outPath, ob, 0644); err != nil {
		t.Fatal(err)
	}
}
