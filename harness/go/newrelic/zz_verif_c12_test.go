//go:build verif

package newrelic

// C12 harness.  harvest_trigger.go is replaced (overlay) by a woven copy of the current file in which
// time.NewTicker goes through VerifNewTicker: the harness hands out hand-made tickers, records the duration
// each trigger asked for, and fires ticks by hand.
//   plans: real parseConnectReply + getHarvestTrigger + NewAppHarvest for generated connect replies; the
//          (duration, type) of every ticker is observed by firing it and receiving the ProcessorHarvest.
//   lts:   scripted interleavings of ticks, a processor that receives or stays busy, and Close; the event log
//          is checked against the goroutine LTS (TriggerLts.taccepts) in Coq.
//   zero:  real harvestByType (blocking) on harvests whose limits come from the reply; emitted commands.
//   proc:  the real Processor with an inactive application whose six triggers are all waiting to send when
//          the processor shuts the application down: watchdog on the processor's progress.

import (
	"encoding/json"
	"fmt"
	"io/ioutil"
	"os"
	"runtime"
	"strings"
	"sync"
	"testing"
	"time"

	"github.com/newrelic/newrelic-php-agent/daemon/internal/newrelic/collector"
)

type c12Ticker struct {
	d  time.Duration
	ch chan time.Time
}

var (
	c12Mu      sync.Mutex
	c12Tickers []*c12Ticker
)

func c12Hook(d time.Duration) *time.Ticker {
	ch := make(chan time.Time, 1)
	c12Mu.Lock()
	c12Tickers = append(c12Tickers, &c12Ticker{d: d, ch: ch})
	c12Mu.Unlock()
	return &time.Ticker{C: ch}
}

func c12Reset() {
	c12Mu.Lock()
	c12Tickers = nil
	c12Mu.Unlock()
}

func c12Count() int {
	c12Mu.Lock()
	defer c12Mu.Unlock()
	return len(c12Tickers)
}

// every goroutine started for the AppHarvest has reached its select: all tickers exist
func c12WaitTickers() []*c12Ticker {
	c12Quiesce(5 * time.Second)
	c12Mu.Lock()
	defer c12Mu.Unlock()
	return append([]*c12Ticker{}, c12Tickers...)
}

// c12AllBlocked reports whether every goroutine of the process except the caller is parked (select, channel
// operation, ...): nothing more will happen until the harness acts.  It reads the goroutine states from
// runtime.Stack, so it does not depend on timing.
func c12AllBlocked() bool {
	buf := make([]byte, 1<<20)
	buf = buf[:runtime.Stack(buf, true)]
	running := 0
	for _, line := range strings.Split(string(buf), "\n") {
		if !strings.HasPrefix(line, "goroutine ") {
			continue
		}
		i := strings.Index(line, "[")
		if i < 0 {
			continue
		}
		st := line[i+1:]
		if strings.HasPrefix(st, "running") {
			running++
		} else if strings.HasPrefix(st, "runnable") || strings.HasPrefix(st, "syscall") {
			return false
		}
	}
	return running == 1
}

// c12Quiesce waits until the process is quiet (three consecutive observations), at most d.
func c12Quiesce(d time.Duration) bool {
	end := time.Now().Add(d)
	ok := 0
	for {
		runtime.Gosched()
		if c12AllBlocked() {
			ok++
			if ok >= 3 {
				return true
			}
		} else {
			ok = 0
		}
		if time.Now().After(end) {
			return false
		}
		time.Sleep(50 * time.Microsecond)
	}
}

var c12Canonical = []HarvestType{HarvestAll, HarvestDefaultData, HarvestTxnEvents, HarvestCustomEvents,
	HarvestErrorEvents, HarvestSpanEvents, HarvestLogEvents}

const c12Wait = 5 * time.Second // upper bound only; waits end as soon as every goroutine is parked

type c12Run struct {
	ah       *AppHarvest
	ph       chan ProcessorHarvest
	tickers  []*c12Ticker // creation order
	types    []HarvestType
	byK      []*c12Ticker // model order
	baseline int
	reply    *ConnectReply
}

func c12Goroutines() int { return runtime.NumGoroutine() }

// c12Start builds the AppHarvest for a reply exactly as processConnectAttempt does and identifies every ticker
// by firing it once and receiving the harvest event it produces.
func c12Start(reply *ConnectReply, ph chan ProcessorHarvest) (*c12Run, string) {
	c12Reset()
	r := &c12Run{ph: ph, reply: reply}
	app := NewApp(&AppInfo{License: "0123456789012345678901234567890123456789", AgentLanguage: "php", AgentVersion: "1"})
	app.connectReply = reply
	r.baseline = c12Goroutines()
	app.HarvestTrigger = getHarvestTrigger(app.info.License, reply)
	id := AgentRunID("verif-c12")
	r.ah = NewAppHarvest(id, app, NewHarvest(time.Now(), reply.EventHarvestConfig.EventConfigs), ph)
	r.tickers = c12WaitTickers()
	for i, tk := range r.tickers {
		select {
		case tk.ch <- time.Now():
		default:
			return r, fmt.Sprintf("ticker %d: buffer full before the first tick", i)
		}
		c12Quiesce(c12Wait)
		select {
		case ev := <-ph:
			r.types = append(r.types, ev.Type)
		default:
			return r, fmt.Sprintf("ticker %d (%v): no harvest event after its tick", i, tk.d)
		}
	}
	for _, ct := range c12Canonical {
		for i, ty := range r.types {
			if ty == ct {
				r.byK = append(r.byK, r.tickers[i])
			}
		}
	}
	if len(r.byK) != len(r.tickers) {
		// unknown types: keep creation order behind the known ones
		for i, ty := range r.types {
			known := false
			for _, ct := range c12Canonical {
				if ty == ct {
					known = true
				}
			}
			if !known {
				r.byK = append(r.byK, r.tickers[i])
			}
		}
	}
	return r, ""
}

func (r *c12Run) kOfType(t HarvestType) int {
	k := 0
	for _, ct := range c12Canonical {
		for _, ty := range r.types {
			if ty == ct {
				if ty == t {
					return k
				}
				k++
			}
		}
	}
	return -1
}

func c12WaitGone(baseline int, d time.Duration) bool {
	end := time.Now().Add(d)
	for {
		c12Quiesce(d)
		if c12Goroutines() <= baseline {
			return true
		}
		if time.Now().After(end) || c12AllBlocked() {
			// parked for good: exited goroutines are gone from the count as soon as they have returned
			time.Sleep(200 * time.Microsecond)
			return c12Goroutines() <= baseline
		}
	}
}

func c12CloseWithTimeout(ah *AppHarvest, d time.Duration) bool {
	done := make(chan struct{})
	go func() { ah.Close(); close(done) }()
	c12Quiesce(d)
	select {
	case <-done:
		return true
	default:
		return false
	}
}

// ---------------------------------------------------------------- plans

type c12PlanObs struct {
	Err     bool       `json:"err"`
	Tickers [][2]int64 `json:"tickers"` // (duration ns, type)
	Limits  []int64    `json:"limits"`  // txn custom error span log
	CloseOK bool       `json:"close_ok"`
	Gone    bool       `json:"gone"`
	Note    string     `json:"note,omitempty"`
}

func c12Plan(js string) c12PlanObs {
	o := c12PlanObs{Tickers: [][2]int64{}, Limits: []int64{}}
	reply, err := parseConnectReply([]byte(js))
	if err != nil {
		o.Err = true
		return o
	}
	ec := reply.EventHarvestConfig.EventConfigs
	o.Limits = []int64{int64(ec.AnalyticEventConfig.Limit), int64(ec.CustomEventConfig.Limit),
		int64(ec.ErrorEventConfig.Limit), int64(ec.SpanEventConfig.Limit), int64(ec.LogEventConfig.Limit)}
	ph := make(chan ProcessorHarvest)
	r, note := c12Start(reply, ph)
	o.Note = note
	for i, tk := range r.tickers {
		ty := int64(-1)
		if i < len(r.types) {
			ty = int64(r.types[i])
		}
		o.Tickers = append(o.Tickers, [2]int64{int64(tk.d), ty})
	}
	o.CloseOK = c12CloseWithTimeout(r.ah, 2*time.Second)
	o.Gone = c12WaitGone(r.baseline, 2*time.Second)
	if !o.Gone {
		o.Note += fmt.Sprintf(" goroutines: %d > baseline %d", c12Goroutines(), r.baseline)
	}
	return o
}

// ---------------------------------------------------------------- lts

type c12Op struct {
	Op string `json:"op"`
	K  int    `json:"k"`
}

type c12LtsObs struct {
	N      int             `json:"n"`
	Types  []int64         `json:"types"` // model order
	Events [][]interface{} `json:"events"`
	Note   string          `json:"note,omitempty"`
}

func c12Lts(js string, ops []c12Op) c12LtsObs {
	o := c12LtsObs{Events: [][]interface{}{}, Types: []int64{}}
	reply, err := parseConnectReply([]byte(js))
	if err != nil {
		o.Note = "reply does not parse"
		return o
	}
	ph := make(chan ProcessorHarvest)
	r, note := c12Start(reply, ph)
	o.Note = note
	o.N = len(r.byK)
	for k := range r.byK {
		for i, tk := range r.tickers {
			if tk == r.byK[k] {
				o.Types = append(o.Types, int64(r.types[i]))
			}
		}
	}
	if note != "" {
		return o
	}
	ev := func(a ...interface{}) { o.Events = append(o.Events, a) }
	var closeDone chan struct{}
	closed := false
	for _, op := range ops {
		switch op.Op {
		case "tick":
			if op.K >= len(r.byK) {
				continue
			}
			select {
			case r.byK[op.K].ch <- time.Now():
				ev("tick", op.K, true)
			default:
				ev("tick", op.K, false)
			}
		case "recv":
			c12Quiesce(c12Wait)
			select {
			case e := <-ph:
				ev("recv", r.kOfType(e.Type))
			default:
				ev("recv_none")
			}
		case "close":
			if closed {
				continue
			}
			closed = true
			closeDone = make(chan struct{})
			go func() { r.ah.Close(); close(closeDone) }()
			ev("close")
		case "wait_close":
			if !closed {
				continue
			}
			c12Quiesce(c12Wait)
			select {
			case <-closeDone:
				ev("close_done", true)
			default:
				ev("close_done", false)
			}
		case "settle":
			c12Quiesce(c12Wait)
			ev("quiet")
		case "yield":
			// let the goroutines run without asserting anything
			time.Sleep(time.Duration(op.K) * 100 * time.Microsecond)
		}
	}
	// epilogue: make sure Close is called, drain what the forwarder still holds, then everything must be gone
	if !closed {
		closed = true
		closeDone = make(chan struct{})
		go func() { r.ah.Close(); close(closeDone) }()
		ev("close")
	}
	for i := 0; i < 16; i++ {
		c12Quiesce(c12Wait)
		select {
		case e := <-ph:
			ev("recv", r.kOfType(e.Type))
			continue
		default:
			ev("recv_none")
		}
		break
	}
	c12Quiesce(c12Wait)
	select {
	case <-closeDone:
		ev("close_done", true)
	default:
		ev("close_done", false)
	}
	gone := c12WaitGone(r.baseline, c12Wait)
	ev("gone", gone)
	if !gone {
		buf := make([]byte, 1<<16)
		buf = buf[:runtime.Stack(buf, true)]
		o.Note += fmt.Sprintf("goroutines %d > baseline %d", c12Goroutines(), r.baseline)
		_ = buf
	}
	return o
}

// ---------------------------------------------------------------- zero limits

type c12ZeroOp struct {
	Op  string `json:"op"` // add / add_default / harvest
	Cat string `json:"cat"`
	Ht  int    `json:"ht"`
}

type c12ZeroObs struct {
	Err     bool       `json:"err"`
	Limits  []int64    `json:"limits"`
	Emitted [][]string `json:"emitted"` // per harvest op: event commands sent, in order
}

func c12Zero(js string, ops []c12ZeroOp) c12ZeroObs {
	o := c12ZeroObs{Emitted: [][]string{}, Limits: []int64{}}
	reply, err := parseConnectReply([]byte(js))
	if err != nil {
		o.Err = true
		return o
	}
	ec := reply.EventHarvestConfig.EventConfigs
	o.Limits = []int64{int64(ec.AnalyticEventConfig.Limit), int64(ec.CustomEventConfig.Limit),
		int64(ec.ErrorEventConfig.Limit), int64(ec.SpanEventConfig.Limit), int64(ec.LogEventConfig.Limit)}
	app := NewApp(&AppInfo{License: "0123456789012345678901234567890123456789", AgentLanguage: "php", AgentVersion: "1"})
	app.connectReply = reply
	ah := &AppHarvest{App: app, Harvest: NewHarvest(time.Now(), ec)}
	var mu sync.Mutex
	var sent []string
	client := collector.ClientFn(func(cmd *collector.RpmCmd, cs collector.RpmControls) collector.RPMResponse {
		mu.Lock()
		sent = append(sent, cmd.Name)
		mu.Unlock()
		return collector.RPMResponse{StatusCode: 202}
	})
	isEvent := map[string]bool{collector.CommandTxnEvents: true, collector.CommandCustomEvents: true,
		collector.CommandErrorEvents: true, collector.CommandSpanEvents: true, collector.CommandLogEvents: true}
	prio := SamplingPriority(0.5)
	for _, op := range ops {
		switch op.Op {
		case "add":
			switch op.Cat {
			case "txn":
				ah.Harvest.TxnEvents.AddTxnEvent([]byte(`[{"type":"Transaction"},{},{}]`), prio)
			case "custom":
				ah.Harvest.CustomEvents.AddEventFromData([]byte(`[{"type":"c"},{},{}]`), prio)
			case "error":
				ah.Harvest.ErrorEvents.AddEventFromData([]byte(`[{"type":"TransactionError"},{},{}]`), prio)
			case "span":
				ah.Harvest.SpanEvents.AddEventFromData([]byte(`[{"type":"Span"},{},{}]`), prio)
			case "log":
				ah.Harvest.LogEvents.AddEventFromData([]byte(`{"message":"m","level":"INFO","timestamp":1}`), prio)
			}
		case "add_default":
			ah.Harvest.Metrics.AddCount("Custom/verif", "", 1, Forced)
		case "harvest":
			sent = nil
			args := harvestArgs{HarvestStart: time.Now(), id: AgentRunID("verif-c12"), license: app.info.License,
				agentLanguage: "php", agentVersion: "1", client: client, blocking: true,
				harvestErrorChannel: make(chan HarvestError, 64)}
			harvestByType(ah, &args, HarvestType(op.Ht), make(chan dataUsageInfo, 25))
			mu.Lock()
			names := []string{}
			for _, n := range sent {
				if isEvent[n] {
					names = append(names, n)
				}
			}
			mu.Unlock()
			o.Emitted = append(o.Emitted, names)
		}
	}
	return o
}

// ---------------------------------------------------------------- processor must not block in shutdown

type c12ProcObs struct {
	N         int    `json:"n"`
	Fired     int    `json:"fired"`
	Blocked   bool   `json:"blocked"`
	Steps     int    `json:"steps"`
	Gone      bool   `json:"gone"`
	Note      string `json:"note,omitempty"`
	Unsettled bool   `json:"unsettled"`
}

func c12Proc(js string) c12ProcObs {
	o := c12ProcObs{}
	reply, err := parseConnectReply([]byte(js))
	if err != nil {
		o.Note = "reply does not parse"
		return o
	}
	client := collector.ClientFn(func(cmd *collector.RpmCmd, cs collector.RpmControls) collector.RPMResponse {
		return collector.RPMResponse{StatusCode: 202}
	})
	p := NewProcessor(ProcessorConfig{Client: client, AppTimeout: time.Nanosecond})
	p.trackProgress = make(chan struct{})
	go p.Run()
	<-p.trackProgress // utilization
	// identify the tickers with a private channel first?  No: use the processor's own channel, but the
	// identification needs a receiver; so the application is started on a scratch channel and the forwarder
	// of the real one is what we are interested in.  Simpler: start directly on the processor's channel and
	// do not identify (types are not needed here).
	c12Reset()
	app := NewApp(&AppInfo{License: "0123456789012345678901234567890123456789", AgentLanguage: "php", AgentVersion: "1"})
	app.connectReply = reply
	app.LastActivity = time.Time{}
	baseline := c12Goroutines()
	app.HarvestTrigger = getHarvestTrigger(app.info.License, reply)
	id := AgentRunID("verif-c12-proc")
	ah := NewAppHarvest(id, app, NewHarvest(time.Now(), reply.EventHarvestConfig.EventConfigs), p.processorHarvestChan)
	p.harvests[id] = ah
	p.apps[app.Key()] = app
	tickers := c12WaitTickers()
	o.N = len(tickers)
	// keep the processor busy: it handles a message for an unknown run and then waits for trackProgress to be read
	p.txnDataChannel <- TxnData{ID: AgentRunID("verif-c12-unknown-run")}
	c12Quiesce(c12Wait)
	// every trigger gets a tick (and a second one into its buffer): one event reaches the processor, which
	// finds the application inactive and shuts it down while the other triggers are waiting to send
	for round := 0; round < 2; round++ {
		for _, tk := range tickers {
			select {
			case tk.ch <- time.Now():
				o.Fired++
			default:
			}
		}
		if round == 0 {
			c12Quiesce(c12Wait)
		}
	}
	// the processor must come back to its loop for every message it handles
	for {
		c12Quiesce(c12Wait)
		select {
		case <-p.trackProgress:
			o.Steps++
			continue
		default:
		}
		break
	}
	if _, still := p.harvests[id]; still && o.Steps == 0 {
		o.Note += "processor handled nothing; "
	}
	// blocked = the processor goroutine is not in its select: an app-info message is not picked up
	c12Quiesce(c12Wait)
	select {
	case p.quitChan <- struct{}{}:
	default:
		o.Blocked = true
	}
	o.Gone = c12WaitGone(baseline-1, time.Second) // the processor goroutine itself has returned too
	if o.Blocked {
		o.Note += "the processor goroutine did not return to its select after shutting the application down; "
	}
	return o
}

// ---------------------------------------------------------------- a run restarted under a different harvest configuration

type c12RestartObs struct {
	First  []int64 `json:"first"`  // periods (ns) of the timers of the first run
	Second []int64 `json:"second"` // ... of the run the application was reconnected with
	Note   string  `json:"note,omitempty"`
}

// c12Restart drives the REAL processor: the application connects (reply js1), a harvest of that run is answered with a
// restart verdict (409), the application reconnects (reply js2).  The timers created for the second run must be the ones
// js2 asks for (seeded/C12f2: the trigger of the first reply was kept).
func c12Restart(js1, js2 string) (o c12RestartObs) {
	o.First, o.Second = []int64{}, []int64{}
	var mu sync.Mutex
	connects := 0
	restarting := false
	calls := []string{}
	withRun := func(js string, run string) []byte {
		// the two runs get run ids of their own (a reply text that names one is overridden): verdicts that arrive late
		// for the first run must not be taken for verdicts on the second
		var m map[string]json.RawMessage
		if json.Unmarshal([]byte(js), &m) != nil || m == nil {
			m = map[string]json.RawMessage{}
		}
		m["agent_run_id"] = json.RawMessage(`"` + run + `"`)
		b, _ := json.Marshal(m)
		return b
	}
	client := collector.ClientFn(func(cmd *collector.RpmCmd, cs collector.RpmControls) collector.RPMResponse {
		cs.Collectible.CollectorJSON(false)
		mu.Lock()
		defer mu.Unlock()
		calls = append(calls, cmd.Name)
		switch cmd.Name {
		case collector.CommandPreconnect:
			return collector.RPMResponse{StatusCode: 200, Body: []byte(`{"redirect_host":"coll.example"}`)}
		case collector.CommandConnect:
			connects++
			if connects == 1 {
				return collector.RPMResponse{StatusCode: 200, Body: withRun(js1, "c12-one")}
			}
			return collector.RPMResponse{StatusCode: 200, Body: withRun(js2, "c12-two")}
		}
		if restarting {
			return collector.RPMResponse{StatusCode: 409, Err: fmt.Errorf("verif: restart")}
		}
		return collector.RPMResponse{StatusCode: 202}
	})
	p := NewProcessor(ProcessorConfig{Client: client})
	p.appConnectBackoff = time.Millisecond
	go p.Run()
	defer func() {
		done := make(chan struct{})
		go func() { p.CleanExit(); close(done) }()
		select {
		case <-done:
		case <-time.After(3 * time.Second):
			o.Note += "CleanExit did not return; "
		}
	}()
	info := &AppInfo{License: "0123456789012345678901234567890123456789", Appname: "c12-restart", AgentLanguage: "php",
		AgentVersion: "1", Hostname: "h", Environment: JSONString(`[]`), Labels: JSONString(`[]`),
		Settings: map[string]interface{}{"newrelic.distributed_tracing_enabled": false}}
	info.AgentEventLimits.LogEventConfig.Limit = 20000
	info.AgentEventLimits.SpanEventConfig.Limit = 10000
	info.AgentEventLimits.CustomEventConfig.Limit = 100000
	connectAs := func(want string) bool {
		for t0 := time.Now(); time.Since(t0) < 4*time.Second; time.Sleep(2 * time.Millisecond) {
			rep := p.IncomingAppInfo(nil, info)
			mu.Lock()
			n := connects
			mu.Unlock()
			if rep.State == AppStateConnected && ((want == "c12-one" && n == 1) || (want == "c12-two" && n >= 2)) {
				return true
			}
		}
		return false
	}
	periods := func() []int64 {
		out := []int64{}
		for _, tk := range c12WaitTickers() {
			out = append(out, int64(tk.d))
		}
		return out
	}
	c12Reset()
	if !connectAs("c12-one") {
		o.Note += "first connect failed (the reply may be refused: negative limit); "
		return
	}
	o.First = periods()
	// a harvest of run one is answered with a restart verdict
	mu.Lock()
	restarting = true
	mu.Unlock()
	op := vpOp{Run: 0, Prio: 1, Items: []vpItem{{Cat: "metrics", Tag: 1, Key: 1, Slot: 0}}}
	for id := range p.harvests {
		if _, err := (CommandsHandler{Processor: p}).HandleMessage(RawMessage{Type: MessageTypeBinary, Bytes: vpBuildTxn(string(id), &op)}); err != nil {
			o.Note += "txn: " + err.Error() + "; "
		}
	}
	time.Sleep(5 * time.Millisecond)
	c12Reset() // from here on only the timers of the second run are recorded (the processor reconnects by itself)
	ticked := false
	for id, ah := range p.harvests { // (the reply may carry a run id of its own)
		p.processorHarvestChan <- ProcessorHarvest{AppHarvest: ah, ID: id, Type: HarvestDefaultData}
		ticked = true
		break
	}
	if !ticked {
		o.Note += "no app harvest for the first run; "
	}
	c12Quiesce(c12Wait)
	mu.Lock()
	restarting = false
	mu.Unlock()
	if !connectAs("c12-two") {
		mu.Lock()
		o.Note += fmt.Sprintf("the application did not reconnect (connect requests so far: %d; runs held: %d; calls %v); ", connects, len(p.harvests), calls)
		mu.Unlock()
		return
	}
	o.Second = periods()
	return
}

// ---------------------------------------------------------------- entry point

func TestVerifC12(t *testing.T) {
	inPath, outPath := os.Getenv("VERIF_IN"), os.Getenv("VERIF_OUT")
	if inPath == "" {
		t.Skip("harness only")
	}
	VerifNewTicker = c12Hook
	defer func() { VerifNewTicker = nil }()
	var in struct {
		Plans []struct {
			Json string `json:"json"`
		} `json:"plans"`
		Lts []struct {
			Json string  `json:"json"`
			Ops  []c12Op `json:"ops"`
		} `json:"lts"`
		Zero []struct {
			Json string      `json:"json"`
			Ops  []c12ZeroOp `json:"ops"`
		} `json:"zero"`
		Proc []struct {
			Json string `json:"json"`
		} `json:"proc"`
		Restarts []struct {
			Json1 string `json:"json1"`
			Json2 string `json:"json2"`
		} `json:"restarts"`
	}
	raw, err := ioutil.ReadFile(inPath)
	if err != nil {
		t.Fatal(err)
	}
	if err := json.Unmarshal(raw, &in); err != nil {
		t.Fatal(err)
	}
	var out struct {
		Plans []c12PlanObs `json:"plans"`
		Lts   []c12LtsObs  `json:"lts"`
		Zero  []c12ZeroObs `json:"zero"`
		Proc  []c12ProcObs `json:"proc"`
		Restarts []c12RestartObs `json:"restarts"`
	}
	out.Restarts = []c12RestartObs{}
	out.Plans, out.Lts, out.Zero, out.Proc = []c12PlanObs{}, []c12LtsObs{}, []c12ZeroObs{}, []c12ProcObs{}
	// a panic in one of the daemon's goroutines (e.g. send on a closed channel) kills the test binary:
	// the case being run is recorded first so that the driver can name it
	progress := func(group string, i int) {
		ioutil.WriteFile(outPath+".progress", []byte(fmt.Sprintf("%s %d", group, i)), 0644)
	}
	for i, c := range in.Plans {
		progress("plans", i)
		out.Plans = append(out.Plans, c12Plan(c.Json))
	}
	for i, c := range in.Zero {
		progress("zero", i)
		out.Zero = append(out.Zero, c12Zero(c.Json, c.Ops))
	}
	for i, c := range in.Lts {
		progress("lts", i)
		out.Lts = append(out.Lts, c12Lts(c.Json, c.Ops))
	}
	for i, c := range in.Proc {
		progress("proc", i)
		out.Proc = append(out.Proc, c12Proc(c.Json))
	}
	for i, c := range in.Restarts {
		progress("restarts", i)
		out.Restarts = append(out.Restarts, c12Restart(c.Json1, c.Json2))
	}
	ob, _ := json.Marshal(out)
	if err := ioutil.WriteFile(outPath, ob, 0644); err != nil {
		t.Fatal(err)
	}
}
