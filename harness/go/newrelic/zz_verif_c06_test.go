//go:build verif

package newrelic

// C06 harness: drives the REAL bounded containers with generated operation sequences and dumps what
// they retain.
//   reservoirs: New{Txn,Custom,Error,Span,Log}Events + AddTxnEvent / AddSyntheticsEvent /
//               AddEventFromData, Merge, MergeFailed (through FailedHarvest), Split; counters; payload
//   errors:     NewErrorHeap + AddError, retained set after every call
//   traces:     NewTxnTraces + IsKeeper / AddTxnTrace, pools read back from the audit payload
//   slow SQLs:  NewSlowSQLs + Observe, retained (id, max) after every call and the final records
// Priorities are integers k standing for k/2^20 (exact in float64); every event's data bytes are the
// JSON array [k, tag, synthetics] so that identity survives into the payload.

import (
	"encoding/json"
	"fmt"
	"io/ioutil"
	"math"
	"os"
	"strconv"
	"strings"
	"testing"
	"time"
)

const c06Grid = 1048576.0 // 2^20

type c06Op struct {
	Op string `json:"op"` // add | synth | merge | mergefailed | mergesplit
	P  int64  `json:"p"`
	T  int64  `json:"t"`
	R  int    `json:"r"` // index of an earlier reservoir (merge / mergefailed)
}

type c06Res struct {
	Kind  string  `json:"kind"` // txn | custom | error | span | log
	K     int     `json:"k"`
	Ops   []c06Op `json:"ops"`
	Split bool    `json:"split"`
}

type c06Item struct {
	P  int64 `json:"p"`  // stored priority * 2^20
	T  int64 `json:"t"`  // tag found in the data bytes
	DP int64 `json:"dp"` // priority written in the data bytes (before the synthetics boost)
	DS int64 `json:"ds"` // synthetics flag written in the data bytes
}

type c06Half struct {
	Tags   []int64 `json:"tags"`
	Seen   int64   `json:"seen"`
	Failed int64   `json:"failed"`
	Cap    int     `json:"cap"`
}

type c06ResOut struct {
	Retained    []c06Item `json:"retained"` // array order
	OnGrid      bool      `json:"on_grid"`
	Seen        int64     `json:"seen"`
	Saved       int64     `json:"saved"`
	Failed      int64     `json:"failed"`
	PayloadTags []int64   `json:"payload_tags"`
	PayloadSeen int64     `json:"payload_seen"`
	PayloadSize int64     `json:"payload_size"`
	PayloadOK   bool      `json:"payload_ok"`
	Halves      []c06Half `json:"halves,omitempty"`
}

type c06Err struct {
	K      int        `json:"k"`
	Offers [][2]int64 `json:"offers"` // priority, tag
}
type c06ErrOut struct {
	Panic bool         `json:"panic"`
	Steps [][][2]int64 `json:"steps"` // after each AddError: retained (priority, tag), array order
}

type c06Trace struct {
	Offers [][4]int64 `json:"offers"` // duration, synthetics, forcePersist, tag
	Gate   bool       `json:"gate"`   // call AddTxnTrace only when IsKeeper says so (as commands.go does)
}
type c06TraceOut struct {
	Keeper  []bool     `json:"keeper"`
	Synth   [][2]int64 `json:"synth"` // duration, tag
	Force   [][2]int64 `json:"force"`
	Regular [][2]int64 `json:"regular"`
	OK      bool       `json:"ok"`
}

type c06Obs struct {
	ID    uint32 `json:"id"`
	Count int32  `json:"count"`
	Total uint64 `json:"total,string"`
	Min   uint64 `json:"min,string"`
	Max   uint64 `json:"max,string"`
	T     int64  `json:"t"`
}
type c06IM struct {
	ID  uint32 `json:"id"`
	Max uint64 `json:"max,string"`
}
type c06Rec struct {
	ID    uint32   `json:"id"`
	Count int32    `json:"count"`
	Total uint64   `json:"total,string"`
	Min   uint64   `json:"min,string"`
	Max   uint64   `json:"max,string"`
	Text  [5]int64 `json:"text"` // metric, query, txn, url, params
}
type c06Slow struct {
	K   int      `json:"k"`
	Obs []c06Obs `json:"obs"`
}
type c06SlowOut struct {
	Steps [][]c06IM `json:"steps"`
	Final []c06Rec  `json:"final"`
}

// one reservoir of any of the five kinds, behind the operations the daemon uses
type c06Reservoir struct {
	ae      *analyticsEvents
	add     func(data []byte, p SamplingPriority)
	synth   func(data []byte, p SamplingPriority)
	failed  func(into *c06Reservoir) // this.FailedHarvest(harvest holding `into`)
	harvest func(h *Harvest)         // put this reservoir into h
	payload func() ([]byte, error)
	kind    string
}

func c06New(kind string, k int) *c06Reservoir {
	r := &c06Reservoir{kind: kind}
	switch kind {
	case "txn":
		e := NewTxnEvents(k)
		r.ae = e.analyticsEvents
		r.add = e.AddTxnEvent
		r.synth = e.AddSyntheticsEvent
		r.harvest = func(h *Harvest) { h.TxnEvents = e }
		r.failed = func(into *c06Reservoir) { h := &Harvest{}; into.harvest(h); e.FailedHarvest(h) }
		r.payload = func() ([]byte, error) { return e.Data("run", time.Now()) }
	case "custom":
		e := NewCustomEvents(k)
		r.ae = e.analyticsEvents
		r.add = e.AddEventFromData
		r.harvest = func(h *Harvest) { h.CustomEvents = e }
		r.failed = func(into *c06Reservoir) { h := &Harvest{}; into.harvest(h); e.FailedHarvest(h) }
		r.payload = func() ([]byte, error) { return e.Data("run", time.Now()) }
	case "error":
		e := NewErrorEvents(k)
		r.ae = e.analyticsEvents
		r.add = e.AddEventFromData
		r.harvest = func(h *Harvest) { h.ErrorEvents = e }
		r.failed = func(into *c06Reservoir) { h := &Harvest{}; into.harvest(h); e.FailedHarvest(h) }
		r.payload = func() ([]byte, error) { return e.Data("run", time.Now()) }
	case "span":
		e := NewSpanEvents(k)
		r.ae = e.analyticsEvents
		r.add = e.AddEventFromData
		r.harvest = func(h *Harvest) { h.SpanEvents = e }
		r.failed = func(into *c06Reservoir) { h := &Harvest{}; into.harvest(h); e.FailedHarvest(h) }
		r.payload = func() ([]byte, error) { return e.Data("run", time.Now()) }
	case "log":
		e := NewLogEvents(k)
		r.ae = e.analyticsEvents
		r.add = e.AddEventFromData
		r.harvest = func(h *Harvest) { h.LogEvents = e }
		r.failed = func(into *c06Reservoir) { h := &Harvest{}; into.harvest(h); e.FailedHarvest(h) }
		r.payload = func() ([]byte, error) { return e.Data("run", time.Now()) }
	default:
		panic("kind " + kind)
	}
	return r
}

func c06Data(p, t int64, synth int) []byte {
	return []byte(fmt.Sprintf("[%d,%d,%d]", p, t, synth))
}

func c06Dump(ae *analyticsEvents) ([]c06Item, bool) {
	items := []c06Item{}
	onGrid := true
	for _, e := range *ae.events {
		scaled := float64(e.priority) * c06Grid
		if scaled != math.Round(scaled) {
			onGrid = false
		}
		var d [3]int64
		if err := json.Unmarshal(e.data, &d); err != nil {
			d = [3]int64{-1, -1, -1}
		}
		items = append(items, c06Item{P: int64(math.Round(scaled)), T: d[1], DP: d[0], DS: d[2]})
	}
	return items, onGrid
}

func c06Payload(r *c06Reservoir, out *c06ResOut) {
	raw, err := r.payload()
	if err != nil {
		return
	}
	out.PayloadTags = []int64{}
	if r.kind == "log" {
		var p []struct {
			Logs [][3]int64 `json:"logs"`
		}
		if json.Unmarshal(raw, &p) != nil || len(p) != 1 {
			return
		}
		for _, d := range p[0].Logs {
			out.PayloadTags = append(out.PayloadTags, d[1])
		}
		out.PayloadSeen, out.PayloadSize = -1, -1
		out.PayloadOK = true
		return
	}
	var p []json.RawMessage
	if json.Unmarshal(raw, &p) != nil || len(p) != 3 {
		return
	}
	var meta struct {
		ReservoirSize int64 `json:"reservoir_size"`
		EventsSeen    int64 `json:"events_seen"`
	}
	var evs [][3]int64
	if json.Unmarshal(p[1], &meta) != nil || json.Unmarshal(p[2], &evs) != nil {
		return
	}
	for _, d := range evs {
		out.PayloadTags = append(out.PayloadTags, d[1])
	}
	out.PayloadSeen, out.PayloadSize = meta.EventsSeen, meta.ReservoirSize
	out.PayloadOK = true
}

func c06RunReservoirs(in []c06Res) []c06ResOut {
	built := make([]*c06Reservoir, len(in))
	outs := make([]c06ResOut, len(in))
	for i, rc := range in {
		r := c06New(rc.Kind, rc.K)
		built[i] = r
		for _, op := range rc.Ops {
			switch op.Op {
			case "add":
				r.add(c06Data(op.P, op.T, 0), SamplingPriority(float64(op.P)/c06Grid))
			case "synth":
				r.synth(c06Data(op.P, op.T, 1), SamplingPriority(float64(op.P)/c06Grid))
			case "merge":
				r.ae.Merge(built[op.R].ae)
			case "mergefailed":
				built[op.R].failed(r)
			case "mergesplit":
				// both halves of a split payload failed and are carried over (processor.go splits
				// large transaction event payloads; each half has its own FailedHarvest)
				e1, e2 := built[op.R].ae.Split()
				r.ae.MergeFailed(e1)
				r.ae.MergeFailed(e2)
			default:
				panic("op " + op.Op)
			}
		}
		o := c06ResOut{}
		o.Retained, o.OnGrid = c06Dump(r.ae)
		o.Seen, o.Saved, o.Failed = int64(r.ae.NumSeen()), int64(r.ae.NumSaved()), int64(r.ae.NumFailedAttempts())
		c06Payload(r, &o)
		if rc.Split {
			e1, e2 := r.ae.Split()
			for _, e := range []*analyticsEvents{e1, e2} {
				its, _ := c06Dump(e)
				h := c06Half{Tags: []int64{}, Seen: int64(e.NumSeen()), Failed: int64(e.NumFailedAttempts()), Cap: cap(*e.events)}
				for _, it := range its {
					h.Tags = append(h.Tags, it.T)
				}
				o.Halves = append(o.Halves, h)
			}
		}
		outs[i] = o
	}
	return outs
}

func c06RunErrors(c c06Err) (out c06ErrOut) {
	out.Steps = [][][2]int64{}
	defer func() {
		if r := recover(); r != nil {
			out.Panic = true
		}
	}()
	h := NewErrorHeap(c.K)
	for _, of := range c.Offers {
		h.AddError(int(of[0]), []byte(strconv.FormatInt(of[1], 10)))
		step := [][2]int64{}
		for _, e := range *h {
			t, err := strconv.ParseInt(string(e.Data), 10, 64)
			if err != nil {
				t = -1
			}
			step = append(step, [2]int64{int64(e.Priority), t})
		}
		out.Steps = append(out.Steps, step)
	}
	return out
}

func c06RunTraces(c c06Trace) (out c06TraceOut) {
	ts := NewTxnTraces()
	out.Keeper = []bool{}
	for _, of := range c.Offers {
		tt := &TxnTrace{
			DurationMillis: float64(of[0]),
			GUID:           strconv.FormatInt(of[3], 10),
			ForcePersist:   of[2] != 0,
			Data:           JSONString(`{}`),
		}
		if of[1] != 0 {
			tt.SyntheticsResourceID = "res"
		}
		keep := ts.IsKeeper(tt)
		out.Keeper = append(out.Keeper, keep)
		if !c.Gate || keep {
			ts.AddTxnTrace(tt)
		}
	}
	out.Synth, out.Force, out.Regular = [][2]int64{}, [][2]int64{}, [][2]int64{}
	raw, err := ts.Audit("run", time.Now())
	if err != nil {
		return out
	}
	var outer []json.RawMessage
	if json.Unmarshal(raw, &outer) != nil || len(outer) != 2 {
		return out
	}
	var inner [][]interface{}
	if json.Unmarshal(outer[1], &inner) != nil {
		return out
	}
	for _, t := range inner {
		if len(t) != 10 {
			return out
		}
		dur, ok1 := t[1].(float64)
		guid, ok2 := t[5].(string)
		force, ok3 := t[7].(bool)
		if !ok1 || !ok2 || !ok3 {
			return out
		}
		tag, _ := strconv.ParseInt(guid, 10, 64)
		it := [2]int64{int64(dur), tag}
		switch {
		case t[9] != nil:
			out.Synth = append(out.Synth, it)
		case force:
			out.Force = append(out.Force, it)
		default:
			out.Regular = append(out.Regular, it)
		}
	}
	out.OK = true
	return out
}

func c06Tag(s, prefix string) int64 {
	if !strings.HasPrefix(s, prefix) {
		return -1
	}
	t, err := strconv.ParseInt(s[len(prefix):], 10, 64)
	if err != nil {
		return -1
	}
	return t
}

func c06RunSlows(c c06Slow) (out c06SlowOut) {
	ss := NewSlowSQLs(c.K)
	out.Steps = [][]c06IM{}
	for _, o := range c.Obs {
		t := strconv.FormatInt(o.T, 10)
		ss.Observe(&SlowSQL{
			ID: SQLId(o.ID), Count: o.Count, TotalMicros: o.Total, MinMicros: o.Min, MaxMicros: o.Max,
			MetricName: "m" + t, Query: "q" + t, TxnName: "t" + t, TxnURL: "u" + t, Params: JSONString("p" + t),
		})
		step := []c06IM{}
		for _, s := range ss.slowSQLs {
			step = append(step, c06IM{ID: uint32(s.ID), Max: s.MaxMicros})
		}
		out.Steps = append(out.Steps, step)
	}
	out.Final = []c06Rec{}
	for _, s := range ss.slowSQLs {
		out.Final = append(out.Final, c06Rec{
			ID: uint32(s.ID), Count: s.Count, Total: s.TotalMicros, Min: s.MinMicros, Max: s.MaxMicros,
			Text: [5]int64{c06Tag(s.MetricName, "m"), c06Tag(s.Query, "q"), c06Tag(s.TxnName, "t"),
				c06Tag(s.TxnURL, "u"), c06Tag(string(s.Params), "p")},
		})
	}
	return out
}

func TestVerifC06(t *testing.T) {
	inPath, outPath := os.Getenv("VERIF_IN"), os.Getenv("VERIF_OUT")
	if inPath == "" {
		t.Skip("harness only")
	}
	var in struct {
		Reservoirs []c06Res   `json:"reservoirs"`
		Errors     []c06Err   `json:"errors"`
		Traces     []c06Trace `json:"traces"`
		Slows      []c06Slow  `json:"slows"`
	}
	raw, err := ioutil.ReadFile(inPath)
	if err != nil {
		t.Fatal(err)
	}
	if err := json.Unmarshal(raw, &in); err != nil {
		t.Fatal(err)
	}
	var out struct {
		Reservoirs []c06ResOut   `json:"reservoirs"`
		Errors     []c06ErrOut   `json:"errors"`
		Traces     []c06TraceOut `json:"traces"`
		Slows      []c06SlowOut  `json:"slows"`
	}
	out.Reservoirs = c06RunReservoirs(in.Reservoirs)
	for _, c := range in.Errors {
		out.Errors = append(out.Errors, c06RunErrors(c))
	}
	for _, c := range in.Traces {
		out.Traces = append(out.Traces, c06RunTraces(c))
	}
	for _, c := range in.Slows {
		out.Slows = append(out.Slows, c06RunSlows(c))
	}
	ob, err := json.Marshal(out)
	if err != nil {
		t.Fatal(err)
	}
	if err := ioutil.WriteFile(outPath, ob, 0644); err != nil {
		t.Fatal(err)
	}
}
