//go:build verif

package newrelic

// C13 harness.  Every case goes through the code's own path:
//   agent side : a flatbuffers App message carrying the token and the agent policy JSON -> UnmarshalAppInfo
//                -> AppInfo.ConnectPayload -> ConnectArgs assembled the way Processor.considerConnect does
//   direct     : the REAL ConnectApplication(args) with a recording collector.Client that plays the scripted
//                preconnect / connect outcomes; observed: the requests (command, target host, preconnect
//                token, connect payload security_policies parsed from the JSON actually sent), rep.Err,
//                rep.RawSecurityPolicies, rep.Reply
//   processor  : (cases with "proc":true) NewProcessor + Run + IncomingAppInfo with the same client; observed:
//                the requests, whether the application ends up connected, and the security policies of the
//                AppInfoReply handed back to the agent.

import (
	"encoding/json"
	"errors"
	"fmt"
	"io/ioutil"
	"os"
	"sync"
	"testing"
	"time"

	flatbuffers "github.com/google/flatbuffers/go"

	"github.com/newrelic/newrelic-php-agent/daemon/internal/newrelic/collector"
	"github.com/newrelic/newrelic-php-agent/daemon/internal/newrelic/log"
	"github.com/newrelic/newrelic-php-agent/daemon/internal/newrelic/protocol"
	"github.com/newrelic/newrelic-php-agent/daemon/internal/newrelic/utilization"
)

type c13AgentPol struct {
	Enabled   bool `json:"enabled"`
	Supported bool `json:"supported"`
}

type c13CollPol struct {
	Enabled  bool `json:"enabled"`
	Required bool `json:"required"`
}

type c13Case struct {
	Token string `json:"token"`
	// agent policy map; AgentRaw (if non-empty) is sent verbatim instead (malformed / null JSON)
	Agent    map[string]c13AgentPol `json:"agent"`
	AgentRaw string                 `json:"agent_raw"`
	// PayloadRaw.SecurityPolicies before the call (normally absent)
	P0 map[string]bool `json:"p0"`
	// preconnect: "reply" | "err" | "malformed"
	Pc     string                `json:"pc"`
	Host   string                `json:"host"`
	Coll   map[string]c13CollPol `json:"coll"`
	PcBody string                `json:"pc_body"` // verbatim body instead of the generated one
	// connect: "ok" | "err" | "bad"
	Cn   string `json:"cn"`
	Proc bool   `json:"proc"`
}

type c13Req struct {
	Cmd      string          `json:"cmd"`
	Host     string          `json:"host"`
	Token    string          `json:"token"`
	HasPol   bool            `json:"has_pol"`
	Policies map[string]bool `json:"policies"`
	Bad      string          `json:"bad,omitempty"`
}

type c13Obs struct {
	Reqs     []c13Req        `json:"reqs"`
	Err      bool            `json:"err"`
	ErrType  string          `json:"err_type"`
	HasRet   bool            `json:"has_ret"`
	Ret      map[string]bool `json:"ret"`
	RetBad   string          `json:"ret_bad,omitempty"`
	Reply    bool            `json:"reply"`
	AgentLen int             `json:"agent_len"` // size of the policy map after UnmarshalAppInfo
	// processor level
	Connected bool   `json:"connected"`
	State     string `json:"state"`
	Note      string `json:"note,omitempty"`
	// retries (applications that did not connect): every further attempt against the same collector answers must look
	// like the first one -- same requests, same state; the handshake is fail-closed on EVERY attempt
	Retries     int    `json:"retries"`
	RetrySame   bool   `json:"retry_same"`
	RetryDiffer string `json:"retry_differ,omitempty"`
}

func c13AppInfo(c *c13Case) *AppInfo {
	b := flatbuffers.NewBuilder(0)
	var pol []byte
	if c.AgentRaw != "" {
		pol = []byte(c.AgentRaw)
	} else if c.Agent != nil {
		pol, _ = json.Marshal(c.Agent)
	}
	lic := b.CreateString("0123456789012345678901234567890123456789")
	app := b.CreateString("verif-c13")
	lang := b.CreateString("php")
	ver := b.CreateString("1.2.3")
	host := b.CreateString("agenthost")
	redir := b.CreateString("collector.example")
	env := b.CreateString("[]")
	lab := b.CreateString("[]")
	meta := b.CreateString("{}")
	set := b.CreateString("{}")
	tok := b.CreateString(c.Token)
	var polOff flatbuffers.UOffsetT
	if pol != nil {
		polOff = b.CreateByteVector(pol)
	}
	protocol.AppStart(b)
	protocol.AppAddLicense(b, lic)
	protocol.AppAddAppName(b, app)
	protocol.AppAddAgentLanguage(b, lang)
	protocol.AppAddAgentVersion(b, ver)
	protocol.AppAddHost(b, host)
	protocol.AppAddRedirectCollector(b, redir)
	protocol.AppAddEnvironment(b, env)
	protocol.AppAddLabels(b, lab)
	protocol.AppAddMetadata(b, meta)
	protocol.AppAddSettings(b, set)
	protocol.AppAddSecurityPolicyToken(b, tok)
	if pol != nil {
		protocol.AppAddSupportedSecurityPolicies(b, polOff)
	}
	b.Finish(protocol.AppEnd(b))
	buf := b.FinishedBytes()
	tbl := flatbuffers.Table{Bytes: buf, Pos: flatbuffers.GetUOffsetT(buf)}
	return UnmarshalAppInfo(tbl)
}

func c13PreconnectBody(c *c13Case) []byte {
	if c.PcBody != "" {
		return []byte(c.PcBody)
	}
	m := map[string]interface{}{"redirect_host": c.Host}
	if c.Coll != nil {
		m["security_policies"] = c.Coll
	}
	js, _ := json.Marshal(m)
	return js
}

type c13Client struct {
	mu   sync.Mutex
	c    *c13Case
	reqs []c13Req
	done chan struct{} // closed after the last scripted answer (processor runs)
	once sync.Once
}

func (cl *c13Client) finish() {
	cl.once.Do(func() {
		if cl.done != nil {
			close(cl.done)
		}
	})
}

func (cl *c13Client) Execute(cmd *collector.RpmCmd, cs collector.RpmControls) collector.RPMResponse {
	data, err := cs.Collectible.CollectorJSON(false)
	r := c13Req{Cmd: cmd.Name, Host: cmd.Collector}
	if err != nil {
		r.Bad = "collectible: " + err.Error()
	} else {
		var arr []map[string]json.RawMessage
		if e := json.Unmarshal(data, &arr); e != nil || len(arr) != 1 {
			r.Bad = fmt.Sprintf("payload is not a one-element array of objects: %v", e)
		} else {
			if raw, ok := arr[0]["security_policies_token"]; ok {
				json.Unmarshal(raw, &r.Token)
			}
			if raw, ok := arr[0]["security_policies"]; ok {
				r.HasPol = true
				var pm map[string]struct {
					Enabled *bool `json:"enabled"`
				}
				if e := json.Unmarshal(raw, &pm); e != nil {
					r.Bad = "security_policies: " + e.Error()
				} else {
					r.Policies = map[string]bool{}
					for k, v := range pm {
						if v.Enabled == nil {
							r.Bad = "security_policies entry without enabled"
						} else {
							r.Policies[k] = *v.Enabled
						}
					}
				}
			}
		}
	}
	cl.mu.Lock()
	cl.reqs = append(cl.reqs, r)
	n := len(cl.reqs)
	cl.mu.Unlock()

	switch cmd.Name {
	case collector.CommandPreconnect:
		switch cl.c.Pc {
		case "err":
			cl.finish()
			return collector.RPMResponse{StatusCode: 503, Err: errors.New("scripted preconnect failure")}
		case "malformed":
			cl.finish()
			body := cl.c.PcBody
			if body == "" {
				body = `{"redirect_host":`
			}
			return collector.RPMResponse{StatusCode: 200, Body: []byte(body)}
		default:
			return collector.RPMResponse{StatusCode: 200, Body: c13PreconnectBody(cl.c)}
		}
	case collector.CommandConnect:
		cl.finish()
		switch cl.c.Cn {
		case "err":
			return collector.RPMResponse{StatusCode: 503, Err: errors.New("scripted connect failure")}
		case "bad":
			return collector.RPMResponse{StatusCode: 200, Body: []byte(`{"no_run_id":true}`)}
		default:
			return collector.RPMResponse{StatusCode: 200, Body: []byte(fmt.Sprintf(`{"agent_run_id":"run%d"}`, n))}
		}
	}
	// any other command (harvest of a connected application): accept
	return collector.RPMResponse{StatusCode: 200, Body: []byte(`{}`)}
}

func c13ParseRet(raw []byte, o *c13Obs) {
	if raw == nil {
		return
	}
	o.HasRet = true
	var m map[string]*bool
	if e := json.Unmarshal(raw, &m); e != nil {
		o.RetBad = e.Error()
		return
	}
	o.Ret = map[string]bool{}
	for k, v := range m {
		if v == nil {
			o.RetBad = "null flag"
		} else {
			o.Ret[k] = *v
		}
	}
}

func c13Direct(c *c13Case, util *utilization.Data) c13Obs {
	info := c13AppInfo(c)
	cl := &c13Client{c: c}
	raw := info.ConnectPayload(util)
	if c.P0 != nil {
		raw.SecurityPolicies = map[string]SecurityPolicy{}
		for k, v := range c.P0 {
			raw.SecurityPolicies[k] = SecurityPolicy{Enabled: v}
		}
	}
	// the fields Processor.considerConnect copies
	args := &ConnectArgs{
		RedirectCollector:            info.RedirectCollector,
		PayloadRaw:                   raw,
		License:                      info.License,
		SecurityPolicyToken:          info.SecurityPolicyToken,
		HighSecurity:                 info.HighSecurity,
		Client:                       cl,
		AppKey:                       info.Key(),
		AgentLanguage:                info.AgentLanguage,
		AgentVersion:                 info.AgentVersion,
		AgentEventLimits:             info.AgentEventLimits,
		AppSupportedSecurityPolicies: info.SupportedSecurityPolicies,
	}
	rep := ConnectApplication(args)
	o := c13Obs{Reqs: cl.reqs, Err: rep.Err != nil, Reply: rep.Reply != nil,
		AgentLen: len(info.SupportedSecurityPolicies.Policies)}
	if rep.Err != nil {
		o.ErrType = fmt.Sprintf("%T", rep.Err)
	}
	c13ParseRet(rep.RawSecurityPolicies, &o)
	if o.Reqs == nil {
		o.Reqs = []c13Req{}
	}
	return o
}

func c13Wait(ch chan struct{}, what string, o *c13Obs) bool {
	select {
	case <-ch:
		return true
	case <-time.After(10 * time.Second):
		o.Note += "timeout waiting for " + what + "; "
		return false
	}
}

func c13Proc(c *c13Case) c13Obs {
	o := c13Obs{}
	info := c13AppInfo(c)
	o.AgentLen = len(info.SupportedSecurityPolicies.Policies)
	cl := &c13Client{c: c, done: make(chan struct{})}
	p := NewProcessor(ProcessorConfig{Client: cl})
	p.trackProgress = make(chan struct{})
	go p.Run()
	defer func() {
		// the processor may be parked on trackProgress (time-out paths): keep draining while it quits
		go func() {
			for range p.trackProgress {
			}
		}()
		select {
		case p.quitChan <- struct{}{}:
		case <-time.After(5 * time.Second):
		}
	}()
	if !c13Wait(p.trackProgress, "utilization", &o) {
		return o
	}
	p.IncomingAppInfo(nil, info)
	if !c13Wait(p.trackProgress, "app info", &o) {
		return o
	}
	if !c13Wait(p.trackProgress, "connect attempt", &o) {
		return o
	}
	rep := p.IncomingAppInfo(nil, info)
	c13Wait(p.trackProgress, "second app info", &o)
	cl.mu.Lock()
	o.Reqs = append([]c13Req{}, cl.reqs...)
	cl.mu.Unlock()
	o.Connected = rep.State == AppStateConnected
	o.State = fmt.Sprintf("%d", rep.State)
	o.Err = !o.Connected
	o.Reply = rep.ConnectReply != nil && o.Connected
	c13ParseRet(rep.SecurityPolicies, &o)
	o.RetrySame = true
	if !o.Connected && rep.State == AppStateUnknown {
		kinds := func(rs []c13Req) string {
			out := ""
			for _, r := range rs {
				out += r.Cmd + ","
			}
			return out
		}
		first := kinds(o.Reqs)
		p.appConnectBackoff = 0 // (the processor is idle in its select)
		for k := 0; k < 3; k++ {
			cl.mu.Lock()
			n0 := len(cl.reqs)
			cl.mu.Unlock()
			p.IncomingAppInfo(nil, info)
			if !c13Wait(p.trackProgress, "retry app info", &o) {
				break
			}
			select {
			case <-p.trackProgress: // the retried attempt has been handled
			case <-time.After(500 * time.Millisecond):
			}
			cl.mu.Lock()
			round := kinds(cl.reqs[n0:])
			cl.mu.Unlock()
			o.Retries++
			if round != first && o.RetrySame {
				o.RetrySame = false
				o.RetryDiffer = fmt.Sprintf("attempt %d made the requests [%s], the first attempt [%s]", k+2, round, first)
			}
		}
		p.appConnectBackoff = time.Hour
		last := p.IncomingAppInfo(nil, info)
		c13Wait(p.trackProgress, "last app info", &o)
		if last.State != rep.State && o.RetrySame {
			o.RetrySame = false
			o.RetryDiffer = fmt.Sprintf("state %d after the retries, %d after the first attempt", last.State, rep.State)
		}
	}
	return o
}

func TestVerifC13(t *testing.T) {
	inp, outp := os.Getenv("VERIF_IN"), os.Getenv("VERIF_OUT")
	if inp == "" || outp == "" {
		t.Skip("VERIF_IN / VERIF_OUT not set")
	}
	log.Init(log.LogError, "/dev/null")
	raw, err := ioutil.ReadFile(inp)
	if err != nil {
		t.Fatal(err)
	}
	var in struct {
		Cases []c13Case `json:"cases"`
	}
	if err := json.Unmarshal(raw, &in); err != nil {
		t.Fatal(err)
	}
	util := utilization.Gather(utilization.Config{})
	out := make([]c13Obs, len(in.Cases))
	for i := range in.Cases {
		c := &in.Cases[i]
		if c.Proc {
			out[i] = c13Proc(c)
		} else {
			out[i] = c13Direct(c, util)
		}
	}
	js, err := json.Marshal(map[string]interface{}{"obs": out})
	if err != nil {
		t.Fatal(err)
	}
	if err := ioutil.WriteFile(outp, js, 0644); err != nil {
		t.Fatal(err)
	}
}
