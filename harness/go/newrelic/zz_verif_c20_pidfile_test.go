//go:build verif && linux && amd64

package newrelic

// C20 harness, pid-file half.
//
// The REAL daemon binary (built from the current tree, path in the input file) is started N times
// against one pid file, every process under ptrace.  Each system call that touches the pid file
// (openat / fcntl F_SETLK / newfstatat / ftruncate / write / unlinkat / close on that path or on a
// descriptor opened from it) is a GATE: the calling thread is held in its syscall-entry stop until
// the script releases it.  A script therefore fixes the interleaving of the pid-file system calls of
// the racing daemons exactly (everything else runs freely), SIGKILL can be delivered between any
// two of them and SIGTERM to a daemon that is up.  After every released call the harness records
// the call's result class and a snapshot of the kernel's view: which inode the path names, every
// POSIX lock held by one of the daemons (/proc/locks, cross-checked by an F_GETLK probe) and the
// pid written in the file.  The Python driver prints these histories as Coq terms.
//
// Nothing is signalled except pids this test created (always > 1); every tracee is started with
// PTRACE_O_EXITKILL and is killed and reaped at the end of its scenario.

import (
	"bytes"
	"encoding/binary"
	"encoding/json"
	"fmt"
	"io/ioutil"
	"os"
	"path/filepath"
	"runtime"
	"sort"
	"strconv"
	"strings"
	"syscall"
	"testing"
	"time"
	"unsafe"

	"github.com/newrelic/newrelic-php-agent/daemon/internal/newrelic/limits"
)

const (
	c20PtraceGetSyscallInfo = 0x420e
	c20PtraceOExitKill      = 0x100000
	c20SysRead              = 0
	c20SysWrite             = 1
	c20SysClose             = 3
	c20SysStat              = 4
	c20SysFstat             = 5
	c20SysListen            = 50
	c20SysFcntl             = 72
	c20SysFtruncate         = 77
	c20SysUnlink            = 87
	c20SysOpen              = 2
	c20SysOpenat            = 257
	c20SysNewfstatat        = 262
	c20SysUnlinkat          = 263
	c20FSetlk               = 6
	c20FSetlkw              = 7
)

const (
	c20Running = iota
	c20Parked
	c20Up
	c20Dead
	c20Unstarted
)

type c20Scenario struct {
	N      int             `json:"n"`
	Script [][]interface{} `json:"script"`
}

type c20Snap struct {
	Path    int      `json:"path"`    // inode id the path names, 0 = no such file
	Locks   [][3]int `json:"locks"`   // (inode id, process index, 1 = write lock / 0 = read lock)
	Content int      `json:"content"` // process index whose pid is in the file; -1 empty; -2 no file; -3 other text
	Getlk   int      `json:"getlk"`   // process index F_GETLK reports as conflicting with a write lock; -1 none; -2 no file
}

type c20Event struct {
	K    string   `json:"k"` // start | sys | up | term | kill | exit
	P    int      `json:"p"`
	Sys  string   `json:"sys,omitempty"` // open lock stat trunc write unlink close
	Res  string   `json:"res,omitempty"`
	Ino  int      `json:"ino,omitempty"`  // inode id of the descriptor the call works on / returns
	Code int      `json:"code"`           // exit status, or 128+signal
	Snap *c20Snap `json:"snap,omitempty"`
}

type c20Obs struct {
	Events  []c20Event `json:"events"`
	Skipped int        `json:"skipped"`
	Settled bool       `json:"settled"` // at the end every process was unstarted, up or gone
	Error   string     `json:"error"`
	Pids    []int      `json:"pids"`
}

type c20Thread struct {
	tid    int
	proc   *c20Proc
	fresh  bool
	listen bool // inside listen(2)
}

type c20Proc struct {
	idx      int
	pid      int
	state    int
	parkTid  int
	parkKind string
	parkArgs [6]uint64
	fd       int // descriptor opened from the pid file path, -1 none
	fdIno    uint64
	fdID     int
	termed   bool
	code     int
}

type c20Run struct {
	t       *testing.T
	daemon  string
	dir     string
	path    string
	token   string
	procs   []*c20Proc
	threads map[int]*c20Thread
	byPid   map[int]*c20Proc
	inoID   map[uint64]int
	nextID  int
	obs     *c20Obs
	// result of the gate being released
	relTid  int
	relDone bool
	relRval int64
}

func c20Ptrace(req int, pid int, addr uintptr, data uintptr) error {
	_, _, e := syscall.Syscall6(syscall.SYS_PTRACE, uintptr(req), uintptr(pid), addr, data, 0, 0)
	if e != 0 {
		return e
	}
	return nil
}

type c20SysInfo struct {
	op   uint8
	nr   uint64
	args [6]uint64
	rval int64
}

func c20GetSyscallInfo(tid int) (c20SysInfo, error) {
	var buf [96]byte
	r, _, e := syscall.Syscall6(syscall.SYS_PTRACE, c20PtraceGetSyscallInfo, uintptr(tid), uintptr(len(buf)), uintptr(unsafe.Pointer(&buf[0])), 0, 0)
	var si c20SysInfo
	if e != 0 {
		return si, e
	}
	_ = r
	si.op = buf[0]
	// layout: u8 op; u8 pad[3]; u32 arch; u64 ip; u64 sp; then union at offset 24
	switch si.op {
	case 1:
		si.nr = binary.LittleEndian.Uint64(buf[24:])
		for i := 0; i < 6; i++ {
			si.args[i] = binary.LittleEndian.Uint64(buf[32+8*i:])
		}
	case 2:
		si.rval = int64(binary.LittleEndian.Uint64(buf[24:]))
	}
	return si, nil
}

func c20PeekString(tid int, addr uint64) string {
	buf := make([]byte, 512)
	n, err := syscall.PtracePeekData(tid, uintptr(addr), buf)
	if err != nil && n <= 0 {
		// try a shorter read (end of mapping)
		buf = make([]byte, 64)
		n, _ = syscall.PtracePeekData(tid, uintptr(addr), buf)
	}
	if n <= 0 {
		return ""
	}
	if i := bytes.IndexByte(buf[:n], 0); i >= 0 {
		return string(buf[:i])
	}
	return string(buf[:n])
}

func c20Tgid(tid int) int {
	b, err := ioutil.ReadFile(fmt.Sprintf("/proc/%d/status", tid))
	if err != nil {
		return -1
	}
	for _, ln := range strings.Split(string(b), "\n") {
		if strings.HasPrefix(ln, "Tgid:") {
			v, _ := strconv.Atoi(strings.TrimSpace(ln[5:]))
			return v
		}
	}
	return -1
}

// gate decides whether the system call a thread is entering is one of the pid-file calls.
func (r *c20Run) gate(p *c20Proc, tid int, si c20SysInfo) string {
	switch si.nr {
	case c20SysOpenat:
		if c20PeekString(tid, si.args[1]) == r.path {
			return "open"
		}
	case c20SysOpen:
		if c20PeekString(tid, si.args[0]) == r.path {
			return "open"
		}
	case c20SysFcntl:
		if p.fd >= 0 && int(si.args[0]) == p.fd && (si.args[1] == c20FSetlk || si.args[1] == c20FSetlkw) {
			return "lock"
		}
	case c20SysNewfstatat:
		if c20PeekString(tid, si.args[1]) == r.path {
			return "stat"
		}
	case c20SysStat:
		if c20PeekString(tid, si.args[0]) == r.path {
			return "stat"
		}
	case c20SysFtruncate:
		if p.fd >= 0 && int(si.args[0]) == p.fd {
			return "trunc"
		}
	case c20SysWrite:
		if p.fd >= 0 && int(si.args[0]) == p.fd {
			return "write"
		}
	case c20SysUnlinkat:
		if si.args[2] == 0 && c20PeekString(tid, si.args[1]) == r.path {
			return "unlink"
		}
	case c20SysUnlink:
		if c20PeekString(tid, si.args[0]) == r.path {
			return "unlink"
		}
	case c20SysClose:
		if p.fd >= 0 && int(si.args[0]) == p.fd {
			return "close"
		}
	}
	return ""
}

func (r *c20Run) resume(tid int, sig int) {
	_ = syscall.PtraceSyscall(tid, sig)
}

// handle processes one wait4 report.
func (r *c20Run) handle(tid int, ws syscall.WaitStatus) {
	th := r.threads[tid]
	if th == nil {
		if ws.Exited() || ws.Signaled() {
			return
		}
		tg := c20Tgid(tid)
		p := r.byPid[tg]
		if p == nil {
			// not ours (cannot happen: only tracees report here); let it go
			if ws.Stopped() {
				_ = syscall.PtraceDetach(tid)
			}
			return
		}
		th = &c20Thread{tid: tid, proc: p, fresh: true}
		r.threads[tid] = th
	}
	p := th.proc
	switch {
	case ws.Exited() || ws.Signaled():
		delete(r.threads, tid)
		if tid == p.pid {
			p.state = c20Dead
			if ws.Exited() {
				p.code = ws.ExitStatus()
			} else {
				p.code = 128 + int(ws.Signal())
			}
			if r.relTid != 0 && r.threads[r.relTid] == nil {
				r.relDone = true
			}
		} else if tid == r.relTid {
			r.relDone = true
		}
		return
	case ws.Stopped():
		sig := ws.StopSignal()
		if sig == syscall.SIGTRAP|0x80 {
			si, err := c20GetSyscallInfo(tid)
			if err != nil {
				r.resume(tid, 0)
				return
			}
			if si.op == 1 {
				if p.state != c20Dead {
					if kind := r.gate(p, tid, si); kind != "" {
						p.state = c20Parked
						p.parkTid = tid
						p.parkKind = kind
						p.parkArgs = si.args
						return // held in syscall-entry stop
					}
				}
				th.listen = si.nr == c20SysListen
				r.resume(tid, 0)
				return
			}
			if si.op == 2 {
				if tid == r.relTid && !r.relDone {
					r.relDone = true
					r.relRval = si.rval
					return // the releaser resumes it after post-processing
				}
				if th.listen {
					th.listen = false
					if si.rval == 0 && p.state == c20Running {
						p.state = c20Up
					}
				}
				r.resume(tid, 0)
				return
			}
			r.resume(tid, 0)
			return
		}
		if ws.TrapCause() > 0 || (int(ws)>>16) != 0 {
			// PTRACE_EVENT_* stop
			r.resume(tid, 0)
			return
		}
		if th.fresh && (sig == syscall.SIGSTOP) {
			th.fresh = false
			r.resume(tid, 0)
			return
		}
		th.fresh = false
		if sig == syscall.SIGTRAP {
			r.resume(tid, 0)
			return
		}
		r.resume(tid, int(sig)) // signal-delivery stop: deliver it
		return
	}
}

// pump handles tracee reports until cond holds.
func (r *c20Run) pump(cond func() bool, timeout time.Duration) bool {
	deadline := time.Now().Add(timeout)
	idle := 0
	for !cond() {
		var ws syscall.WaitStatus
		tid, err := syscall.Wait4(-1, &ws, syscall.WALL|syscall.WNOHANG, nil)
		if err == syscall.EINTR {
			continue
		}
		if err == syscall.ECHILD {
			return cond()
		}
		if tid <= 0 {
			idle++
			if time.Now().After(deadline) {
				return false
			}
			if idle > 50 {
				time.Sleep(100 * time.Microsecond)
			} else {
				runtime.Gosched()
			}
			continue
		}
		idle = 0
		r.handle(tid, ws)
	}
	return true
}

func (r *c20Run) settled(p *c20Proc) bool {
	return p.state == c20Parked || p.state == c20Up || p.state == c20Dead || p.state == c20Unstarted
}

func (r *c20Run) settleAll() bool {
	return r.pump(func() bool {
		for _, p := range r.procs {
			if !r.settled(p) {
				return false
			}
		}
		return true
	}, 20*time.Second)
}

func (r *c20Run) idOfIno(ino uint64) int {
	if id, ok := r.inoID[ino]; ok {
		return id
	}
	return -1
}

func (r *c20Run) snapshot() *c20Snap {
	s := &c20Snap{Path: 0, Content: -2, Getlk: -2, Locks: [][3]int{}}
	var st syscall.Stat_t
	if err := syscall.Stat(r.path, &st); err == nil {
		s.Path = r.idOfIno(st.Ino)
		b, _ := ioutil.ReadFile(r.path)
		txt := strings.TrimSpace(string(b))
		switch {
		case len(b) == 0:
			s.Content = -1
		default:
			s.Content = -3
			if v, err := strconv.Atoi(txt); err == nil && strings.HasSuffix(string(b), "\n") {
				if p := r.byPid[v]; p != nil {
					s.Content = p.idx
				}
			}
		}
		// F_GETLK probe through a descriptor of our own (closing it releases only our own locks: none)
		if f, err := os.Open(r.path); err == nil {
			lk := syscall.Flock_t{Type: syscall.F_WRLCK, Whence: 0}
			s.Getlk = -1
			if err := syscall.FcntlFlock(f.Fd(), syscall.F_GETLK, &lk); err == nil && lk.Type != syscall.F_UNLCK {
				s.Getlk = -3
				if p := r.byPid[int(lk.Pid)]; p != nil {
					s.Getlk = p.idx
				}
			}
			f.Close()
		}
	}
	// one read(2) of /proc/locks (a seq_file: several reads are not one consistent view)
	var b []byte
	if lf, err := os.Open("/proc/locks"); err == nil {
		buf := make([]byte, 1<<20)
		n, _ := syscall.Read(int(lf.Fd()), buf)
		if n > 0 {
			b = buf[:n]
		}
		lf.Close()
	}
	seen := map[[3]int]bool{}
	for _, ln := range strings.Split(string(b), "\n") {
		f := strings.Fields(ln)
		// "1: POSIX  ADVISORY  WRITE 2418 fd:00:1234 0 EOF"   (blocked waiters: "1: -> POSIX ...")
		if len(f) < 8 || f[1] != "POSIX" {
			continue
		}
		pid, _ := strconv.Atoi(f[4])
		p := r.byPid[pid]
		if p == nil {
			continue
		}
		parts := strings.Split(f[5], ":")
		ino, _ := strconv.ParseUint(parts[len(parts)-1], 10, 64)
		w := 0
		if f[3] == "WRITE" {
			w = 1
		}
		ent := [3]int{r.idOfIno(ino), p.idx, w}
		if !seen[ent] { // the lock table is a set
			seen[ent] = true
			s.Locks = append(s.Locks, ent)
		}
	}
	// /proc/locks walks per-CPU lists: the order carries no information
	sort.Slice(s.Locks, func(a, b int) bool {
		x, y := s.Locks[a], s.Locks[b]
		if x[0] != y[0] {
			return x[0] < y[0]
		}
		if x[1] != y[1] {
			return x[1] < y[1]
		}
		return x[2] < y[2]
	})
	return s
}

func (r *c20Run) ev(e c20Event) {
	r.obs.Events = append(r.obs.Events, e)
}

func (r *c20Run) start(p *c20Proc) error {
	logf := filepath.Join(r.dir, fmt.Sprintf("d%d.log", p.idx))
	outf, _ := os.OpenFile(filepath.Join(r.dir, fmt.Sprintf("d%d.out", p.idx)), os.O_CREATE|os.O_WRONLY|os.O_TRUNC, 0644)
	devnull, _ := os.Open(os.DevNull)
	defer devnull.Close()
	defer outf.Close()
	env := []string{}
	for _, e := range os.Environ() {
		if strings.HasPrefix(e, "NEW_RELIC_DAEMON_ROLE=") || strings.HasPrefix(e, "VERIF_") {
			continue
		}
		env = append(env, e)
	}
	args := []string{r.daemon, "--foreground", "--pidfile", r.path,
		"--address", fmt.Sprintf("@verif%s-%d", r.token, p.idx), "--loglevel", "debug", "--logfile", logf}
	proc, err := os.StartProcess(r.daemon, args, &os.ProcAttr{
		Dir: r.dir, Env: env, Files: []*os.File{devnull, outf, outf},
		Sys: &syscall.SysProcAttr{Ptrace: true},
	})
	if err != nil {
		return err
	}
	pid := proc.Pid
	if pid <= 1 {
		return fmt.Errorf("bad pid %d", pid)
	}
	var ws syscall.WaitStatus
	if _, err := syscall.Wait4(pid, &ws, syscall.WALL, nil); err != nil {
		return err
	}
	if !ws.Stopped() {
		return fmt.Errorf("tracee %d did not stop after exec: %v", pid, ws)
	}
	if err := syscall.PtraceSetOptions(pid, syscall.PTRACE_O_TRACESYSGOOD|syscall.PTRACE_O_TRACECLONE|c20PtraceOExitKill); err != nil {
		return err
	}
	p.pid = pid
	p.state = c20Running
	p.fd = -1
	r.byPid[pid] = p
	r.threads[pid] = &c20Thread{tid: pid, proc: p}
	r.obs.Pids[p.idx] = pid
	r.resume(pid, 0)
	r.ev(c20Event{K: "start", P: p.idx})
	return nil
}

func c20Errno(rval int64) syscall.Errno {
	if rval < 0 && rval > -4096 {
		return syscall.Errno(-rval)
	}
	return 0
}

// release lets the parked pid-file call of p execute and records its outcome.
func (r *c20Run) release(p *c20Proc) error {
	kind, tid, args := p.parkKind, p.parkTid, p.parkArgs
	existed := false
	var st syscall.Stat_t
	if kind == "open" {
		existed = syscall.Stat(r.path, &st) == nil
	}
	ltype := int16(-1)
	if kind == "lock" {
		b := make([]byte, 2)
		if n, _ := syscall.PtracePeekData(tid, uintptr(args[2]), b); n == 2 {
			ltype = int16(binary.LittleEndian.Uint16(b))
		}
	}
	p.state = c20Running
	p.parkKind = ""
	if kind == "close" {
		// from here on the descriptor number may be reused by another thread of the tracee
		p.fd = -1
	}
	r.relTid, r.relDone, r.relRval = tid, false, 0
	r.resume(tid, 0)
	ok := r.pump(func() bool { return r.relDone }, 20*time.Second)
	r.relTid = 0
	if !ok {
		return fmt.Errorf("released %s of process %d never returned", kind, p.idx)
	}
	if p.state == c20Dead || r.threads[tid] == nil {
		return fmt.Errorf("process %d died inside %s", p.idx, kind)
	}
	rval := r.relRval
	en := c20Errno(rval)
	e := c20Event{K: "sys", P: p.idx, Sys: kind, Ino: p.fdID}
	switch kind {
	case "open":
		if en != 0 {
			e.Res = "err:" + en.Error()
			break
		}
		p.fd = int(rval)
		var fst syscall.Stat_t
		if err := syscall.Stat(fmt.Sprintf("/proc/%d/fd/%d", p.pid, p.fd), &fst); err != nil {
			return fmt.Errorf("cannot stat the new descriptor of process %d: %v", p.idx, err)
		}
		p.fdIno = fst.Ino
		if existed {
			e.Res = "old"
			if st.Ino != fst.Ino {
				return fmt.Errorf("open of an existing path returned another inode")
			}
		} else {
			e.Res = "new"
			r.nextID++
			r.inoID[fst.Ino] = r.nextID
		}
		p.fdID = r.idOfIno(fst.Ino)
		e.Ino = p.fdID
	case "lock":
		switch {
		case en == 0:
			e.Res = "ok"
		case en == syscall.EAGAIN || en == syscall.EACCES:
			e.Res = "busy"
		default:
			e.Res = "err:" + en.Error()
		}
		if ltype == syscall.F_RDLCK {
			e.Res += ":R"
		} else if ltype != syscall.F_WRLCK {
			e.Res += fmt.Sprintf(":type%d", ltype)
		}
	case "stat":
		switch {
		case en == syscall.ENOENT:
			e.Res = "gone"
		case en != 0:
			e.Res = "err:" + en.Error()
		default:
			b := make([]byte, 16)
			addr := args[2]
			if n, _ := syscall.PtracePeekData(tid, uintptr(addr), b); n == 16 {
				ino := binary.LittleEndian.Uint64(b[8:])
				if ino == p.fdIno {
					e.Res = "same"
				} else {
					e.Res = "changed"
				}
			} else {
				e.Res = "err:peek"
			}
		}
	case "trunc", "write":
		if en != 0 || rval < 0 {
			e.Res = "err:" + en.Error()
		} else {
			e.Res = "ok"
		}
	case "unlink":
		switch {
		case en == 0:
			e.Res = "ok"
		case en == syscall.ENOENT:
			e.Res = "gone"
		default:
			e.Res = "err:" + en.Error()
		}
	case "close":
		if en != 0 {
			e.Res = "err:" + en.Error()
		} else {
			e.Res = "ok"
		}
		p.fd = -1
	}
	e.Snap = r.snapshot()
	r.ev(e)
	r.resume(tid, 0)
	return nil
}

func (r *c20Run) noteSettle(p *c20Proc, wasUp bool, wasDead bool) {
	if p.state == c20Up && !wasUp {
		r.ev(c20Event{K: "up", P: p.idx})
	}
	if p.state == c20Dead && !wasDead {
		r.ev(c20Event{K: "exit", P: p.idx, Code: p.code, Snap: r.snapshot()})
	}
}

// one script action; returns false when it was not enabled (skipped).
func (r *c20Run) action(kind string, p *c20Proc) (bool, error) {
	switch kind {
	case "start":
		if p.state != c20Unstarted {
			return false, nil
		}
		if err := r.start(p); err != nil {
			return true, err
		}
	case "act":
		if p.state != c20Parked {
			return false, nil
		}
		if err := r.release(p); err != nil {
			return true, err
		}
	case "term":
		if p.state != c20Up || p.termed || p.pid <= 1 {
			return false, nil
		}
		p.termed = true
		p.state = c20Running
		r.ev(c20Event{K: "term", P: p.idx})
		_ = syscall.Kill(p.pid, syscall.SIGTERM)
	case "kill":
		if p.state == c20Unstarted || p.state == c20Dead || p.pid <= 1 {
			return false, nil
		}
		_ = syscall.Kill(p.pid, syscall.SIGKILL)
		if !r.pump(func() bool { return p.state == c20Dead }, 20*time.Second) {
			return true, fmt.Errorf("process %d survived SIGKILL", p.idx)
		}
		r.ev(c20Event{K: "kill", P: p.idx, Code: p.code, Snap: r.snapshot()})
		return true, nil
	default:
		return false, fmt.Errorf("unknown action %q", kind)
	}
	wasUp, wasDead := p.state == c20Up, p.state == c20Dead
	if !r.settleAll() {
		return true, fmt.Errorf("processes did not settle after %s %d (states: %s)", kind, p.idx, r.states())
	}
	r.noteSettle(p, wasUp, wasDead)
	return true, nil
}

func (r *c20Run) states() string {
	s := ""
	for _, p := range r.procs {
		s += fmt.Sprintf("%d:%d/%s ", p.idx, p.state, p.parkKind)
	}
	return s
}

// enabled actions in a canonical order, for the "any" script entries.
func (r *c20Run) enabled() [][2]interface{} {
	var acts [][2]interface{}
	firstUnstarted := true
	for _, p := range r.procs {
		switch p.state {
		case c20Unstarted:
			if firstUnstarted {
				acts = append(acts, [2]interface{}{"start", p}, [2]interface{}{"start", p})
				firstUnstarted = false
			}
		case c20Parked:
			// protocol steps are the most frequent choice
			for k := 0; k < 6; k++ {
				acts = append(acts, [2]interface{}{"act", p})
			}
			acts = append(acts, [2]interface{}{"kill", p})
		case c20Up:
			if !p.termed {
				acts = append(acts, [2]interface{}{"term", p}, [2]interface{}{"term", p}, [2]interface{}{"kill", p})
			}
		}
	}
	return acts
}

func (r *c20Run) runScript(sc c20Scenario) error {
	for _, st := range sc.Script {
		if len(st) == 0 {
			continue
		}
		kind, _ := st[0].(string)
		arg := 0
		if len(st) > 1 {
			if f, ok := st[1].(float64); ok {
				arg = int(f)
			}
		}
		switch kind {
		case "any":
			acts := r.enabled()
			if len(acts) == 0 {
				r.obs.Skipped++
				continue
			}
			a := acts[arg%len(acts)]
			if _, err := r.action(a[0].(string), a[1].(*c20Proc)); err != nil {
				return err
			}
		case "run":
			// let process arg take its pid-file steps alone until it is up or gone
			if arg < 0 || arg >= len(r.procs) {
				r.obs.Skipped++
				continue
			}
			p := r.procs[arg]
			if p.state == c20Unstarted {
				if _, err := r.action("start", p); err != nil {
					return err
				}
			}
			for k := 0; k < 200 && p.state == c20Parked; k++ {
				if _, err := r.action("act", p); err != nil {
					return err
				}
			}
		case "drain":
			// run every process that is still inside the protocol to the end, lowest index first
			for k := 0; k < 2000; k++ {
				var q *c20Proc
				for _, p := range r.procs {
					if p.state == c20Parked {
						q = p
						break
					}
				}
				if q == nil {
					break
				}
				if _, err := r.action("act", q); err != nil {
					return err
				}
			}
		default:
			if arg < 0 || arg >= len(r.procs) {
				r.obs.Skipped++
				continue
			}
			did, err := r.action(kind, r.procs[arg])
			if err != nil {
				return err
			}
			if !did {
				r.obs.Skipped++
			}
		}
	}
	return nil
}

func (r *c20Run) cleanup() {
	for _, p := range r.procs {
		if p.state != c20Unstarted && p.state != c20Dead && p.pid > 1 {
			_ = syscall.Kill(p.pid, syscall.SIGKILL)
		}
	}
	r.pump(func() bool {
		for _, p := range r.procs {
			if p.state != c20Unstarted && p.state != c20Dead {
				return false
			}
		}
		return true
	}, 10*time.Second)
	// reap whatever is left
	for {
		var ws syscall.WaitStatus
		tid, err := syscall.Wait4(-1, &ws, syscall.WALL|syscall.WNOHANG, nil)
		if err != nil || tid <= 0 {
			break
		}
	}
}

func c20RunScenario(t *testing.T, daemon, tmp, token string, i int, sc c20Scenario) *c20Obs {
	dir := filepath.Join(tmp, fmt.Sprintf("s%d", i))
	os.RemoveAll(dir)
	os.MkdirAll(dir, 0755)
	r := &c20Run{t: t, daemon: daemon, dir: dir, path: filepath.Join(dir, "daemon.pid"), token: fmt.Sprintf("%s-%d", token, i),
		threads: map[int]*c20Thread{}, byPid: map[int]*c20Proc{}, inoID: map[uint64]int{},
		obs: &c20Obs{Events: []c20Event{}, Pids: make([]int, sc.N)}}
	for k := 0; k < sc.N; k++ {
		r.procs = append(r.procs, &c20Proc{idx: k, state: c20Unstarted, fd: -1})
	}
	defer r.cleanup()
	if err := r.runScript(sc); err != nil {
		r.obs.Error = err.Error()
	} else {
		r.obs.Settled = true
		for _, p := range r.procs {
			if p.state != c20Unstarted && p.state != c20Up && p.state != c20Dead {
				r.obs.Settled = false
			}
			if p.state == c20Up && p.termed {
				r.obs.Settled = false
			}
		}
	}
	if os.Getenv("VERIF_C20_KEEP") == "" {
		defer os.RemoveAll(dir)
	}
	return r.obs
}

func TestVerifC20Pidfile(t *testing.T) {
	inPath, outPath := os.Getenv("VERIF_IN"), os.Getenv("VERIF_OUT")
	if inPath == "" {
		t.Skip("harness only")
	}
	var in struct {
		Daemon    string        `json:"daemon"`
		Tmp       string        `json:"tmp"`
		Token     string        `json:"token"`
		Scenarios []c20Scenario `json:"scenarios"`
	}
	raw, err := ioutil.ReadFile(inPath)
	if err != nil {
		t.Fatal(err)
	}
	if err := json.Unmarshal(raw, &in); err != nil {
		t.Fatal(err)
	}
	// all ptrace requests must come from the thread that started the tracees
	runtime.LockOSThread()
	defer runtime.UnlockOSThread()
	var obs []*c20Obs
	for i, sc := range in.Scenarios {
		obs = append(obs, c20RunScenario(t, in.Daemon, in.Tmp, in.Token, i, sc))
	}
	out := map[string]interface{}{"max_retries": limits.MaxPidfileRetries, "scenarios": obs}
	ob, _ := json.Marshal(out)
	if err := ioutil.WriteFile(outPath, ob, 0644); err != nil {
		t.Fatal(err)
	}
}
