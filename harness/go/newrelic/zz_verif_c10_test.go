//go:build verif

// C10 correspondence harness (package newrelic, injected by overlay; nothing in the repository is edited).
//
// Hostile messages go through the REAL path: framed onto a net.Pipe that is served by listener.go's own serve()
// (ReadMessage, its recover, its reply writer, its Close) with CommandsHandler{Processor: h} behind it, where h
// forwards to a live Processor (p.Run() with a mock collector client).  p.Run() runs on a goroutine with a
// recover that stands for cmd/daemon/worker.go crashGuard -- a panic that reaches it is an ESCAPED panic (the
// worker would exit 3).  (If serve() lost its recover, the panic would kill this test binary: reported too.)
//
// mode "bases":  the well-formed App / Transaction / SpanBatch messages (built with the repository's own
//                protocol builders) that harness/py/props/c10.py mutates.
// mode "run":    batches of mutants.  Per batch one processor with two connected applications: A (run id rA,
//                the target) and B (run id rB, the bystander).  Per mutant: outcome class on the connection
//                goroutine, which Incoming* call was made and with what, whether the processor crashed, what
//                changed in A's harvest, whether anything changed in B's harvest, and liveness: a well-formed
//                AppInfo query and a well-formed transaction whose event must be in A's harvest; at the end of
//                the batch a real (blocking) harvest of A and B through the mock collector.
// mode "values": well-formed App messages with hostile numbers, each on a fresh processor and connected.
package newrelic

import (
	"io/ioutil"
	"encoding/hex"
	"encoding/json"
	"fmt"
	"net"
	"os"
	"runtime/debug"
	"sort"
	"strings"
	"sync"
	"testing"
	"time"

	flatbuffers "github.com/google/flatbuffers/go"

	"github.com/newrelic/newrelic-php-agent/daemon/internal/newrelic/collector"
	"github.com/newrelic/newrelic-php-agent/daemon/internal/newrelic/log"
	"github.com/newrelic/newrelic-php-agent/daemon/internal/newrelic/protocol"
)

// ------------------------------------------------------------------ mock collector

type c10Client struct {
	mu       sync.Mutex
	payloads map[string][]string // run id -> command:payload
	connects map[string]string   // license -> connect payload
	pre      map[string]bool     // license -> preconnect seen
	block    chan struct{}
}

const (
	c10LicA = "licA0123456789abcdef0123456789abcdef0123"
	c10LicB = "licB0123456789abcdef0123456789abcdef0123"
	c10LicH = "licH0123456789abcdef0123456789abcdef0123"
)

// the run id the mock collector hands out: only for the exact licenses of the harness' own applications
func c10RunOfLicense(lic string) string {
	switch lic {
	case c10LicA:
		return "rA"
	case c10LicB:
		return "rB"
	case c10LicH:
		return "rH"
	}
	return ""
}

func (c *c10Client) Execute(cmd *collector.RpmCmd, cs collector.RpmControls) collector.RPMResponse {
	data, err := cs.Collectible.CollectorJSON(false)
	if err != nil {
		return collector.RPMResponse{Err: err}
	}
	switch cmd.Name {
	case collector.CommandPreconnect, collector.CommandConnect:
		run := c10RunOfLicense(string(cmd.License))
		if run == "" {
			<-c.block // applications created by mutants never get an answer (no processor event either)
		}
		if cmd.Name == collector.CommandPreconnect {
			// only the first preconnect per known license is answered: a second application with the same
			// license (a mutant changed another part of the key) must not produce a processor event at a
			// time of its own choosing (its connect attempt can fail before the connect request is made)
			c.mu.Lock()
			seen := c.pre[string(cmd.License)]
			c.pre[string(cmd.License)] = true
			c.mu.Unlock()
			if seen {
				<-c.block
			}
			return collector.RPMResponse{StatusCode: 200, Body: []byte(`{"redirect_host":"coll.example"}`)}
		}
		// one connect per license: a second application with the same license (created by a mutant that
		// changed another part of the key) never gets an answer, or it would be given the same run id
		c.mu.Lock()
		_, dup := c.connects[string(cmd.License)]
		if !dup {
			c.connects[string(cmd.License)] = string(data)
		}
		c.mu.Unlock()
		if dup {
			<-c.block
		}
		body := fmt.Sprintf(`{"agent_run_id":"%s","event_harvest_config":{"report_period_ms":60000,`+
			`"harvest_limits":{"analytic_event_data":10000,"custom_event_data":30000,"error_event_data":100,`+
			`"log_event_data":10000}},"span_event_harvest_config":{"report_period_ms":60000,"harvest_limit":2000}}`, run)
		return collector.RPMResponse{StatusCode: 200, Body: []byte(body)}
	}
	c.mu.Lock()
	c.payloads[cmd.RunID] = append(c.payloads[cmd.RunID], cmd.Name+":"+string(data))
	c.mu.Unlock()
	return collector.RPMResponse{StatusCode: 202}
}

// ------------------------------------------------------------------ the handler on the real path

type c10Action struct {
	Kind  string            `json:"kind"` // txn | app | span
	ID    *string           `json:"id"`   // hex; nil = no run id given (app only)
	Count string            `json:"count,omitempty"`
	Batch *string           `json:"batch,omitempty"`
	Info  map[string]string `json:"info,omitempty"`
}

type c10Handler struct {
	p     *Processor
	calls []c10Action
}

func c10Hex(b []byte) string { return hex.EncodeToString(b) }

func (h *c10Handler) IncomingTxnData(id AgentRunID, sample AggregaterInto) {
	s := c10Hex([]byte(id))
	h.calls = append(h.calls, c10Action{Kind: "txn", ID: &s})
	h.p.IncomingTxnData(id, sample)
}

func (h *c10Handler) IncomingSpanBatch(b SpanBatch) {
	s := c10Hex([]byte(b.id))
	a := c10Action{Kind: "span", ID: &s, Count: fmt.Sprint(b.count)}
	if b.batch != nil {
		x := c10Hex(b.batch)
		a.Batch = &x
	}
	h.calls = append(h.calls, a)
	h.p.IncomingSpanBatch(b)
}

func (h *c10Handler) IncomingAppInfo(id *AgentRunID, info *AppInfo) AppInfoReply {
	a := c10Action{Kind: "app", Info: map[string]string{
		"license": c10Hex([]byte(info.License)), "appname": c10Hex([]byte(info.Appname)),
		"language": c10Hex([]byte(info.AgentLanguage)), "version": c10Hex([]byte(info.AgentVersion)),
		"redirect": c10Hex([]byte(info.RedirectCollector)), "environment": c10Hex([]byte(info.Environment)),
		"labels": c10Hex([]byte(info.Labels)), "metadata": c10Hex([]byte(info.Metadata)),
		"host": c10Hex([]byte(info.Hostname)), "display_host": c10Hex([]byte(info.HostDisplayName)),
		"policy_token": c10Hex([]byte(info.SecurityPolicyToken)), "to_host": c10Hex([]byte(info.TraceObserverHost)),
		"docker_id": c10Hex([]byte(info.DockerId)),
		"to_port": fmt.Sprint(info.TraceObserverPort), "queue_size": fmt.Sprint(info.SpanQueueSize),
		"high_security": fmt.Sprint(info.HighSecurity),
		"span_limit":   fmt.Sprint(info.AgentEventLimits.SpanEventConfig.Limit),
		"log_limit":    fmt.Sprint(info.AgentEventLimits.LogEventConfig.Limit),
		"custom_limit": fmt.Sprint(info.AgentEventLimits.CustomEventConfig.Limit),
	}}
	if id != nil {
		s := c10Hex([]byte(*id))
		a.ID = &s
	}
	h.calls = append(h.calls, a)
	return h.p.IncomingAppInfo(id, info)
}

// ------------------------------------------------------------------ well-formed messages

type c10AppSpec struct {
	License, Appname, Host, TOHost, RunID string
	TOPort                                uint16
	Queue, Span, Log, Custom              uint64
	Strs                                  map[string]string // text fields given byte for byte: appname host display_host docker_id version
}

func c10BuildApp(s c10AppSpec) []byte {
	b := flatbuffers.NewBuilder(0)
	lic := b.CreateString(s.License)
	name := b.CreateString(s.Appname)
	lang := b.CreateString("php")
	ver := b.CreateString("1.0")
	env := b.CreateString("[]")
	lab := b.CreateString("[]")
	set := b.CreateString(`{"k":1}`)
	host := b.CreateString(s.Host)
	if v, ok := s.Strs["appname"]; ok {
		name = b.CreateString(v)
	}
	if v, ok := s.Strs["host"]; ok {
		host = b.CreateString(v)
	}
	if v, ok := s.Strs["version"]; ok {
		ver = b.CreateString(v)
	}
	var dh, dock flatbuffers.UOffsetT
	if v, ok := s.Strs["display_host"]; ok {
		dh = b.CreateString(v)
	}
	if v, ok := s.Strs["docker_id"]; ok {
		dock = b.CreateString(v)
	}
	var toh flatbuffers.UOffsetT
	if s.TOHost != "" {
		toh = b.CreateString(s.TOHost)
	}
	protocol.AppStart(b)
	protocol.AppAddLicense(b, lic)
	protocol.AppAddAppName(b, name)
	protocol.AppAddAgentLanguage(b, lang)
	protocol.AppAddAgentVersion(b, ver)
	protocol.AppAddEnvironment(b, env)
	protocol.AppAddLabels(b, lab)
	protocol.AppAddSettings(b, set)
	protocol.AppAddHost(b, host)
	protocol.AppAddHighSecurity(b, false)
	if dh != 0 {
		protocol.AppAddDisplayHost(b, dh)
	}
	if dock != 0 {
		protocol.AppAddDockerId(b, dock)
	}
	if s.TOHost != "" {
		protocol.AppAddTraceObserverHost(b, toh)
	}
	protocol.AppAddTraceObserverPort(b, s.TOPort)
	protocol.AppAddSpanQueueSize(b, s.Queue)
	protocol.AppAddSpanEventsMaxSamplesStored(b, s.Span)
	protocol.AppAddLogEventsMaxSamplesStored(b, s.Log)
	protocol.AppAddCustomEventsMaxSamplesStored(b, s.Custom)
	app := protocol.AppEnd(b)
	var rid flatbuffers.UOffsetT
	if s.RunID != "" {
		rid = b.CreateString(s.RunID)
	}
	protocol.MessageStart(b)
	if s.RunID != "" {
		protocol.MessageAddAgentRunId(b, rid)
	}
	protocol.MessageAddDataType(b, protocol.MessageBodyApp)
	protocol.MessageAddData(b, app)
	b.Finish(protocol.MessageEnd(b))
	return c10Exact(b.FinishedBytes())
}

// cap == len, as for the buffer ReadMessage allocates
func c10Exact(x []byte) []byte {
	out := make([]byte, len(x))
	copy(out, x)
	return out
}

func c10EventVec(b *flatbuffers.Builder, start func(*flatbuffers.Builder, int) flatbuffers.UOffsetT, items ...string) flatbuffers.UOffsetT {
	offs := make([]flatbuffers.UOffsetT, len(items))
	for i, it := range items {
		offs[i] = protocol.EncodeEvent(b, []byte(it))
	}
	start(b, len(items))
	for i := len(offs) - 1; i >= 0; i-- {
		b.PrependUOffsetT(offs[i])
	}
	return b.EndVector(len(items))
}

// a transaction with one item of every kind; the payloads are short tags starting with tag
func c10BuildTxn(run, tag string, full bool) []byte {
	b := flatbuffers.NewBuilder(0)
	name := b.CreateString("WebTransaction/" + tag)
	uri := b.CreateString("/u")
	txnEvent := protocol.EncodeEvent(b, []byte(`[{"m":"`+tag+`"},{},{}]`))
	var metrics, errs, slows, customs, spans, logs, errEvents, trace, labels, pkgs flatbuffers.UOffsetT
	if full {
		m1 := protocol.EncodeMetric(b, "M1"+tag, [6]float64{1, 2, 3, 4, 5, 6}, true, false)
		m2 := protocol.EncodeMetric(b, "M2"+tag, [6]float64{2, 0.5, 0.25, 0, 1, 7}, false, true)
		protocol.TransactionStartMetricsVector(b, 2)
		b.PrependUOffsetT(m2)
		b.PrependUOffsetT(m1)
		metrics = b.EndVector(2)
		e1 := protocol.EncodeError(b, 7, []byte("E1"+tag))
		protocol.TransactionStartErrorsVector(b, 1)
		b.PrependUOffsetT(e1)
		errs = b.EndVector(1)
		s1 := protocol.EncodeSlowSQL(b, 77, 1, 30, 30, 30, "Datastore/x", "select 1", []byte("{}"))
		protocol.TransactionStartSlowSqlsVector(b, 1)
		b.PrependUOffsetT(s1)
		slows = b.EndVector(1)
		customs = c10EventVec(b, protocol.TransactionStartCustomEventsVector, "C1"+tag, "C2"+tag)
		spans = c10EventVec(b, protocol.TransactionStartSpanEventsVector, "S1"+tag)
		logs = c10EventVec(b, protocol.TransactionStartLogEventsVector, "L1"+tag)
		errEvents = c10EventVec(b, protocol.TransactionStartErrorEventsVector, "X1"+tag)
		trace = protocol.EncodeTrace(b, 1000, 2000, "guid"+tag, false, []byte("T1"+tag))
		labels = protocol.EncodeEvent(b, []byte(`[{"label_type":"a","label_value":"b"}]`))
		pkgs = protocol.EncodeEvent(b, []byte(`[["p","1",{}]]`))
	}
	protocol.TransactionStart(b)
	protocol.TransactionAddName(b, name)
	protocol.TransactionAddUri(b, uri)
	protocol.TransactionAddPid(b, 4242)
	protocol.TransactionAddSamplingPriority(b, 0.5)
	protocol.TransactionAddTxnEvent(b, txnEvent)
	if full {
		protocol.TransactionAddMetrics(b, metrics)
		protocol.TransactionAddErrors(b, errs)
		protocol.TransactionAddSlowSqls(b, slows)
		protocol.TransactionAddCustomEvents(b, customs)
		protocol.TransactionAddSpanEvents(b, spans)
		protocol.TransactionAddLogEvents(b, logs)
		protocol.TransactionAddErrorEvents(b, errEvents)
		protocol.TransactionAddTrace(b, trace)
		protocol.TransactionAddLogForwardingLabels(b, labels)
		protocol.TransactionAddPhpPackages(b, pkgs)
	}
	txn := protocol.TransactionEnd(b)
	rid := b.CreateString(run)
	protocol.MessageStart(b)
	protocol.MessageAddAgentRunId(b, rid)
	protocol.MessageAddDataType(b, protocol.MessageBodyTransaction)
	protocol.MessageAddData(b, txn)
	b.Finish(protocol.MessageEnd(b))
	return c10Exact(b.FinishedBytes())
}

func c10BuildSpanBatch(run string) []byte {
	b := flatbuffers.NewBuilder(0)
	enc := b.CreateByteVector([]byte("spanbatch-bytes"))
	protocol.SpanBatchStart(b)
	protocol.SpanBatchAddCount(b, 3)
	protocol.SpanBatchAddEncoded(b, enc)
	sb := protocol.SpanBatchEnd(b)
	rid := b.CreateString(run)
	protocol.MessageStart(b)
	protocol.MessageAddAgentRunId(b, rid)
	protocol.MessageAddDataType(b, protocol.MessageBodySpanBatch)
	protocol.MessageAddData(b, sb)
	b.Finish(protocol.MessageEnd(b))
	return c10Exact(b.FinishedBytes())
}

func c10SpecA(run string) c10AppSpec {
	return c10AppSpec{License: c10LicA, Appname: "appA", Host: "hostA", RunID: run,
		Span: 2000, Log: 10000, Custom: 30000}
}

func c10SpecB(run string) c10AppSpec {
	return c10AppSpec{License: c10LicB, Appname: "appB", Host: "hostB", RunID: run,
		Span: 2000, Log: 10000, Custom: 30000}
}

// ------------------------------------------------------------------ a live processor

type c10Proc struct {
	p      *Processor
	h      *c10Handler
	client *c10Client
	crash  chan string
}

func c10NewProc() (*c10Proc, error) {
	client := &c10Client{payloads: map[string][]string{}, connects: map[string]string{}, pre: map[string]bool{}, block: make(chan struct{})}
	p := NewProcessor(ProcessorConfig{Client: client, AppTimeout: 10 * time.Minute})
	p.trackProgress = make(chan struct{})
	cp := &c10Proc{p: p, client: client, crash: make(chan string, 1), h: &c10Handler{p: p}}
	go func() {
		// stands for worker.go: defer crashGuard("processor", errorChan)
		defer func() {
			if e := recover(); e != nil {
				cp.crash <- fmt.Sprint(e)
			}
		}()
		p.Run()
	}()
	if s := cp.events(1); s != "" {
		return nil, fmt.Errorf("processor did not start: %s", s)
	}
	return cp, nil
}

// events waits for n processor events; "" = all arrived, else "crash: ..." or "hung"
func (cp *c10Proc) events(n int) string {
	for i := 0; i < n; i++ {
		select {
		case <-cp.p.trackProgress:
		case e := <-cp.crash:
			return "crash: " + e
		case <-time.After(5 * time.Second):
			return "hung"
		}
	}
	return ""
}

func (cp *c10Proc) stop() {
	select {
	case cp.p.quitChan <- struct{}{}:
	case <-time.After(100 * time.Millisecond):
	}
}

type c10Delivery struct {
	Class      string      `json:"class"` // none | reply | error | conn_panic | hung
	Valid      bool        `json:"valid"` // reply: the run id was accepted as valid
	Calls      []c10Action `json:"calls"`
	Panic      string      `json:"panic,omitempty"`
	ErrText    string      `json:"err,omitempty"`
	ConnClosed bool        `json:"conn_closed"` // the daemon closed the connection after this message
}

// what CommandsHandler.HandleMessage did with one message, recorded on the way through (a panic is re-raised so
// that it reaches serve()'s own recover)
type c10Done struct {
	reply []byte
	err   error
	pan   interface{}
}

type c10MH struct {
	inner MessageHandler
	done  chan c10Done
}

func (m *c10MH) HandleMessage(msg RawMessage) (reply []byte, err error) {
	defer func() {
		if e := recover(); e != nil {
			m.done <- c10Done{pan: e}
			panic(e)
		}
		m.done <- c10Done{reply: reply, err: err}
	}()
	return m.inner.HandleMessage(msg)
}

// one agent connection served by the REAL listener.go serve() (its recover, its reply writer, its Close)
type c10Conn struct {
	agent  net.Conn
	mh     *c10MH
	frames chan []byte
	closed chan struct{}
}

func (cp *c10Proc) open() *c10Conn {
	a, b := net.Pipe()
	cn := &c10Conn{agent: a, mh: &c10MH{inner: CommandsHandler{Processor: cp.h}, done: make(chan c10Done, 8)},
		frames: make(chan []byte, 8), closed: make(chan struct{})}
	go serve(b, cn.mh)
	go func() {
		for {
			m, err := ReadMessage(a)
			if err != nil {
				close(cn.closed)
				return
			}
			cn.frames <- m.Bytes
		}
	}()
	return cn
}

func (cn *c10Conn) isClosed(wait time.Duration) bool {
	select {
	case <-cn.closed:
		return true
	case <-time.After(wait):
		return false
	}
}

func (cn *c10Conn) send(cp *c10Proc, msg []byte) c10Delivery {
	cp.h.calls = nil
	var d c10Delivery
	hdr := make([]byte, 8)
	byteOrder.PutUint32(hdr[0:4], uint32(len(msg)))
	byteOrder.PutUint32(hdr[4:8], uint32(MessageTypeBinary))
	werr := make(chan error, 1)
	go func() {
		_, err := cn.agent.Write(append(hdr, msg...))
		werr <- err
	}()
	classify := func(r c10Done) {
		switch {
		case r.pan != nil:
			d.Class, d.Panic = "conn_panic", fmt.Sprint(r.pan)
		case r.err != nil:
			d.Class, d.ErrText = "error", r.err.Error()
		case r.reply != nil:
			d.Class = "reply"
			select {
			case f := <-cn.frames:
				d.Valid = c10ReplyValid(f)
			case <-time.After(5 * time.Second):
				d.Class, d.ErrText = "reply_lost", "no reply frame within 5 s"
			}
		default:
			d.Class = "none"
		}
	}
	select {
	case r := <-cn.mh.done:
		classify(r)
	case <-cn.closed:
		// after a panic both are ready: what HandleMessage did comes first
		select {
		case r := <-cn.mh.done:
			classify(r)
		case <-time.After(time.Second):
			d.Class, d.ErrText = "hung", "connection closed without the message having been handled"
		}
	case <-time.After(5 * time.Second):
		d.Class = "hung"
	}
	if d.Class == "conn_panic" {
		d.ConnClosed = cn.isClosed(2 * time.Second)
	} else {
		d.ConnClosed = cn.isClosed(0)
	}
	d.Calls = append([]c10Action{}, cp.h.calls...)
	return d
}

func (cn *c10Conn) close() { cn.agent.Close() }

// deliver: a fresh connection for one message
func (cp *c10Proc) deliver(msg []byte) c10Delivery {
	cn := cp.open()
	defer cn.close()
	return cn.send(cp, msg)
}

func c10ReplyValid(reply []byte) (valid bool) {
	defer func() { recover() }()
	msg := protocol.GetRootAsMessage(reply, 0)
	var tbl flatbuffers.Table
	if !msg.Data(&tbl) {
		return false
	}
	var r protocol.AppReply
	r.Init(tbl.Bytes, tbl.Pos)
	return r.Status() == protocol.AppStatusStillValid
}

// ------------------------------------------------------------------ what a harvest holds (processor idle)

func c10Events(ev *analyticsEvents) []string {
	out := []string{}
	if ev == nil || ev.events == nil {
		return out
	}
	for _, e := range *ev.events {
		out = append(out, c10Hex([]byte(e.data)))
	}
	return out
}

func c10Snapshot(p *Processor, run string) map[string][]string {
	ah, ok := p.harvests[AgentRunID(run)]
	if !ok {
		return nil
	}
	h := ah.Harvest
	s := map[string][]string{}
	s["1"] = c10Events(h.TxnEvents.analyticsEvents)
	s["2"] = c10Events(h.CustomEvents.analyticsEvents)
	s["3"] = c10Events(h.ErrorEvents.analyticsEvents)
	s["4"] = c10Events(h.SpanEvents.analyticsEvents)
	s["5"] = c10Events(h.LogEvents.analyticsEvents)
	s["6"] = []string{}
	for _, e := range *h.Errors {
		s["6"] = append(s["6"], c10Hex([]byte(e.Data)))
	}
	s["7"] = []string{}
	for _, q := range h.SlowSQLs.slowSQLs {
		id := uint32(q.ID)
		s["7"] = append(s["7"], c10Hex([]byte{byte(id), byte(id >> 8), byte(id >> 16), byte(id >> 24)})+
			fmt.Sprintf("|%d|%d|%d|%d", q.Count, q.TotalMicros, q.MinMicros, q.MaxMicros))
	}
	s["8"] = []string{}
	for _, hp := range []*TxnTraceHeap{h.TxnTraces.regular, h.TxnTraces.forcePersisted, h.TxnTraces.synthetics} {
		for _, t := range *hp {
			s["8"] = append(s["8"], c10Hex([]byte(t.Data)))
		}
	}
	s["9"] = []string{}
	for name, byScope := range h.Metrics.metrics {
		for scope, m := range byScope {
			s["9"] = append(s["9"], c10Hex([]byte(name))+fmt.Sprintf("|%s|%v|%v", c10Hex([]byte(scope)), m.data, m.forced))
		}
	}
	s["10"] = []string{}
	for pid := range h.pidSet {
		u := uint32(int32(pid))
		s["10"] = append(s["10"], c10Hex([]byte{byte(u), byte(u >> 8), byte(u >> 16), byte(u >> 24)}))
	}
	lb, _ := json.Marshal(h.LogEvents.LogForwardingLabels)
	s["11"] = []string{string(lb)}
	s["12"] = []string{c10Hex([]byte(h.PhpPackages.data))}
	s["cmds"] = []string{fmt.Sprint(h.commandsProcessed)}
	for k := range s {
		sort.Strings(s[k])
	}
	return s
}

// multiset difference a - b
func c10Minus(a, b []string) []string {
	cnt := map[string]int{}
	for _, x := range b {
		cnt[x]++
	}
	out := []string{}
	for _, x := range a {
		if cnt[x] > 0 {
			cnt[x]--
		} else {
			out = append(out, x)
		}
	}
	return out
}

func c10Digest(s map[string][]string) string {
	b, _ := json.Marshal(s)
	return string(b)
}

// ------------------------------------------------------------------ batches of mutants

type c10MutantOut struct {
	Delivery  c10Delivery         `json:"delivery"`
	Proc      string              `json:"proc"` // "" | "crash: ..." | "hung"
	Added     map[string][]string `json:"added"`
	Removed   map[string][]string `json:"removed"`
	BChanged  bool                `json:"b_changed"`
	AppsDelta int                 `json:"apps_delta"`
	RunsDelta int                 `json:"runs_delta"`
	LiveQuery string              `json:"live_query"` // ok | <what went wrong>
	LiveTxn   string              `json:"live_txn"`
	Skipped   bool                `json:"skipped,omitempty"`
}

type c10BatchOut struct {
	Setup      string         `json:"setup"`
	Mutants    []c10MutantOut `json:"mutants"`
	FinalA     string         `json:"final_a"` // ok | which liveness marker is missing from A's harvest payload
	FinalB     string         `json:"final_b"`
	Restarts   int            `json:"restarts"`
	MarkersA   int            `json:"markers_a"`
	PayloadsA  int            `json:"payloads_a"`
	PayloadsB  int            `json:"payloads_b"`
	FinalProcA string         `json:"final_proc,omitempty"`
}

func (cp *c10Proc) connect(spec c10AppSpec) string {
	d := cp.deliver(c10BuildApp(spec))
	if d.Class != "reply" {
		return "appinfo for " + spec.Appname + ": " + d.Class + " " + d.Panic + d.ErrText
	}
	// the AppInfo event, then the connect attempt (preconnect and connect answered by the mock at once)
	if s := cp.events(2); s != "" {
		return "connecting " + spec.Appname + ": " + s
	}
	if _, ok := cp.p.harvests[AgentRunID(c10RunOfLicense(spec.License))]; !ok {
		return "application " + spec.Appname + " did not connect"
	}
	return ""
}

func c10Setup() (*c10Proc, string) {
	cp, err := c10NewProc()
	if err != nil {
		return nil, err.Error()
	}
	if s := cp.connect(c10SpecA("")); s != "" {
		return nil, s
	}
	if s := cp.connect(c10SpecB("")); s != "" {
		return nil, s
	}
	d := cp.deliver(c10BuildTxn("rB", "Bdata", true))
	if d.Class != "none" || len(d.Calls) != 1 {
		return nil, "bystander transaction: " + d.Class
	}
	if s := cp.events(1); s != "" {
		return nil, "bystander transaction: " + s
	}
	return cp, ""
}

func c10Has(list []string, blob string) bool {
	for _, x := range list {
		if x == blob {
			return true
		}
	}
	return false
}

var c10Marker string // set when the batches run one at a time (Parallel == 1)

func c10RunBatch(mutants []string) (out c10BatchOut) {
	cp, s := c10Setup()
	if cp == nil {
		out.Setup = s
		return
	}
	markers := []string{}
	for i, mh := range mutants {
		var mo c10MutantOut
		msg, err := hex.DecodeString(mh)
		if err != nil {
			mo.Proc = "bad hex"
			out.Mutants = append(out.Mutants, mo)
			continue
		}
		msg = c10Exact(msg)
		if c10Marker != "" {
			// one batch at a time: name the message being delivered, should the whole process die on it
			os.WriteFile(c10Marker, []byte(fmt.Sprintf("%d", i)), 0644)
		}
		beforeA, beforeB := c10Snapshot(cp.p, "rA"), c10Digest(c10Snapshot(cp.p, "rB"))
		apps0, runs0 := len(cp.p.apps), len(cp.p.harvests)
		cn := cp.open()
		mo.Delivery = cn.send(cp, msg)
		mo.Proc = cp.events(len(mo.Delivery.Calls))
		if mo.Proc == "" {
			select {
			case e := <-cp.crash: // a panic on the processor goroutine that no expected event announced
				mo.Proc = "crash: " + e
			default:
			}
		}
		if mo.Proc != "" || mo.Delivery.Class == "hung" || mo.Delivery.Class == "reply_lost" {
			// the processor is gone (or wedged): report, and give the remaining mutants a new one
			out.Mutants = append(out.Mutants, mo)
			out.Restarts++
			cn.close()
			cp, s = c10Setup()
			if cp == nil {
				out.Setup = "restart after mutant " + fmt.Sprint(i) + ": " + s
				return
			}
			markers = []string{}
			continue
		}
		afterA := c10Snapshot(cp.p, "rA")
		mo.Added, mo.Removed = map[string][]string{}, map[string][]string{}
		for k := range afterA {
			if k == "cmds" {
				continue
			}
			if a := c10Minus(afterA[k], beforeA[k]); len(a) > 0 {
				mo.Added[k] = a
			}
			if r := c10Minus(beforeA[k], afterA[k]); len(r) > 0 {
				mo.Removed[k] = r
			}
		}
		mo.BChanged = c10Digest(c10Snapshot(cp.p, "rB")) != beforeB
		mo.AppsDelta, mo.RunsDelta = len(cp.p.apps)-apps0, len(cp.p.harvests)-runs0
		// liveness 1: a well-formed AppInfo query for A with its run id
		if mo.Delivery.ConnClosed {
			cn.close()
			cn = cp.open() // "at most its own connection is closed": the agent reconnects
		}
		q := cn.send(cp, c10BuildApp(c10SpecA("rA")))
		mo.LiveQuery = "ok"
		if q.Class != "reply" || !q.Valid {
			mo.LiveQuery = "query answered " + q.Class + fmt.Sprintf(" valid=%v", q.Valid)
		} else if s := cp.events(1); s != "" {
			mo.LiveQuery = s
		}
		// liveness 2: a well-formed transaction for A whose event must be in A's harvest
		tag := fmt.Sprintf("L%d", i)
		t := cn.send(cp, c10BuildTxn("rA", tag, false))
		mo.LiveTxn = "ok"
		if t.Class != "none" || len(t.Calls) != 1 {
			mo.LiveTxn = "transaction answered " + t.Class
		} else if s := cp.events(1); s != "" {
			mo.LiveTxn = s
		} else if !c10Has(c10Snapshot(cp.p, "rA")["1"], c10Hex([]byte(`[{"m":"`+tag+`"},{},{}]`))) {
			mo.LiveTxn = "event of the follow-up transaction is not in the harvest"
		}
		cn.close()
		markers = append(markers, tag)
		out.Mutants = append(out.Mutants, mo)
	}
	// the next harvest: blocking, so every payload has been handed to the collector when the event is over
	out.FinalA, out.FinalB = "ok", "ok"
	for _, run := range []string{"rA", "rB"} {
		ah := cp.p.harvests[AgentRunID(run)]
		if ah == nil {
			out.FinalA = "run " + run + " is gone"
			continue
		}
		select {
		case cp.p.processorHarvestChan <- ProcessorHarvest{AppHarvest: ah, ID: AgentRunID(run), Type: HarvestAll, Blocking: true}:
			if s := cp.events(1); s != "" {
				out.FinalProcA = "harvest of " + run + ": " + s
			}
		case <-time.After(5 * time.Second):
			out.FinalProcA = "harvest of " + run + " not accepted"
		}
	}
	cp.client.mu.Lock()
	pa, pb := cp.client.payloads["rA"], cp.client.payloads["rB"]
	cp.client.mu.Unlock()
	out.PayloadsA, out.PayloadsB, out.MarkersA = len(pa), len(pb), len(markers)
	txA := ""
	for _, p := range pa {
		if strings.HasPrefix(p, collector.CommandTxnEvents+":") {
			txA += p
		}
	}
	for _, m := range markers {
		if !strings.Contains(txA, `{"m":"`+m+`"}`) {
			out.FinalA = "marker " + m + " missing from the analytic_event_data payload of rA"
			break
		}
	}
	txB, customB := "", ""
	for _, p := range pb {
		if strings.HasPrefix(p, collector.CommandTxnEvents+":") {
			txB += p
		}
		if strings.HasPrefix(p, collector.CommandCustomEvents+":") {
			customB += p
		}
	}
	if !strings.Contains(txB, `{"m":"Bdata"}`) || strings.Count(txB, `"m"`) != 1 || !strings.Contains(customB, "C1Bdata") {
		out.FinalB = "harvest of the bystander rB is not its own data: " + txB
	}
	cp.stop()
	return
}

// ------------------------------------------------------------------ hostile values

type c10ValueIn struct {
	TOHost string `json:"to_host"`
	TOPort uint16 `json:"to_port"`
	Queue  string `json:"queue"`
	Span   string `json:"span"`
	Log    string `json:"log"`
	Custom string `json:"custom"`
	Strs   map[string]string `json:"strs"` // field -> hex of the bytes
}

type c10ValueOut struct {
	Delivery     string `json:"delivery"`
	Proc         string `json:"proc"`
	Connected    bool   `json:"connected"`
	HasObserver  bool   `json:"has_observer"`
	LogCap       int    `json:"log_cap"`
	SpanCap      int    `json:"span_cap"`
	CustomCap    int    `json:"custom_cap"`
	SentLimits   string `json:"sent_limits"` // harvest_limits of the connect payload, canonical JSON
	InfoSpan     string `json:"info_span"`
	InfoLog      string `json:"info_log"`
	InfoCustom   string `json:"info_custom"`
	InfoQueue    string `json:"info_queue"`
	LiveTxn      string `json:"live_txn"`
	ConnectError string `json:"connect_error,omitempty"`
}

func c10U(s string) uint64 {
	var v uint64
	fmt.Sscan(s, &v)
	return v
}

func c10RunValue(v c10ValueIn) (o c10ValueOut) {
	cp, err := c10NewProc()
	if err != nil {
		o.Proc = err.Error()
		return
	}
	lic := c10LicH
	spec := c10AppSpec{License: lic, Appname: "appH", Host: "hostH", TOHost: v.TOHost, TOPort: v.TOPort,
		Queue: c10U(v.Queue), Span: c10U(v.Span), Log: c10U(v.Log), Custom: c10U(v.Custom)}
	if len(v.Strs) > 0 {
		spec.Strs = map[string]string{}
		for k, hx := range v.Strs {
			raw, _ := hex.DecodeString(hx)
			spec.Strs[k] = string(raw)
		}
	}
	d := cp.deliver(c10BuildApp(spec))
	o.Delivery = d.Class
	if len(d.Calls) == 1 && d.Calls[0].Info != nil {
		o.InfoSpan, o.InfoLog, o.InfoCustom = d.Calls[0].Info["span_limit"], d.Calls[0].Info["log_limit"], d.Calls[0].Info["custom_limit"]
		o.InfoQueue = d.Calls[0].Info["queue_size"]
	}
	o.Proc = cp.events(2)
	if o.Proc != "" {
		return
	}
	cp.client.mu.Lock()
	raw := cp.client.connects[lic]
	cp.client.mu.Unlock()
	var pl []struct {
		EHC struct {
			Limits map[string]int `json:"harvest_limits"`
		} `json:"event_harvest_config"`
	}
	if json.Unmarshal([]byte(raw), &pl) == nil && len(pl) == 1 {
		b, _ := json.Marshal(pl[0].EHC.Limits)
		o.SentLimits = string(b)
	}
	ah, ok := cp.p.harvests["rH"]
	o.Connected = ok
	if ok {
		o.HasObserver = ah.TraceObserver != nil
		o.LogCap = cap(*ah.Harvest.LogEvents.events)
		o.SpanCap = cap(*ah.Harvest.SpanEvents.events)
		o.CustomCap = cap(*ah.Harvest.CustomEvents.events)
		t := cp.deliver(c10BuildTxn("rH", "LH", false))
		o.LiveTxn = "ok"
		if t.Class != "none" || len(t.Calls) != 1 {
			o.LiveTxn = "transaction answered " + t.Class
		} else if s := cp.events(1); s != "" {
			o.LiveTxn = s
		} else if !c10Has(c10Snapshot(cp.p, "rH")["1"], c10Hex([]byte(`[{"m":"LH"},{},{}]`))) {
			o.LiveTxn = "event of the follow-up transaction is not in the harvest"
		}
	}
	cp.stop()
	return
}

// ------------------------------------------------------------------ entry point

func TestVerifC10(t *testing.T) {
	inPath, outPath := os.Getenv("VERIF_IN"), os.Getenv("VERIF_OUT")
	if inPath == "" || outPath == "" {
		t.Skip("VERIF_IN / VERIF_OUT not set")
	}
	debug.SetMemoryLimit(3 << 30)
	raw, err := os.ReadFile(inPath)
	if err != nil {
		t.Fatal(err)
	}
	var in struct {
		Mode     string       `json:"mode"`
		Batches  [][]string   `json:"batches"`
		Values   []c10ValueIn `json:"values"`
		Parallel int          `json:"parallel"`
	}
	if err := json.Unmarshal(raw, &in); err != nil {
		t.Fatal(err)
	}
	out := map[string]interface{}{}
	switch in.Mode {
	case "bases":
		out["bases"] = map[string]string{
			"app_new":   c10Hex(c10BuildApp(c10SpecA(""))),
			"app_live":  c10Hex(c10BuildApp(c10SpecA("rA"))),
			"app_dead":  c10Hex(c10BuildApp(c10SpecA("rZ"))),
			"txn_live":  c10Hex(c10BuildTxn("rA", "m", true)),
			"txn_dead":  c10Hex(c10BuildTxn("rZ", "m", true)),
			"span_live": c10Hex(c10BuildSpanBatch("rA")),
			"span_dead": c10Hex(c10BuildSpanBatch("rZ")),
			"app_b":     c10Hex(c10BuildApp(c10SpecB(""))),
			"app_hostile_queue": c10Hex(c10BuildApp(c10AppSpec{License: c10LicH, Appname: "appH",
				Host: "hostH", TOHost: "127.0.0.1", TOPort: 443, Queue: 1 << 62, Span: 2000, Log: 10000, Custom: 30000})),
		}
	case "run":
		// the audit log is on, as with `auditlog = <file>` in the daemon's configuration: the code that runs only then
		// (audit lines written while messages are handled) is part of what must contain a malformed message (seeded/C10i1)
		if f, err := ioutil.TempFile("", "verifc10audit"); err == nil {
			f.Close()
			defer os.Remove(f.Name())
			log.InitAudit(f.Name())
		}
		if in.Parallel <= 0 {
			in.Parallel = 8
		}
		if in.Parallel == 1 {
			c10Marker = outPath + ".cur"
		}
		res := make([]c10BatchOut, len(in.Batches))
		sem := make(chan struct{}, in.Parallel)
		var wg sync.WaitGroup
		for i := range in.Batches {
			wg.Add(1)
			sem <- struct{}{}
			go func(i int) {
				defer wg.Done()
				defer func() { <-sem }()
				res[i] = c10RunBatch(in.Batches[i])
			}(i)
		}
		wg.Wait()
		out["batches"] = res
		vals := make([]c10ValueOut, len(in.Values))
		for i, v := range in.Values {
			vals[i] = c10RunValue(v)
		}
		out["values"] = vals
	default:
		t.Fatal("unknown mode " + in.Mode)
	}
	enc, err := json.Marshal(out)
	if err != nil {
		t.Fatal(err)
	}
	if err := os.WriteFile(outPath, enc, 0o644); err != nil {
		t.Fatal(err)
	}
}
