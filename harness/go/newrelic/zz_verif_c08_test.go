//go:build verif

package newrelic

// C08 harness (package newrelic): the real payload encoders driven through the in-package API with
// generated names / fragments.  For every case the body (Data(id, now)) is returned together with the
// oracle values the Coq model takes as inputs (strconv / encoding/json renderings, decoded package
// names, the container's own iteration order) and encoding/json's verdict on the body.

import (
	"encoding/hex"
	"encoding/json"
	"io/ioutil"
	"math"
	"os"
	"strconv"
	"testing"
	"time"
)

func c08unhex(t *testing.T, h string) []byte {
	b, err := hex.DecodeString(h)
	if err != nil {
		t.Fatal(err)
	}
	return b
}

func c08hex(b []byte) string { return hex.EncodeToString(b) }

func c08hexp(b []byte, err error) *string {
	if err != nil || b == nil {
		return nil
	}
	s := hex.EncodeToString(b)
	return &s
}

type c08MetricIn struct {
	Name   string   `json:"name"`
	Scope  string   `json:"scope"`
	Data   []string `json:"data"` // six float64 bit patterns (decimal uint64)
	Forced bool     `json:"forced"`
}

type c08MetricCase struct {
	ID      string        `json:"id"`
	Start   int64         `json:"start"`
	Now     int64         `json:"now"`
	Max     int           `json:"max"`
	Entries []c08MetricIn `json:"entries"`
	Merge   bool          `json:"merge"` // encode a fresh table into which this one was carried over (MergeFailed)
}

type c08MetricEntryObs struct {
	Name  string   `json:"name"`
	Scope string   `json:"scope"`
	Frags []string `json:"frags"` // strconv rendering of the six aggregated values, "BAD" for NaN/Inf
}

type c08MetricObs struct {
	Out     *string             `json:"out"`
	Valid   bool                `json:"valid"`
	Count   int                 `json:"count"`
	Entries []c08MetricEntryObs `json:"entries"`
	T0      string              `json:"t0"`
	T1      string              `json:"t1"`
}

func c08float(t *testing.T, bits string) float64 {
	u, err := strconv.ParseUint(bits, 10, 64)
	if err != nil {
		t.Fatal(err)
	}
	return math.Float64frombits(u)
}

func c08frag(x float64) string {
	if math.IsNaN(x) || math.IsInf(x, 0) {
		return "BAD"
	}
	return c08hex(strconv.AppendFloat(nil, x, 'g', -1, 64))
}

func c08Metric(t *testing.T, c c08MetricCase) c08MetricObs {
	mt := NewMetricTable(c.Max, time.Unix(c.Start, 0))
	for _, e := range c.Entries {
		var d [6]float64
		for i := 0; i < 6 && i < len(e.Data); i++ {
			d[i] = c08float(t, e.Data[i])
		}
		force := Unforced
		if e.Forced {
			force = Forced
		}
		mt.AddRaw(nil, string(c08unhex(t, e.Name)), string(c08unhex(t, e.Scope)), d, force)
	}
	if c.Merge {
		next := NewMetricTable(c.Max, time.Unix(c.Start+60, 0))
		next.MergeFailed(mt)
		mt = next
	}
	o := c08MetricObs{Count: verifTableCount(mt),
		T0: c08hex(strconv.AppendInt(nil, mt.metricPeriodStart.Unix(), 10)), T1: c08hex(strconv.AppendInt(nil, c.Now, 10))}
	for name, scopes := range mt.metrics {
		for scope, m := range scopes {
			cd := m.data.collectorData()
			eo := c08MetricEntryObs{Name: c08hex([]byte(name)), Scope: c08hex([]byte(scope))}
			for _, x := range cd {
				eo.Frags = append(eo.Frags, c08frag(x))
			}
			o.Entries = append(o.Entries, eo)
		}
	}
	b, err := mt.Data(AgentRunID(c08unhex(t, c.ID)), time.Unix(c.Now, 0))
	o.Out = c08hexp(b, err)
	o.Valid = err == nil && json.Valid(b)
	return o
}

type c08EventIn struct {
	Data string  `json:"data"`
	Prio float64 `json:"prio"`
}

type c08EventCase struct {
	Kind   string       `json:"kind"` // txn custom error span log
	Cap    int          `json:"cap"`
	ID     string       `json:"id"`
	Events []c08EventIn `json:"events"`
	Split  bool         `json:"split"`
	Merge  bool         `json:"merge"`  // encode a fresh reservoir into which this one was carried over (MergeFailed)
	Labels [][2]string  `json:"labels"` // log only: (type, value) hex
}

type c08EventObs struct {
	Out    *string  `json:"out"`
	Valid  bool     `json:"valid"`
	Cap    int      `json:"cap"`
	Seen   int      `json:"seen"`
	Items  []string `json:"items"` // fragments in the container's own order
	IDJson string   `json:"id_json"`
	RS     string   `json:"rs"`
	ES     string   `json:"es"`
	Labels *string  `json:"labels_json"`
}

func c08EventObsOf(t *testing.T, ev *analyticsEvents, id AgentRunID, data func() ([]byte, error)) c08EventObs {
	o := c08EventObs{Cap: cap(*ev.events), Seen: ev.numSeen}
	for _, e := range *ev.events {
		o.Items = append(o.Items, c08hex(e.data))
	}
	ij, _ := json.Marshal(id)
	o.IDJson = c08hex(ij)
	o.RS = c08hex(strconv.AppendInt(nil, int64(o.Cap), 10))
	o.ES = c08hex(strconv.AppendInt(nil, int64(o.Seen), 10))
	b, err := data()
	o.Out = c08hexp(b, err)
	o.Valid = err == nil && json.Valid(b)
	return o
}

func c08Event(t *testing.T, c c08EventCase) []c08EventObs {
	id := AgentRunID(c08unhex(t, c.ID))
	now := time.Unix(1700000000, 0)
	var ev *analyticsEvents
	var add func(data []byte, p SamplingPriority)
	var logs *LogEvents
	switch c.Kind {
	case "txn":
		x := NewTxnEvents(c.Cap)
		ev, add = x.analyticsEvents, x.AddTxnEvent
	case "custom":
		x := NewCustomEvents(c.Cap)
		ev, add = x.analyticsEvents, x.AddEventFromData
	case "error":
		x := NewErrorEvents(c.Cap)
		ev, add = x.analyticsEvents, x.AddEventFromData
	case "span":
		x := NewSpanEvents(c.Cap)
		ev, add = x.analyticsEvents, x.AddEventFromData
	case "log":
		logs = NewLogEvents(c.Cap)
		ev, add = logs.analyticsEvents, logs.AddEventFromData
		for _, l := range c.Labels {
			logs.LogForwardingLabels = append(logs.LogForwardingLabels,
				LogForwardingLabel{LabelType: string(c08unhex(t, l[0])), LabelValue: string(c08unhex(t, l[1]))})
		}
	default:
		t.Fatalf("kind %q", c.Kind)
	}
	for _, e := range c.Events {
		add(c08unhex(t, e.Data), SamplingPriority(e.Prio))
	}
	if logs != nil {
		o := c08EventObsOf(t, ev, id, func() ([]byte, error) { return logs.Data(id, now) })
		// the oracle value json.Marshal(labelMap), built with the documented rule (both parts non-empty)
		lm := make(map[string]string)
		for _, l := range logs.LogForwardingLabels {
			if len(l.LabelType) != 0 && len(l.LabelValue) != 0 {
				lm["tags."+l.LabelType] = l.LabelValue
			}
		}
		lj, err := json.Marshal(lm)
		o.Labels = c08hexp(lj, err)
		return []c08EventObs{o}
	}
	if c.Merge {
		next := newAnalyticsEvents(c.Cap)
		next.MergeFailed(ev)
		ev = next
	}
	if c.Split {
		e1, e2 := ev.Split()
		return []c08EventObs{
			c08EventObsOf(t, e1, id, func() ([]byte, error) { return e1.Data(id, now) }),
			c08EventObsOf(t, e2, id, func() ([]byte, error) { return e2.Data(id, now) }),
		}
	}
	return []c08EventObs{c08EventObsOf(t, ev, id, func() ([]byte, error) { return ev.Data(id, now) })}
}

type c08PkgCase struct {
	Seen [][2]string `json:"seen"`
	Data *string     `json:"data"`
	Raw  bool        `json:"raw"` // true: no filtering, CollectorJSON around the agent's bytes
}

type c08PkgItem struct {
	OK   bool   `json:"ok"`
	Name string `json:"name"`
	Ver  string `json:"ver"`
}

type c08PkgObs struct {
	Filtered *string      `json:"filtered"` // nil = nil slice
	Out      *string      `json:"out"`      // nil = Empty(), nothing is sent
	Valid    bool         `json:"valid"`
	NumSeen  int          `json:"num_seen"`
	Decoded  []c08PkgItem `json:"decoded"` // nil = data nil or json.Unmarshal failed
	HasDec   bool         `json:"has_decoded"`
}

func c08Pkg(t *testing.T, c c08PkgCase) c08PkgObs {
	app := &App{PhpPackages: make(map[PhpPackagesKey]struct{})}
	for _, s := range c.Seen {
		app.PhpPackages[PhpPackagesKey{string(c08unhex(t, s[0])), string(c08unhex(t, s[1]))}] = struct{}{}
	}
	pk := NewPhpPackages()
	var data []byte
	if c.Data != nil {
		data = c08unhex(t, *c.Data)
		if data == nil {
			data = []byte{}
		}
		pk.SetPhpPackages(data)
	}
	o := c08PkgObs{}
	// oracle: what json.Unmarshal decodes (names and versions as Go strings)
	if data != nil {
		var x []interface{}
		if err := json.Unmarshal(data, &x); err == nil {
			o.HasDec = true
			o.Decoded = []c08PkgItem{}
			for _, pj := range x {
				p, _ := pj.([]interface{})
				if len(p) != 3 {
					o.Decoded = append(o.Decoded, c08PkgItem{OK: false})
					continue
				}
				n, _ := p[0].(string)
				v, _ := p[1].(string)
				o.Decoded = append(o.Decoded, c08PkgItem{OK: true, Name: c08hex([]byte(n)), Ver: c08hex([]byte(v))})
			}
		}
	}
	if !c.Raw {
		pk.data = app.filterPhpPackages(pk.data)
		if pk.data != nil {
			s := c08hex(pk.data)
			o.Filtered = &s
		}
	} else if pk.data != nil {
		s := c08hex(pk.data)
		o.Filtered = &s
	}
	o.NumSeen = pk.numSeen
	if !pk.Empty() {
		b, err := pk.Data(AgentRunID("run"), time.Unix(1700000000, 0))
		o.Out = c08hexp(b, err)
		o.Valid = err == nil && json.Valid(b)
	}
	return o
}

type c08ConnectCase struct {
	Kind     string `json:"kind"` // preconnect connect bad
	Token    string `json:"token"`
	Appname  string `json:"appname"`
	Host     string `json:"host"`
	Display  string `json:"display"`
	Lang     string `json:"lang"`
	Version  string `json:"version"`
	Env      string `json:"env"`    // hex fragment
	Labels   string `json:"labels"` // hex fragment
	Meta     string `json:"meta"`
	Security bool   `json:"security"`
}

type c08ConnectObs struct {
	Out     *string `json:"out"`
	Valid   bool    `json:"valid"`
	Encoded *string `json:"encoded"` // json.Marshal(&payload): the encoder's rendering without the newline
}

func c08Connect(t *testing.T, c c08ConnectCase) c08ConnectObs {
	var payload interface{}
	switch c.Kind {
	case "preconnect":
		payload = &RawPreconnectPayload{SecurityPolicyToken: string(c08unhex(t, c.Token)), HighSecurity: c.Security}
	case "bad":
		payload = math.NaN()
	default:
		info := &AppInfo{
			Appname: string(c08unhex(t, c.Appname)), Hostname: string(c08unhex(t, c.Host)),
			HostDisplayName: string(c08unhex(t, c.Display)), AgentLanguage: string(c08unhex(t, c.Lang)),
			AgentVersion: string(c08unhex(t, c.Version)), HighSecurity: c.Security,
			Settings:    map[string]interface{}{string(c08unhex(t, c.Token)): string(c08unhex(t, c.Host))},
			Environment: JSONString(c08unhex(t, c.Env)), Labels: JSONString(c08unhex(t, c.Labels)),
			Metadata: JSONString(c08unhex(t, c.Meta)),
		}
		if info.Hostname == "" {
			info.Hostname = "h"
		}
		payload = info.ConnectPayloadInternal(123, nil)
	}
	o := c08ConnectObs{}
	ej, eerr := json.Marshal(&payload)
	o.Encoded = c08hexp(ej, eerr)
	b, err := EncodePayload(payload)
	o.Out = c08hexp(b, err)
	o.Valid = err == nil && json.Valid(b)
	return o
}

type c08OtherCase struct {
	Kind  string   `json:"kind"` // errors traces slowsqls
	ID    string   `json:"id"`
	Strs  []string `json:"strs"`  // hex strings used for names / urls / queries
	Frags []string `json:"frags"` // hex JSON fragments (error data, trace data, params)
}

type c08OtherObs struct {
	Out   *string `json:"out"`
	Valid bool    `json:"valid"`
	Audit *string `json:"audit"`
	AOK   bool    `json:"audit_valid"`
}

func c08Other(t *testing.T, c c08OtherCase) c08OtherObs {
	id := AgentRunID(c08unhex(t, c.ID))
	now := time.Unix(1700000000, 0)
	str := func(i int) string {
		if len(c.Strs) == 0 {
			return ""
		}
		return string(c08unhex(t, c.Strs[i%len(c.Strs)]))
	}
	var p PayloadCreator
	switch c.Kind {
	case "errors":
		h := NewErrorHeap(10)
		for i, f := range c.Frags {
			h.AddError(i, c08unhex(t, f))
		}
		p = h
	case "traces":
		tr := NewTxnTraces()
		for i, f := range c.Frags {
			tt := &TxnTrace{MetricName: str(i), RequestURI: str(i + 1), UnixTimestampMillis: float64(1000 * i),
				DurationMillis: float64(10 + i), Data: JSONString(c08unhex(t, f)), GUID: str(i + 2), ForcePersist: i%2 == 1}
			if i%3 == 2 {
				tt.SyntheticsResourceID = str(i)
			}
			tr.AddTxnTrace(tt)
		}
		p = tr
	case "slowsqls":
		s := NewSlowSQLs(10)
		for i, f := range c.Frags {
			s.Observe(&SlowSQL{ID: SQLId(i + 1), Count: int32(i + 1), TotalMicros: uint64(1000 * (i + 1)),
				MinMicros: 10, MaxMicros: uint64(100 * (i + 1)), MetricName: str(i), Query: str(i + 1),
				TxnName: str(i + 2), TxnURL: str(i + 3), Params: JSONString(c08unhex(t, f))})
		}
		p = s
	default:
		t.Fatalf("kind %q", c.Kind)
	}
	o := c08OtherObs{}
	b, err := p.Data(id, now)
	o.Out = c08hexp(b, err)
	o.Valid = err == nil && json.Valid(b)
	a, aerr := p.Audit(id, now)
	o.Audit = c08hexp(a, aerr)
	o.AOK = aerr == nil && (a == nil || json.Valid(a))
	return o
}

func TestVerifC08(t *testing.T) {
	inPath, outPath := os.Getenv("VERIF_IN"), os.Getenv("VERIF_OUT")
	if inPath == "" {
		t.Skip("harness only")
	}
	var in struct {
		Metrics  []c08MetricCase  `json:"metrics"`
		Events   []c08EventCase   `json:"events"`
		Pkgs     []c08PkgCase     `json:"pkgs"`
		Connects []c08ConnectCase `json:"connects"`
		Others   []c08OtherCase   `json:"others"`
	}
	raw, err := ioutil.ReadFile(inPath)
	if err != nil {
		t.Fatal(err)
	}
	if err := json.Unmarshal(raw, &in); err != nil {
		t.Fatal(err)
	}
	out := struct {
		Metrics  []c08MetricObs  `json:"metrics"`
		Events   [][]c08EventObs `json:"events"`
		Pkgs     []c08PkgObs     `json:"pkgs"`
		Connects []c08ConnectObs `json:"connects"`
		Others   []c08OtherObs   `json:"others"`
	}{}
	for _, c := range in.Metrics {
		out.Metrics = append(out.Metrics, c08Metric(t, c))
	}
	for _, c := range in.Events {
		out.Events = append(out.Events, c08Event(t, c))
	}
	for _, c := range in.Pkgs {
		out.Pkgs = append(out.Pkgs, c08Pkg(t, c))
	}
	for _, c := range in.Connects {
		out.Connects = append(out.Connects, c08Connect(t, c))
	}
	for _, c := range in.Others {
		out.Others = append(out.Others, c08Other(t, c))
	}
	ob, _ := json.Marshal(out)
	if err := ioutil.WriteFile(outPath, ob, 0644); err != nil {
		t.Fatal(err)
	}
}
