//go:build verif

package newrelic

// C11, process level: the REAL daemon binary in the worker role (-f), two or three applications connected over
// the agent socket to a local TLS collector that answers data requests slowly, then the termination request.
// Optionally a SECOND termination request arrives while the final flush is under way (the watcher relays the
// SIGTERM it receives, a service manager signals the whole control group: duplicates are ordinary).
// Expected by the property: the worker exits by itself (status 0) within the bound, after having attempted the
// final delivery for every connected application exactly once.
// Uses the agent-side helpers of the C17 harness (c17AppInfoMsg, c17TxnMsg, c17Write, c17ReadReply).

import (
	"encoding/json"
	"encoding/pem"
	"fmt"
	"io/ioutil"
	"math/rand"
	"net"
	"net/http"
	"net/http/httptest"
	"os"
	"os/exec"
	"path/filepath"
	"strings"
	"sync"
	"syscall"
	"testing"
	"time"

	"github.com/newrelic/newrelic-php-agent/daemon/internal/newrelic/collector"
)

type c11wScenario struct {
	Apps     int    `json:"apps"`
	DelayMs  int    `json:"delay_ms"` // latency of every data request once the exit has begun
	Second   string `json:"second"`   // "", "TERM" or "INT": a second signal sent when the first final request has arrived
	SecondMs int    `json:"second_ms"`
}

type c11wObs struct {
	Connected   int            `json:"connected"`
	Exited      bool           `json:"exited"`
	ExitStatus  int            `json:"exit_status"` // -1: killed by a signal
	KilledBy    string         `json:"killed_by,omitempty"`
	ExitMs      int64          `json:"exit_ms"`
	FinalMetric map[string]int `json:"final_metric_requests"` // run id -> metric_data requests after the first signal
	LogSaysSent bool           `json:"log_says_sent"`
	Note        string         `json:"note,omitempty"`
}

type c11wCollector struct {
	mu       sync.Mutex
	sc       *c11wScenario
	runs     int
	stopping bool
	finals   map[string]int
	firstFin chan struct{}
	once     sync.Once
}

func (c *c11wCollector) ServeHTTP(w http.ResponseWriter, r *http.Request) {
	ioutil.ReadAll(r.Body)
	q := r.URL.Query()
	switch q.Get("method") {
	case collector.CommandPreconnect:
		fmt.Fprintf(w, `{"return_value":{"redirect_host":"%s"}}`, r.Host)
	case collector.CommandConnect:
		c.mu.Lock()
		c.runs++
		run := c.runs
		c.mu.Unlock()
		fmt.Fprintf(w, `{"return_value":{"agent_run_id":"w%d"}}`, run)
	default:
		c.mu.Lock()
		stopping := c.stopping
		if stopping && q.Get("method") == collector.CommandMetrics {
			c.finals[q.Get("run_id")]++
		}
		c.mu.Unlock()
		if stopping {
			c.once.Do(func() { close(c.firstFin) })
			time.Sleep(time.Duration(c.sc.DelayMs) * time.Millisecond)
		}
		w.WriteHeader(202)
	}
}

func c11wRun(daemon string, sc *c11wScenario, dir string) (obs c11wObs) {
	col := &c11wCollector{sc: sc, finals: map[string]int{}, firstFin: make(chan struct{})}
	srv := httptest.NewTLSServer(col)
	defer srv.Close()
	ca := filepath.Join(dir, "ca.pem")
	ioutil.WriteFile(ca, pem.EncodeToMemory(&pem.Block{Type: "CERTIFICATE", Bytes: srv.Certificate().Raw}), 0600)
	host := strings.TrimPrefix(srv.URL, "https://")
	sock := filepath.Join(dir, "d.sock")
	logf := filepath.Join(dir, "d.log")
	env := []string{}
	for _, e := range os.Environ() {
		if !strings.HasPrefix(e, "NEW_RELIC_DAEMON_ROLE=") && !strings.HasPrefix(e, "VERIF_") {
			env = append(env, e)
		}
	}
	cmd := exec.Command(daemon, "-f", "--no-pidfile", "--address", sock, "--cafile", ca, "--logfile", logf, "--loglevel", "debug")
	cmd.Env = env
	cmd.Dir = dir
	if err := cmd.Start(); err != nil {
		obs.Note = "start: " + err.Error()
		return
	}
	done := make(chan error, 1)
	go func() { done <- cmd.Wait() }()
	defer func() {
		if !obs.Exited {
			cmd.Process.Kill()
			<-done
		}
	}()
	// wait for the socket
	var conn net.Conn
	for t0 := time.Now(); time.Since(t0) < 8*time.Second; time.Sleep(20 * time.Millisecond) {
		c, err := net.Dial("unix", sock)
		if err == nil {
			conn = c
			break
		}
	}
	if conn == nil {
		obs.Note = "the worker did not listen"
		return
	}
	defer conn.Close()
	rng := rand.New(rand.NewSource(7))
	runs := []string{}
	for k := 0; k < sc.Apps; k++ {
		a := &c17App{name: fmt.Sprintf("c11w-%d", k), license: fmt.Sprintf("%040d", 7000+k), host: "h", redirect: host}
		run := ""
		for t0 := time.Now(); time.Since(t0) < 8*time.Second && run == ""; time.Sleep(20 * time.Millisecond) {
			if err := c17Write(conn, c17AppInfoMsg(a, "")); err != nil {
				obs.Note = "write: " + err.Error()
				return
			}
			st, id, err := c17ReadReply(conn)
			if err != nil {
				obs.Note = "read: " + err.Error()
				return
			}
			if st == "connected" {
				run = id
			}
		}
		if run == "" {
			obs.Note = "application did not connect"
			return
		}
		runs = append(runs, run)
	}
	obs.Connected = len(runs)
	for i := 0; i < 3; i++ {
		for _, run := range runs {
			c17Write(conn, c17TxnMsg(run, rng))
		}
	}
	time.Sleep(150 * time.Millisecond)
	col.mu.Lock()
	col.stopping = true
	col.mu.Unlock()
	t0 := time.Now()
	cmd.Process.Signal(syscall.SIGTERM)
	if sc.Second != "" {
		select {
		case <-col.firstFin:
		case <-time.After(3 * time.Second):
		}
		time.Sleep(time.Duration(sc.SecondMs) * time.Millisecond)
		if sc.Second == "INT" {
			cmd.Process.Signal(syscall.SIGINT)
		} else {
			cmd.Process.Signal(syscall.SIGTERM)
		}
	}
	bound := time.Duration(sc.Apps*13*sc.DelayMs+4000) * time.Millisecond
	select {
	case err := <-done:
		obs.Exited = true
		if ee, ok := err.(*exec.ExitError); ok {
			ws := ee.Sys().(syscall.WaitStatus)
			if ws.Signaled() {
				obs.ExitStatus = -1
				obs.KilledBy = ws.Signal().String()
			} else {
				obs.ExitStatus = ws.ExitStatus()
			}
		}
	case <-time.After(bound):
	}
	obs.ExitMs = time.Since(t0).Milliseconds()
	col.mu.Lock()
	obs.FinalMetric = map[string]int{}
	for _, run := range runs {
		obs.FinalMetric[run] = col.finals[run]
	}
	col.mu.Unlock()
	if b, err := ioutil.ReadFile(logf); err == nil {
		obs.LogSaysSent = strings.Contains(string(b), "worker sent remaining data")
	}
	return
}

func TestVerifC11Worker(t *testing.T) {
	inPath, outPath := os.Getenv("VERIF_IN"), os.Getenv("VERIF_OUT")
	if inPath == "" {
		t.Skip("harness only")
	}
	var in struct {
		Daemon    string         `json:"daemon"`
		Scenarios []c11wScenario `json:"scenarios"`
	}
	raw, err := ioutil.ReadFile(inPath)
	if err != nil {
		t.Fatal(err)
	}
	if err := json.Unmarshal(raw, &in); err != nil {
		t.Fatal(err)
	}
	out := make([]c11wObs, len(in.Scenarios))
	var wg sync.WaitGroup
	for i := range in.Scenarios {
		wg.Add(1)
		go func(i int) {
			defer wg.Done()
			dir, _ := ioutil.TempDir("", "verifc11w")
			defer os.RemoveAll(dir)
			out[i] = c11wRun(in.Daemon, &in.Scenarios[i], dir)
		}(i)
	}
	wg.Wait()
	ob, _ := json.Marshal(out)
	if err := ioutil.WriteFile(outPath, ob, 0644); err != nil {
		t.Fatal(err)
	}
}
