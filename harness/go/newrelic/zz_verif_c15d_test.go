//go:build verif

package newrelic

// C15, dispatch: every member of the MessageBody union that an agent may send is built as a well-formed message and
// handed to CommandsHandler.HandleMessage through the daemon's own connection loop; which handler entry it reaches is
// recorded (helpers of the C10 harness).  The three renderings of the protocol agree only if a message carrying the
// union tag the schema gives a member is TAKEN for that member by the daemon (seeded/C15h1: a bounds check in the glue
// refused the highest tag, the generated tables were untouched).

import (
	"encoding/json"
	"io/ioutil"
	"os"
	"testing"

	flatbuffers "github.com/google/flatbuffers/go"

	"github.com/newrelic/newrelic-php-agent/daemon/internal/newrelic/protocol"
)

type c15dOut struct {
	Tag   int      `json:"tag"` // union tag the Go rendering gives the member
	Class string   `json:"class"`
	Kinds []string `json:"kinds"`
	Err   string   `json:"err,omitempty"`
}

func c15dAppReply() []byte {
	b := flatbuffers.NewBuilder(0)
	protocol.AppReplyStart(b)
	protocol.AppReplyAddStatus(b, protocol.AppStatusUnknown)
	ar := protocol.AppReplyEnd(b)
	protocol.MessageStart(b)
	protocol.MessageAddDataType(b, protocol.MessageBodyAppReply)
	protocol.MessageAddData(b, ar)
	b.Finish(protocol.MessageEnd(b))
	return c10Exact(b.FinishedBytes())
}

func TestVerifC15Dispatch(t *testing.T) {
	outPath := os.Getenv("VERIF_OUT")
	if outPath == "" {
		t.Skip("harness only")
	}
	out := map[string]c15dOut{}
	msgs := []struct {
		name string
		tag  int
		msg  []byte
	}{
		{"App", int(protocol.MessageBodyApp), c10BuildApp(c10SpecA(""))},
		{"Transaction", int(protocol.MessageBodyTransaction), c10BuildTxn("rNobody", "T", false)},
		{"SpanBatch", int(protocol.MessageBodySpanBatch), c10BuildSpanBatch("rNobody")},
		{"AppReply", int(protocol.MessageBodyAppReply), c15dAppReply()},
	}
	for _, m := range msgs {
		cp, err := c10NewProc()
		if err != nil {
			out[m.name] = c15dOut{Tag: m.tag, Class: "setup", Err: err.Error()}
			continue
		}
		d := cp.deliver(m.msg)
		o := c15dOut{Tag: m.tag, Class: d.Class, Kinds: []string{}, Err: d.ErrText}
		for _, c := range d.Calls {
			o.Kinds = append(o.Kinds, c.Kind)
		}
		out[m.name] = o
		cp.stop()
	}
	b, _ := json.Marshal(out)
	if err := ioutil.WriteFile(outPath, b, 0644); err != nil {
		t.Fatal(err)
	}
}
