//go:build verif

package newrelic

// C09 harness: the real ReadMessage / serve (conn.Serve + recover + Close) / Listener.Serve fed with
// byte streams cut into prescribed chunks.  Observed per case: the messages handed to the
// MessageHandler, the bytes written back, whether the connection was closed, the class of the
// error that ended a plain ReadMessage loop, and the bytes allocated while ReadMessage looks at a
// bad header.
//
// Transports:
//   chunk : a net.Conn whose Read hands out the prescribed chunks, one per call (an empty chunk is
//           a Read returning 0, nil), run through serve()
//   pipe  : the same through an io.Pipe fed by another goroutine (blocking reads), run through serve()
//   unix  : a real unix socket accepted by Listener.Serve (the kernel decides the fragmentation)

import (
	"bytes"
	"encoding/hex"
	"encoding/json"
	"errors"
	"io"
	"io/ioutil"
	stdlog "log"
	"math/big"
	"net"
	"os"
	"path/filepath"
	"runtime"
	"sync"
	"testing"
	"time"
)

type c09Seg struct {
	Hex  string `json:"hex,omitempty"`
	Fill *struct {
		N int `json:"n"`
		A int `json:"a"`
		B int `json:"b"`
	} `json:"fill,omitempty"`
}

type c09Case struct {
	ID        int      `json:"id"`
	Segs      []c09Seg `json:"segs"`
	Sizes     []int    `json:"sizes"`
	Mode      int      `json:"mode"`
	Fixed     string   `json:"fixed"`
	Transport string   `json:"transport"`
	Big       bool     `json:"big"`
	// offsets/lengths of the bodies the stream carries, for the in-harness byte comparison
	Bodies [][2]int `json:"bodies"`
	// offset of the bad header in the stream, -1 when there is none
	BadOff int `json:"bad_off"`
}

type c09Msg struct {
	T   uint32 `json:"t"`
	N   int    `json:"n"`
	Hex string `json:"hex,omitempty"`
}

type c09Obs struct {
	ID           int      `json:"id"`
	Delivered    []c09Msg `json:"delivered"`
	BodiesOK     bool     `json:"bodies_ok"`
	Written      string   `json:"written"`
	Closed       bool     `json:"closed"`
	AllocBounded bool     `json:"alloc_bounded"`
	AllocDelta   uint64   `json:"alloc_delta"`
	End          string   `json:"end"`     // eof | legacy | error
	RmCount      int      `json:"rm_count"` // messages returned by the plain ReadMessage loop
	RmSame       bool     `json:"rm_same"`  // ... equal to what the handler got
	Hang         bool     `json:"hang"`
	// big cases only: the written bytes walked with the lengths of the replies the handler returned
	Frames    []c09Msg `json:"frames"`     // (type field, length field) found where each reply frame must start
	RepliesOK bool     `json:"replies_ok"` // every reply body found in full where it must be
	Left      string   `json:"left"`       // what follows the last reply frame (at most 64 bytes shown)
	LeftLen   int      `json:"left_len"`
}

func c09Stream(segs []c09Seg) []byte {
	var out []byte
	for _, s := range segs {
		if s.Fill != nil {
			b := make([]byte, s.Fill.N)
			for i := range b {
				b[i] = byte(s.Fill.A*i + s.Fill.B)
			}
			out = append(out, b...)
		} else {
			b, _ := hex.DecodeString(s.Hex)
			out = append(out, b...)
		}
	}
	return out
}

func c09Chunks(stream []byte, sizes []int) [][]byte {
	var out [][]byte
	rest := stream
	for _, k := range sizes {
		if k > len(rest) {
			k = len(rest)
		}
		out = append(out, rest[:k])
		rest = rest[k:]
	}
	if len(rest) > 0 {
		out = append(out, rest)
	}
	return out
}

// ---- handler -------------------------------------------------------------------------------

type c09Reply struct {
	t uint32
	b []byte
}

type c09Handler struct {
	mu      sync.Mutex
	mode    int
	fixed   []byte
	got     []RawMessage
	kept    [][]byte   // the delivered slices themselves (the command handler keeps transaction data and span batches by reference)
	replies []c09Reply // every non-nil reply returned, with the type of its request
}

func c09Pattern(n, a, b int) []byte {
	out := make([]byte, n)
	for i := range out {
		out[i] = byte(a*i + b)
	}
	return out
}

func c09Copy(b []byte) []byte {
	out := make([]byte, len(b)) // non-nil also for an empty body
	copy(out, b)
	return out
}

func (h *c09Handler) HandleMessage(m RawMessage) ([]byte, error) {
	r, err := h.handle(m)
	if r != nil {
		h.mu.Lock()
		h.replies = append(h.replies, c09Reply{t: uint32(m.Type), b: c09Copy(r)})
		h.mu.Unlock()
	}
	return r, err
}

func (h *c09Handler) handle(m RawMessage) ([]byte, error) {
	h.mu.Lock()
	defer h.mu.Unlock()
	h.got = append(h.got, RawMessage{Type: m.Type, Bytes: c09Copy(m.Bytes)})
	h.kept = append(h.kept, m.Bytes)
	sub := h.mode
	switch {
	case h.mode == 6:
		// the request's type is the reply length asked for; content = pattern (fixed[0], fixed[1])
		a, b := 1, 0
		if len(h.fixed) > 0 {
			a = int(h.fixed[0])
		}
		if len(h.fixed) > 1 {
			b = int(h.fixed[1])
		}
		return c09Pattern(int(uint32(m.Type)), a, b), nil
	case h.mode == 4:
		switch uint32(m.Type) % 5 {
		case 0:
			sub = 0
		case 1:
			sub = 1
		case 2:
			sub = 2
		case 3:
			sub = 3
		default:
			return c09Copy(m.Bytes), errors.New("verif: handler error with a reply")
		}
	case h.mode > 4:
		switch uint32(m.Type) % 3 {
		case 0:
			sub = 0
		case 1:
			sub = 1
		default:
			sub = 3
		}
	}
	switch sub {
	case 0:
		return nil, nil
	case 1:
		return []byte{}, nil
	case 2:
		return c09Copy(m.Bytes), nil
	default:
		return c09Copy(h.fixed), nil
	}
}

// ---- transports ----------------------------------------------------------------------------

type c09Addr struct{}

func (c09Addr) Network() string { return "verif" }
func (c09Addr) String() string  { return "verif" }

type c09Base struct {
	mu      sync.Mutex
	written bytes.Buffer
	closed  bool
}

func (c *c09Base) Write(p []byte) (int, error) {
	c.mu.Lock()
	defer c.mu.Unlock()
	if c.closed {
		return 0, io.ErrClosedPipe
	}
	return c.written.Write(p)
}
func (c *c09Base) LocalAddr() net.Addr                { return c09Addr{} }
func (c *c09Base) RemoteAddr() net.Addr               { return c09Addr{} }
func (c *c09Base) SetDeadline(t time.Time) error      { return nil }
func (c *c09Base) SetReadDeadline(t time.Time) error  { return nil }
func (c *c09Base) SetWriteDeadline(t time.Time) error { return nil }

// chunk transport
type c09ChunkConn struct {
	c09Base
	chunks [][]byte
	idx    int
	off    int
}

func (c *c09ChunkConn) Read(p []byte) (int, error) {
	if c.idx >= len(c.chunks) {
		return 0, io.EOF
	}
	n := copy(p, c.chunks[c.idx][c.off:])
	c.off += n
	if c.off >= len(c.chunks[c.idx]) {
		c.idx++
		c.off = 0
	}
	return n, nil
}
func (c *c09ChunkConn) Close() error {
	c.mu.Lock()
	c.closed = true
	c.mu.Unlock()
	return nil
}

// pipe transport
type c09PipeConn struct {
	c09Base
	pr *io.PipeReader
}

func (c *c09PipeConn) Read(p []byte) (int, error) { return c.pr.Read(p) }
func (c *c09PipeConn) Close() error {
	c.mu.Lock()
	c.closed = true
	c.mu.Unlock()
	return c.pr.Close()
}

// ---- one case ------------------------------------------------------------------------------

var (
	c09Listener   *Listener
	c09SockPath   string
	c09Current    *c09Handler
	c09CurrentMu  sync.Mutex
	c09ListenOnce sync.Once
)

type c09Dispatch struct{}

func (c09Dispatch) HandleMessage(m RawMessage) ([]byte, error) {
	c09CurrentMu.Lock()
	h := c09Current
	c09CurrentMu.Unlock()
	return h.HandleMessage(m)
}

func c09RunUnix(t *testing.T, chunks [][]byte, h *c09Handler) (written []byte, closed bool, hang bool) {
	c09ListenOnce.Do(func() {
		dir, _ := ioutil.TempDir("", "verifc09")
		c09SockPath = filepath.Join(dir, "s.sock")
		l, err := Listen("unix", c09SockPath)
		if err != nil {
			t.Fatalf("listen: %v", err)
		}
		c09Listener = l
		go l.Serve(c09Dispatch{})
	})
	c09CurrentMu.Lock()
	c09Current = h
	c09CurrentMu.Unlock()
	cn, err := net.Dial("unix", c09SockPath)
	if err != nil {
		t.Fatalf("dial: %v", err)
	}
	defer cn.Close()
	var buf bytes.Buffer
	rdone := make(chan struct{})
	go func() {
		io.Copy(&buf, cn) // ends when the daemon side closes the connection
		close(rdone)
	}()
	for _, ch := range chunks {
		if len(ch) == 0 {
			continue
		}
		if _, err := cn.Write(ch); err != nil {
			break // the daemon closed on a bad header
		}
	}
	cn.(*net.UnixConn).CloseWrite()
	select {
	case <-rdone:
		closed = true
	case <-time.After(10 * time.Second):
		hang = true
	}
	return buf.Bytes(), closed, hang
}

func c09Run(t *testing.T, cs c09Case) c09Obs {
	stream := c09Stream(cs.Segs)
	chunks := c09Chunks(stream, cs.Sizes)
	fixed, _ := hex.DecodeString(cs.Fixed)
	h := &c09Handler{mode: cs.Mode, fixed: fixed}
	obs := c09Obs{ID: cs.ID}

	var written []byte
	switch cs.Transport {
	case "pipe":
		pr, pw := io.Pipe()
		c := &c09PipeConn{pr: pr}
		go func() {
			for _, ch := range chunks {
				if _, err := pw.Write(ch); err != nil {
					break
				}
			}
			pw.Close()
		}()
		done := make(chan struct{})
		go func() { serve(c, h); close(done) }()
		select {
		case <-done:
		case <-time.After(10 * time.Second):
			obs.Hang = true
			pw.CloseWithError(io.ErrClosedPipe)
		}
		c.mu.Lock()
		written = append([]byte(nil), c.written.Bytes()...)
		obs.Closed = c.closed
		c.mu.Unlock()
	case "unix":
		written, obs.Closed, obs.Hang = c09RunUnix(t, chunks, h)
	default:
		c := &c09ChunkConn{chunks: chunks}
		serve(c, h)
		written = c.written.Bytes()
		obs.Closed = c.closed
	}
	if cs.Big {
		h.mu.Lock()
		reps := h.replies
		h.mu.Unlock()
		obs.RepliesOK = true
		obs.Frames = []c09Msg{}
		pos := 0
		for _, rp := range reps {
			if pos+8 > len(written) {
				obs.RepliesOK = false
				break
			}
			obs.Frames = append(obs.Frames, c09Msg{T: byteOrder.Uint32(written[pos+4 : pos+8]), N: int(byteOrder.Uint32(written[pos : pos+4]))})
			end := pos + 8 + len(rp.b)
			if end > len(written) || !bytes.Equal(written[pos+8:end], rp.b) {
				obs.RepliesOK = false
			}
			if end > len(written) {
				end = len(written)
			}
			pos = end
		}
		left := written[pos:]
		obs.LeftLen = len(left)
		if len(left) > 64 {
			left = left[:64]
		}
		obs.Left = hex.EncodeToString(left)
	} else {
		obs.Written = hex.EncodeToString(written)
	}

	h.mu.Lock()
	got := h.got
	kept := h.kept
	h.mu.Unlock()
	obs.BodiesOK = true
	// what was delivered stays what it was: a message is the receiver's once it has been handed over (the daemon queues
	// transaction data by reference), reading the next one must not change it
	for i := range got {
		if i < len(kept) && !bytes.Equal(kept[i], got[i].Bytes) {
			obs.BodiesOK = false
		}
	}
	for i, m := range got {
		om := c09Msg{T: uint32(m.Type), N: len(m.Bytes)}
		if !cs.Big {
			om.Hex = hex.EncodeToString(m.Bytes)
		}
		if i < len(cs.Bodies) {
			off, n := cs.Bodies[i][0], cs.Bodies[i][1]
			if off+n > len(stream) || !bytes.Equal(m.Bytes, stream[off:off+n]) {
				obs.BodiesOK = false
			}
		}
		obs.Delivered = append(obs.Delivered, om)
	}
	if obs.Delivered == nil {
		obs.Delivered = []c09Msg{}
	}

	// the plain ReadMessage loop over the same chunks: how does the stream end?
	r := &c09ChunkConn{chunks: chunks}
	obs.RmSame = true
	for {
		m, err := ReadMessage(r)
		if err != nil {
			switch {
			case err == io.EOF:
				obs.End = "eof"
			case err == errLegacyAgent:
				obs.End = "legacy"
			default:
				obs.End = "error"
			}
			break
		}
		if obs.RmCount >= len(got) || got[obs.RmCount].Type != m.Type || !bytes.Equal(got[obs.RmCount].Bytes, m.Bytes) {
			obs.RmSame = false
		}
		obs.RmCount++
	}
	if obs.RmCount != len(got) {
		obs.RmSame = false
	}

	// allocation while ReadMessage looks at the bad header (and whatever follows it)
	obs.AllocBounded = true
	if cs.BadOff >= 0 && cs.BadOff <= len(stream) {
		rd := &c09ChunkConn{chunks: [][]byte{stream[cs.BadOff:]}}
		var before, after runtime.MemStats
		runtime.ReadMemStats(&before)
		_, _ = ReadMessage(rd)
		runtime.ReadMemStats(&after)
		obs.AllocDelta = after.TotalAlloc - before.TotalAlloc
		obs.AllocBounded = obs.AllocDelta < 1<<20
	}
	return obs
}

// c09Table: for one legacy digit pair and ALL 65536 values of header bytes 4-5, what serve() does with
// the 8-byte stream: bit set in Legacy = exactly the fixed legacy answer was written, connection
// closed, nothing delivered; bit set in Silent = nothing written, connection closed, nothing delivered.
type c09TableIn struct {
	A  int `json:"a"`
	B  int `json:"b"`
	P6 int `json:"p6"`
	P7 int `json:"p7"`
}

type c09TableOut struct {
	Table  int    `json:"table"`
	Legacy string `json:"legacy"`
	Silent string `json:"silent"`
	// set when the run was stopped because handling 8-byte headers allocated more than 64 MiB
	// per 256 headers (every one of them announces >= 512 MiB): Done = headers handled so far
	Aborted bool `json:"aborted"`
	Done    int  `json:"done"`
}

func c09RunTable(idx int, ti c09TableIn) c09TableOut {
	legacy, silent := new(big.Int), new(big.Int)
	answer := []byte{'5', ' ', '0', ' ', '0', '\n', 0, 0, 0, 0}
	var m0, m1 runtime.MemStats
	runtime.ReadMemStats(&m0)
	for w := 0; w < 65536; w++ {
		if w%256 == 255 {
			runtime.ReadMemStats(&m1)
			if m1.TotalAlloc-m0.TotalAlloc > 64<<20 {
				return c09TableOut{Table: idx, Legacy: legacy.Text(16), Silent: silent.Text(16), Aborted: true, Done: w}
			}
			m0 = m1
		}
		h := &c09Handler{mode: 2}
		hdr := []byte{byte(ti.A), ' ', byte(ti.B), ' ', byte(w & 0xff), byte(w >> 8), byte(ti.P6), byte(ti.P7)}
		c := &c09ChunkConn{chunks: [][]byte{hdr}}
		serve(c, h)
		if len(h.got) == 0 && c.closed {
			if bytes.Equal(c.written.Bytes(), answer) {
				legacy.SetBit(legacy, w, 1)
			} else if c.written.Len() == 0 {
				silent.SetBit(silent, w, 1)
			}
		}
	}
	return c09TableOut{Table: idx, Legacy: legacy.Text(16), Silent: silent.Text(16), Done: 65536}
}

// direct use of the exported writer: a sequence of Write / WriteString calls on ONE MessageWriter
type c09WriterIn struct {
	A   int `json:"a"`
	B   int `json:"b"`
	Ops []struct {
		S   bool   `json:"s"` // WriteString instead of Write
		Len int    `json:"len"`
		T   uint32 `json:"t"`
	} `json:"ops"`
}

type c09WriterOut struct {
	Writer  int    `json:"writer"`
	Written string `json:"written"`
	Counts  []int  `json:"counts"` // the n returned by each call
	Errs    int    `json:"errs"`
}

func c09RunWriter(idx int, wi c09WriterIn) c09WriterOut {
	var buf bytes.Buffer
	mw := MessageWriter{W: &buf}
	out := c09WriterOut{Writer: idx, Counts: []int{}}
	for _, op := range wi.Ops {
		p := c09Pattern(op.Len, wi.A, wi.B)
		mw.Type = MessageType(op.T)
		var n int
		var err error
		if op.S {
			n, err = mw.WriteString(string(p))
		} else {
			n, err = mw.Write(p)
		}
		out.Counts = append(out.Counts, n)
		if err != nil {
			out.Errs++
		}
	}
	out.Written = hex.EncodeToString(buf.Bytes())
	return out
}

func TestVerifC09(t *testing.T) {
	inPath, outPath := os.Getenv("VERIF_IN"), os.Getenv("VERIF_OUT")
	if inPath == "" {
		t.Skip("harness only")
	}
	stdlog.SetOutput(ioutil.Discard)
	raw, err := ioutil.ReadFile(inPath)
	if err != nil {
		t.Fatal(err)
	}
	var in struct {
		Cases  []c09Case    `json:"cases"`
		Tables  []c09TableIn  `json:"tables"`
		Writers []c09WriterIn `json:"writers"`
	}
	if err := json.Unmarshal(raw, &in); err != nil {
		t.Fatal(err)
	}
	// one JSON line per case, flushed as it goes: if a case kills the process the driver knows which
	f, err := os.Create(outPath)
	if err != nil {
		t.Fatal(err)
	}
	defer f.Close()
	for _, cs := range in.Cases {
		obs := c09Run(t, cs)
		b, _ := json.Marshal(obs)
		f.Write(append(b, '\n'))
	}
	for i, wi := range in.Writers {
		b, _ := json.Marshal(c09RunWriter(i, wi))
		f.Write(append(b, '\n'))
	}
	for i, ti := range in.Tables {
		b, _ := json.Marshal(c09RunTable(i, ti))
		f.Write(append(b, '\n'))
	}
	if c09Listener != nil {
		c09Listener.Close()
		os.RemoveAll(filepath.Dir(c09SockPath))
	}
}
