//go:build verif

package main

// C20 harness: (a) the ShouldRespawn decision on every 16-bit wait status and on a Wait error,
// (b) the real runWatcher loop supervising scripted stand-in workers (this test binary re-executed
// by spawnWorker with NEW_RELIC_DAEMON_ROLE=worker), including SIGTERM delivered to the watcher.

import (
	"encoding/json"
	"errors"
	"fmt"
	"io/ioutil"
	"math/big"
	"os"
	"strconv"
	"strings"
	"syscall"
	"testing"
	"time"
)

func TestMain(m *testing.M) {
	if script := os.Getenv("VERIF_C20_SCRIPT"); script != "" && os.Getenv(RoleEnvironmentVariable) == "worker" {
		verifStandIn(script)
		return
	}
	os.Exit(m.Run())
}

// verifStandIn is the scripted worker: the n-th spawn performs the n-th step of the script.
func verifStandIn(script string) {
	dir := os.Getenv("VERIF_C20_DIR")
	steps := strings.Split(script, ",")
	// spawn index = number of lines already in the spawn log
	f, _ := os.OpenFile(dir+"/spawns", os.O_CREATE|os.O_APPEND|os.O_RDWR, 0644)
	b, _ := ioutil.ReadFile(dir + "/spawns")
	idx := strings.Count(string(b), "\n")
	hasNoPid := false
	for _, a := range os.Args {
		if a == "-no-pidfile" {
			hasNoPid = true
		}
	}
	fmt.Fprintf(f, "%d nopid=%v\n", os.Getpid(), hasNoPid)
	f.Close()
	if idx >= len(steps) {
		os.Exit(0)
	}
	st := steps[idx]
	switch {
	case strings.HasPrefix(st, "exit:"):
		n, _ := strconv.Atoi(st[5:])
		os.Exit(n)
	case strings.HasPrefix(st, "kill:"):
		// die by the signal with default disposition: exec a shell that kills itself
		syscall.Exec("/bin/sh", []string{"sh", "-c", "kill -" + st[5:] + " $$; sleep 5"}, os.Environ())
		os.Exit(99)
	case strings.HasPrefix(st, "waitexit:"):
		// stay alive until signalled, then end with the given exit status (a worker failing during its final harvest)
		syscall.Exec("/bin/sh", []string{"sh", "-c",
			"sleep 20 >/dev/null 2>&1 & trap 'echo TERM >> " + dir + "/signals; kill $!; exit " + st[9:] + "' TERM; touch " + dir + "/ready; wait"}, os.Environ())
		os.Exit(99)
	case strings.HasPrefix(st, "waitkill:"):
		// stay alive until signalled, then die by another signal (e.g. killed by a stop time-out)
		syscall.Exec("/bin/sh", []string{"sh", "-c",
			"sleep 20 >/dev/null 2>&1 & trap 'echo TERM >> " + dir + "/signals; kill $!; kill -" + st[9:] + " $$' TERM; touch " + dir + "/ready; wait"}, os.Environ())
		os.Exit(99)
	case st == "wait":
		// stay alive until signalled; record the signal
		syscall.Exec("/bin/sh", []string{"sh", "-c",
			"sleep 20 >/dev/null 2>&1 & trap 'echo TERM >> " + dir + "/signals; kill $!; exit 0' TERM; touch " + dir + "/ready; wait"}, os.Environ())
		os.Exit(99)
	}
	os.Exit(98)
}

type c20LoopCase struct {
	Script  []string `json:"script"`
	Sigterm bool     `json:"sigterm"` // send SIGTERM to the watcher once the last scripted worker ("wait") is up
}

type c20LoopObs struct {
	Spawns        int  `json:"spawns"`
	AllNoPidfile  bool `json:"all_nopidfile"`
	Returned      bool `json:"returned"`
	ExitStatus    int  `json:"exit_status"`
	WorkerGotTerm bool `json:"worker_got_term"`
}

func TestVerifC20(t *testing.T) {
	inPath, outPath := os.Getenv("VERIF_IN"), os.Getenv("VERIF_OUT")
	if inPath == "" {
		t.Skip("harness only")
	}
	var in struct {
		Loops []c20LoopCase `json:"loops"`
	}
	raw, err := ioutil.ReadFile(inPath)
	if err != nil {
		t.Fatal(err)
	}
	if err := json.Unmarshal(raw, &in); err != nil {
		t.Fatal(err)
	}

	// (a) decision table as a bit mask: bit w set iff ShouldRespawn for status word w
	mask := new(big.Int)
	for w := 0; w < 65536; w++ {
		s := &workerState{status: syscall.WaitStatus(w)}
		if s.ShouldRespawn() {
			mask.SetBit(mask, w, 1)
		}
	}
	errCase := (&workerState{err: errors.New("wait failed")}).ShouldRespawn()
	// high bits must not matter: sample words above 2^16
	highOK := true
	for w := 0; w < 65536; w += 7 {
		a := (&workerState{status: syscall.WaitStatus(w)}).ShouldRespawn()
		b := (&workerState{status: syscall.WaitStatus(uint32(w) | 0xABCD0000)}).ShouldRespawn()
		if a != b {
			highOK = false
		}
	}

	// (b) the loop
	var loops []c20LoopObs
	for i, lc := range in.Loops {
		dir, _ := ioutil.TempDir("", "verifc20")
		os.Setenv("VERIF_C20_SCRIPT", strings.Join(lc.Script, ","))
		os.Setenv("VERIF_C20_DIR", dir)
		exitStatus = 0
		done := make(chan struct{})
		go func() {
			runWatcher(&Config{})
			close(done)
		}()
		if lc.Sigterm {
			// wait until the waiting worker is up, then SIGTERM ourselves (the watcher)
			for k := 0; k < 400; k++ {
				if _, err := os.Stat(dir + "/ready"); err == nil {
					break
				}
				time.Sleep(5 * time.Millisecond)
			}
			syscall.Kill(os.Getpid(), syscall.SIGTERM)
		}
		obs := c20LoopObs{}
		select {
		case <-done:
			obs.Returned = true
		case <-time.After(15 * time.Second):
		}
		obs.ExitStatus = exitStatus
		time.Sleep(30 * time.Millisecond)
		b, _ := ioutil.ReadFile(dir + "/spawns")
		obs.Spawns = strings.Count(string(b), "\n")
		obs.AllNoPidfile = !strings.Contains(string(b), "nopid=false")
		if lc.Sigterm {
			for k := 0; k < 200; k++ {
				if sb, _ := ioutil.ReadFile(dir + "/signals"); strings.Contains(string(sb), "TERM") {
					obs.WorkerGotTerm = true
					break
				}
				time.Sleep(5 * time.Millisecond)
			}
		}
		loops = append(loops, obs)
		os.RemoveAll(dir)
		_ = i
	}
	os.Unsetenv("VERIF_C20_SCRIPT")

	out := map[string]interface{}{
		"mask_hex": mask.Text(16), "err_case": errCase, "high_bits_ignored": highOK, "loops": loops,
	}
	ob, _ := json.Marshal(out)
	if err := ioutil.WriteFile(outPath, ob, 0644); err != nil {
		t.Fatal(err)
	}
}
