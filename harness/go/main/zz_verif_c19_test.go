//go:build verif

package main

// C19 harness (package main).
//
//	mode "configure": the REAL configure() in a child process (this test binary re-executed with
//	     -test.run ^TestVerifC19Child$), because configure() reads os.Args and calls os.Exit.  Observed:
//	     exit code or the returned Config (every field, strings as hex), whether the legacy notice and the
//	     port/address warning were printed.
//	mode "parse":     createDaemonFlagSet(&cfg).Parse(args) in process on a copy of defaultCfg.
//	mode "decode":    config.ParseString(text, &cfg) in process on a copy of defaultCfg, with a watchdog
//	     (hang) and recover (panic).
//
// Arguments and texts travel hex-encoded so that any byte string can be used.

import (
	"bytes"
	"encoding/hex"
	"encoding/json"
	"fmt"
	"io/ioutil"
	"os"
	"os/exec"
	"reflect"
	"strings"
	"sync"
	"testing"
	"time"

	"github.com/newrelic/newrelic-php-agent/daemon/internal/newrelic/config"
)

type c19Case struct {
	Mode string   `json:"mode"`
	Args []string `json:"args"` // hex
	Text string   `json:"text"` // hex
}

type c19Obs struct {
	Outcome string                 `json:"outcome"` // run | exit | ok | err | warning | help | panic | hang
	Code    int                    `json:"code"`
	Legacy  bool                   `json:"legacy"`
	Warning bool                   `json:"warning"`
	Cfg     map[string]interface{} `json:"cfg,omitempty"`
	Detail  string                 `json:"detail,omitempty"`
}

func c19Dump(cfg *Config) map[string]interface{} {
	out := map[string]interface{}{}
	v := reflect.ValueOf(cfg).Elem()
	t := v.Type()
	for i := 0; i < t.NumField(); i++ {
		f := v.Field(i)
		name := t.Field(i).Name
		switch f.Kind() {
		case reflect.String:
			out[name] = map[string]string{"s": hex.EncodeToString([]byte(f.String()))}
		case reflect.Bool:
			out[name] = map[string]bool{"b": f.Bool()}
		case reflect.Int, reflect.Int8, reflect.Int16, reflect.Int32, reflect.Int64:
			out[name] = map[string]string{"i": fmt.Sprintf("%d", f.Int())}
		case reflect.Uint, reflect.Uint8, reflect.Uint16, reflect.Uint32, reflect.Uint64:
			out[name] = map[string]string{"i": fmt.Sprintf("%d", f.Uint())}
		default:
			out[name] = map[string]string{"other": fmt.Sprintf("%v", f.Interface())}
		}
	}
	out["printVersion"] = map[string]bool{"b": printVersion}
	return out
}

func c19Unhex(xs []string) []string {
	out := make([]string, len(xs))
	for i, x := range xs {
		b, _ := hex.DecodeString(x)
		out[i] = string(b)
	}
	return out
}

// TestVerifC19Child runs configure() on the arguments named by the environment and writes the Config.
func TestVerifC19Child(t *testing.T) {
	argPath, resPath := os.Getenv("VERIF_C19_ARGS"), os.Getenv("VERIF_C19_RES")
	if argPath == "" {
		t.Skip("child only")
	}
	raw, err := ioutil.ReadFile(argPath)
	if err != nil {
		t.Fatal(err)
	}
	var hexArgs []string
	if err := json.Unmarshal(raw, &hexArgs); err != nil {
		t.Fatal(err)
	}
	os.Unsetenv(RoleEnvironmentVariable)
	os.Args = append([]string{"newrelic-daemon"}, c19Unhex(hexArgs)...)
	printVersion = false
	cfg := configure()
	b, _ := json.Marshal(c19Dump(cfg))
	if err := ioutil.WriteFile(resPath, b, 0644); err != nil {
		t.Fatal(err)
	}
}

func c19RunChild(dir string, idx int, hexArgs []string) c19Obs {
	argPath := fmt.Sprintf("%s/args_%d.json", dir, idx)
	resPath := fmt.Sprintf("%s/res_%d.json", dir, idx)
	ab, _ := json.Marshal(hexArgs)
	ioutil.WriteFile(argPath, ab, 0644)
	cmd := exec.Command(os.Args[0], "-test.run", "^TestVerifC19Child$", "-test.count=1")
	cmd.Env = append(os.Environ(), "VERIF_C19_ARGS="+argPath, "VERIF_C19_RES="+resPath)
	var stderr, stdout bytes.Buffer
	cmd.Stderr = &stderr
	cmd.Stdout = &stdout
	done := make(chan error, 1)
	if err := cmd.Start(); err != nil {
		return c19Obs{Outcome: "panic", Detail: "cannot start child: " + err.Error()}
	}
	go func() { done <- cmd.Wait() }()
	var werr error
	select {
	case werr = <-done:
	case <-time.After(20 * time.Second):
		cmd.Process.Kill()
		return c19Obs{Outcome: "hang"}
	}
	se := stderr.String() + stdout.String()
	obs := c19Obs{
		Legacy:  strings.Contains(se, "You are using legacy command-line flags"),
		Warning: strings.Contains(se, "Both --port and --address are set"),
	}
	if strings.Contains(se, "panic:") || strings.Contains(se, "goroutine ") {
		obs.Outcome = "panic"
		obs.Detail = se
		if len(obs.Detail) > 600 {
			obs.Detail = obs.Detail[:600]
		}
		return obs
	}
	res, rerr := ioutil.ReadFile(resPath)
	if rerr == nil {
		obs.Outcome = "run"
		json.Unmarshal(res, &obs.Cfg)
		return obs
	}
	obs.Outcome = "exit"
	if ee, ok := werr.(*exec.ExitError); ok {
		obs.Code = ee.ExitCode()
	} else if werr == nil {
		obs.Code = 0
	} else {
		obs.Code = -1
	}
	return obs
}

func c19Decode(text string) (obs c19Obs) {
	ch := make(chan c19Obs, 1)
	go func() {
		var o c19Obs
		defer func() {
			if r := recover(); r != nil {
				o = c19Obs{Outcome: "panic", Detail: fmt.Sprint(r)}
			}
			ch <- o
		}()
		cfg := defaultCfg
		err := config.ParseString(text, &cfg)
		if err == nil {
			o.Outcome = "ok"
		} else {
			o.Outcome = "err"
			o.Detail = err.Error()
		}
		o.Cfg = c19Dump(&cfg)
	}()
	select {
	case o := <-ch:
		return o
	case <-time.After(10 * time.Second):
		return c19Obs{Outcome: "hang"}
	}
}

func c19Parse(args []string) (obs c19Obs) {
	defer func() {
		if r := recover(); r != nil {
			obs = c19Obs{Outcome: "panic", Detail: fmt.Sprint(r)}
		}
	}()
	cfg := defaultCfg
	printVersion = false
	err := createDaemonFlagSet(&cfg).Parse(args)
	switch e := err.(type) {
	case nil:
		obs.Outcome = "ok"
	case *daemonFlagWarning:
		obs.Outcome = "ok"
		obs.Warning = true
	default:
		obs.Outcome = "err"
		obs.Detail = e.Error()
	}
	obs.Cfg = c19Dump(&cfg)
	return obs
}

func TestVerifC19(t *testing.T) {
	inPath, outPath := os.Getenv("VERIF_IN"), os.Getenv("VERIF_OUT")
	if inPath == "" {
		t.Skip("harness only")
	}
	raw, err := ioutil.ReadFile(inPath)
	if err != nil {
		t.Fatal(err)
	}
	var in struct {
		Cases []c19Case `json:"cases"`
	}
	if err := json.Unmarshal(raw, &in); err != nil {
		t.Fatal(err)
	}
	dir, _ := ioutil.TempDir("", "verifc19")
	defer os.RemoveAll(dir)
	obs := make([]c19Obs, len(in.Cases))
	var wg sync.WaitGroup
	sem := make(chan struct{}, 8)
	for i, c := range in.Cases {
		switch c.Mode {
		case "configure":
			wg.Add(1)
			sem <- struct{}{}
			go func(i int, c c19Case) {
				defer wg.Done()
				defer func() { <-sem }()
				obs[i] = c19RunChild(dir, i, c.Args)
			}(i, c)
		}
	}
	wg.Wait()
	// in-process modes use the package-level printVersion: run them sequentially
	for i, c := range in.Cases {
		switch c.Mode {
		case "decode":
			b, _ := hex.DecodeString(c.Text)
			obs[i] = c19Decode(string(b))
		case "parse":
			obs[i] = c19Parse(c19Unhex(c.Args))
		}
	}
	ob, _ := json.Marshal(map[string]interface{}{"obs": obs})
	if err := ioutil.WriteFile(outPath, ob, 0644); err != nil {
		t.Fatal(err)
	}
}
