//go:build verif

package main

// C14 harness, package main part: the REAL redactArgs on generated command lines, and the REAL flag sets
// (createDaemonFlagSet / createLegacyFlagSet, first parsing pass) to tie the flag-syntax model to the code:
// for each argument list, whether Parse fails and which proxy setting results.

import (
	"encoding/json"
	"io/ioutil"
	"os"
	"testing"
)

type c14MainIn struct {
	Argvs [][]string `json:"argvs"` // full os.Args (with argv[0])
	Flags [][]string `json:"flags"` // os.Args[1:]
}

type c14FlagObs struct {
	NewErr      bool   `json:"new_err"`
	NewProxy    string `json:"new_proxy"`
	LegacyErr   bool   `json:"legacy_err"`
	LegacyProxy string `json:"legacy_proxy"`
}

type c14MainOut struct {
	Echo  [][]string   `json:"echo"`
	Flags []c14FlagObs `json:"flags"`
}

func TestVerifC14(t *testing.T) {
	inp, outp := os.Getenv("VERIF_IN"), os.Getenv("VERIF_OUT")
	if inp == "" || outp == "" {
		t.Skip("VERIF_IN / VERIF_OUT not set")
	}
	raw, err := ioutil.ReadFile(inp)
	if err != nil {
		t.Fatal(err)
	}
	var in c14MainIn
	if err := json.Unmarshal(raw, &in); err != nil {
		t.Fatal(err)
	}
	out := c14MainOut{Echo: [][]string{}, Flags: []c14FlagObs{}}
	for _, argv := range in.Argvs {
		cp := append([]string{}, argv...)
		e := redactArgs(cp)
		if e == nil {
			e = []string{}
		}
		out.Echo = append(out.Echo, e)
	}
	for _, args := range in.Flags {
		var o c14FlagObs
		cfg := defaultCfg
		fs := createDaemonFlagSet(&cfg)
		if err := fs.FlagSet.Parse(append([]string{}, args...)); err != nil {
			o.NewErr = true
		}
		o.NewProxy = cfg.Proxy
		cfg2 := defaultCfg
		ls := createLegacyFlagSet(&cfg2)
		if err := ls.Parse(append([]string{}, args...)); err != nil {
			o.LegacyErr = true
		}
		o.LegacyProxy = cfg2.Proxy
		out.Flags = append(out.Flags, o)
	}
	js, err := json.Marshal(out)
	if err != nil {
		t.Fatal(err)
	}
	if err := ioutil.WriteFile(outp, js, 0644); err != nil {
		t.Fatal(err)
	}
}
